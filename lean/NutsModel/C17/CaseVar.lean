/-
  C17 — vcr/verifier/signature_verifier.go caseVariantMember, the part in front of ambiguousMember: the reflect loop over the
  fields of the Go type the JSON-LD document was decoded into. encoding/json stores a member in the field whose JSON name is
  EQUAL to the member's name or, failing that, equal under Unicode simple case folding; the JSON-LD canonicalisation only knows
  the exact term. A top-level member that is a case variant of a field's JSON name is therefore read by the node but not signed.

      structType := reflect.TypeOf(decodedInto); for … Kind() == reflect.Pointer { structType = structType.Elem() }   -> `deref`
      if structType != nil && structType.Kind() == reflect.Struct { for i … NumField() {
        name, _, _ := strings.Cut(structType.Field(i).Tag.Get("json"), ",")                                          -> `tagName`
        if name == "" || name == "-" { continue }
        for member := range document { if member != name && strings.EqualFold(member, name) { return member } } } }   -> `variantIn`, `structLoop`
      return ambiguousMember(map[string]interface{}(document))                                                         -> `caseVariantMember`

  Before this file the loop was ONE verdict (`structVariant`) handed in by the harness. Go's map iteration order is the order of the
  member list (an explicit argument). strings.EqualFold(a, b) is `fold a = fold b` for the rune-wise fold to the smallest member of
  the SimpleFold orbit (Fold.`foldName`). The separator and the skipped names are REGENERATED data. Core Lean only.
-/
import NutsModel.C17.Fold

namespace Nuts.C17.CaseVar
open Nuts.C17 Nuts.C17.Fold

/-- strings.Cut(tag, sep): the part before the first separator (all of it when there is none) -/
def cutAt (sep : Char) : List Char → List Char
  | [] => []
  | c :: r => if c = sep then [] else c :: cutAt sep r

/-- the JSON name a field's `json` tag gives, `none` when the loop skips the field (`name == "" || name == "-"`; a field without
    json tag has Tag.Get = "") -/
def tagName (sep : Char) (skip : List String) (tag : String) : Option String :=
  let n := String.ofList (cutAt sep tag.toList)
  if skip.contains n then none else some n

/-- `for member := range document { if member != name && strings.EqualFold(member, name) { return member } }` -/
def variantIn (fold : String → String) (name : String) : List String → Option String
  | [] => none
  | m :: r => if m ≠ name ∧ fold m = fold name then some m else variantIn fold name r

/-- the loop over the struct's fields (their json tags, in declaration order) -/
def structLoop (sep : Char) (skip : List String) (fold : String → String) (members : List String) : List String → Option String
  | [] => none
  | t :: r =>
    match tagName sep skip t with
    | none => structLoop sep skip fold members r
    | some name =>
      match variantIn fold name members with
      | some m => some m
      | none => structLoop sep skip fold members r

/-- reflect.TypeOf(decodedInto) as far as the function looks: nil, pointer to …, struct with these json tags, anything else -/
inductive GoType where
  | nil
  | ptr (t : GoType)
  | struct (tags : List String)
  | other
  deriving Repr

def deref : GoType → GoType
  | .ptr t => deref t
  | t => t

def structPart (sep : Char) (skip : List String) (fold : String → String) (ty : GoType) (members : List String) : Option String :=
  match deref ty with
  | .struct tags => structLoop sep skip fold members tags
  | _ => none

/-- caseVariantMember(document, decodedInto): `none` for Go's "" -/
def caseVariantMember (sep : Char) (skip : List String) (fold : String → String) (ty : GoType) (doc : JMembers) : Option String :=
  match structPart sep skip fold ty (namesOf doc) with
  | some m => some m
  | none => ambVal fold (.obj doc)

/-- the JSON names of the fields encoding/json can fill -/
def fieldNames (sep : Char) (skip : List String) (tags : List String) : List String := tags.filterMap (tagName sep skip)

/-- encoding/json, object member -> struct field: the field whose name is the member's name, else the first one equal under folding -/
def decodesInto (fold : String → String) (names : List String) (member : String) : Option String :=
  if names.contains member then some member else names.find? (fun f => fold f = fold member)

/-- jsonldProof up to the guard with the struct loop computed (Fold.`vcJsonLdDoc` takes it as a verdict) -/
def vcJsonLdDocS (sep : Char) (skip : List String) (fold : String → String) (docOK : Bool) (ty : GoType) (doc : JMembers) (rest : Outcome) : Outcome :=
  if !docOK then .reject
  else match caseVariantMember sep skip fold ty doc with
    | some _ => .reject
    | none => rest

end Nuts.C17.CaseVar
