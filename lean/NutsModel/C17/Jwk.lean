/-
  C17 clause (e) "embedded private keys are refused" — the two places where the node looks INTO an embedded `jwk` header:

    crypto/dpop/dpop.go     jwkIsPrivateKey   : probes `jwk.Raw(&x)` for a sequence of Go private-key types, first success = private
    network/dag/parser.go   parseSignatureParams : a type switch over jwx key interfaces that returns an error

  Both were one bit of harness data (`Sig.jwk = .priv`) before. Here the embedded key is the JSON object the attacker wrote
  (kty, crv, is a private member `d` present), `typeOf` is which jwx key type that object parses to, `rawInto` which Go type
  `jwk.Raw` can fill from it (both are jwx behaviour: stated here, run against the real library by the harness leg `jwkpriv`),
  and the probe sequence / the rejected interface list are REGENERATED from the Go source (Facts.C17.dpopPrivateProbes,
  parseSignatureParamsRejectedKeyTypes).
  Core Lean only.
-/
import NutsModel.C17.TokenPolicy

namespace Nuts.C17.Jwk
open Nuts.C17

/-- what of a JWK object decides the jwx key type -/
structure JwkObj where
  kty : String
  crv : String        -- "" when absent
  hasD : Bool         -- a private member (`d`) is present
  deriving Repr, DecidableEq

inductive JwkType where
  | ecPub | ecPriv | rsaPub | rsaPriv | okpPub | okpPriv | sym
  deriving Repr, DecidableEq

/-- jwk.ParseKey: the type is chosen by `kty` and the presence of `d`; another `kty` does not parse (the whole header fails) -/
def typeOf (o : JwkObj) : Option JwkType :=
  if o.kty = "EC" then some (if o.hasD then .ecPriv else .ecPub)
  else if o.kty = "RSA" then some (if o.hasD then .rsaPriv else .rsaPub)
  else if o.kty = "OKP" then some (if o.hasD then .okpPriv else .okpPub)
  else if o.kty = "oct" then some .sym
  else none

/-- the key holds secret material -/
def holdsSecret : JwkType → Bool
  | .ecPriv | .rsaPriv | .okpPriv | .sym => true
  | _ => false

/-- the jwx interfaces a key of this type satisfies (Go interface satisfaction is structural: a private OKP key has all
    methods of jwk.OKPPublicKey, `FromRaw(interface{})` included; the EC / RSA private interfaces differ from the public
    ones in the parameter type of `FromRaw`, so they do not satisfy them) -/
def interfacesOf : JwkType → List String
  | .ecPub => ["jwk.ECDSAPublicKey"]
  | .ecPriv => ["jwk.ECDSAPrivateKey"]
  | .rsaPub => ["jwk.RSAPublicKey"]
  | .rsaPriv => ["jwk.RSAPrivateKey"]
  | .okpPub => ["jwk.OKPPublicKey"]
  | .okpPriv => ["jwk.OKPPrivateKey", "jwk.OKPPublicKey"]
  | .sym => ["jwk.SymmetricKey"]

/-- `var x T; jwk.Raw(&x)` succeeds: the raw key of the JWK is assignable to Go type `T` -/
def rawInto (t : JwkType) (crv : String) (target : String) : Bool :=
  match t with
  | .rsaPriv => target == "rsa.PrivateKey"
  | .ecPriv => target == "ecdsa.PrivateKey"
  | .okpPriv => target == "ed25519.PrivateKey" && crv == "Ed25519"      -- an X25519 key is an x25519.PrivateKey
  | .rsaPub => target == "rsa.PublicKey"
  | .ecPub => target == "ecdsa.PublicKey"
  | .okpPub => target == "ed25519.PublicKey" && crv == "Ed25519"
  -- the raw key of an octet key is a []byte: assignable to EVERY named type whose underlying type is []byte
  | .sym => target == "[]byte" || target == "ed25519.PrivateKey" || target == "ed25519.PublicKey"

/-- dpop.jwkIsPrivateKey: the probes in source order; `dflt` is the final `return` -/
def jwkIsPrivateKey (probes : List String) (dflt : Bool) (t : JwkType) (crv : String) : Bool :=
  if probes.any (rawInto t crv) then true else dflt

/-- dag.parseSignatureParams: the type switch `case <interfaces>: return error` -/
def dagRefusesJwk (rejected : List String) (t : JwkType) : Bool :=
  (interfacesOf t).any rejected.contains

/-- the one bit the consumer models read, now computed: what `Sig.jwk` is for an embedded JWK object under a consumer's
    private test -/
def kindOf (isPrivate : JwkType → String → Bool) : Option JwkObj → Option JwkKind
  | none => some .absent
  | some o =>
    match typeOf o with
    | none => none                                             -- the protected header does not parse
    | some t => some (if isPrivate t o.crv then .priv else if t = .sym then .sym else .pub)

/-- dpop.Parse over the embedded JWK OBJECT (header parse failure = jws.ParseString fails) -/
def dpopParseJ (supported : List String) (typ : String) (probes : List String) (dflt : Bool) (E : Env) (claimsOK : Bool)
    (j : Jws) (o : Option JwkObj) : Outcome :=
  match kindOf (jwkIsPrivateKey probes dflt) o with
  | none => .reject
  | some k => dpopParse supported typ E claimsOK { j with sigs := j.sigs.map (fun s => { s with jwk := k }) }

/-- dag.ParseTransaction + verifier over the embedded JWK OBJECT -/
def dagTxJ (allowed rejected : List String) (strict : Bool) (E : Env) (otherOK framingOK : Bool) (j : Jws) (o : Option JwkObj) : Outcome :=
  match kindOf (fun t _ => dagRefusesJwk rejected t) o with
  | none => .reject
  | some k => dagTx allowed true strict E otherOK framingOK { j with sigs := j.sigs.map (fun s => { s with jwk := k }) }

end Nuts.C17.Jwk
