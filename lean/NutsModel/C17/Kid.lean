/-
  C17 — which key id is handed to the DID key resolver, on the CHARACTERS of kid and issuer.

    vcr/verifier/signature_verifier.go  resolveSigningKey (kid "" -> issuer; did:jwk without fragment -> "#0")  -> `normKid`
                                        `strings.Split(keyID, "#")[0]` (jwtSignature, jsonldProof)              -> `didPart`
                                        jwtSignature                                                             -> `vcJwtSignatureK`
    auth/services/oauth/authz_server.go validateIssuer `strings.Split(kid, "#")[0]`                              -> `didPart`
  Core Lean only.
-/
import NutsModel.C17.TokenPolicy

namespace Nuts.C17.Kid

/-- strings.Split(s, "#")[0] : everything before the first `#` -/
def didPart (kid : List Char) : List Char := kid.takeWhile (· ≠ '#')

def didPartS (kid : String) : String := String.ofList (didPart kid.toList)

def jwkPrefix : List Char := "did:jwk:".toList

/-- resolveSigningKey: the kid the key resolver is asked for -/
def normKid (kid issuer : List Char) : List Char :=
  let k := if kid = [] then issuer else kid
  if jwkPrefix.isPrefixOf k && !k.contains '#' then k ++ "#0".toList else k

def normKidS (kid issuer : String) : String := String.ofList (normKid kid.toList issuer.toList)

/-- jwtSignature with the kid handling on the characters (TokenPolicy.vcJwtSignature abstracts `didOf` and leaves out did:jwk) -/
def vcJwtSignatureK (supported : List String) (E : Env) (issuer : String) (j : Jws) : Outcome :=
  let E' : Env := { E with resolve := fun kid => E.resolve (normKidS kid issuer) }
  match parseJWT supported E' j with
  | .reject => .reject
  | .accept vs =>
    match j.sigs with
    | [s] => if s.kid ≠ "" && didPartS s.kid ≠ issuer then .reject else .accept vs   -- errVerificationMethodNotOfIssuer
    | _ => .reject

/-! ### crypto.ExtractProtectedHeaders (feeds the key resolver's metadata: did:x509 takes its key material from `x5c`) -/

inductive Xph where
  | err                          -- ErrorInvalidNumberOfSignatures
  | headers (s : Option Sig)     -- the protected headers of THE signature; `none`: the empty map
  deriving Repr, DecidableEq

def extractProtectedHeaders (tokEmpty : Bool) (j : Jws) : Xph :=
  if tokEmpty then .headers none
  else if !j.parses then .headers none          -- `message, _ := jws.ParseString(jwt)`: parse errors are ignored
  else match j.sigs with
    | [s] => .headers (some s)
    | _ => .err

end Nuts.C17.Kid
