/-
  C17 — LDProof.Verify on the BYTES of the proof's `jws` value and the KIND of the key handed in:
    strings.Split(p.JWS, "..") / `len(splittedJws) != 2`          -> `splitDD`, `ldJwsParts`
    base64.RawURLEncoding.DecodeString(splittedJws[1])             -> `ldSigDecodes` (Framing.decode: non-strict, CR / LF skipped)
    nutsCrypto.SignatureAlgorithm(key)                             -> Framing.signatureAlgorithm
  `ldProofVerifyBytes` feeds them to TokenPolicy.ldProofVerify. Core Lean only.
-/
import NutsModel.C17.Framing
import NutsModel.C17.TokenPolicy

namespace Nuts.C17.LdBytes
open Nuts.C17.Framing

/-- strings.Split(s, ".."): first part and the remaining ones (non-overlapping, left to right) -/
def splitDD : Bytes → Bytes × List Bytes
  | 46 :: 46 :: r => let p := splitDD r; ([], p.1 :: p.2)
  | c :: r => let p := splitDD r; (c :: p.1, p.2)
  | [] => ([], [])

def joinDD : Bytes → List Bytes → Bytes
  | h, [] => h
  | h, x :: t => h ++ 46 :: 46 :: joinDD x t

def ldJwsParts (jws : Bytes) : Nat := (splitDD jws).2.length + 1

def ldSigDecodes (jws : Bytes) : Bool :=
  match (splitDD jws).2 with
  | [sig] => (decode sig).isSome
  | _ => false

def ldProofVerifyBytes (table : List (Nat × String)) (rsaAlg edAlg : String) (kind : KeyKind) (L : LdEnv) (key : Key)
    (canonicalizes : Bool) (jws : Bytes) : Outcome :=
  ldProofVerify { L with keyAlg := fun _ => signatureAlgorithm table rsaAlg edAlg kind } key canonicalizes (ldJwsParts jws) (ldSigDecodes jws)

/-- the rule of seeded mutation C17-w9m1 (`proofAlgorithm`): the algorithm the detached JWS's OWN protected header names when it names
    one other than "none", the key-derived one only as the default; AlgorithmFitsKey kept, no allow-list -/
def headerAlgRule (hdrAlg : Option String) (keyAlg : Option String) : Option String :=
  match keyAlg with
  | none => none
  | some k =>
    match hdrAlg with
    | some a => if a ≠ "" ∧ a ≠ "none" then some a else some k
    | none => some k

/-- LDProof.Verify with that rule -/
def ldProofVerifyHdr (L : LdEnv) (key : Key) (hdrAlg : Option String) (canonicalizes : Bool) (jwsParts : Nat) (sigDecodes : Bool) : Outcome :=
  ldProofVerify { L with keyAlg := fun k => headerAlgRule hdrAlg (L.keyAlg k) } key canonicalizes jwsParts sigDecodes

end Nuts.C17.LdBytes
