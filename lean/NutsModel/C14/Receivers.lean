/-
  C14 (deepening round 2) — the RECEIVERS of the persistent subscribers and how the notifier reads what they return.
  Until this round the receiver was an arbitrary function (`Cfg.beh`) and the error classification of the real
  receivers was fact-only.  Modelled here, mirroring the Go control flow:
  * an error value = its `Unwrap` chain, outermost layer first (`errors.Is` / `errors.As` walk exactly this chain);
  * vcr/ambassador.go `handleError`, `handleNetworkVCs` / `handleNetworkRevocations`;
  * vdr/didnuts/ambassador.go `handleNetworkEvent`;
  * network/transport/v2/protocol.go `handlePrivateTxRetry` (incl. the `fmt.Errorf("…: %w", err)` wrapping of EventFatal);
  * network/network.go `emitEvents` (the "nats" subscriber);
  * network/dag/notifier.go `notifyNow`'s reading of `(finished, err)`: `errors.As(err, new(EventFatal))`.
  `classify` maps a receiver result to the `Outcome` that drives `notifyNow` of Notifier.lean.  Core Lean only.
-/
import NutsModel.C14.Notifier

namespace Nuts.C14

/-- json-gold `ld.ErrorCode`s that `handleError` distinguishes -/
inductive LdCode where
  | loadingRemoteContextFailed | loadingDocumentFailed | other
  deriving DecidableEq, Repr, Inhabited

/-- one layer of an error's Unwrap chain -/
inductive Layer where
  | msg            -- fmt.Errorf("…: %w", inner) or errors.New (no identity of its own)
  | canceled       -- context.Canceled
  | deadline       -- context.DeadlineExceeded
  | ctxNotAllowed  -- jsonld.ContextURLNotAllowedErr
  | jsonld (code : LdCode)  -- *ld.JsonLdError{Code, Details: inner}
  | db             -- stoabs.ErrDatabase{inner}
  | fatal          -- dag.EventFatal{Err: inner}
  deriving DecidableEq, Repr, Inhabited

/-- an error: the Unwrap chain, outermost first -/
abbrev Err := List Layer

/-- errors.Is(err, sentinel) -/
def errIs (e : Err) (l : Layer) : Bool := e.contains l

/-- errors.As(err, new(stoabs.ErrDatabase)) -/
def hasDb (e : Err) : Bool := e.contains .db

/-- errors.As(err, new(dag.EventFatal)) -/
def hasFatal (e : Err) : Bool := e.contains .fatal

/-- errors.As(err, &jsonLDError): the FIRST *ld.JsonLdError of the chain -/
def firstJsonld : Err → Option LdCode
  | [] => none
  | .jsonld c :: _ => some c
  | _ :: rest => firstJsonld rest

/-- what a ReceiverFn returns: `(finished bool, err error)` -/
structure RecvRes where
  done : Bool
  err : Option Err
  deriving DecidableEq, Repr, Inhabited

def RecvRes.ok : RecvRes := ⟨true, none⟩

/-- vcr ambassador.handleError, condition by condition (the third conjunct of the JSON-LD test is kept as written) -/
def vcrHandleError (e : Err) : RecvRes :=
  if errIs e .canceled || errIs e .deadline then ⟨false, some e⟩
  else if errIs e .ctxNotAllowed then ⟨true, none⟩
  else
    match firstJsonld e with
    | some code =>
      if code == .loadingRemoteContextFailed && !errIs e .ctxNotAllowed then ⟨false, some e⟩
      else ⟨false, some (.fatal :: e)⟩
    | none => ⟨false, some (.fatal :: e)⟩

/-- vcr handleNetworkVCs / handleNetworkRevocations: `cb` is what vcCallback / jsonLDRevocationCallback returned -/
def vcrHandle (cb : Option Err) : RecvRes :=
  match cb with
  | some e => vcrHandleError e
  | none => .ok

/-- vdr/didnuts ambassador.handleNetworkEvent -/
def vdrHandle (cb : Option Err) : RecvRes :=
  match cb with
  | some e => if !hasDb e then ⟨false, some (.fatal :: e)⟩ else ⟨false, some e⟩
  | none => .ok

/-- the error handling shared by the two fallible steps of handlePrivateTxRetry:
    `if !errors.As(err, new(stoabs.ErrDatabase)) { err = dag.EventFatal{Err: err} }; return false, fmt.Errorf("…: %w", err)` -/
def privWrap (e : Err) : RecvRes := ⟨false, some (.msg :: (if !hasDb e then .fatal :: e else e))⟩

/-- v2 protocol.handlePrivateTxRetry. `sends`: per PAL participant (an authenticated connection exists, Send failed) -/
def privateRetry (presentErr : Option Err) (present : Bool) (decryptErr : Option Err) (palNil : Bool)
    (sends : List (Bool × Bool)) : RecvRes :=
  match presentErr with
  | some e => privWrap e
  | none =>
    if present then .ok
    else match decryptErr with
      | some e => privWrap e
      | none =>
        if palNil then .ok
        else if !(sends.any fun p => p.1 && !p.2) then ⟨false, some [.msg]⟩
        else ⟨false, none⟩

/-- network.emitEvents: Acquire, json.Marshal, PublishAsync - each error wrapped by errEventFailedMsg (`%w`) -/
def natsEmit (acquireErr marshalErr publishErr : Option Err) : RecvRes :=
  match acquireErr with
  | some e => ⟨false, some (.msg :: e)⟩
  | none => match marshalErr with
    | some e => ⟨false, some (.msg :: e)⟩
    | none => match publishErr with
      | some e => ⟨false, some (.msg :: e)⟩
      | none => .ok

/-- notifyNow's reading of the receiver's answer: error first (`errors.As(err, new(EventFatal))` ⇒ failed for good),
    then `finished`, else errEventIncomplete.  `failCtx`: the error TEXT ends in the context-not-allowed text (innermost layer) -/
def classify (r : RecvRes) : Outcome :=
  match r.err with
  | some e =>
    if hasFatal e then .fatal
    else if e.getLast? == some .ctxNotAllowed then .failCtx
    else .fail
  | none => if r.done then .done else .notDone

end Nuts.C14
