/-
  C14 (deepening round) — the construction side of a notifier, which `Notifier.lean` takes as given:
  * network/dag/notifier.go `NewNotifier` + the `NotifierOption`s (`WithRetryDelay`, `WithPersistency`,
    `WithSelectionFilter`, `WithContext`, `withCounters`), `shelfName`, `isPersistent`;
  * network/dag/state.go `Notifier` (registry: `LoadOrStore` by name, a duplicate name is refused);
  * the first statements of `Save` (non-persistent ⇒ nothing, other DB ⇒ error, filters) — which of the
    registrations is a *persistent subscriber* of the property at all;
  * the NON-persistent code path of `Notify` / `notifyNow` / `retry` / `Run` / `GetFailedEvents` / `Finished`
    (the "gossip" registration of protocol v2 uses it): nothing is ever written, the receiver always sees the
    event as handed in;
  * the machine arithmetic of `notifier.retry`: `attempts := maxRetries - uint(event.Retries+1)` on 64-bit
    unsigned integers with its wrap-around guard, and `delay *= 2` on int64 (time.Duration).
  Core Lean only.
-/
import NutsModel.C14.Notifier
import NutsModel.Facts.C14

namespace Nuts.C14

/-! ### NewNotifier and its options -/

inductive Opt where
  | retryDelay (ns : Int)     -- WithRetryDelay
  | persistency (db : Nat)    -- WithPersistency(db): stores are numbered by the harness
  | filter (f : Filter)       -- WithSelectionFilter: appended
  | context (ctx : Nat)       -- WithContext
  | counters                  -- withCounters (appended by state.Notifier)
  deriving DecidableEq, Repr, Inhabited

structure NCfg where
  name : String
  db : Option Nat := none
  retryDelay : Int
  filters : List Filter := []
  ctx : Nat := 0
  counters : Bool := false
  deriving DecidableEq, Repr, Inhabited

def applyOpt (n : NCfg) : Opt → NCfg
  | .retryDelay d => { n with retryDelay := d }
  | .persistency db => { n with db := some db }
  | .filter f => { n with filters := n.filters ++ [f] }
  | .context c => { n with ctx := c }
  | .counters => { n with counters := true }

/-- NewNotifier: defaults, then the options in the order given (a later option of the same kind overrides,
    filters accumulate) -/
def newNotifier (defaultDelay : Int) (name : String) (opts : List Opt) : NCfg :=
  opts.foldl applyOpt { name := name, retryDelay := defaultDelay }

/-- `fmt.Sprintf("_%s_jobs", p.name)`: prefix and suffix are REGENERATED from the format string in the source -/
def NCfg.shelfName (n : NCfg) : String := Facts.C14.shelfNamePrefix ++ n.name ++ Facts.C14.shelfNameSuffix
def NCfg.persistent (n : NCfg) : Bool := n.db.isSome
def NCfg.accepts (n : NCfg) (pal : Bool) (pt : String) (ty : EvType) : Bool := n.filters.all fun f => f.test pal pt ty

/-! ### state.Notifier: the registry -/

/-- `state.Notifier(name, receiver, options...)`: `options = append(options, withCounters(..))`, `NewNotifier`,
    `LoadOrStore(name, n)`; loaded ⇒ error, the registry is unchanged (the FIRST registration of a name stays) -/
def register (defaultDelay : Int) (reg : List NCfg) (name : String) (opts : List Opt) : List NCfg × Bool :=
  if reg.any (fun n => n.name == name) then (reg, false)
  else (reg ++ [newNotifier defaultDelay name (opts ++ [.counters])], true)

def registerAll (defaultDelay : Int) (reg : List NCfg) (rs : List (String × List Opt)) : List NCfg :=
  rs.foldl (fun reg r => (register defaultDelay reg r.1 r.2).1) reg

/-! ### Save: who keeps a job at all -/

inductive SaveKind where
  | nonPersistent   -- `p.db == nil`: return nil, nothing written
  | differentDB     -- `tx.Store() != p.db`: error (state.saveEvent hands it back: the admission fails)
  | filtered        -- a filter rejects: return nil
  | proceed         -- "only schedule new events": `Notifier.save`
  deriving DecidableEq, Repr

def saveKind (n : NCfg) (txdb : Nat) (pal : Bool) (pt : String) (ty : EvType) : SaveKind :=
  match n.db with
  | none => .nonPersistent
  | some d => if d ≠ txdb then .differentDB else if n.accepts pal pt ty then .proceed else .filtered

/-! ### the non-persistent path -/

/-- result of `notifyNow` for a NON-persistent notifier: no read, the receiver is called with the event as handed in;
    `Finished` returns nil without writing; nothing is written back -/
inductive NPRes where
  | nil | err | fatal | crashed
  deriving DecidableEq, Repr

def npNotifyNow : Outcome → NPRes
  | .done => .nil
  | .doneFinishFail => .nil        -- there is no Finished write that could fail
  | .notDone => .err
  | .notDoneFin => .err
  | .fail => .err
  | .failCtx => .err
  | .fatal => .fatal
  | .crash => .crashed
  | .readFault => .err             -- no store is touched: the harness cannot inject these; treated as a failing call
  | .notDoneWriteFail => .err
  | .failWriteFail => .err

/-- `retry.Do` with `left` attempts; `beh k` = what the k-th receiver call of this notification does.
    Returns the number of receiver calls the loop makes. -/
def npLoop (beh : Nat → Outcome) : Nat → Nat → Nat
  | 0, _ => 0
  | left + 1, k =>
    match npNotifyNow (beh k) with
    | .err => 1 + npLoop beh left (k + 1)
    | _ => 1

/-- `Notify(event)` on a non-persistent notifier whose filters accept: first call, then (unless nil / fatal)
    `retry(event)` with the event's own `Retries` (never incremented: there is no stored copy). Number of calls. -/
def npNotifyCalls (maxRetries : Nat) (beh : Nat → Outcome) (retries : Nat) : Nat :=
  match npNotifyNow (beh 0) with
  | .err =>
    1 + (if retries + 1 < maxRetries then npLoop beh (maxRetries - (retries + 1)) 1 else 0)
  | _ => 1

/-- what a non-persistent notifier shows after ANY history: `Run` does nothing, `GetFailedEvents` is empty -/
def npFailedEvents : List Nat := []

/-! ### machine arithmetic of notifier.retry -/

def two64 : Int := 18446744073709551616
def two63 : Int := 9223372036854775808

/-- Go `uint(x)` of an int (and the result of unsigned arithmetic): the residue mod 2^64 -/
def toU64 (x : Int) : Int := x % two64
/-- Go int64 arithmetic result: wrap into [-2^63, 2^63) -/
def wrapI64 (x : Int) : Int := (x + two63) % two64 - two63

/-- `initialCount := event.Retries + 1; attempts := maxRetries - uint(initialCount);
    if attempts <= 0 || attempts >= maxRetries { return }` — on machine integers -/
def retryAttemptsM (maxRetries : Int) (retries : Int) : Option Int :=
  let initialCount := wrapI64 (retries + 1)
  let attempts := toU64 (maxRetries - toU64 initialCount)
  if attempts ≤ 0 ∨ attempts ≥ maxRetries then none else some attempts

/-- `for i := 0; i < initialCount; i++ { delay *= 2 }` on int64 -/
def delayM (delay : Int) : Nat → Int
  | 0 => delay
  | k + 1 => delayM (wrapI64 (delay * 2)) k

end Nuts.C14
