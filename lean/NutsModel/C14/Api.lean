/-
  C14 (deepening round) — the operator's view of undelivered events:
  * network/api/v1/api.go `ListEvents` (REST): for every notifier of `Subscribers()` its name and its failed events;
  * network/network.go `CleanupSubscriberEvents(subscriberName, errorPrefix)`: Finished() for the failed events of the
    NAMED subscriber whose last error starts with the prefix.
  Both on top of `failedEvents` / `finishedExt` of Notifier.lean.  Core Lean only.
-/
import NutsModel.C14.Notifier

namespace Nuts.C14

/-- one listed event: `Event{Hash, Type, Retries, Error}` -/
structure ApiEvent where
  ref : Nat
  type : EvType
  retries : Nat
  err : JErr
  deriving DecidableEq, Repr, Inhabited

/-- notifier.GetFailedEvents with content: the jobs of `failedEvents`, in key order -/
def failedRows (c : Cfg) (σ : St) (s : Nat) : List ApiEvent :=
  (failedEvents c σ s).filterMap fun r =>
    (σ.shelf s r).map fun j => { ref := r, type := j.type, retries := j.retries, err := j.err }

/-- api/v1 ListEvents: `for _, notifier := range a.Service.Subscribers()` (arbitrary order = `order`): name + failed events;
    the first GetFailedEvents error (`readFail s`) aborts the whole answer -/
def listEvents (c : Cfg) (names : Nat → String) (σ : St) (readFail : Nat → Bool) :
    List Nat → Res (List (String × List ApiEvent))
  | [] => .ok []
  | s :: rest =>
    if readFail s then .err "read"
    else match listEvents c names σ readFail rest with
      | .ok l => .ok ((names s, failedRows c σ s) :: l)
      | .err e => .err e
      | .panic p => .panic p

/-- the inner loop of CleanupSubscriberEvents over the snapshot `events`: `strings.HasPrefix(event.Error, errorPrefix)` ⇒
    `subscriber.Finished(event.Hash)`; `failAt` = the event whose Finished write fails (the error is returned at once) -/
def cleanupEvents (pre : JErr → Bool) (failAt : Option Nat) (s : Nat) : List ApiEvent → St → St × Bool
  | [], σ => (σ, true)
  | e :: rest, σ =>
    if pre e.err then
      if failAt = some e.ref then (σ, false)
      else cleanupEvents pre failAt s rest (finishedExt σ s e.ref false)
    else cleanupEvents pre failAt s rest σ

/-- Network.CleanupSubscriberEvents: every subscriber whose Name() equals `target` (`readFail`: its GetFailedEvents fails) -/
def cleanup (c : Cfg) (names : Nat → String) (target : String) (pre : JErr → Bool) (readFail : Nat → Bool) (failAt : Option Nat) :
    List Nat → St → St × Bool
  | [], σ => (σ, true)
  | s :: rest, σ =>
    if names s == target then
      if readFail s then (σ, false)
      else match cleanupEvents pre failAt s (failedRows c σ s) σ with
        | (σ', false) => (σ', false)
        | (σ', true) => cleanup c names target pre readFail failAt rest σ'
    else cleanup c names target pre readFail failAt rest σ

end Nuts.C14
