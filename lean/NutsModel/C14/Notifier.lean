/-
  C14 — model of network/dag/notifier.go (Save / Notify / notifyNow / retry / Run / Finished /
  GetFailedEvents), network/dag/state.go (Add / WritePayload / saveEvent / notify) and the
  `handleTransactionPayload` call sequence of network/transport/v2 (GetTransaction → WritePayload → Finished).
  Core Lean only.

  Modelling decisions (DESIGN.md §5 C14):
  * a subscriber (persistent notifier) is an index into the registration list; a transaction ref is an
    index into the harness's pool sorted by ref bytes (bbolt iterates a shelf in key order = index order).
  * the subscriber's behaviour is an arbitrary function `beh sub ref attempt# → Outcome`.
  * a bbolt write transaction is atomic: an op that fails before/at commit leaves the durable state unchanged.
  * `AfterCommit` callbacks are the volatile list `pending`; a `retry.Do` goroutine is a `Task` in `running`;
    `crash` drops both.  A timer firing is one atomic `notifyNow`.
  * `sync.Map.Range` order of `state.notify` and the order in which `Network.Start` runs the notifiers are
    explicit arguments (`order`).
  * `admitted` is a ghost list (committed events), `ledger` is the ghost log of receiver calls and of
    `Finished` calls made from outside the notifier (newest first).
  * constants (`maxRetries`, `retriesFailedThreshold`) and "WritePayload skips a payload that is already
    stored" are fields of `Cfg` filled from the regenerated facts.
-/
import NutsModel.Base

namespace Nuts.C14

inductive EvType where
  | tx | payload
  deriving DecidableEq, Repr, Inhabited

/-- last error text class stored in a job (`Event.Error`) -/
inductive JErr where
  | none        -- never attempted
  | incomplete  -- errEventIncomplete
  | generic     -- any other receiver error
  | ctx         -- error text ends in jsonld.ContextURLNotAllowedErr (Run does not replay these)
  | fatal       -- EventFatal
  | storage     -- error of a failed shelf write (only ever in the in-memory copy)
  deriving DecidableEq, Repr, Inhabited

structure Job where
  type : EvType
  retries : Nat
  err : JErr
  deriving DecidableEq, Repr, Inhabited

/-- what one receiver invocation does (subscriber behaviour + injected storage faults + stop) -/
inductive Outcome where
  | done            -- (true, nil); Finished deletes the job
  | doneFinishFail  -- (true, nil) but the shelf write of Finished fails
  | notDone         -- (false, nil)
  | notDoneFin      -- (false, nil), and while the receiver ran another goroutine called Finished() for this job
                    -- (protocol v2: the payload reply - WritePayload, private.Finished - is handled before handlePrivateTxRetry returns)
  | fail            -- (false, err)
  | failCtx         -- (false, err), text ends in ContextURLNotAllowedErr
  | fatal           -- (false, EventFatal{err})
  | crash           -- the node stops inside the receiver
  | readFault       -- notifyNow cannot read the job (transient store fault): the receiver is NOT called; retry.Unrecoverable
  | notDoneWriteFail -- (false, nil) and the write-back of the failure count fails: retry.Unrecoverable(storage error)
  | failWriteFail   -- (false, err) and the write-back fails: retry.Unrecoverable(storage error)
  deriving DecidableEq, Repr, Inhabited

/-- one selection filter as written in the source: a conjunction of the three tests that occur -/
structure Filter where
  type : Option EvType := none
  needPAL : Bool := false
  ptype : Option String := none
  deriving DecidableEq, Repr, Inhabited

def Filter.test (f : Filter) (pal : Bool) (pt : String) (ty : EvType) : Bool :=
  (match f.type with | some t => decide (t = ty) | none => true) &&
  (!f.needPAL || pal) &&
  (match f.ptype with | some p => decide (p = pt) | none => true)

structure Cfg where
  nSubs : Nat
  nRefs : Nat
  /-- all filters of subscriber `s` accept event (ref, type) -/
  sel : Nat → Nat → EvType → Bool
  phash : Nat → Nat
  root : Nat → Bool
  beh : Nat → Nat → Nat → Outcome
  maxRetries : Nat
  failedThreshold : Nat
  /-- `State.WritePayload` does nothing when the payload event of THIS transaction was saved before
      (recorded per transaction ref in the write transaction; the payload store itself is keyed by payload hash) -/
  skipPresent : Bool
  /-- the write-back of `notifyNow` does not re-create a job that was removed while the receiver ran -/
  writeBackSkipsGone : Bool
  /-- notifyNow wraps its own storage errors in retry.Unrecoverable, so one of them ends a running retry loop
      (the code before the repair); false: they are returned as they are and the loop goes on -/
  storageFaultEndsLoop : Bool
  /-- `State.WritePayload` runs its AfterCommit notification only when this call saved the event
      (`payloadWritten`); false: it notifies after every commit, also when the payload event had been saved before -/
  notifyGuarded : Bool := true

/-- a running `retry.Do` goroutine -/
structure Task where
  sub : Nat
  ref : Nat
  left : Nat   -- attempts left
  n : Nat      -- attempts made so far in this loop
  base : Nat   -- `initialCount` (delay = retryDelay · 2^base, doubled per attempt)
  deriving DecidableEq, Repr, Inhabited

inductive Entry where
  | call (sub ref : Nat) (type : EvType) (retries : Nat) (out : Outcome)
  | fin (sub ref : Nat)     -- Finished() from outside (handleTransactionPayload, CleanupSubscriberEvents) deleted a job
  deriving DecidableEq, Repr, Inhabited

def Entry.isCallOf (s r : Nat) : Entry → Bool
  | .call s' r' _ _ _ => s' == s && r' == r
  | .fin _ _ => false

/-- the entry records completion of (s, r): the receiver said done and the delete was written, or Finished was called -/
def Entry.completes (s r : Nat) : Entry → Bool
  | .call s' r' _ _ o => s' == s && r' == r && o == .done
  | .fin s' r' => s' == s && r' == r

structure St where
  dag : List Nat := []
  payloads : List Nat := []
  /-- refs whose payload event has been saved (shelf "payloadEvents") -/
  evented : List Nat := []
  shelf : Nat → Nat → Option Job := fun _ _ => none
  running : List Task := []
  pending : List (Nat × EvType) := []
  admitted : List (Nat × EvType) := []
  ledger : List Entry := []

def init : St := {}

def setJob (σ : St) (s r : Nat) (j : Option Job) : St :=
  { σ with shelf := fun s' r' => if s' = s ∧ r' = r then j else σ.shelf s' r' }

def attemptNo (σ : St) (s r : Nat) : Nat := (σ.ledger.filter (Entry.isCallOf s r)).length

/-- result of `notifyNow` as seen by its callers -/
inductive NRes where
  | nil      -- nil: job gone or finished
  | err      -- recoverable error (retry continues)
  | fatal    -- retry.Unrecoverable(EventFatal)
  | crashed
  | unrec    -- retry.Unrecoverable(storage error of the notifier itself): NOT an EventFatal
  deriving DecidableEq, Repr

def log (σ : St) (e : Entry) : St := { σ with ledger := e :: σ.ledger }

/-- notifier.notifyNow for a persistent notifier -/
def notifyNow (c : Cfg) (σ : St) (s r : Nat) : St × NRes :=
  match σ.shelf s r with
  | none => (σ, .nil)
  | some j =>
    let o := c.beh s r (attemptNo σ s r)
    let σ1 := log σ (.call s r j.type j.retries o)
    match o with
    | .crash => (σ1, .crashed)
    | .done => (setJob σ1 s r none, .nil)
    | .doneFinishFail => (σ1, .err)
    | .notDone => (setJob σ1 s r (some { j with retries := j.retries + 1, err := .incomplete }), .err)
    | .notDoneFin =>
      -- Finished() deleted the job and is on record; then the write-back runs
      (setJob (log σ1 (.fin s r)) s r
        (if c.writeBackSkipsGone then none else some { j with retries := j.retries + 1, err := .incomplete }), .err)
    | .fail => (setJob σ1 s r (some { j with retries := j.retries + 1, err := .generic }), .err)
    | .failCtx => (setJob σ1 s r (some { j with retries := j.retries + 1, err := .ctx }), .err)
    | .fatal => (setJob σ1 s r (some { j with retries := c.maxRetries + 1, err := .fatal }), .fatal)
    -- the notifier's own storage errors: nothing is recorded on the shelf; the ledger entry is the attempt
    | .readFault => (σ1, .unrec)
    | .notDoneWriteFail => (σ1, .unrec)
    | .failWriteFail => (σ1, .unrec)

/-- notifier.retry: `attempts := maxRetries - uint(event.Retries+1)`; returns when `attempts <= 0 || attempts >= maxRetries`
    (unsigned wrap-around makes the second test catch `Retries+1 > maxRetries`) -/
def retryAttempts (c : Cfg) (retries : Nat) : Option Nat :=
  if retries + 1 < c.maxRetries then some (c.maxRetries - (retries + 1)) else none

def spawn (c : Cfg) (σ : St) (s r retries : Nat) : St :=
  match retryAttempts c retries with
  | some a => { σ with running := σ.running ++ [{ sub := s, ref := r, left := a, n := 0, base := retries + 1 }] }
  | none => σ

/-- notifier.Notify (the event handed in by state.notify always has Retries = 0); returns crashed? -/
def notify (c : Cfg) (σ : St) (s : Nat) (ev : Nat × EvType) : St × Bool :=
  if c.sel s ev.1 ev.2 then
    match notifyNow c σ s ev.1 with
    | (σ', .nil) => (σ', false)
    | (σ', .fatal) => (σ', false)
    | (σ', .err) => (spawn c σ' s ev.1 0, false)
    -- only an EventFatal means "dropped": the notifier's own unrecoverable (storage) errors are rescheduled as well
    | (σ', .unrec) => (spawn c σ' s ev.1 0, false)
    | (σ', .crashed) => (σ', true)
  else (σ, false)

/-- state.notify: Range over the notifiers in `order` -/
def notifyAll (c : Cfg) (ev : Nat × EvType) : List Nat → St → St × Bool
  | [], σ => (σ, false)
  | s :: rest, σ =>
    match notify c σ s ev with
    | (σ', true) => (σ', true)
    | (σ', false) => notifyAll c ev rest σ'

def crashSt (σ : St) : St := { σ with running := [], pending := [] }

/-- run the oldest pending AfterCommit notification -/
def afterCommit (c : Cfg) (σ : St) (order : List Nat) : St :=
  match σ.pending with
  | [] => σ
  | ev :: rest =>
    match notifyAll c ev order { σ with pending := rest } with
    | (σ', true) => crashSt σ'
    | (σ', false) => σ'

/-- notifier.Save inside the write transaction: filters, then "only schedule new events" -/
def save (c : Cfg) (ev : Nat × EvType) (σ : St) (s : Nat) : St :=
  if c.sel s ev.1 ev.2 then
    match σ.shelf s ev.1 with
    | none => setJob σ s ev.1 (some { type := ev.2, retries := 0, err := .none })
    | some _ => σ
  else σ

/-- state.saveEvent -/
def saveEvent (c : Cfg) (σ : St) (ev : Nat × EvType) : St :=
  (List.range c.nSubs).foldl (save c ev) σ

structure AddArgs where
  ref : Nat
  withPayload : Bool := false
  reject : Bool := false       -- a verifier rejects (read phase)
  mismatch : Bool := false     -- payload does not hash to the transaction's payload hash
  commitFail : Bool := false   -- the commit fails / the node stops before commit
  failShelf : Option Nat := none  -- storage fault while writing THIS subscriber's job shelf inside the write transaction
  deriving DecidableEq, Repr, Inhabited

/-- does the storage fault on subscriber `failShelf`'s shelf hit the Save of event (ref, ty)?  (Save touches the shelf
    only after the filters accepted the event) -/
def shelfFaultHits (c : Cfg) (failShelf : Option Nat) (ref : Nat) (ty : EvType) : Bool :=
  match failShelf with
  | some f => decide (f < c.nSubs) && c.sel f ref ty
  | none => false

inductive Status where
  | ok | present | invalid | errVerify | errPayloadHash | errRoot | errCommit | errNotFound | skipped | errShelf
  deriving DecidableEq, Repr

/-- state.Add up to and including the commit; AfterCommit notifications are queued in `pending`.
    The bbolt write transaction is atomic, so every failure inside the closure (payload hash mismatch, second root
    in `graph.add`, failed commit) leaves the state unchanged, and the order of writes to different shelves is not
    observable: the model inserts the ref into the DAG first; the two `saveEvent`s keep their order
    (payload event first, they share the job key). -/
def addTx (c : Cfg) (σ : St) (a : AddArgs) : St × Status :=
  if a.ref ≥ c.nRefs then (σ, .invalid)
  else if a.ref ∈ σ.dag then (σ, .present)
  else if a.reject then (σ, .errVerify)
  else if a.withPayload && a.mismatch then (σ, .errPayloadHash)
  -- state.saveEvent stops at the first Save error and returns it: the whole write transaction is rolled back
  else if a.withPayload && shelfFaultHits c a.failShelf a.ref .payload then (σ, .errShelf)
  else if c.root a.ref && σ.dag.any c.root then (σ, .errRoot)
  else if shelfFaultHits c a.failShelf a.ref .tx then (σ, .errShelf)
  else if a.commitFail then (σ, .errCommit)
  else
    let σ1 := if a.withPayload then
        saveEvent c { σ with dag := a.ref :: σ.dag, payloads := c.phash a.ref :: σ.payloads, evented := a.ref :: σ.evented,
                             admitted := (a.ref, .payload) :: σ.admitted } (a.ref, .payload)
      else { σ with dag := a.ref :: σ.dag }
    let σ2 := saveEvent c { σ1 with admitted := (a.ref, .tx) :: σ1.admitted } (a.ref, .tx)
    ({ σ2 with pending := σ2.pending ++ ((a.ref, EvType.tx) :: (if a.withPayload then [(a.ref, EvType.payload)] else [])) }, .ok)

/-- handleTransactionPayload up to the commit of State.WritePayload: the transaction must be on the DAG;
    (fixed code) nothing happens when the payload event of this transaction was saved before; else save the payload
    event, the marker and the payload
    (one atomic write transaction) -/
def writePayload (c : Cfg) (σ : St) (ref : Nat) (commitFail : Bool) : St × Status :=
  if ref ∉ σ.dag then (σ, .errNotFound)
  else if commitFail then (σ, .errCommit)   -- also: a storage fault on one subscriber's shelf (saveEvent returns the error)
  else if c.skipPresent = true ∧ ref ∈ σ.evented then
    -- nothing is saved; AfterCommit: `if payloadWritten { s.notify(event) }`
    (if c.notifyGuarded then σ else { σ with pending := σ.pending ++ [(ref, EvType.payload)] }, .skipped)
  else
    let σ1 := saveEvent c { σ with payloads := c.phash ref :: σ.payloads, evented := ref :: σ.evented,
                                   admitted := (ref, .payload) :: σ.admitted } (ref, .payload)
    ({ σ1 with pending := σ1.pending ++ [(ref, EvType.payload)] }, .ok)

/-- Notifier.Finished called from outside the notifier; `fail` = the shelf write fails.
    Deleting a missing key changes nothing and is not recorded. -/
def finishedExt (σ : St) (s r : Nat) (fail : Bool) : St :=
  if fail then σ else
  match σ.shelf s r with
  | none => σ
  | some _ => log (setJob σ s r none) (.fin s r)

/-- the jobs Run replays: every job on the shelf, in key order, except those whose error ends in ContextURLNotAllowedErr -/
def runSnapshot (c : Cfg) (σ : St) (s : Nat) : List (Nat × Nat) :=
  (List.range c.nRefs).filterMap fun r =>
    match σ.shelf s r with
    | some j => if j.err = .ctx then none else some (r, j.retries)
    | none => none

/-- first loop of Run: synchronous notifyNow per job; remember failures whose (old) Retries < maxRetries -/
def runCalls (c : Cfg) (s : Nat) : List (Nat × Nat) → St → List (Nat × Nat) → St × List (Nat × Nat) × Bool
  | [], σ, acc => (σ, acc, false)
  | (r, ret) :: rest, σ, acc =>
    match notifyNow c σ s r with
    | (σ', .crashed) => (σ', acc, true)
    | (σ', .nil) => runCalls c s rest σ' acc
    | (σ', _) => runCalls c s rest σ' (if ret < c.maxRetries then acc ++ [(r, ret)] else acc)

def spawnAll (c : Cfg) (s : Nat) (failed : List (Nat × Nat)) (σ : St) : St :=
  failed.foldl (fun σ p => spawn c σ s p.1 p.2) σ

/-- notifier.Run -/
def runSub (c : Cfg) (σ : St) (s : Nat) : St × Bool :=
  match runCalls c s (runSnapshot c σ s) σ [] with
  | (σ1, _, true) => (σ1, true)
  | (σ1, failed, false) => (spawnAll c s failed σ1, false)

def runAll (c : Cfg) : List Nat → St → St × Bool
  | [], σ => (σ, false)
  | s :: rest, σ =>
    match runSub c σ s with
    | (σ', true) => (σ', true)
    | (σ', false) => runAll c rest σ'

/-- Network.Start: Run every notifier, in `order` -/
def restart (c : Cfg) (σ : St) (order : List Nat) : St :=
  match runAll c order σ with
  | (σ', true) => crashSt σ'
  | (σ', false) => σ'

def Task.isFor (s r : Nat) (t : Task) : Bool := t.sub == s && t.ref == r

/-- the timer of the oldest retry goroutine for (s, r) fires: one attempt of `retry.Do` -/
def fire (c : Cfg) (σ : St) (s r : Nat) : St :=
  match σ.running.find? (Task.isFor s r) with
  | none => σ
  | some t =>
    let σ0 := { σ with running := σ.running.erase t }
    match notifyNow c σ0 s r with
    | (σ', .crashed) => crashSt σ'
    | (σ', .nil) => σ'
    | (σ', .fatal) => σ'
    | (σ', .unrec) =>
      -- the notifier's own storage error: (before the repair) retry.Unrecoverable ends the loop; now it is an
      -- ordinary failed attempt
      if c.storageFaultEndsLoop || t.left ≤ 1 then σ'
      else { σ' with running := σ'.running ++ [{ t with left := t.left - 1, n := t.n + 1 }] }
    | (σ', .err) =>
      if t.left ≤ 1 then σ'
      else { σ' with running := σ'.running ++ [{ t with left := t.left - 1, n := t.n + 1 }] }

/-- GetFailedEvents -/
def failedEvents (c : Cfg) (σ : St) (s : Nat) : List Nat :=
  (List.range c.nRefs).filter fun r =>
    match σ.shelf s r with
    | some j => decide (j.retries ≥ c.failedThreshold)
    | none => false

inductive Op where
  | add (a : AddArgs)
  | afterCommit (order : List Nat)
  | writePayload (ref : Nat) (commitFail : Bool)
  | finishedExt (s r : Nat) (fail : Bool)
  | fire (s r : Nat)
  | crash
  | restart (order : List Nat)
  deriving Repr

def step (c : Cfg) (σ : St) : Op → St
  | .add a => (addTx c σ a).1
  | .afterCommit order => afterCommit c σ order
  | .writePayload r cf => (writePayload c σ r cf).1
  | .finishedExt s r f => finishedExt σ s r f
  | .fire s r => fire c σ s r
  | .crash => crashSt σ
  | .restart order => restart c σ order

def run (c : Cfg) (σ : St) (ops : List Op) : St := ops.foldl (step c) σ

/-! ### back-off (notifier.retry + retry-go BackOffDelay, MaxDelay) -/

/-- delay slept after the `n`-th failed attempt (n = 0, 1, …) of a retry loop started with `initialCount = base`,
    without the random jitter (`< retryDelay`): `min maxDelay (retryDelay · 2^base · 2^n)` -/
def backoff (retryDelay maxDelay base n : Nat) : Nat := min maxDelay (retryDelay * 2 ^ base * 2 ^ n)

/-! ### subscriber selection from filters -/

def selOf (subs : List (List Filter)) (pal : Nat → Bool) (ptype : Nat → String) (s r : Nat) (ty : EvType) : Bool :=
  match subs[s]? with
  | some fs => fs.all fun f => f.test (pal r) (ptype r) ty
  | none => false

end Nuts.C14
