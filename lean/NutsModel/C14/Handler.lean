/-
  C14 — network/transport/v2/handlers.go handleTransactionPayload as one function of the model: GetTransaction, payload hash check,
  State.WritePayload, and ONLY when that succeeded privatePayloadReceiver.Finished(ref). Core Lean only.
-/
import NutsModel.C14.Notifier
namespace Nuts.C14

/-- `priv`: index of the "private" notifier. `finFirst = false` is the order of the source (fact_payload_handler_sequence);
    `true` is the swapped order (Finished before WritePayload), kept to state the witness. Faults: `wpFail` = WritePayload's
    transaction fails / the node stops before its commit, `finFail` = the shelf write of Finished fails. -/
def handlePayload (c : Cfg) (priv : Nat) (finFirst : Bool) (σ : St) (ref : Nat) (mismatch wpFail finFail : Bool) : St × Status :=
  if ref ∉ σ.dag then (σ, .errNotFound)
  else if mismatch then (σ, .errPayloadHash)
  else if finFirst then
    if finFail then (σ, .errCommit) else writePayload c (finishedExt σ priv ref false) ref wpFail
  else
    match writePayload c σ ref wpFail with
    | (σ1, .ok) => (finishedExt σ1 priv ref finFail, .ok)
    | (σ1, .skipped) => (finishedExt σ1 priv ref finFail, .skipped)
    | (σ1, st) => (σ1, st)

end Nuts.C14
