/-
  C12 — the presenter's VP-format negotiation (vcr/holder/presenter.go buildSubmission, first half):
    vcr/credential/formats.go  Formats.Match / normalizeFormat / normalizeParameter(s), DIFClaimFormats, OpenIDSupportedFormats
    vcr/pe/format.go           ChooseVPFormat (NutsModel/C12/Consumer.lean)
  Go maps are association lists with distinct keys (the harness never generates two parameters that normalise to the
  same name, the one place where Go's iteration order would show); a nil map is `none`.  Core Lean only.
-/
import NutsModel.C12.Consumer

namespace Nuts.C12
open Nuts

abbrev PMap := List (String × List String)
abbrev FMap := List (String × PMap)

/-- `credential.Formats` -/
structure Fmts where
  map : Option FMap := none
  paramAliases : List (String × String) := []
  formatAliases : Option (List (String × String)) := none   -- nil map vs. allocated map: `Match` tests `aliases == nil`
  deriving Repr, Inhabited

/-- `DIFClaimFormats` -/
def difClaimFormats (m : Option FMap) : Fmts :=
  { map := m, paramAliases := [], formatAliases := some [("jwt_vp_json", "jwt_vp"), ("jwt_vc_json", "jwt_vc")] }

/-- `OpenIDSupportedFormats` -/
def openIDSupportedFormats (m : Option FMap) : Fmts :=
  { map := m, paramAliases := [("alg_values_supported", "alg"), ("proof_type_values_supported", "proof_type")], formatAliases := none }

def Fmts.normalizeParameter (f : Fmts) (p : String) : String :=
  match alGet f.paramAliases p with | some a => a | none => p

def Fmts.normalizeFormat (f : Fmts) (x : String) : String :=
  match f.formatAliases with
  | some al => (match alGet al x with | some a => a | none => x)
  | none => x

/-- the loop of `normalizeParameters` -/
def normalizeLoop (f : Fmts) (acc : PMap) : PMap → PMap
  | [] => acc
  | (p, vs) :: rest => normalizeLoop f (alPut acc (f.normalizeParameter p) vs) rest

def Fmts.normalizeParameters (f : Fmts) : Option PMap → Option PMap
  | none => none
  | some ps => some (normalizeLoop f [] ps)

/-- Go: indexing a nil map yields the zero value -/
def fmapGet (m : Option FMap) (k : String) : Option PMap :=
  match m with | none => none | some l => alGet l k

/-- the two innermost loops: `thisValue` is appended once per equal `otherValue` -/
def valuesBoth (thisValues otherValues : List String) : List String :=
  thisValues.flatMap (fun tv => (otherValues.filter (fun ov => tv == ov)).map (fun _ => tv))

/-- the parameter loop for one format (entries that end up empty are deleted again) -/
def matchParams (other : PMap) (acc : PMap) : PMap → PMap
  | [] => acc
  | (p, vs) :: rest =>
    match alGet other p with
    | none => matchParams other acc rest
    | some ovs =>
      let r := valuesBoth vs ovs
      if r.isEmpty then matchParams other (alDel acc p) rest else matchParams other (alPut acc p r) rest

/-- the format loop of `Match` -/
def matchFormats (f other : Fmts) (acc : FMap) : FMap → FMap
  | [] => acc
  | (fmt, ps) :: rest =>
    match other.normalizeParameters (fmapGet other.map (other.normalizeFormat fmt)) with
    | none => matchFormats f other acc rest
    | some ops =>
      let r := matchParams ops [] (normalizeLoop f [] ps)
      if r.isEmpty then matchFormats f other (alDel acc fmt) rest else matchFormats f other (alPut acc fmt r) rest

/-- `Formats.Match` -/
def Fmts.matchWith (f other : Fmts) : Fmts :=
  { map := some (matchFormats f other [] (match f.map with | some m => m | none => [])),
    paramAliases := [],
    formatAliases := (match f.formatAliases with | some a => some a | none => other.formatAliases) }

def Fmts.keys (f : Fmts) : List String := match f.map with | some m => m.map (·.1) | none => []

/-- the format selection of `presenter.buildSubmission`: node defaults ∩ verifier metadata ∩ (optional) definition
    format, then `ChooseVPFormat`; "" = "don't share a supported VP format" -/
def presenterFormat (prefs : List (String × String)) (defaults : FMap) (verifier : Option FMap) (pdFormat : Option FMap) : String :=
  let c := (openIDSupportedFormats (some defaults)).matchWith (openIDSupportedFormats verifier)
  let c := match pdFormat with | some pf => c.matchWith (difClaimFormats (some pf)) | none => c
  chooseVPFormat prefs c.keys

end Nuts.C12
