/-
  C12 — Presentation Exchange (vcr/pe).  Executable model, core Lean only.

  Mirrors (function by function, with the Go control flow as written):
    presentation_definition.go : Match, matchConstraints, matchBasic, matchSubmissionRequirements, groups,
                                 matchFormat, matchCredential, matchConstraint, matchField, getValueAtPath,
                                 matchFilter, deduplicate, vcEqual, ResolveConstraintsFields, CredentialsRequired
    submission_requirement.go  : groups, match, from, fromNested, apply, selectable.empty/flatten
    presentation_submission.go : Build, Resolve, resolveCredential, Validate

  Contracts (data supplied by the harness, parameters of the model — never axioms):
    * `re`      : regexp2 (ECMAScript) on (pattern, input): compile error / run error / no match /
                  whole match (1 group) / single capture (2 groups) / more groups
    * JSONPath  : the subset `$`, `.key`, `['key']`, `[n]`, trailing `[*]`, evaluated by `getPath`
    * go-did    : a credential is {format, json.Marshal identity `key`, `Raw()`, its map view `tree`,
                  proof types / JWS alg, selectable.empty()}; `decode` = vc.ParseVerifiableCredential /
                  ParseVerifiablePresentation on a value found in the envelope.

  The places where today's source differs from the source the design was written against are facts (`Cfg`),
  regenerated from /repo: `arrayGuard` (matchFilter leaves the array case unless the filter asks for an array),
  `maxNilCheck` (apply tests `Max != nil` before dereferencing), `dupCheck` (Resolve rejects a second entry for the
  same input descriptor), `maxCheckFirst` and `minMaxCheck` (apply honours `max: 0` and rejects `min > max`).
-/
import NutsModel.Base

namespace Nuts.C12
open Nuts

/-! ### JSON values (what `encoding/json` puts in an `interface{}`) -/

inductive J where
  | null
  | bool (b : Bool)
  | num (s : String)          -- float64; only its *type* is ever inspected by vcr/pe
  | str (s : String)
  | arr (l : List J)
  | obj (kv : List (String × J))
  deriving Repr, Inhabited

/-- structural facts regenerated from the source -/
structure Cfg where
  /-- `matchFilter`: after the element loop of the `[]interface{}` case the function returns "no match"
      unless `filter.Type == "array"` (old code: falls through to the const/pattern/type tail) -/
  arrayGuard : Bool
  /-- `apply`: `Max` is tested for nil before `*Max` (old code: dereferences unconditionally) -/
  maxNilCheck : Bool
  /-- `Resolve`: a descriptor-map entry whose id was already resolved is an error (old code: the later entry
      silently replaces the earlier one) -/
  dupCheck : Bool
  /-- `apply`: the "take max" loop tests `index == *Max` BEFORE taking a member (old code: after, so `max: 0`
      took every selectable member) -/
  maxCheckFirst : Bool
  /-- `apply`: a `pick` rule with `min > max` is reported as not fulfillable (old code: returned `max` members) -/
  minMaxCheck : Bool
  /-- `Match` / `ResolveConstraintsFields` reject a definition with nil input descriptors or submission requirements
      (JSON `null` entries of a definition that was unmarshalled without schema validation) and `CredentialsRequired`
      skips them (old code: nil pointer dereference) -/
  nilCheck : Bool
  deriving Repr, DecidableEq

def Cfg.fixed : Cfg := { arrayGuard := true, maxNilCheck := true, dupCheck := true, maxCheckFirst := true, minMaxCheck := true, nilCheck := true }
def Cfg.old : Cfg := { arrayGuard := false, maxNilCheck := false, dupCheck := false, maxCheckFirst := false, minMaxCheck := false, nilCheck := false }

/-! ### JSONPath subset -/

inductive Step where
  | key (k : String)
  | idx (n : Nat)
  deriving Repr, DecidableEq, Inhabited

/-- a path of the generated subset: plain steps, optionally followed by one trailing `[*]` -/
structure Path where
  steps : List Step
  wild : Bool := false
  deriving Repr, DecidableEq, Inhabited

def objGet : List (String × J) → String → Option J
  | [], _ => none
  | (k, v) :: rest, q => if k == q then some v else objGet rest q

/-- `jsonpath.Get` on plain steps. `none` = "unknown key" / "unsupported value type" / "expected number" /
    index out of range (the library returns nil without error). -/
def getPlain : List Step → J → Option J
  | [], v => some v
  | .key k :: rest, .obj kv => (objGet kv k).bind (getPlain rest)
  | .key _ :: _, _ => none
  | .idx n :: rest, .arr l => (l[n]?).bind (getPlain rest)
  | .idx n :: rest, .obj kv => (objGet kv (toString n)).bind (getPlain rest)
  | .idx _ :: _, _ => none

/-- with a trailing `[*]` the library evaluates in "all matches" mode: the result is always an array — the
    elements of the array found (nulls kept), the values of an object (Go map order; not generated), and the
    EMPTY array when the prefix does not resolve or resolves to a scalar/null (errors are dropped). -/
def getPath (p : Path) (v : J) : Option J :=
  if p.wild then
    match getPlain p.steps v with
    | some (.arr l) => some (.arr l)
    | some (.obj kv) => some (.arr (kv.map (·.2)))
    | _ => some (.arr [])
  else getPlain p.steps v

/-- `getValueAtPath`: a JSON `null` at the path is "no value" as well (`value == nil`) -/
def getValueAtPath (p : Path) (v : J) : Option J :=
  match getPath p v with
  | some .null => none
  | r => r

/-! ### Filters -/

/-- regexp2 contract -/
inductive ReRes where
  | compileErr | runErr | noMatch
  | whole (s : String)        -- len(Groups()) == 1
  | cap (s : String)          -- len(Groups()) == 2
  | many
  deriving Repr, DecidableEq, Inhabited

abbrev Regex := String → String → ReRes

structure Filter where
  type : String
  const : Option String := none
  enum : Option (List String) := none      -- Go: `filter.Enum != nil`
  pattern : Option String := none
  deriving Repr, DecidableEq, Inhabited

/-- `value != *filter.Const` compares interfaces: only a string value can equal the constant -/
def constOK (c : Option String) (v : J) : Bool :=
  match c, v with
  | none, _ => true
  | some cv, .str s => s == cv
  | some _, _ => false

/-- the pattern branch: `re.FindStringMatch(value.(string))` and the capture-group rule -/
def patternTail (re : Regex) (pat : String) (v : J) : Res (Option J) :=
  match v with
  | .str s =>
    match re pat s with
    | .compileErr => .err "regex"
    | .runErr => .err "regex"
    | .noMatch => .ok none
    | .whole m => .ok (some (.str m))
    | .cap m => .ok (some (.str m))
    | .many => .err "regex-groups"
  | _ => .panic "type-assert"          -- value.(string)

/-- the tail of `matchFilter` (after the type switch): const, pattern, type-only -/
def filterTail (re : Regex) (ty : String) (c p : Option String) (v : J) : Res (Option J) :=
  if !constOK c v then .ok none else
  match p with
  | some pat => if ty == "string" then patternTail re pat v else .ok (some v)
  | none => .ok (some v)

mutual
/-- `matchFilter` for a filter without `enum` -/
def matchCore (cfg : Cfg) (re : Regex) (ty : String) (c p : Option String) : J → Res (Option J)
  | .str s => if ty != "string" then .ok none else filterTail re ty c p (.str s)
  | .num s => if ty != "number" then .ok none else filterTail re ty c p (.num s)
  | .bool b => if ty != "boolean" then .ok none else filterTail re ty c p (.bool b)
  | .arr l =>
    match matchAny cfg re ty c p l with
    | .ok true => .ok (some (.arr l))
    | .ok false => if cfg.arrayGuard && ty != "array" then .ok none else filterTail re ty c p (.arr l)
    | .err e => .err e
    | .panic s => .panic s
  | .null => .err "unsupported"
  | .obj _ => .err "unsupported"
/-- the element loop of the `[]interface{}` case -/
def matchAny (cfg : Cfg) (re : Regex) (ty : String) (c p : Option String) : List J → Res Bool
  | [] => .ok false
  | e :: es =>
    match matchCore cfg re ty c p e with
    | .ok (some _) => .ok true
    | .ok none => matchAny cfg re ty c p es
    | .err e => .err e
    | .panic s => .panic s
end

/-- the `enum` loop: `matchFilter(Filter{Type:"string", Const:&enum}, value)`, errors ignored -/
def matchEnum (cfg : Cfg) (re : Regex) (v : J) : List String → Res (Option J)
  | [] => .ok none
  | e :: es =>
    match matchCore cfg re "string" (some e) none v with
    | .ok (some x) => .ok (some x)
    | .panic s => .panic s
    | _ => matchEnum cfg re v es

def matchFilter (cfg : Cfg) (re : Regex) (f : Filter) (v : J) : Res (Option J) :=
  match f.enum with
  | some es => matchEnum cfg re v es
  | none => matchCore cfg re f.type f.const f.pattern v

/-! ### Fields, constraints -/

structure Field where
  id : Option String := none
  optional : Bool := false                  -- `Optional != nil && *Optional`
  paths : List (Option Path) := []   -- `none` = a path jsonpath cannot parse
  filter : Option Filter := none
  deriving Repr, Inhabited

/-- result of `matchField` -/
inductive FM where
  | no
  | yes (v : Option J)                      -- `nil` value when an optional field is absent
  deriving Repr, Inhabited

/-- the path loop of `matchField`; `inv` = `optionalInvalid > 0` -/
def matchFieldLoop (cfg : Cfg) (re : Regex) (f : Field) (tree : J) : Bool → List (Option Path) → Res FM
  | inv, [] => if f.optional && !inv then .ok (.yes none) else .ok .no
  | _, none :: _ => .err "jsonpath"
  | inv, some p :: ps =>
    match getValueAtPath p tree with
    | none => matchFieldLoop cfg re f tree inv ps
    | some v =>
      match f.filter with
      | none => .ok (.yes (some v))
      | some flt =>
        match matchFilter cfg re flt v with
        | .ok (some x) => .ok (.yes (some x))
        | .ok none => matchFieldLoop cfg re f tree true ps
        | .err e => .err e
        | .panic s => .panic s

def matchField (cfg : Cfg) (re : Regex) (f : Field) (tree : J) : Res FM :=
  matchFieldLoop cfg re f tree false f.paths

abbrev Values := List (String × Option J)

/-- the field loop of `matchConstraint`; `none` = some field did not match -/
def matchConstraintLoop (cfg : Cfg) (re : Regex) (tree : J) : Values → List Field → Res (Option Values)
  | vals, [] => .ok (some vals)
  | vals, f :: fs =>
    match matchField cfg re f tree with
    | .ok .no => .ok none
    | .ok (.yes v) =>
      matchConstraintLoop cfg re tree (match f.id with | some i => alPut vals i v | none => vals) fs
    | .err e => .err e
    | .panic s => .panic s

/-! ### Credentials, formats -/

structure Cred where
  name : String := ""            -- harness label (not used by the model)
  fmt : String := ""             -- `Format()`: "ldp_vc", "jwt_vc" or "" (holder credential)
  key : String := ""             -- `json.Marshal(vc)` (what `vcEqual` compares)
  raw : String := ""             -- `Raw()`
  tree : J := .obj []            -- `remarshalToMap` view used by matchConstraint
  proofTypes : List String := [] -- `Proofs()[i].Type`
  nproof : Nat := 0              -- `len(credential.Proof)`
  alg : String := ""             -- JWS `alg` header
  sigEmpty : Bool := false       -- `len(Signature()) == 0`
  selEmpty : Bool := false       -- `selectableVC.empty()`
  deriving Repr, Inhabited

/-- `PresentationDefinitionClaimFormatDesignations` as association lists (only non-nil entries listed) -/
abbrev Formats := List (String × List (String × List String))

def matchFormat (format : Option Formats) (c : Cred) : Bool :=
  match format with
  | none => true
  | some [] => true
  | some fm =>
    if c.fmt == "" then true
    else if c.fmt == "ldp_vc" then
      match alGet fm "ldp_vc" with
      | none => false
      | some entry =>
        if c.nproof == 0 then true
        else match alGet entry "proof_type" with
          | none => false
          | some pts => pts.any (fun pt => c.proofTypes.contains pt)
    else if c.fmt == "jwt_vc" then
      match alGet fm "jwt_vc" with
      | none => false
      | some entry =>
        if c.sigEmpty then true
        else match alGet entry "alg" with
          | none => false
          | some algs => algs.any (fun a => a == c.alg)
    else false

structure Desc where
  id : String
  name : String := ""
  group : List String := []
  format : Option Formats := none
  constraints : Option (List Field) := none
  deriving Repr, Inhabited

def matchConstraint (cfg : Cfg) (re : Regex) (fields : List Field) (c : Cred) : Res (Option Values) :=
  matchConstraintLoop cfg re c.tree [] fields

def matchCredential (cfg : Cfg) (re : Regex) (d : Desc) (c : Cred) : Res Bool :=
  match d.constraints with
  | none => .ok true
  | some fields =>
    match matchConstraint cfg re fields c with
    | .ok r => .ok r.isSome
    | .err e => .err e
    | .panic s => .panic s

/-! ### Submission requirements -/

inductive SR where
  | mk (name rule : String) (count min max : Option Nat) (frm : String) (nested : List SR)
  deriving Repr, Inhabited

def SR.rule : SR → String | .mk _ r _ _ _ _ _ => r
def SR.count : SR → Option Nat | .mk _ _ c _ _ _ _ => c
def SR.min : SR → Option Nat | .mk _ _ _ m _ _ _ => m
def SR.max : SR → Option Nat | .mk _ _ _ _ m _ _ => m
def SR.frm : SR → String | .mk _ _ _ _ _ f _ => f
def SR.nested : SR → List SR | .mk _ _ _ _ _ _ n => n

structure PD where
  id : String := ""
  format : Option Formats := none
  descs : List Desc := []
  srs : List SR := []
  deriving Repr, Inhabited

/-- a member of the list `apply` works on: `none` = `empty()`; `some l` = `flatten()` -/
abbrev Member := Option (List Cred)

/-- `for _, member := range list { if !member.empty() {append; i++}; if i == lim {break} }` -/
def takeLoop (lim : Nat) : Nat → List Member → List Cred
  | _, [] => []
  | i, some l :: ms => if i + 1 == lim then l else l ++ takeLoop lim (i + 1) ms
  | i, none :: ms => if i == lim then [] else takeLoop lim i ms

/-- `for _, member := range list { if i == lim {break}; if !member.empty() {append; i++} }` -/
def takeLoopPre (lim : Nat) : Nat → List Member → List Cred
  | _, [] => []
  | i, some l :: ms => if i == lim then [] else l ++ takeLoopPre lim (i + 1) ms
  | i, none :: ms => if i == lim then [] else takeLoopPre lim i ms

def flattenAll : List Member → List Cred
  | [] => []
  | some l :: ms => l ++ flattenAll ms
  | none :: ms => flattenAll ms

def selectableCount (l : List Member) : Nat := (l.filter Option.isSome).length

/-- `submissionRequirement.Min != nil && selectableCount < *submissionRequirement.Min` -/
def belowMin (min : Option Nat) (n : Nat) : Bool :=
  match min with
  | some m => decide (n < m)
  | none => false

/-- `Min != nil && Max != nil && *Max < *Min` -/
def minAboveMax (min max : Option Nat) : Bool :=
  match min, max with
  | some a, some b => decide (b < a)
  | _, _ => false

/-- the last loop of `apply` ("take max"): `index == *submissionRequirement.Max` -/
def applyMax (cfg : Cfg) (list : List Member) (max : Option Nat) : Res (List Cred) :=
  match max with
  | some m => .ok (if cfg.maxCheckFirst then takeLoopPre m 0 list else takeLoop m 0 list)
  | none =>
    if cfg.maxNilCheck then .ok (flattenAll list)
    else if list.isEmpty then .ok [] else .panic "nil-deref"     -- `*submissionRequirement.Max`

/-- `apply` -/
def apply (cfg : Cfg) (list : List Member) (rule : String) (count min max : Option Nat) : Res (List Cred) :=
  if rule == "all" then
    if selectableCount list != list.length then .err "nocred" else .ok (flattenAll list)
  else
  match count with
  | some c => if selectableCount list < c then .err "nocred" else .ok (takeLoop c 0 list)
  | none =>
    if cfg.minMaxCheck && minAboveMax min max then .err "nocred"
    else if belowMin min (selectableCount list) then .err "nocred" else applyMax cfg list max

/-- a candidate: the input descriptor and the first credential of the wallet that matches it -/
abbrev Cand := Desc × Option Cred

/-- `availableGroups[g].Candidates`: a candidate is appended once per occurrence of `g` in its `group` list -/
def groupMembers (cands : List Cand) (g : String) : List Cand :=
  cands.flatMap (fun c => (c.1.group.filter (· == g)).map (fun _ => c))

def fromMember (c : Cand) : Member :=
  match c.2 with
  | some v => if v.selEmpty then none else some [v]
  | none => none

mutual
/-- `SubmissionRequirement.match` -/
def SR.matchSR (cfg : Cfg) (cands : List Cand) : SR → Res (List Cred)
  | .mk _ rule count min max frm nested =>
    if frm != "" && !nested.isEmpty then .err "sr-both"
    else if frm == "" && nested.isEmpty then .err "sr-missing"
    else if !(rule == "all" || rule == "pick") then .err "sr-rule"
    else if !nested.isEmpty then
      match SR.nestedMembers cfg cands nested with
      | .ok ms => apply cfg ms rule count min max
      | .err e => .err e
      | .panic s => .panic s
    else apply cfg ((groupMembers cands frm).map fromMember) rule count min max
/-- the loop of `fromNested`: errors of a nested requirement leave an empty member, panics propagate -/
def SR.nestedMembers (cfg : Cfg) (cands : List Cand) : List SR → Res (List Member)
  | [] => .ok []
  | s :: ss =>
    match SR.matchSR cfg cands s with
    | .panic p => .panic p
    | r =>
      let m : Member := match r with
        | .ok [] => none
        | .ok l => some l
        | _ => none
      match SR.nestedMembers cfg cands ss with
      | .ok ms => .ok (m :: ms)
      | .err e => .err e
      | .panic p => .panic p
end

mutual
/-- `SubmissionRequirement.groups` (as a list; the Go code sorts and compacts, the result is used as a set) -/
def SR.groups : SR → List String
  | .mk _ _ _ _ _ frm nested => (if frm != "" then [frm] else []) ++ SR.groupsL nested
def SR.groupsL : List SR → List String
  | [] => []
  | s :: ss => SR.groups s ++ SR.groupsL ss
end

mutual
/-- what the JSON schema (`schema/v2/submission-requirement.json`, see `fact_sr_schema`) guarantees about a parsed
    submission requirement: rule `all`/`pick`, `count ≥ 1`, exactly one of `from` / `from_nested` (non-empty) -/
def SR.wf : SR → Bool
  | .mk _ rule count _ _ frm nested =>
    (rule == "all" || rule == "pick") && count != some 0 && ((frm != "") != (!nested.isEmpty)) && SR.wfL nested
def SR.wfL : List SR → Bool
  | [] => true
  | s :: ss => SR.wf s && SR.wfL ss
end

/-! ### Match -/

/-- the credential loop of `matchConstraints` for one descriptor -/
def firstMatch (cfg : Cfg) (re : Regex) (pd : PD) (d : Desc) : List Cred → Res (Option Cred)
  | [] => .ok none
  | c :: cs =>
    match matchCredential cfg re d c with
    | .ok true => if matchFormat pd.format c && matchFormat d.format c then .ok (some c) else firstMatch cfg re pd d cs
    | .ok false => firstMatch cfg re pd d cs
    | .err e => .err e
    | .panic s => .panic s

def matchConstraints (cfg : Cfg) (re : Regex) (pd : PD) (wallet : List Cred) : List Desc → Res (List Cand)
  | [] => .ok []
  | d :: ds =>
    match firstMatch cfg re pd d wallet with
    | .ok c =>
      (match matchConstraints cfg re pd wallet ds with
       | .ok r => .ok ((d, c) :: r)
       | .err e => .err e
       | .panic s => .panic s)
    | .err e => .err e
    | .panic s => .panic s

/-- one level of an `InputDescriptorMappingObject`. Paths are kept parsed (`none` = jsonpath cannot parse it);
    rendering/parsing of the path text is done by the driver and tied by `fact_mapping_paths`. -/
structure Level where
  id : String
  fmt : String
  path : Option Path
  deriving Repr, DecidableEq, Inhabited

/-- `InputDescriptorMappingObject`: the top level and the chain of `path_nested` levels below it -/
structure Mapping where
  top : Level
  nested : List Level := []
  deriving Repr, DecidableEq, Inhabited

def Mapping.id (m : Mapping) : String := m.top.id

/-- `fmt.Sprintf("$.verifiableCredential[%d]", index)` -/
def vcPath (i : Nat) : Path := { steps := [.key "verifiableCredential", .idx i] }
/-- `"$.verifiableCredential"` (the single-mapping rewrite in `Build`) -/
def vcPathSingle : Path := { steps := [.key "verifiableCredential"] }

def mkMapping (id fmt : String) (i : Nat) : Mapping := { top := { id := id, fmt := fmt, path := some (vcPath i) } }

/-- the final loop of `matchBasic` (all candidates have a credential) -/
def basicMappings : Nat → List Cand → List Mapping × List Cred
  | _, [] => ([], [])
  | i, (d, some c) :: rest =>
    let r := basicMappings (i + 1) rest
    (mkMapping d.id c.fmt i :: r.1, c :: r.2)
  | i, (_, none) :: rest => basicMappings i rest     -- unreachable: checked before

def matchBasic (cfg : Cfg) (re : Regex) (pd : PD) (wallet : List Cred) : Res (List Mapping × List Cred) :=
  match matchConstraints cfg re pd wallet pd.descs with
  | .ok cands =>
    if cands.any (fun c => c.2.isNone) then .err "nocred"
    else .ok (basicMappings 0 cands)
  | .err e => .err e
  | .panic s => .panic s

/-- `deduplicate` (by `vcEqual`, i.e. `json.Marshal` equality) -/
def dedup : List Cred → List Cred → List Cred
  | acc, [] => acc
  | acc, c :: cs => if acc.any (fun e => e.key == c.key) then dedup acc cs else dedup (acc ++ [c]) cs

def srSelect (cfg : Cfg) (cands : List Cand) : List SR → Res (List Cred)
  | [] => .ok []
  | s :: ss =>
    match SR.matchSR cfg cands s with
    | .ok l =>
      (match srSelect cfg cands ss with
       | .ok r => .ok (l ++ r)
       | .err e => .err e
       | .panic p => .panic p)
    | .err e => .err e
    | .panic p => .panic p

/-- the `outer:` loop of `matchSubmissionRequirements` -/
def srMappings (cands : List Cand) : Nat → List Cred → List Mapping
  | _, [] => []
  | i, u :: us =>
    match cands.find? (fun c => match c.2 with | some v => v.key == u.key | none => false) with
    | some (d, some v) => mkMapping d.id v.fmt i :: srMappings cands (i + 1) us
    | _ => srMappings cands i us

def matchSubmissionRequirements (cfg : Cfg) (re : Regex) (pd : PD) (wallet : List Cred) : Res (List Mapping × List Cred) :=
  match matchConstraints cfg re pd wallet pd.descs with
  | .ok cands =>
    let available := SR.groupsL pd.srs
    if pd.descs.any (fun d => d.group.any (fun g => !available.contains g)) then .err "group"
    else
      match srSelect cfg cands pd.srs with
      | .ok sel =>
        let uniq := dedup [] sel
        .ok (srMappings cands 0 uniq, uniq)
      | .err e => .err e
      | .panic p => .panic p
  | .err e => .err e
  | .panic s => .panic s

/-- `PresentationDefinition.Match` -/
def pdMatch (cfg : Cfg) (re : Regex) (pd : PD) (wallet : List Cred) : Res (List Mapping × List Cred) :=
  if !pd.srs.isEmpty then matchSubmissionRequirements cfg re pd wallet
  else matchBasic cfg re pd wallet

/-- `CredentialsRequired` -/
def credentialsRequired (pd : PD) : Bool :=
  let rec go : List SR → Option Bool
    | [] => none
    | s :: ss =>
      if s.rule == "all" then some true
      else if s.rule == "pick" && (match s.min with | some m => decide (m > 0) | none => false) then some true
      else go ss
  match go pd.srs with
  | some b => b
  | none => !pd.descs.isEmpty

/-! ### Build (wallet side) -/

/-- the wallet loop of `Build`: the first wallet whose `Match` succeeds; errors are collected, panics propagate -/
def firstWallet (cfg : Cfg) (re : Regex) (pd : PD) : List (List Cred) → Res (Option (List Mapping × List Cred))
  | [] => .ok none
  | w :: ws =>
    match pdMatch cfg re pd w with
    | .ok r => .ok (some r)
    | .err _ => firstWallet cfg re pd ws
    | .panic s => .panic s

/-- `if len(signInstruction.Mappings) == 1 { Mappings[0].Path = "$.verifiableCredential" }` -/
def rewriteSingle : List Mapping → List Mapping
  | [m] => [{ m with top := { m.top with path := some vcPathSingle } }]
  | ms => ms

/-- `PresentationSubmissionBuilder.Build`: the sign instruction (mappings = descriptor map of the submission, credentials) -/
def build (cfg : Cfg) (re : Regex) (pd : PD) (wallets : List (List Cred)) : Res (List Mapping × List Cred) :=
  match firstWallet cfg re pd wallets with
  | .ok (some (ms, vcs)) => .ok (rewriteSingle ms, vcs)
  | .ok none =>
    if credentialsRequired pd then .err "nomatch"
    else if wallets.isEmpty then .panic "index"       -- `b.holders[0]`
    else .ok ([], [])
  | .err e => .err e
  | .panic s => .panic s

/-! ### Resolve / Validate (verifier side) -/

/-- go-did contract: what `ParseVerifiableCredential` / `ParseVerifiablePresentation` make of a value found in the
    envelope. `cred` is set when the value decodes to a credential; `asMap` is the `json.Marshal`→map view used to
    evaluate `path_nested` (absent when the decoded value marshals to a JSON string, i.e. JWT). -/
structure Decoded where
  cred : Option Cred := none
  asMap : Option J := none
  deriving Repr, Inhabited

abbrev Decoder := J → String → Option Decoded

/-- one level of `resolveCredential`: evaluate the path, switch on the kind of value, decode with the level's format -/
def resolveStep (decode : Decoder) (lv : Level) (value : J) : Res Decoded :=
  match lv.path with
  | none => .err "resolve"
  | some p =>
    match getPath p value with
    | none => .err "resolve"
    | some target =>
      let decoded : Option Decoded :=
        match target with
        | .str _ => if lv.fmt == "jwt_vc" || lv.fmt == "jwt_vp" then decode target lv.fmt else none
        | .obj _ => if lv.fmt == "ldp_vc" || lv.fmt == "ldp_vp" then decode target lv.fmt else none
        | _ => none
      match decoded with
      | none => .err "resolve"
      | some d => .ok d

/-- `resolveCredential`: one level, then the `path_nested` chain (evaluated on the decoded value's map view) -/
def resolveLevels (decode : Decoder) : List Level → Level → J → Res Cred
  | [], lv, value =>
    match resolveStep decode lv value with
    | .ok d => (match d.cred with | some c => .ok c | none => .err "resolve")
    | .err e => .err e
    | .panic s => .panic s
  | nx :: rest, lv, value =>
    match resolveStep decode lv value with
    | .ok d => resolveLevels decode rest nx (match d.asMap with | some m => m | none => .null)
    | .err e => .err e
    | .panic s => .panic s

def resolveCredential (decode : Decoder) (m : Mapping) (value : J) : Res Cred :=
  resolveLevels decode m.nested m.top value

/-- `PresentationSubmission.Resolve`: input-descriptor id ↦ credential (a later entry with the same id overwrites) -/
def resolve (cfg : Cfg) (decode : Decoder) (env : J) : List (String × Cred) → List Mapping → Res (List (String × Cred))
  | acc, [] => .ok acc
  | acc, m :: ms =>
    if cfg.dupCheck && (alGet acc m.id).isSome then .err "resolve" else
    match resolveCredential decode m env with
    | .ok c => resolve cfg decode env (alPut acc m.id c) ms
    | .err e => .err e
    | .panic s => .panic s

structure Envelope where
  asInterface : J := .null
  presentations : List (List Cred) := []     -- `VerifiableCredential` of each parsed presentation
  signerOK : List Bool := []                 -- `credential.PresentationSigner` succeeded, per presentation
  deriving Repr, Inhabited

/-- `expectedCredentials[mapping.Id] = signInstruction.VerifiableCredentials[i]` (an index out of range panics) -/
def expectedMap : List (String × Cred) → List Mapping → List Cred → Res (List (String × Cred))
  | acc, [], _ => .ok acc
  | _, _ :: _, [] => .panic "index"
  | acc, m :: ms, c :: cs => expectedMap (alPut acc m.id c) ms cs

/-- the comparison loop of `Validate` -/
def sameMapping (actual : List (String × Cred)) : List (String × Cred) → Bool
  | [] => true
  | (id, c) :: rest =>
    (match alGet actual id with
     | some a => a.raw == c.raw
     | none => "" == c.raw) && sameMapping actual rest

/-- `PresentationSubmission.Validate` -/
def validate (cfg : Cfg) (re : Regex) (decode : Decoder) (pd : PD) (env : Envelope) (sub : List Mapping) : Res (List (String × Cred)) :=
  match resolve cfg decode env.asInterface [] sub with
  | .err _ => .err "resolve"
  | .panic s => .panic s
  | .ok actual =>
    if env.presentations.isEmpty then
      if credentialsRequired pd then .err "empty-required" else .ok []
    else if env.signerOK.any (fun b => !b) then .err "signer"
    else
      match build cfg re pd env.presentations with
      | .err _ => .err "build"
      | .panic s => .panic s
      | .ok (ms, vcs) =>
        match expectedMap [] ms vcs with
        | .err e => .err e
        | .panic s => .panic s
        | .ok expected =>
          if actual.length != expected.length then .err "count"
          else if !sameMapping actual expected then .err "mapping"
          else .ok expected

/-! ### ResolveConstraintsFields -/

/-- `ResolveConstraintsFields`; `credMap` lists the Go map `credentialMap` in the order it is iterated -/
def resolveFields (cfg : Cfg) (re : Regex) (pd : PD) : Values → List (String × Cred) → Res Values
  | acc, [] => .ok acc
  | acc, (id, c) :: rest =>
    match pd.descs.find? (fun d => d.id == id) with
    | none => resolveFields cfg re pd acc rest
    | some d =>
      match d.constraints with
      | none => resolveFields cfg re pd acc rest
      | some fields =>
        match matchConstraint cfg re fields c with
        | .ok (some vals) => resolveFields cfg re pd (vals.foldr (fun kv a => alPut a kv.1 kv.2) acc) rest
        | .ok none => resolveFields cfg re pd acc rest
        | .err e => .err e
        | .panic s => .panic s

/-! ### Definitions as Go holds them: list entries are pointers and may be nil -/

/-- `PresentationDefinition` with `[]*InputDescriptor` / `[]*SubmissionRequirement` entries that may be nil;
    `nestedNull`: some `from_nested` list (at any depth) holds a nil -/
structure RawPD where
  id : String := ""
  format : Option Formats := none
  descs : List (Option Desc) := []
  srs : List (Option SR) := []
  nestedNull : Bool := false
  deriving Repr, Inhabited

def allSome {α} : List (Option α) → Option (List α)
  | [] => some []
  | none :: _ => none
  | some a :: rest => (allSome rest).map (a :: ·)

/-- `checkNoNilEntries` succeeded: the definition without nil entries -/
def RawPD.clean (r : RawPD) : Option PD :=
  if r.nestedNull then none else
  match allSome r.descs, allSome r.srs with
  | some ds, some ss => some { id := r.id, format := r.format, descs := ds, srs := ss }
  | _, _ => none

/-- `Match` on a definition that may hold nil entries. Old code: the first loop over the descriptors / requirements
    dereferences the nil entry, whatever the wallet is. -/
def pdMatchRaw (cfg : Cfg) (re : Regex) (r : RawPD) (wallet : List Cred) : Res (List Mapping × List Cred) :=
  match r.clean with
  | some pd => pdMatch cfg re pd wallet
  | none => if cfg.nilCheck then .err "nil-entry" else .panic "nil-deref"

/-- the loop of `CredentialsRequired` over possibly-nil requirements -/
def credentialsRequiredRawGo (cfg : Cfg) : List (Option SR) → Res (Option Bool)
  | [] => .ok none
  | none :: ss => if cfg.nilCheck then credentialsRequiredRawGo cfg ss else .panic "nil-deref"
  | some s :: ss =>
    if s.rule == "all" then .ok (some true)
    else if s.rule == "pick" && (match s.min with | some m => decide (m > 0) | none => false) then .ok (some true)
    else credentialsRequiredRawGo cfg ss

def credentialsRequiredRaw (cfg : Cfg) (r : RawPD) : Res Bool :=
  match credentialsRequiredRawGo cfg r.srs with
  | .ok (some b) => .ok b
  | .ok none => .ok (!r.descs.isEmpty)
  | .err e => .err e
  | .panic s => .panic s

def firstWalletRaw (cfg : Cfg) (re : Regex) (r : RawPD) : List (List Cred) → Res (Option (List Mapping × List Cred))
  | [] => .ok none
  | w :: ws =>
    match pdMatchRaw cfg re r w with
    | .ok x => .ok (some x)
    | .err _ => firstWalletRaw cfg re r ws
    | .panic s => .panic s

/-- `Build` on a definition that may hold nil entries -/
def buildRaw (cfg : Cfg) (re : Regex) (r : RawPD) (wallets : List (List Cred)) : Res (List Mapping × List Cred) :=
  match firstWalletRaw cfg re r wallets with
  | .ok (some (ms, vcs)) => .ok (rewriteSingle ms, vcs)
  | .ok none =>
    (match credentialsRequiredRaw cfg r with
     | .ok true => .err "nomatch"
     | .ok false => if wallets.isEmpty then .panic "index" else .ok ([], [])
     | .err e => .err e
     | .panic s => .panic s)
  | .err e => .err e
  | .panic s => .panic s

/-- `ResolveConstraintsFields` on a definition that may hold nil entries (old code: `curr.Id` on the nil descriptor,
    reached as soon as the credential map is not empty) -/
def resolveFieldsRaw (cfg : Cfg) (re : Regex) (r : RawPD) (cm : List (String × Cred)) : Res Values :=
  match r.clean with
  | some pd => resolveFields cfg re pd [] cm
  | none => if cfg.nilCheck then .err "nil-entry" else .panic "nil-deref"

/-! ### util.go: array envelopes -/

/-- go-did contract for one entry of an array envelope: what `ParseVerifiablePresentation` makes of it -/
structure EntryVP where
  asInterface : J := .null
  creds : List Cred := []
  signerOK : Bool := true
  deriving Repr, Inhabited

/-- `parseJSONArrayEnvelope`: EVERY entry (JWT string, JSON object, or anything else — re-marshalled) is handed to the
    presentation parser; an entry that is not a presentation makes the whole envelope unparsable. No entry is skipped. -/
def parseArrayEnvelope (parseVP : J → Option EntryVP) : List J → Res (List EntryVP)
  | [] => .ok []
  | e :: es =>
    match parseVP e with
    | none => .err "envelope"
    | some p =>
      match parseArrayEnvelope parseVP es with
      | .ok r => .ok (p :: r)
      | .err x => .err x
      | .panic x => .panic x

/-- the envelope built from the parsed entries: `asInterface` and `Presentations` keep the positions of the presented array -/
def envelopeOfEntries (r : List EntryVP) : Envelope :=
  { asInterface := .arr (r.map (·.asInterface)), presentations := r.map (·.creds), signerOK := r.map (·.signerOK) }

end Nuts.C12
