/-
  C12 — vcr/pe/util.go, the routing layer of a Presentation-Exchange envelope:
    Envelope.UnmarshalJSON   (a JSON string is unwrapped, its content is the envelope text)
    ParseEnvelope            (JSON array -> parseJSONArrayEnvelope, anything else -> one presentation)
    tryParseJSONArray
    parseJSONArrayEnvelope   (type switch per entry: a string's content, else json.Marshal(entry))
    parseJSONObjectOrStringEnvelope (go-did verdict; JWT: jwt.Parse; other formats: json.Unmarshal must succeed)
    Envelope.MarshalJSON     (raw[0] '[' or '{' -> as is, otherwise as a JSON string)
  This is the form in which PEXConsumer.SubmittedEnvelopes is written to and read back from the session store.
  What encoding/json, go-did and jwx say about a byte string is DATA (supplied per byte string by the harness);
  the control flow that combines the verdicts is mirrored here.  Core Lean only.
-/
import NutsModel.C12.PE

namespace Nuts.C12
open Nuts

/-- verdict of go-did's `vc.ParseVerifiablePresentation` on a byte string -/
inductive VPVerdict where
  | bad                      -- error
  | jwt (jwtParses : Bool)   -- `Format() == jwt_vp`; does `jwt.Parse(bytes, no verify, no validate)` succeed?
  | ld                       -- any other format
  deriving DecidableEq, Repr, Inhabited

/-- the libraries' verdicts on ONE byte string handed to `parseJSONObjectOrStringEnvelope` -/
structure SingleText where
  vp : VPVerdict := .bad
  validJSON : Bool := false  -- `json.Unmarshal(bytes, &asMap)` succeeds
  deriving DecidableEq, Repr, Inhabited

/-- `parseJSONObjectOrStringEnvelope` returns without error -/
def parseSingleOK (s : SingleText) : Bool :=
  match s.vp with
  | .bad => false
  | .jwt ok => ok
  | .ld => s.validJSON

/-- one element of a JSON array envelope, with the verdicts on both byte strings the type switch can choose -/
structure ArrEntry where
  isString : Bool
  asString : SingleText := {}      -- `[]byte(typedEntry)`
  asMarshalled : SingleText := {}  -- `json.Marshal(entry)`
  deriving DecidableEq, Repr, Inhabited

/-- the `switch typedEntry := entry.(type)` of `parseJSONArrayEnvelope` -/
def ArrEntry.bytes (e : ArrEntry) : SingleText := if e.isString then e.asString else e.asMarshalled

/-- `json.Unmarshal(bytes, &asInterface)` -/
inductive JTop where
  | invalid
  | array (entries : List ArrEntry)
  | other                    -- object, string, number, boolean, null
  deriving Repr, Inhabited

/-- a byte string handed to `ParseEnvelope` -/
structure EnvBytes where
  first : Option Char        -- `raw[0]`; none = empty
  top : JTop
  vp : VPVerdict             -- go-did's verdict on the whole byte string
  deriving Repr, Inhabited

def JTop.valid : JTop → Bool
  | .invalid => false
  | _ => true

/-- the whole byte string as the argument of `parseJSONObjectOrStringEnvelope` (the same bytes: the same json verdict) -/
def EnvBytes.single (b : EnvBytes) : SingleText := { vp := b.vp, validJSON := b.top.valid }

inductive Shape where
  | array (n : Nat)          -- `Presentations` has n elements, `asInterface` is a slice of n elements
  | single
  deriving DecidableEq, Repr, Inhabited

/-- `tryParseJSONArray`: the decoded array, nil for invalid JSON and for every other JSON type.
    (`[]` decodes to an EMPTY, non-nil slice: the array branch is taken.) -/
def tryParseJSONArray (b : EnvBytes) : Option (List ArrEntry) :=
  match b.top with
  | .array es => some es
  | _ => none

/-- the loop of `parseJSONArrayEnvelope`: number of presentations appended, error at the first entry that does not parse -/
def parseArrayEntries : List ArrEntry → Res Nat
  | [] => .ok 0
  | e :: rest =>
    if parseSingleOK e.bytes then
      (match parseArrayEntries rest with
       | .ok n => .ok (n + 1)
       | .err x => .err x
       | .panic s => .panic s)
    else .err "entry"

/-- `ParseEnvelope` -/
def parseEnvelopeShape (b : EnvBytes) : Res Shape :=
  match tryParseJSONArray b with
  | some es =>
    (match parseArrayEntries es with
     | .ok n => .ok (.array n)
     | .err x => .err x
     | .panic s => .panic s)
  | none => if parseSingleOK b.single then .ok .single else .err "single"

/-- the text handed to `Envelope.UnmarshalJSON` -/
inductive Outer where
  | invalid                  -- `json.Unmarshal(bytes, &raw)` fails
  | str (content : EnvBytes) -- a JSON string: its content replaces the bytes
  | other (self : EnvBytes)  -- any other JSON value: the bytes themselves are parsed
  deriving Repr, Inhabited

/-- the model's `Envelope`: the bytes kept in `raw` and what was parsed from them -/
abbrev ParsedEnvelope := EnvBytes × Shape

/-- `envelope, err := ParseEnvelope(bytes); if err != nil { return err }; *e = *envelope` (`raw` keeps the bytes) -/
def keepParsed (b : EnvBytes) : Res ParsedEnvelope :=
  match parseEnvelopeShape b with
  | .ok s => .ok (b, s)
  | .err x => .err x
  | .panic s => .panic s

/-- `Envelope.UnmarshalJSON` -/
def unmarshalEnvelope : Outer → Res ParsedEnvelope
  | .invalid => .err "json"
  | .str b => keepParsed b
  | .other b => keepParsed b

inductive Marshalled where
  | asIs | quoted
  deriving DecidableEq, Repr, Inhabited

/-- `Envelope.MarshalJSON`; `asIsBytes` = the byte literals `e.raw[0]` is compared with (regenerated from util.go).
    `e.raw[0]` on an empty `raw` is an index panic. -/
def marshalEnvelope (asIsBytes : List Char) (raw : EnvBytes) : Res Marshalled :=
  match raw.first with
  | none => .panic "raw[0]"
  | some c => if asIsBytes.contains c then .ok .asIs else .ok .quoted

/-- the byte literals as written in util.go today (pinned to the regenerated list by `fact_envelope_as_is_bytes`) -/
def asIsBytes : List Char := ['[', '{']

/-- how encoding/json reads the marshalled text back (contract of encoding/json, observed by the harness on the real
    round trip): `raw` as is keeps its own JSON verdict — a valid JSON text that begins with `[` or `{` is not a string —
    and `json.Marshal(string(raw))` reads back as a string whose content is `raw`. -/
def reread (raw : EnvBytes) : Marshalled → Outer
  | .asIs => (match raw.top with | .invalid => .invalid | _ => .other raw)
  | .quoted => .str raw

def Shape.show : Shape → String
  | .array n => s!"array:{n}"
  | .single => "single"

end Nuts.C12
