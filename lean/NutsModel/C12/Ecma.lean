/-
  C12 — the model's OWN ECMA-262 matcher for a subset of filter patterns: `^ atom quant? $` with
    atom  ::= \d | \w | [ item+ ]        item ::= \d | \w | c-c | c      (c an ASCII letter or digit)
    quant ::= + | * | {n} | {n,} | {n,m}
  ECMA-262 (no flags): `^`/`$` match only at the start / end of the INPUT (a final line feed is an ordinary character),
  `\d` = [0-9], `\w` = [A-Za-z0-9_] (ASCII only).  For these patterns the driver does not consult the regexp2 contract
  table: the implementation (regexp2 with whatever options it compiles with) is compared against this definition.
  Core Lean only.
-/
import NutsModel.C12.PE

namespace Nuts.C12
open Nuts

inductive ClsItem where
  | range (lo hi : Char)
  | digit
  | word
  deriving Repr, DecidableEq, Inhabited

def asciiDigit (c : Char) : Bool := 48 ≤ c.toNat && c.toNat ≤ 57
def asciiLetter (c : Char) : Bool := (65 ≤ c.toNat && c.toNat ≤ 90) || (97 ≤ c.toNat && c.toNat ≤ 122)

def ClsItem.has : ClsItem → Char → Bool
  | .range lo hi, c => lo.toNat ≤ c.toNat && c.toNat ≤ hi.toNat
  | .digit, c => asciiDigit c
  | .word, c => asciiDigit c || asciiLetter c || c.toNat == 95

structure Anchored where
  items : List ClsItem := []
  min : Nat := 1
  max : Option Nat := some 1
  deriving Repr, DecidableEq, Inhabited

def Anchored.hasChar (a : Anchored) (c : Char) : Bool := a.items.any (fun it => it.has c)

/-- the whole input consists of class members and its length is within the quantifier's bounds -/
def Anchored.acceptsChars (a : Anchored) (cs : List Char) : Bool :=
  cs.all a.hasChar && decide (a.min ≤ cs.length) && (match a.max with | none => true | some m => decide (cs.length ≤ m))

def Anchored.accepts (a : Anchored) (s : String) : Bool := a.acceptsChars s.toList

def plainChar (c : Char) : Bool := asciiDigit c || asciiLetter c

/-- the items of a bracket class up to the closing `]` -/
def parseClassBody : List Char → List ClsItem → Option (List ClsItem × List Char)
  | [], _ => none
  | ']' :: rest, acc => if acc.isEmpty then none else some (acc.reverse, rest)
  | '\\' :: 'd' :: rest, acc => parseClassBody rest (.digit :: acc)
  | '\\' :: 'w' :: rest, acc => parseClassBody rest (.word :: acc)
  | lo :: '-' :: hi :: rest, acc =>
    if plainChar lo && plainChar hi && decide (lo.toNat ≤ hi.toNat) then parseClassBody rest (.range lo hi :: acc) else none
  | c :: rest, acc => if plainChar c then parseClassBody rest (.range c c :: acc) else none

def parseAtom : List Char → Option (List ClsItem × List Char)
  | '\\' :: 'd' :: rest => some ([.digit], rest)
  | '\\' :: 'w' :: rest => some ([.word], rest)
  | '[' :: rest => parseClassBody rest []
  | _ => none

def parseNatChars : List Char → Option Nat → Option Nat × List Char
  | c :: rest, acc =>
    if asciiDigit c then parseNatChars rest (some ((match acc with | some n => n | none => 0) * 10 + (c.toNat - 48)))
    else (acc, c :: rest)
  | [], acc => (acc, [])

/-- quantifier, then `$`, then the end of the pattern -/
def parseQuantEnd : List Char → Option (Nat × Option Nat)
  | ['$'] => some (1, some 1)
  | ['+', '$'] => some (1, none)
  | ['*', '$'] => some (0, none)
  | '{' :: rest =>
    match parseNatChars rest none with
    | (some n, ['}', '$']) => some (n, some n)
    | (some n, [',', '}', '$']) => some (n, none)
    | (some n, ',' :: rest2) =>
      (match parseNatChars rest2 none with
       | (some m, ['}', '$']) => if n ≤ m then some (n, some m) else none
       | _ => none)
    | _ => none
  | _ => none

def parseAnchored (p : String) : Option Anchored :=
  match p.toList with
  | '^' :: rest =>
    (match parseAtom rest with
     | some (items, rest2) =>
       (match parseQuantEnd rest2 with
        | some (mn, mx) => some { items := items, min := mn, max := mx }
        | none => none)
     | none => none)
  | _ => none

/-- the regexp contract the model runs with: the own matcher where the pattern is in the subset (no capture group: the
    result is the whole match, which is the whole input), the supplied regexp2 table elsewhere -/
def ecmaFirst (re : Regex) : Regex := fun p s =>
  match parseAnchored p with
  | some a => if a.accepts s then .whole s else .noMatch
  | none => re p s

end Nuts.C12
