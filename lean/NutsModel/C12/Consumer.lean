/-
  C12 — the consumers of vcr/pe on the verifier side (auth/api/iam) and the presenter's format choice:
    auth/api/iam/session.go      newPEXConsumer / next / fulfill / isFulfilled / credentialMap
    auth/api/iam/s2s_vptoken.go  resolveInputDescriptorValues
    vcr/pe/format.go             ChooseVPFormat
  Core Lean only.  Mirrors the Go control flow that exists.

  `pe.WalletOwnerMapping` is a Go map keyed by the wallet owner type; the model holds it as an association list and
  every `range` over it takes the iteration order as an explicit argument (`order`), as BUILDING.md asks.
  `PEXConsumer` is used through a pointer receiver: `fulfill` mutates the two maps only after all tests passed, so the
  model returns the new state only with `.ok`.
-/
import NutsModel.C12.PE

namespace Nuts.C12
open Nuts

inductive Owner where
  | organization | user
  deriving DecidableEq, Repr, Inhabited

instance : BEq Owner := ⟨fun a b => decide (a = b)⟩

/-- `pe.WalletOwnerMapping` -/
abbrev Required := List (Owner × PD)

/-- `pe.PresentationSubmission` (the parts the consumers read) -/
structure Submission where
  definitionId : String := ""
  descriptorMap : List Mapping := []
  deriving Repr, Inhabited

/-- `PEXConsumer` -/
structure Consumer where
  required : Required := []
  submissions : List (String × Submission) := []
  envelopes : List (String × Envelope) := []
  deriving Repr, Inhabited

/-- `newPEXConsumer` -/
def newPEXConsumer (required : Required) : Consumer := { required := required }

/-- `v.Submissions[id]` comma-ok -/
def Consumer.isFulfilled (c : Consumer) (definitionId : String) : Bool :=
  (alGet c.submissions definitionId).isSome

/-- Go map lookup `v.RequiredPresentationDefinitions[owner]` -/
def lookupOwner (o : Owner) (r : Required) : Option PD := alGet r o

/-- `next`: the organization wallet's definition first, then the user wallet's -/
def Consumer.next (c : Consumer) : Option (Owner × PD) :=
  match lookupOwner .organization c.required with
  | some d =>
    if !c.isFulfilled d.id then some (.organization, d) else
    (match lookupOwner .user c.required with
     | some u => if !c.isFulfilled u.id then some (.user, u) else none
     | none => none)
  | none =>
    match lookupOwner .user c.required with
    | some u => if !c.isFulfilled u.id then some (.user, u) else none
    | none => none

/-- the lookup loop of `fulfill` (`for _, curr := range … { if curr.Id == definitionID { …; break } }`) -/
def findRequired (definitionId : String) : Required → Option PD
  | [] => none
  | (_, d) :: rest => if d.id == definitionId then some d else findRequired definitionId rest

/-- `PEXConsumer.fulfill`; `order` = the iteration order of `RequiredPresentationDefinitions` in this call.
    Test order as in the source: required?, already fulfilled?, Validate; only then the two stores. -/
def Consumer.fulfill (cfg : Cfg) (re : Regex) (decode : Decoder) (order : Required) (c : Consumer)
    (sub : Submission) (env : Envelope) : Res Consumer :=
  match findRequired sub.definitionId order with
  | none => .err "not-required"
  | some d =>
    if c.isFulfilled sub.definitionId then .err "already" else
    match validate cfg re decode d env sub.descriptorMap with
    | .err _ => .err "validate"
    | .panic s => .panic s
    | .ok _ =>
      .ok { c with submissions := alPut c.submissions sub.definitionId sub,
                   envelopes := alPut c.envelopes sub.definitionId env }

/-- `for inputDescriptorID, cred := range currCredentialMap { credentialMap[inputDescriptorID] = cred }` -/
def mergeCreds (acc : List (String × Cred)) : List (String × Cred) → List (String × Cred)
  | [] => acc
  | (k, v) :: rest => mergeCreds (alPut acc k v) rest

/-- `PEXConsumer.credentialMap`; a definition without a stored submission reads Go's zero values
    (empty descriptor map, nil envelope value) -/
def Consumer.credentialMap (cfg : Cfg) (decode : Decoder) (c : Consumer) :
    List (String × Cred) → Required → Res (List (String × Cred))
  | acc, [] => .ok acc
  | acc, (_, d) :: rest =>
    let dm : List Mapping := match alGet c.submissions d.id with | some s => s.descriptorMap | none => []
    let envJ : J := match alGet c.envelopes d.id with | some e => e.asInterface | none => .null
    match resolve cfg decode envJ [] dm with
    | .err e => .err e
    | .panic s => .panic s
    | .ok curr => Consumer.credentialMap cfg decode c (mergeCreds acc curr) rest

/-- the inner loop of `resolveInputDescriptorValues`: a field id that is already mapped is refused -/
def mergeFields (acc : Values) : Values → Option Values
  | [] => some acc
  | (k, v) :: rest => if (alGet acc k).isSome then none else mergeFields (alPut acc k v) rest

/-- `resolveInputDescriptorValues`; `order` = iteration order of the definitions, `cm` = the credential map in the
    order `ResolveConstraintsFields` ranges over it -/
def resolveInputDescriptorValues (cfg : Cfg) (re : Regex) (cm : List (String × Cred)) : Values → Required → Res Values
  | acc, [] => .ok acc
  | acc, (_, d) :: rest =>
    match resolveFields cfg re d [] cm with
    | .err _ => .err "resolve-fields"
    | .panic s => .panic s
    | .ok curr =>
      match mergeFields acc curr with
      | none => .err "duplicate-field"
      | some acc' => resolveInputDescriptorValues cfg re cm acc' rest

/-- `ChooseVPFormat`: walks the preference list (regenerated from format.go as `Facts.C12.vpFormatPreference`:
    (key looked up in the verifier's metadata, format returned)) -/
def chooseVPFormat (prefs : List (String × String)) (supported : List String) : String :=
  match prefs with
  | [] => ""
  | (key, result) :: rest => if supported.contains key then result else chooseVPFormat rest supported

/-- the preference list as written in format.go today (pinned to the regenerated one by `fact_vp_format_preference`) -/
def vpFormatPreference : List (String × String) :=
  [("jwt_vp", "jwt_vp"), ("jwt_vp_json", "jwt_vp"), ("ldp_vp", "ldp_vp")]

end Nuts.C12
