/-
  C12 — discovery/module.go validateRegistration, the Presentation-Exchange part: the presented credentials are matched
  against the service's definition WITHOUT a submission, and all — and only — the presented credentials must be used.
  `idOf` is go-did's `cred.ID` (nil = none).  The JWT-expiry test between the two parts is discovery's own (C16).
  Core Lean only.
-/
import NutsModel.C12.PE

namespace Nuts.C12
open Nuts

/-- `containsCredential`: same ID (both present) and same raw form -/
def containsCredential (idOf : Cred → Option String) (list : List Cred) (c : Cred) : Bool :=
  list.any fun curr =>
    match idOf curr, idOf c with
    | some a, some b => a == b && curr.raw == c.raw
    | _, _ => false

/-- `validateRegistration` (id test, Match, every presented credential among the matched ones) -/
def validateRegistrationPE (cfg : Cfg) (re : Regex) (idOf : Cred → Option String) (pd : PD) (presented : List Cred) : Res Unit :=
  if presented.any (fun c => (idOf c).isNone) then .err "no-id" else
  match pdMatch cfg re pd presented with
  | .err _ => .err "match"
  | .panic s => .panic s
  | .ok (_, creds) =>
    if presented.all (containsCredential idOf creds) then .ok () else .err "not-fulfilled"

end Nuts.C12
