/-
  C12 — discovery/module.go validateRegistration, the Presentation-Exchange part: the presented credentials are matched
  against the service's definition WITHOUT a submission, and all — and only — the presented credentials must be used.
  `idOf` is go-did's `cred.ID` (nil = none).  The JWT-expiry test between the two parts is discovery's own (C16).
  Core Lean only.
-/
import NutsModel.C12.PE

namespace Nuts.C12
open Nuts

/-- `containsCredential`: same ID (both present) and same raw form -/
def containsCredential (idOf : Cred → Option String) (list : List Cred) (c : Cred) : Bool :=
  list.any fun curr =>
    match idOf curr, idOf c with
    | some a, some b => a == b && curr.raw == c.raw
    | _, _ => false

/-- `validateRegistration` (id test, Match, every presented credential among the matched ones) -/
def validateRegistrationPE (cfg : Cfg) (re : Regex) (idOf : Cred → Option String) (pd : PD) (presented : List Cred) : Res Unit :=
  if presented.any (fun c => (idOf c).isNone) then .err "no-id" else
  match pdMatch cfg re pd presented with
  | .err _ => .err "match"
  | .panic s => .panic s
  | .ok (_, creds) =>
    if presented.all (containsCredential idOf creds) then .ok () else .err "not-fulfilled"

/-! ### discovery/client.go — the CLIENT side of a registration -/

/-- `findCredentialsAndBuildPresentation`, PE part: the wallet's credentials (plus the self-attested
    DiscoveryRegistrationCredential when registration parameters were given: `len(parameters) > 0`) are matched against
    the service's definition; the descriptor map is discarded (`_`) and EXACTLY the matched credentials are handed to
    `buildPresentation`. Any Match error is wrapped with `%w` (so `errors.Is(err, pe.ErrNoCredentials)` still sees it). -/
def clientRegistrationCreds (cfg : Cfg) (re : Regex) (pd : PD) (wallet : List Cred) (regCred : Option Cred) : Res (List Cred) :=
  let credentials := match regCred with | some c => wallet ++ [c] | none => wallet
  match pdMatch cfg re pd credentials with
  | .err e => .err e
  | .panic s => .panic s
  | .ok (_, matching) => .ok matching

/-- outcome of `registerPresentation` for one subject DID, as `activate` classifies it -/
inductive RegResult where
  | registered      -- err == nil
  | noCredentials   -- errors.Is(err, pe.ErrNoCredentials): ignored, trace log only
  | failed          -- any other error: collected in loopErrs
  deriving DecidableEq, Repr, Inhabited

/-- the loop of `activate` over the subject's DIDs: (len(registeredDIDs), len(loopErrs)) -/
def activateLoop : List RegResult → Nat × Nat
  | [] => (0, 0)
  | r :: rest =>
    let (reg, errs) := activateLoop rest
    match r with
    | .registered => (reg + 1, errs)
    | .noCredentials => (reg, errs)
    | .failed => (reg, errs + 1)

/-- what `activate` returns after the DID filters: "no-dids" (ErrNoSupportedDIDMethods), "failed:nocred" (every DID only
    lacked credentials: the synthesized `pe.ErrNoCredentials` entry), "failed" (some other error), "ok" (at least one DID
    registered; other DIDs' errors are only logged) -/
def activateVerdict (results : List RegResult) : String :=
  if results.length == 0 then "err:no-dids" else
  let (reg, errs) := activateLoop results
  if reg == 0 then
    (if reg != results.length && errs == 0 then "err:failed:nocred" else "err:failed")
  else "ok"

end Nuts.C12
