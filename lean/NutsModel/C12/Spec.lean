/-
  C12 — independent specification of "a credential satisfies an input descriptor" (DIF Presentation Exchange
  reading of the filter keywords the implementation supports), written as propositions, not as an algorithm.
  Core Lean only.  The model (PE.lean) is proved sound and complete against it in NutsProofs.
-/
import NutsModel.C12.PE

namespace Nuts.C12
open Nuts

/-- `const` on a value: only a string equal to the constant -/
def ConstHolds (c : Option String) (v : J) : Prop :=
  match c with
  | none => True
  | some cv => v = .str cv

/-- `pattern` on a string (regexp2 contract `re`): there is a match with at most one capture group -/
def PatternHolds (re : Regex) (p : Option String) (s : String) : Prop :=
  match p with
  | none => True
  | some pat => ∃ m, re pat s = .whole m ∨ re pat s = .cap m

/-- a value matches a filter `{type, const, pattern}` (no `enum`):
    a scalar matches iff it has the type and const/pattern hold; an array matches iff some element matches,
    or the filter asks for an array (and has no const) -/
inductive Matches (re : Regex) (ty : String) (c p : Option String) : J → Prop where
  | str (s : String) : ty = "string" → ConstHolds c (.str s) → PatternHolds re p s → Matches re ty c p (.str s)
  | num (s : String) : ty = "number" → c = none → Matches re ty c p (.num s)
  | bool (b : Bool) : ty = "boolean" → c = none → Matches re ty c p (.bool b)
  | elem (l : List J) (e : J) : e ∈ l → Matches re ty c p e → Matches re ty c p (.arr l)
  | arrSelf (l : List J) : ty = "array" → c = none → Matches re ty c p (.arr l)

/-- a value matches a filter; `enum` = one of the listed string constants -/
def FilterMatches (re : Regex) (f : Filter) (v : J) : Prop :=
  match f.enum with
  | some es => ∃ e ∈ es, Matches re "string" (some e) none v
  | none => Matches re f.type f.const f.pattern v

/-- a credential (its JSON view) satisfies a constraint field: some path yields a value that matches the filter;
    or the field is optional and no path yields a value -/
def FieldSat (re : Regex) (f : Field) (tree : J) : Prop :=
  (∃ p, some p ∈ f.paths ∧ ∃ v, getValueAtPath p tree = some v ∧ ∀ flt, f.filter = some flt → FilterMatches re flt v)
  ∨ (f.optional = true ∧ ∀ p, some p ∈ f.paths → getValueAtPath p tree = none)

/-- a credential satisfies an input descriptor of a definition: every constraint field, and the format
    designations of both the definition and the descriptor -/
def Satisfies (re : Regex) (pd : PD) (d : Desc) (c : Cred) : Prop :=
  (∀ fields, d.constraints = some fields → ∀ f ∈ fields, FieldSat re f c.tree) ∧
  matchFormat pd.format c = true ∧ matchFormat d.format c = true

/-- what a named constraint field may report for a credential: the value found at one of its paths, the
    regular-expression result (whole match / the single capture group) on the string found at one of its paths,
    or nothing (`none`) for an optional field without value -/
def FaithfulValue (re : Regex) (f : Field) (tree : J) (x : Option J) : Prop :=
  match x with
  | none => f.optional = true ∧ ∀ p, some p ∈ f.paths → getValueAtPath p tree = none
  | some x =>
    ∃ p, some p ∈ f.paths ∧ ∃ v, getValueAtPath p tree = some v ∧
      (x = v ∨ ∃ s pat flt m, v = .str s ∧ f.filter = some flt ∧ flt.pattern = some pat ∧
                 (re pat s = .whole m ∨ re pat s = .cap m) ∧ x = .str m)

/-- two lists walked in step, position by position -/
def AlignedBy (R : Nat → Mapping → Cred → Prop) : Nat → List Mapping → List Cred → Prop
  | _, [], [] => True
  | i, m :: ms, c :: cs => R i m c ∧ AlignedBy R (i + 1) ms cs
  | _, _, _ => False

/-- the relation between the `i`-th descriptor-map entry and the `i`-th selected credential `u`: the entry is
    `{id: d.id, format: v.fmt, path: $.verifiableCredential[i]}` for an input descriptor `d` of the definition and a
    credential `v` of the wallet that satisfies `d` and is (by `vcEqual`) the selected credential -/
def MapsTo (re : Regex) (pd : PD) (w : List Cred) (i : Nat) (m : Mapping) (u : Cred) : Prop :=
  ∃ d v, d ∈ pd.descs ∧ v ∈ w ∧ Satisfies re pd d v ∧ v.key = u.key ∧ m = mkMapping d.id v.fmt i

/-- where a value reported by `ResolveConstraintsFields` comes from -/
def FieldSource (re : Regex) (pd : PD) (cm : List (String × Cred)) (e : String × Option J) : Prop :=
  ∃ id c d fields f, (id, c) ∈ cm ∧ d ∈ pd.descs ∧ d.id = id ∧ d.constraints = some fields ∧ f ∈ fields ∧
    f.id = some e.1 ∧ FaithfulValue re f c.tree e.2

/-- the envelope carries, at the path of each descriptor-map entry, a value that decodes to (a credential with the
    `Raw()` of) the corresponding selected credential -/
def Carries (decode : Decoder) (envJ : J) : List Mapping → List Cred → Prop
  | [], [] => True
  | mp :: ms, c :: cs => (∃ c', resolveCredential decode mp envJ = .ok c' ∧ c'.raw = c.raw) ∧ Carries decode envJ ms cs
  | _, _ => False

/-- an error that the `enum` loop ignores did not hide a match (false only for an array in which an unsupported
    element — null, object — precedes a matching string) -/
def EnumErrorsHideNothing (cfg : Cfg) (re : Regex) (v : J) : Prop :=
  ∀ e msg, matchCore cfg re "string" (some e) none v = .err msg → ¬ Matches re "string" (some e) none v

/-- submission requirement rule on counts: `all`: every member is selectable and selected; `pick`: exactly `count`
    members, or (without `count`) at least `min` and at most `max` -/
def RuleOK (rule : String) (count min max : Option Nat) (nTotal nAvail nSel : Nat) : Prop :=
  if rule = "all" then nAvail = nTotal ∧ nSel = nTotal
  else match count with
    | some c => nSel = c
    | none => (∀ m, min = some m → m ≤ nSel) ∧ (∀ m, max = some m → nSel ≤ m)

/-- the selectable members of the list `apply` works on -/
def available (list : List Member) : List (List Cred) := list.filterMap id

/-- the list of members a submission requirement ranges over: the candidates of its group (`from`), or the results
    of its nested requirements (`from_nested`; a nested requirement that fails or selects nothing is an empty member) -/
def MembersOf (cfg : Cfg) (cands : List Cand) (s : SR) (members : List Member) : Prop :=
  (s.frm ≠ "" ∧ s.nested = [] ∧ members = (groupMembers cands s.frm).map fromMember) ∨
  (s.frm = "" ∧ s.nested ≠ [] ∧ SR.nestedMembers cfg cands s.nested = .ok members)

/-- every requirement of the list succeeds on the candidates, with these selections -/
def SelectedBy (cfg : Cfg) (cands : List Cand) : List SR → List (List Cred) → Prop
  | [], [] => True
  | s :: ss, l :: ls => SR.matchSR cfg cands s = .ok l ∧ SelectedBy cfg cands ss ls
  | _, _ => False

end Nuts.C12
