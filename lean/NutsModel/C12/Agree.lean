/-
  C12 — the structural condition under which the verifier's re-matching reproduces the wallet's selection
  (presentation_submission.go Validate: "assumes credentials of the presentations only map in 1 way to the input
  descriptors"), stated over the credential loop of matchConstraints. Core Lean only.
-/
import NutsModel.C12.PE
namespace Nuts.C12
open Nuts

/-- the verdict of the credential loop of `matchConstraints` on ONE credential: the constraints, then both format tests -/
def accepts (cfg : Cfg) (re : Regex) (pd : PD) (d : Desc) (c : Cred) : Res Bool :=
  match matchCredential cfg re d c with
  | .ok true => .ok (matchFormat pd.format c && matchFormat d.format c)
  | .ok false => .ok false
  | .err e => .err e
  | .panic s => .panic s

/-- no credential selected for an earlier input descriptor is accepted by a later one (each later descriptor REJECTS it,
    without error) -/
def Unambiguous (cfg : Cfg) (re : Regex) (pd : PD) (cands : List Cand) : Prop :=
  cands.Pairwise (fun a b => ∀ ca, a.2 = some ca → accepts cfg re pd b.1 ca = .ok false)

end Nuts.C12

