/-
  C10 — why `store.Add` uses TWO write transactions: a model of Add against a backend whose reads inside a write
  transaction see COMMITTED data only (go-stoabs redis7: all writes are sent on commit), next to bbolt where a
  transaction sees its own writes. Core Lean only.

  `applyDocument` looks every unconsumed source transaction up on the transaction index shelf (`docOfTx`). `visible r`
  says whether the index entry of ref `r` can be read inside the event transaction. Everything else of `addDid` is
  unchanged (the new event's own document travels in memory with the event; documents of stored events were committed
  by earlier Adds).
-/
import NutsModel.C10.DidStore

namespace Nuts.C10

/-- `addDid` where the index lookups of `applyDocument` only find refs with `visible r` -/
def addDidVis (cfg : Cfg) (visible : Ref → Bool) (st : DidState) (e : Event) : Res (Option DidState) :=
  if contains st.events e then .ok none
  else
    let r := insert e st.events
    let evs := r.1
    let idx := r.2
    let base : Option Meta := if idx > 0 then (st.chain[idx - 1]?).map (·.2) else none
    match applyAll cfg (evs.filter (fun x => visible x.ref)) base (evs.drop idx) with
    | .err x => .err x
    | .panic x => .panic x
    | .ok suffix =>
      let chain := st.chain.take idx ++ suffix
      match chain.getLast? with
      | none => .panic "applyFrom:nil-metadata"
      | some last => .ok (some { events := evs, chain := chain, conflicted := last.2.isConflicted })

/-- per-DID durable state on such a backend: the store state plus the refs whose index entry is committed -/
structure CState where
  st : DidState := {}
  idx : List Ref := []

/-- `store.Add` as written: transaction 1 commits the index entry (and the document) of the new transaction, whatever
    happens afterwards; transaction 2 then reads committed data only. A failing transaction 2 changes nothing else. -/
def addTwoTx (cfg : Cfg) (c : CState) (e : Event) : Res CState :=
  let idx' := e.ref :: c.idx
  match addDidVis cfg (fun r => idx'.contains r) c.st e with
  | .ok none => .ok { st := c.st, idx := idx' }
  | .ok (some st') => .ok { st := st', idx := idx' }
  | .err x => .err x
  | .panic x => .panic x

/-- the folded variant ("one atomic write"): the index entry of the new transaction is written in the SAME
    transaction that reads the index, so on this backend the read does not see it; it is committed only on success -/
def addOneTx (cfg : Cfg) (c : CState) (e : Event) : Res CState :=
  match addDidVis cfg (fun r => c.idx.contains r) c.st e with
  | .ok none => .ok c
  | .ok (some st') => .ok { st := st', idx := e.ref :: c.idx }
  | .err x => .err x
  | .panic x => .panic x

/-- an arrival sequence; a refused Add is offered again for ever without effect, i.e. it is skipped -/
def addSeq (step : CState → Event → Res CState) : CState → List Event → CState × Nat
  | c, [] => (c, 0)
  | c, e :: es =>
    match step c e with
    | .ok c' => addSeq step c' es
    | _ => let r := addSeq step c es; (r.1, r.2 + 1)

/-! ### overlapping Adds: why `add` may be one atomic step of the model

  `store.Add` reads the event list, decides (duplicate? where to insert? what to re-apply?) and writes the list back
  inside ONE write transaction, and write transactions are serialised. So however two Adds overlap, their event
  transactions happen one after the other: a concurrent schedule IS an arrival sequence, and `addDid`/`add` as single
  steps lose nothing. The variant below takes the decision on an event list captured BEFORE the write transaction
  (a read-only transaction, then the write): the classic lost update. -/

/-- two overlapping check-then-act Adds of `a` and `b` on state `st`: both capture `st`, `a` writes its result, then `b`
    writes the result it computed from the stale capture -/
def addStalePair (cfg : Cfg) (st : DidState) (a b : Event) : Res DidState :=
  match addDid cfg st a with
  | .err x => .err x
  | .panic x => .panic x
  | .ok ra =>
    let afterA := match ra with | some s => s | none => st
    match addDid cfg st b with          -- computed from the capture `st`, not from `afterA`
    | .err x => .err x
    | .panic x => .panic x
    | .ok none => .ok afterA
    | .ok (some sb) => .ok sb

end Nuts.C10
