/-
  C10 — the two content-addressed shelves and the statistics shelf of vdr/didnuts/didstore, literally:
    txRefV2      transaction ref  ↦ payload hash                  (writer.go writeDocument, first Put)
    documentsV2  hash             ↦ document BYTES                (writeDocument second Put; applyEvent: the merged
                                                                   document, only when the new version is conflicted)
    statsV2      conflictedCount / documentCount ↦ 4 bytes big endian (applyFrom, incrementDocumentCount, store.go
                                                                   ConflictedCount / DocumentCount)
  and the read paths that go through them: reader.go readDocument (Resolve, Iterate, loadConflictedDocuments,
  applyFrom's base), applyDocument's txRef Get + readDocument, HistorySinceVersion's document Gets and its
  `version < 0` guard.  Core Lean only.

  Document bytes are the canonical rendering `Doc.render` (what `json.Marshal` is in the code); a hash is
  `"H:" ++ bytes` (DidStore.lean).  `store.Add` is two write transactions: the first one (writeDocument) commits on its
  own, so an Add whose SECOND transaction fails leaves the two Puts of the first one behind (mode 2 below).
-/
import NutsModel.C10.DidStore

namespace Nuts.C10

/-- txRefV2 and documentsV2 of the whole store (all DIDs share them) -/
structure Blob where
  txRef : List (Ref × Hash) := []
  docs : List (Hash × String) := []

instance : Inhabited Blob := ⟨{}⟩

/-- `writeDocument`: Put(txRefV2, transaction.Ref, PayloadHash); Put(documentsV2, PayloadHash, json(document)) -/
def writeDocument (b : Blob) (e : Event) : Blob :=
  { txRef := alPut b.txRef e.ref e.payloadHash, docs := alPut b.docs e.payloadHash e.doc.render }

/-- `applyEvent`: `if nextMetadata.isConflicted() { Put(documentsV2, nextMetadata.Hash, json(nextDocument)) }` -/
def writeMergedStep (docs : List (Hash × String)) (p : Doc × Meta) : List (Hash × String) :=
  if p.2.isConflicted then alPut docs p.2.hash p.1.render else docs

/-- the `applyEvent` loop of `applyFrom` over the re-applied versions -/
def writeMerged (docs : List (Hash × String)) (suffix : List (Doc × Meta)) : List (Hash × String) :=
  suffix.foldl writeMergedStep docs

/-- reader.go `readDocument`: absent (or empty) value = `resolver.ErrNotFound` -/
def readDocument (b : Blob) (h : Hash) : Res String :=
  match alGet b.docs h with
  | none => .err "not-found"
  | some bytes => if bytes.isEmpty then .err "not-found" else .ok bytes

/-- `applyDocument`'s lookup of an unconsumed source transaction: txRefV2 Get, then `readDocument` -/
def lookupTx (b : Blob) (r : Ref) : Res String :=
  match alGet b.txRef r with
  | none => .err "txref-not-found"
  | some h =>
    match readDocument b h with
    | .ok bytes => .ok bytes
    | .err _ => .err "read-document-failed"
    | .panic s => .panic s

/-- the versions the second write transaction of `Add` re-applied: the chain from the insertion index on -/
def appliedSuffix (old new : DidState) (e : Event) : List (Doc × Meta) :=
  new.chain.drop (insert e old.events).2

/-- `store.Add` with both content-addressed shelves.
    mode 0 = both write transactions commit; 1 = the first one fails (nothing is written, the second never runs);
    2 = the first one commits, the second fails or is rolled back. -/
def dAdd (cfg : Cfg) (b : Blob) (s : Store) (e : Event) (mode : Nat) : Res (Blob × Store) :=
  if mode = 1 then .ok (b, s)
  else
    let b1 := writeDocument b e
    if mode = 2 then .ok (b1, s)
    else
      match add cfg s e with
      | .err x => .err x
      | .panic x => .panic x
      | .ok s' =>
        match addDid cfg (s.get e.doc.id) e with
        | .ok (some _) =>
          .ok ({ b1 with docs := writeMerged b1.docs (appliedSuffix (s.get e.doc.id) (s'.get e.doc.id) e) }, s')
        | _ => .ok (b1, s')

def dAddAll (cfg : Cfg) : Blob × Store → List (Event × Nat) → Res (Blob × Store)
  | bs, [] => .ok bs
  | bs, (e, mode) :: rest =>
    match dAdd cfg bs.1 bs.2 e mode with
    | .ok bs' => dAddAll cfg bs' rest
    | .err x => .err x
    | .panic x => .panic x

/-- `Resolve` / `Iterate` / `loadConflictedDocuments` hand out `readDocument(tx, metadata.Hash)` -/
def resolveBytes (b : Blob) (s : Store) (id : String) (rm : Option ResolveMeta) : Res (String × Meta) :=
  match resolve s id rm with
  | .ok (_, m) =>
    match readDocument b m.hash with
    | .ok bytes => .ok (bytes, m)
    | .err _ => .err "read-document-failed"
    | .panic x => .panic x
  | .err x => .err x
  | .panic x => .panic x

/-- `HistorySinceVersion(id, version)` with Go's `int` version and the raw document Gets:
    negative version = error before any read; an absent document = `storage.ErrNotFound` -/
def historyRawFrom (b : Blob) (created : Nat) : Nat → List Event → Res (List (String × Nat × Nat × Nat))
  | _, [] => .ok []
  | v, e :: es =>
    match alGet b.docs e.payloadHash with
    | none => .err "storage-not-found"
    | some bytes =>
      match historyRawFrom b created (v + 1) es with
      | .ok rest => .ok ((bytes, created, e.sigTime, v) :: rest)
      | .err x => .err x
      | .panic x => .panic x

def historySinceInt (b : Blob) (st : DidState) (version : Int) : Res (List (String × Nat × Nat × Nat)) :=
  if version < 0 then .err "other:negative version"
  else
    match st.events with
    | [] => .err "storage-not-found"
    | e0 :: _ =>
      if version.toNat > st.events.length - 1 then .ok []
      else historyRawFrom b e0.sigTime version.toNat (st.events.drop version.toNat)

/-! ### statsV2: 4-byte big-endian counters -/

/-- `binary.BigEndian.PutUint32(cBytes, uint32(n))` -/
def encU32 (n : Nat) : List Nat :=
  [n / 16777216 % 256, n / 65536 % 256, n / 256 % 256, n % 256]

/-- `if len(cBytes) > 0 { count = binary.BigEndian.Uint32(cBytes) }` (absent key = 0; a value of 1–3 bytes makes
    `Uint32` panic with an index out of range) -/
def decU32 : Option (List Nat) → Res Nat
  | none => .ok 0
  | some [] => .ok 0
  | some [a, b, c, d] => .ok (a * 16777216 + b * 65536 + c * 256 + d)
  | some (a :: b :: c :: d :: _ :: _) => .ok (a * 16777216 + b * 65536 + c * 256 + d)
  | some _ => .panic "binary.BigEndian.Uint32:index-out-of-range"

/-- uint32 arithmetic of `conflictedCount++` / `conflictedCount--` / `docCount+1` -/
def u32 (n : Int) : Nat := (n % 4294967296).toNat

/-- the statsV2 shelf: key ↦ bytes -/
structure Stats where
  cc : Option (List Nat) := none
  dc : Option (List Nat) := none

/-- the statistics part of `applyFrom` on the literal shelf: read conflictedCount, ±1 by (was, now), Put;
    `incrementDocumentCount` when the last applied version is 0 -/
def statsStep (st : Stats) (was now : Bool) (lastVersion : Nat) : Res Stats :=
  match decU32 st.cc with
  | .panic x => .panic x
  | .err x => .err x
  | .ok c =>
    let c' : Nat := if now then (if was then c else u32 (c + 1)) else (if was then u32 ((c : Int) - 1) else c)
    let st1 : Stats := { st with cc := some (encU32 c') }
    if lastVersion = 0 then
      match decU32 st1.dc with
      | .panic x => .panic x
      | .err x => .err x
      | .ok d => .ok { st1 with dc := some (encU32 (u32 (d + 1))) }
    else .ok st1

/-- `metadata.Version` of the last applied version (`applyFrom`: `if metadata.Version == 0 { incrementDocumentCount }`) -/
def lastVersionOf (st : DidState) : Nat :=
  match st.chain.getLast? with | some p => p.2.version | none => 0

/-- `store.Add` with the content-addressed shelves AND the literal statistics shelf: `applyFrom` (and with it the
    statistics update) only runs when both transactions run and `currentEventList.contains(event)` is false -/
def dAddS (cfg : Cfg) (b : Blob) (s : Store) (st : Stats) (e : Event) (mode : Nat) : Res (Blob × Store × Stats) :=
  match dAdd cfg b s e mode with
  | .err x => .err x
  | .panic x => .panic x
  | .ok (b', s') =>
    if mode = 1 ∨ mode = 2 ∨ contains (s.get e.doc.id).events e = true then .ok (b', s', st)
    else
      match statsStep st (s.get e.doc.id).conflicted (s'.get e.doc.id).conflicted (lastVersionOf (s'.get e.doc.id)) with
      | .ok st' => .ok (b', s', st')
      | .err x => .err x
      | .panic x => .panic x

def dAddSAll (cfg : Cfg) : Blob × Store × Stats → List (Event × Nat) → Res (Blob × Store × Stats)
  | t, [] => .ok t
  | t, (e, mode) :: rest =>
    match dAddS cfg t.1 t.2.1 t.2.2 e mode with
    | .ok t' => dAddSAll cfg t' rest
    | .err x => .err x
    | .panic x => .panic x

end Nuts.C10
