/-
  C10 — the in-memory conflicted cache under a rolled-back second write transaction.

  `applyFrom` calls `tl.addCachedConflict` / `tl.removeCachedConflict` INSIDE the closure of the second write transaction of
  `store.Add`. When that closure runs to its end and the transaction is rolled back afterwards (commit error, context
  timeout), the shelves keep their old contents but the in-memory map `store.conflictedDocuments` has already been
  changed: until the transaction is delivered again (or the store is re-opened), `Conflicted()` lists a state the
  shelves do not hold.  This file models exactly that step; the theorems say that the re-delivery repairs it.
-/
import NutsModel.C10.DidStore

namespace Nuts.C10

/-- `store.Add` whose second write transaction ran `applyFrom` to the end and was rolled back: durable state and
    statistics as before, the cache as `applyFrom` left it. A duplicate (`contains`) returns before `applyFrom`. -/
def addRolledBack (cfg : Cfg) (s : Store) (e : Event) : Res Store :=
  match add cfg s e with
  | .ok s' => .ok { s with cache := s'.cache }
  | .err x => .err x
  | .panic x => .panic x

/-- what `Conflicted()` says about one DID right after such a rolled-back Add -/
def staleConflictedOf (cfg : Cfg) (s : Store) (e : Event) : Res (Option (Doc × VMeta)) :=
  match addRolledBack cfg s e with
  | .ok t => .ok (conflictedOf t e.doc.id)
  | .err x => .err x
  | .panic x => .panic x

/-- a run with rolled-back Adds: `true` = the second write transaction of this delivery is rolled back -/
def addAllRb (cfg : Cfg) : Store → List (Event × Bool) → Res Store
  | s, [] => .ok s
  | s, (e, rb) :: rest =>
    match (if rb then addRolledBack cfg s e else add cfg s e) with
    | .ok s' => addAllRb cfg s' rest
    | .err x => .err x
    | .panic x => .panic x

end Nuts.C10

namespace Nuts.C10

/-- the key of `store.conflictedDocuments` that `applyFrom` writes or deletes for this Add (`document.ID.String()` of
    the latest, possibly merged, document); `none` = duplicate delivery, `applyFrom` does not run -/
def touched (cfg : Cfg) (s : Store) (e : Event) : Option String :=
  match addDid cfg (s.get e.doc.id) e with
  | .ok (some st') => (st'.chain.getLast?).map (·.1.id)
  | _ => none

/-- keys whose cache entry may be stale: touched by a rolled-back Add and not yet by a later committed one -/
def dirtyStep (cfg : Cfg) (s : Store) (D : List String) (e : Event) (rb : Bool) : List String :=
  match touched cfg s e with
  | none => D
  | some k => if rb then k :: D else D.filter (fun x => x != k)

def dirtyAll (cfg : Cfg) : Store → List String → List (Event × Bool) → List String
  | _, D, [] => D
  | s, D, (e, rb) :: rest =>
    match (if rb then addRolledBack cfg s e else add cfg s e) with
    | .ok s' => dirtyAll cfg s' (dirtyStep cfg s D e rb) rest
    | _ => D

/-- the deliveries that committed -/
def committed (l : List (Event × Bool)) : List Event := (l.filter (fun p => !p.2)).map (·.1)

end Nuts.C10
