/-
  C10 — the READ transactions of vdr/didnuts/didstore with a failing storage layer: which shelf Gets `Resolve`,
  `Iterate`, `HistorySinceVersion`, `ConflictedCount` / `DocumentCount` and `loadConflictedDocuments` perform, in which
  order, and what they answer when the k-th Get of the transaction returns a storage error that is not
  `ErrKeyNotFound` (store.go: `if err != nil && !errors.Is(err, stoabs.ErrKeyNotFound) { return err }`; reader.go
  readMetadata / readDocument / readEventList return it, the callers wrap it with `%w`).  Core Lean only.
-/
import NutsModel.C10.Shelves

namespace Nuts.C10

/-- the failure counter of the storage layer: `k` = 1 means the next Get fails, 0 means no failure is armed -/
def tick (k : Nat) : Bool × Nat := if k = 1 then (true, 0) else (false, k - 1)

/-- the loop of `store.Resolve` with its Gets made explicit: `readMetadata` (one Get) per visited version, `readDocument`
    (one Get) for the version that matches -/
def sResolveFromF (metas : List (Nat × (Doc × Meta))) (rm : Option ResolveMeta) : Nat → Nat → Nat → Res (Doc × Meta)
  | 0, _, _ => .panic "Resolve:no-progress"
  | fuel + 1, key, k =>
    if (tick k).1 then .err "db"
    else
      match alGet metas key with
      | none => .err "read-metadata-failed"
      | some (d, m) =>
        if m.deactivated && latestNonDeactivatedRequested rm then .err "deactivated"
        else if matchesMeta m rm then
          (if (tick (tick k).2).1 then .err "db" else .ok (d, m))
        else if m.version = 0 then .err "not-found"
        else sResolveFromF metas rm fuel (m.version - 1) (tick k).2

/-- `store.Resolve`: the latestV2 Get comes first (also for a DID the store does not know) -/
def sResolveF (st : Shelves) (rm : Option ResolveMeta) (k : Nat) : Res (Doc × Meta) :=
  if (tick k).1 then .err "db"
  else
    match st.latest with
    | none => .err "not-found"
    | some n => sResolveFromF st.metas rm (n + 1) n (tick k).2

/-- number of Gets of `HistorySinceVersion(id, version)` (`version ≥ 0`): the event list, then one document per returned
    version -/
def historyGets (st : DidState) (version : Nat) : Nat :=
  if st.events.isEmpty then 1
  else if version > st.events.length - 1 then 1
  else 1 + (st.events.length - version)

/-- `Iterate`: `readMetadata` + `readDocument` per key of latestV2 -/
def iterateGets (s : Store) : Nat := 2 * s.dids.length

/-- `loadConflictedDocuments`: latestV2 Get + `readMetadata` + `readDocument` per key of conflictedV2 -/
def configureGets (s : Store) : Nat := 3 * (s.dids.filter (fun p => p.2.conflicted)).length

/-- outcome class of a read call that performs `gets` Gets when the `k`-th Get fails: the error comes back, or the failure
    never fires and the call answers as without it -/
def faultClass (gets k : Nat) : String := if 1 ≤ k ∧ k ≤ gets then "db" else "same"

end Nuts.C10
