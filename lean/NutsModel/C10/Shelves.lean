/-
  C10 — the shelf-level view of one DID: what `store.Add`'s second write transaction and `store.Resolve` literally
  read and write (eventsV2, metadataV2, latestV2, conflictedV2), below the per-DID chain of `DidStore.lean`.
  Core Lean only.

  * a stored event carries its `MetaRef` = DID ++ decimal(n); the model keeps the number `n` (`none` = the empty
    MetaRef of an event that has not been through `writeEventList` yet);
  * the metadata shelf restricted to this DID is a map n ↦ record (key DID ++ decimal(n)); each record is kept together
    with the document stored under its hash (documentsV2 / txRefV2 are content addressed and stay abstract, as in
    `DidStore.lean`);
  * `applyFrom` reads the base metadata through the base event's MetaRef, the loop Puts every record under
    DID ++ decimal(record.Version), `writeLatest` stores the last record's Version, `writeEventList` renumbers all
    MetaRefs by list index; `Resolve` starts at `latest` and walks down by `record.Version - 1`.
  NutsProofs/Lemmas/C10Shelves.lean proves that this refines `addDid` / `resolveChain` for every arrival sequence.
-/
import NutsModel.C10.DidStore

namespace Nuts.C10

structure SEvent where
  ev : Event
  metaRef : Option Nat

instance : Inhabited SEvent := ⟨⟨default, none⟩⟩

/-- eventsV2[DID], metadataV2[DID ++ n] (with the document under the record's hash), latestV2[DID], conflictedV2 ∋ DID -/
structure Shelves where
  events : List SEvent := []
  metas : List (Nat × (Doc × Meta)) := []
  latest : Option Nat := none
  conflicted : Bool := false

instance : Inhabited Shelves := ⟨{}⟩

/-- `eventList.insert` on the stored list (the same backwards bubble as `insert`) -/
def sInsert (n : SEvent) : List SEvent → List SEvent × Nat
  | [] => ([n], 0)
  | x :: xs =>
    if (x :: xs).all (fun y => before n.ev y.ev) then (n :: x :: xs, 0)
    else let r := sInsert n xs; (x :: r.1, r.2 + 1)

/-- `writeEventList`: `Events[i].MetaRef = DID ++ i` for every i -/
def sRenumber : Nat → List SEvent → List SEvent
  | _, [] => []
  | k, x :: xs => ⟨x.ev, some k⟩ :: sRenumber (k + 1) xs

/-- the Puts of the `applyEvent` loop: record under DID ++ record.Version -/
def putStep (ms : List (Nat × (Doc × Meta))) (p : Doc × Meta) : List (Nat × (Doc × Meta)) := alPut ms p.2.version p

def putAll (ms : List (Nat × (Doc × Meta))) (l : List (Doc × Meta)) : List (Nat × (Doc × Meta)) := l.foldl putStep ms

/-- `readMetadata(tx, base.MetaRef)` in `applyFrom` -/
def readBase (st : Shelves) (evs : List SEvent) (idx : Nat) : Res (Option Meta) :=
  if idx > 0 then
    match evs[idx - 1]? with
    | none => .panic "Add:index-out-of-range"
    | some b =>
      match b.metaRef with
      | none => .err "read-metadata-failed"
      | some n =>
        match alGet st.metas n with
        | none => .err "read-metadata-failed"
        | some p => .ok (some p.2)
  else .ok none

/-- `store.Add`'s second write transaction for one DID. `none` = already present. -/
def sAdd (cfg : Cfg) (st : Shelves) (e : Event) : Res (Option Shelves) :=
  if st.events.any (fun x => x.ev.ref == e.ref) then .ok none
  else
    let r := sInsert ⟨e, none⟩ st.events
    let evs := r.1
    let idx := r.2
    let plain := evs.map (·.ev)
    match readBase st evs idx with
    | .err x => .err x
    | .panic x => .panic x
    | .ok base =>
      match applyAll cfg plain base (plain.drop idx) with
      | .err x => .err x
      | .panic x => .panic x
      | .ok suffix =>
        match suffix.getLast? with
        | none => .panic "applyFrom:nil-metadata"
        | some last =>
          .ok (some { events := sRenumber 0 evs, metas := putAll st.metas suffix,
                      latest := some last.2.version, conflicted := last.2.isConflicted })

/-- the loop of `store.Resolve`: read the record under DID ++ key; answer, or go on with `record.Version - 1`.
    `fuel` only makes the walk structurally terminating (a record whose Version is not below its key would make
    the Go loop spin; the refinement theorem shows that never happens). -/
def sResolveFrom (metas : List (Nat × (Doc × Meta))) (rm : Option ResolveMeta) : Nat → Nat → Res (Doc × Meta)
  | 0, _ => .panic "Resolve:no-progress"
  | fuel + 1, key =>
    match alGet metas key with
    | none => .err "read-metadata-failed"
    | some (d, m) =>
      if m.deactivated && latestNonDeactivatedRequested rm then .err "deactivated"
      else if matchesMeta m rm then .ok (d, m)
      else if m.version = 0 then .err "not-found"
      else sResolveFrom metas rm fuel (m.version - 1)

def sResolve (st : Shelves) (rm : Option ResolveMeta) : Res (Doc × Meta) :=
  match st.latest with
  | none => .err "not-found"
  | some n => sResolveFrom st.metas rm (n + 1) n

/-- an arrival sequence for one DID -/
def sAddAll (cfg : Cfg) : Shelves → List Event → Res Shelves
  | st, [] => .ok st
  | st, e :: es =>
    match sAdd cfg st e with
    | .ok none => sAddAll cfg st es
    | .ok (some st') => sAddAll cfg st' es
    | .err x => .err x
    | .panic x => .panic x

end Nuts.C10
