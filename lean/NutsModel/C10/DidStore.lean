/-
  C10 — model of vdr/didnuts/didstore: event.go, writer.go, merge.go, store.go (Resolve/Add/stats),
  metadata.go.  Core Lean only.

  Modelling decisions (DESIGN.md §5 C10):
  * transaction refs are numbers (the 256-bit value); document hashes are opaque strings.
  * a DID document is a record of keyed lists; an `Entry` is (id, body) where body is the JSON rendering.
  * a document hash is an injective function of the document's content: `"H:" ++ render doc` stands for
    SHA-256 of json.Marshal(doc) (contract: injective on what occurs). The driver names the payload hash of
    every event the same way, so a merged document that is byte-identical to a published one has the same
    hash in the model as in the code.
  * Go map iteration in `mergeDocuments` is an explicit argument `σ` (a reordering of each map-built list);
    the fields that the code sorts afterwards are the parameter `sortedFields` (regenerated fact).
  * the document shelf / txRef shelf are content addressed; the model looks a source transaction's document
    up in the DID's own event list (source transactions are always refs of earlier events of that DID).
-/
import NutsModel.Base

namespace Nuts.C10

/-- transaction refs (SHA-256 values) as numbers: `Ref.Compare` is big-endian byte order = numeric order. -/
abbrev Ref := Nat
/-- document hashes: `"H:" ++ render` (content addressed) -/
abbrev Hash := String

structure Entry where
  id : String
  body : String
  deriving DecidableEq, Repr, Inhabited

inductive Field where
  | ctx | controller | vm | auth | assertion | capInv | capDel | keyAgr | service
  deriving DecidableEq, Repr, Inhabited

def Field.all : List Field :=
  [.ctx, .controller, .vm, .auth, .assertion, .capInv, .capDel, .keyAgr, .service]

def Field.name : Field → String
  | .ctx => "Context" | .controller => "Controller" | .vm => "VerificationMethod"
  | .auth => "Authentication" | .assertion => "AssertionMethod"
  | .capInv => "CapabilityInvocation" | .capDel => "CapabilityDelegation"
  | .keyAgr => "KeyAgreement" | .service => "Service"

/-- A DID document: id plus nine keyed lists (contexts and controllers are entries with body = id). -/
structure Doc where
  id : String
  f : Field → List Entry

def Doc.get (d : Doc) (x : Field) : List Entry := d.f x

instance : Inhabited Doc := ⟨⟨"", fun _ => []⟩⟩

def Doc.beq (a b : Doc) : Bool :=
  a.id == b.id && Field.all.all (fun x => a.f x == b.f x)

/-- canonical rendering (used as the hash pre-image of merged documents and by the driver). -/
def renderEntries (l : List Entry) : String :=
  "[" ++ String.intercalate "," (l.map fun e => e.id ++ "=" ++ e.body) ++ "]"

def Doc.render (d : Doc) : String :=
  d.id ++ "{" ++ String.intercalate ";" (Field.all.map fun x => x.name ++ ":" ++ renderEntries (d.f x)) ++ "}"

/-! ### merge.go -/

/-- Go map insert on an association list with unique keys: replace value if key present, else append. -/
def mapPut : List Entry → Entry → List Entry
  | [], e => [e]
  | x :: xs, e => if x.id = e.id then e :: xs else x :: mapPut xs e

/-- `for _, doc := range docs { for _, x := range doc.F { m[x.ID] = x } }` -/
def buildMap (l : List Entry) : List Entry := l.foldl mapPut []

def entryLt (a b : Entry) : Bool := decide (a.id < b.id)

/-- One field of `mergeDocuments`: build the map from A's then B's entries, range over the map in the
    order `σ` chooses, and sort by id iff the code sorts this field. -/
def mergeField (σ : List Entry → List Entry) (sorted : Bool) (a b : List Entry) : List Entry :=
  let raw := σ (buildMap (a ++ b))
  if sorted then sortBy entryLt raw else raw

/-- `mergeDocuments(docA, docB)`; `ID = docs[0].ID`. Contexts with an empty string key are dropped
    (`LDContextToString(context) != ""`). -/
def mergeDocuments (σ : Field → List Entry → List Entry) (sortedFields : List Field)
    (a b : Doc) : Doc :=
  { id := a.id
    f := fun x =>
      let pre (l : List Entry) := if x = .ctx then l.filter (fun e => e.id ≠ "") else l
      mergeField (σ x) (sortedFields.contains x) (pre (a.f x)) (pre (b.f x)) }

/-! ### event.go -/

structure Event where
  clock : Nat
  sigTime : Nat
  ref : Nat
  prevs : List Nat
  payloadHash : Hash
  doc : Doc

instance : Inhabited Event := ⟨⟨0, 0, 0, [], "", default⟩⟩

/-- `event.before` -/
def before (e o : Event) : Bool :=
  if e.clock < o.clock then true
  else if e.clock > o.clock then false
  else if e.sigTime < o.sigTime then true
  else if o.sigTime < e.sigTime then false
  else decide (e.ref < o.ref)

/-- `eventList.insert`: the backwards bubble loop swaps the new event towards the front while
    `newEvent.before(x)` and stops at the first element that is not after it. So the new event lands in
    front of the longest suffix whose elements are all after it. Returns the new list and the index. -/
def insert (n : Event) : List Event → List Event × Nat
  | [] => ([n], 0)
  | x :: xs =>
    if (x :: xs).all (fun y => before n y) then (n :: x :: xs, 0)
    else let r := insert n xs; (x :: r.1, r.2 + 1)

def contains (l : List Event) (n : Event) : Bool := l.any (fun e => e.ref == n.ref)

/-! ### metadata.go / writer.go -/

structure Meta where
  version : Nat
  created : Nat
  updated : Nat
  hash : Hash
  prevHash : Option Hash
  prevTx : List Nat
  sourceTx : List Nat
  deactivated : Bool
  deriving DecidableEq, Repr, Inhabited

def Meta.isConflicted (m : Meta) : Bool := m.sourceTx.length > 1

/-- `isDeactivated(document)` -/
def isDeactivated (d : Doc) : Bool := (d.f .controller).isEmpty && (d.f .capInv).isEmpty

/-- the model is parameterised by the document merge function (`mergeDocuments σ sortedFields`, where
    `σ` is the iteration order Go picks for each map range and `sortedFields` is a regenerated fact) -/
structure Cfg where
  merge : Doc → Doc → Doc

def cfgOf (σ : Field → List Entry → List Entry) (sortedFields : List Field) : Cfg :=
  { merge := mergeDocuments σ sortedFields }

/-- document published by source transaction `r`: txRef shelf → document shelf.
    (content-addressed; looked up among the DID's own events) -/
def docOfTx (evs : List Event) (r : Ref) : Option Doc :=
  (evs.find? (fun e => e.ref == r)).map (·.doc)

/-- one iteration of the loop over the unconsumed source transactions in `applyDocument` -/
def mergeStep (cfg : Cfg) (evs : List Event) (acc : Res (Doc × List Nat)) (st : Nat) : Res (Doc × List Nat) :=
  match acc with
  | .ok (d, src) =>
    match docOfTx evs st with
    | none => .err "txref-not-found"
    | some old => .ok (cfg.merge old d, src ++ [st])
  | .err e => .err e
  | .panic e => .panic e

/-- `applyDocument`: the unconsumed source transactions are visited in the order of
    `currentMeta.SourceTransactions` (ordered slice; fact `writerMapRanges = []`). -/
def applyDocument (cfg : Cfg) (evs : List Event) (cur : Option Meta) (newDoc : Doc) (newMeta : Meta) :
    Res (Doc × Meta) :=
  match cur with
  | none => .ok (newDoc, newMeta)
  | some c =>
    let m1 : Meta := { newMeta with
      version := c.version + 1, created := c.created, prevHash := some c.hash,
      deactivated := newMeta.deactivated || c.deactivated }
    let unconsumed := c.sourceTx.filter (fun st => !(newMeta.prevTx.contains st))
    if unconsumed.isEmpty then .ok (newDoc, m1)
    else
      match unconsumed.foldl (mergeStep cfg evs) (.ok (newDoc, m1.sourceTx)) with
      | .ok (d, src) => .ok (d, { m1 with sourceTx := src, hash := "H:" ++ d.render })
      | .err e => .err e
      | .panic s => .panic s

/-- `applyEvent`: metadata record for the next event given the latest metadata. -/
def applyEvent (cfg : Cfg) (evs : List Event) (cur : Option Meta) (e : Event) : Res (Doc × Meta) :=
  let m0 : Meta := {
    version := 0, created := e.sigTime, updated := e.sigTime, hash := e.payloadHash,
    prevHash := none, prevTx := e.prevs, sourceTx := [e.ref], deactivated := isDeactivated e.doc }
  applyDocument cfg evs cur e.doc m0

/-- apply a list of events in order starting from `cur`, collecting (doc, meta) per version. -/
def applyAll (cfg : Cfg) (evs : List Event) : Option Meta → List Event → Res (List (Doc × Meta))
  | _, [] => .ok []
  | cur, e :: es =>
    match applyEvent cfg evs cur e with
    | .ok (d, m) =>
      match applyAll cfg evs (some m) es with
      | .ok rest => .ok ((d, m) :: rest)
      | .err x => .err x
      | .panic s => .panic s
    | .err x => .err x
    | .panic s => .panic s

/-- per-DID durable state: event list, metadata chain (index = version) with the document each
    version resolves to, and the conflicted-shelf flag. -/
structure DidState where
  events : List Event := []
  chain : List (Doc × Meta) := []
  conflicted : Bool := false

instance : Inhabited DidState := ⟨{}⟩

/-- `dids` etc. are the durable shelves; `cache` is the in-memory `store.conflictedDocuments` map
    (key = `document.ID.String()`), lost on restart and rebuilt by `loadConflictedDocuments` (`reload`). -/
structure Store where
  dids : List (String × DidState) := []
  conflictedCount : Nat := 0
  documentCount : Nat := 0
  cache : List (String × (Doc × Meta)) := []

instance : Inhabited Store := ⟨{}⟩

def Store.get (s : Store) (id : String) : DidState := (alGet s.dids id).getD {}

/-- `store.Add` (second write transaction) restricted to the DID's own records: contains-check, insert,
    `applyFrom` (re-apply from the insertion point on top of the metadata of the event before it),
    `writeEventList`. `none` = the event was already present (nothing written). -/
def addDid (cfg : Cfg) (st : DidState) (e : Event) : Res (Option DidState) :=
  if contains st.events e then .ok none
  else
    let r := insert e st.events
    let evs := r.1
    let idx := r.2
    let base : Option Meta := if idx > 0 then (st.chain[idx - 1]?).map (·.2) else none
    match applyAll cfg evs base (evs.drop idx) with
    | .err x => .err x
    | .panic x => .panic x
    | .ok suffix =>
      let chain := st.chain.take idx ++ suffix
      match chain.getLast? with
      | none => .panic "applyFrom:nil-metadata"
      | some last => .ok (some { events := evs, chain := chain, conflicted := last.2.isConflicted })

/-- `store.Add`: per-DID part plus the global statistics updated in `applyFrom`
    (the conflicted flag is read by DID whether or not a base event exists). -/
def add (cfg : Cfg) (s : Store) (e : Event) : Res Store :=
  let id := e.doc.id
  let st := s.get id
  match addDid cfg st e with
  | .err x => .err x
  | .panic x => .panic x
  | .ok none => .ok s
  | .ok (some st') =>
    let was := st.conflicted
    let now := st'.conflicted
    let cc := if now then (if was then s.conflictedCount else s.conflictedCount + 1)
              else (if was then s.conflictedCount - 1 else s.conflictedCount)
    let lastVersion := match st'.chain.getLast? with | some p => p.2.version | none => 0
    let dc := if lastVersion = 0 then s.documentCount + 1 else s.documentCount
    -- addCachedConflict / removeCachedConflict: keyed by the ID of the latest (possibly merged) document
    let cache := match st'.chain.getLast? with
      | some p => if now then alPut s.cache p.1.id p else alDel s.cache p.1.id
      | none => s.cache
    .ok { dids := alPut s.dids id st', conflictedCount := cc, documentCount := dc, cache := cache }

/-- spec: the chain derived from scratch from a sorted event list. -/
def derive (cfg : Cfg) (evs : List Event) : Res (List (Doc × Meta)) := applyAll cfg evs none evs

/-! ### store.go Resolve -/

structure ResolveMeta where
  allowDeactivated : Bool := false
  hash : Option Hash := none
  time : Option Nat := none
  sourceTx : Option Nat := none

def matchesMeta (m : Meta) (rm : Option ResolveMeta) : Bool :=
  match rm with
  | none => !m.deactivated
  | some r =>
    if m.deactivated && !r.allowDeactivated then false
    else if (match r.hash with | some h => !(m.hash == h) | none => false) then false
    else if (match r.time with | some t => decide (m.updated > t) || decide (m.created > t) | none => false) then false
    else match r.sourceTx with
      | some tx => m.sourceTx.contains tx
      | none => true

def latestNonDeactivatedRequested (rm : Option ResolveMeta) : Bool :=
  match rm with
  | none => true
  | some r =>
    if r.time.isSome then false else if r.hash.isSome then false else if r.sourceTx.isSome then false
    else !r.allowDeactivated

/-- walk the chain from the latest version downwards -/
def resolveChain (rm : Option ResolveMeta) : List (Doc × Meta) → Res (Doc × Meta)
  | [] => .err "not-found"
  | (d, m) :: older =>
    if m.deactivated && latestNonDeactivatedRequested rm then .err "deactivated"
    else if matchesMeta m rm then .ok (d, m)
    else resolveChain rm older

def resolve (s : Store) (id : String) (rm : Option ResolveMeta) : Res (Doc × Meta) :=
  resolveChain rm (s.get id).chain.reverse

/-! ### metadata.go asVDRMetadata, store.go Iterate / Conflicted / loadConflictedDocuments / HistorySinceVersion,
     finder.go -/

/-- `resolver.DocumentMetadata` as handed out by Resolve / Iterate / Conflicted -/
structure VMeta where
  created : Nat
  updated : Option Nat
  hash : Hash
  prevHash : Option Hash
  sourceTx : List Nat
  deactivated : Bool
  deriving DecidableEq, Repr, Inhabited

/-- `documentMetadata.asVDRMetadata`: `Updated` is only set when it differs from `Created`;
    version and previous transactions are not handed out -/
def Meta.asVDR (m : Meta) : VMeta :=
  { created := m.created, updated := if m.created = m.updated then none else some m.updated,
    hash := m.hash, prevHash := m.prevHash, sourceTx := m.sourceTx, deactivated := m.deactivated }

/-- `loadConflictedDocuments` on a new store object: for every key of the conflicted shelf, the latest version of
    that DID (if any), cached under the ID of that document -/
def loadStep (acc : List (String × (Doc × Meta))) (p : String × DidState) : List (String × (Doc × Meta)) :=
  match p.2.chain.getLast? with
  | some l => alPut acc l.1.id l
  | none => acc

def loadConflicted (dids : List (String × DidState)) : List (String × (Doc × Meta)) :=
  (dids.filter (fun p => p.2.conflicted)).foldl loadStep []

/-- restart: the durable shelves survive, the cache is rebuilt -/
def reload (s : Store) : Store := { s with cache := loadConflicted s.dids }

/-- `Conflicted(fn)`: the cache entry of a DID (the harness asks per DID; Go's map iteration order is irrelevant) -/
def conflictedOf (s : Store) (id : String) : Option (Doc × VMeta) :=
  (alGet s.cache id).map (fun p => (p.1, p.2.asVDR))

def strLt (a b : String) : Bool := decide (a < b)

/-- `Iterate(fn)`: the latest shelf in key order (bbolt iterates keys in byte order); per DID the metadata the
    latest shelf points to and the document stored under that metadata's hash -/
def iterate (s : Store) : List (Doc × VMeta) :=
  (sortBy strLt (s.dids.map (·.1))).filterMap (fun k => (s.get k).chain.getLast?.map (fun p => (p.1, p.2.asVDR)))

/-- `Finder.Find(IsActive())` -/
def findActive (s : Store) : List Doc :=
  ((iterate s).filter (fun p => !p.2.deactivated)).map (·.1)

structure HistDoc where
  raw : Hash        -- the document bytes, named by content (= the event's payload hash)
  created : Nat
  updated : Nat
  version : Nat
  deriving DecidableEq, Repr, Inhabited

def histFrom (created : Nat) : Nat → List Event → List HistDoc
  | _, [] => []
  | v, e :: es => { raw := e.payloadHash, created := created, updated := e.sigTime, version := v } :: histFrom created (v + 1) es

/-- `HistorySinceVersion(id, version)` for `version ≥ 0`: the published documents of the DID's event list from
    index `version` on; `Created` is the first event's signing time -/
def historySince (st : DidState) (version : Nat) : Res (List HistDoc) :=
  match st.events with
  | [] => .err "storage-not-found"
  | e0 :: _ =>
    if version > st.events.length - 1 then .ok []
    else .ok (histFrom e0.sigTime version (st.events.drop version))

def addAll (cfg : Cfg) (s : Store) : List Event → Res Store
  | [] => .ok s
  | e :: es => match add cfg s e with
    | .ok s' => addAll cfg s' es
    | .err x => .err x
    | .panic x => .panic x

end Nuts.C10
