/-
  C09 — deepening round 3: the MAINTENANCE calls of the node's own publishing path.  Core Lean only.

  Mirrors vdr/didnuts/manager.go :
    * `Manager.RemoveVerificationMethod` — resolve (deactivated allowed), go-did `Document.RemoveVerificationMethod`
      (the method is taken out of `verificationMethod` AND of all five relationships, comparison = `DIDURL.Equals`),
      "nothing removed => nil, nothing published", else `Manager.Update` with the reduced document,
    * `Manager.IsCommitted` — the latest stored version (deactivated allowed) carries the hash of the change's raw
      document; an unknown DID is "not committed" (no error), every other store error is returned.
  The parsed view `cur : NDoc` of the document `m.resolver.Resolve` answered is supplied by the caller (go-did JSON is a
  contract everywhere in this model); `withJSONLDContext` (done inside `Update`) commutes with the removal, so `cur` is the
  view AFTER the two contexts were added.
-/
import NutsModel.C09.Commit

namespace Nuts.C09
open Nuts Nuts.C10

/-- the loop test of go-did `VerificationMethods.remove` / `VerificationRelationships.Remove`: `!vm.ID.Equals(id)` -/
def keepVM (kid : String) (v : NVM) : Bool := !(v.id == kid)

/-- go-did `Document.RemoveVerificationMethod(vmId)`: the regenerated fact `removeVerificationMethodFields` lists the
    six collections it filters -/
def ndocRemoveVM (d : NDoc) (kid : String) : NDoc :=
  { d with
    vms := d.vms.filter (keepVM kid)
    assertion := d.assertion.filter (keepVM kid)
    auth := d.auth.filter (keepVM kid)
    capDel := d.capDel.filter (keepVM kid)
    capInv := d.capInv.filter (keepVM kid)
    keyAgr := d.keyAgr.filter (keepVM kid) }

/-- `Manager.RemoveVerificationMethod(ctx, id, keyID)`; `none` = returned nil without publishing -/
def managerRemoveVM (c : Cfg) (s : Store) (has : String → Bool) (svcOk : Bool) (id : String) (cur : NDoc) (kid : String) :
    Res (Option Published) :=
  match resolverResolve c.maxDepth s (some { allowDeactivated := true }) id with
  | .err e => .err ("mgr:resolve:" ++ e)
  | .panic x => .panic x
  | .ok _ =>
    let next := ndocRemoveVM cur kid
    if cur.vms.length == next.vms.length then .ok none
    else
      match managerUpdate c s has svcOk id next with
      | .ok p => .ok (some p)
      | .err e => .err e
      | .panic x => .panic x

/-- `Manager.IsCommitted(ctx, change)`; `changeHash` = SHA-256 of `change.DIDDocumentVersion.Raw` -/
def managerIsCommitted (s : Store) (id : String) (changeHash : Hash) : Res Bool :=
  match resolve s id (some { allowDeactivated := true }) with
  | .ok (_, m) => .ok (m.hash == changeHash)
  | .err e => if e == eNotFound then .ok false else .err e
  | .panic x => .panic x

/-- the end of `Manager.Update`: after `networkClient.CreateTransaction` succeeded with transaction `tx`, the manager itself
    writes `m.store.Add(next, {Clock, PayloadHash, Previous, Ref, SigningTime of tx})` — the event the receiving ambassador
    builds from the same transaction (`eventOf`) -/
def managerOwnAdd (c : Cfg) (s : Store) (tx : Tx) (p : Published) : Res Store :=
  match add c.store s (eventOf tx p.doc) with
  | .ok s' => .ok s'
  | .err e => .err ("mgr:store:" ++ e)
  | .panic x => .panic x

end Nuts.C09
