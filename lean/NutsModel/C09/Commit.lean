/-
  C09 — deepening round 2: the CHANGE-LOG side of the node's own publishing path.  Core Lean only.

  Mirrors vdr/didnuts/manager.go :
    * `Manager.Commit`   — the dispatch on `change.Type` (created / deactivated / updated / anything else),
    * `Manager.onUpdate` — the SECOND code path that publishes an update (differs from `Manager.Update`: the deactivation
      test looks at the DOCUMENT (`resolver.IsDeactivated`) and answers nil, the proposal is parsed AFTER that test, no
      JSON-LD contexts are added, nothing is written to the store),
    * `Manager.Deactivate` (`onDeactivate`) — `Update` with the empty document of `CreateDocument()`,
    * `Manager.onCreate` — the creation template: kid = id of `VerificationMethod[0]`, attached key = its `PublicKey()`,
      no additional prevs, and NO validation of the document,
    * `getKIDName` / `DIDKIDNamingFunc` / `didSubKIDNamingFunc` and the verification method of `Manager.NewDocument`
      (with storage/orm `GenerateDIDDocument`: contexts, id, the method under all five relationships).
  The parsed proposal is `Option NDoc` (none = `ToDIDDocument` fails).  `d.vmNull` (a JSON null inside
  `verificationMethod`) is outside the domain of `managerOnCreate` (the position of the null is not part of `NDoc`).
-/
import NutsModel.C09.Manager

namespace Nuts.C09
open Nuts Nuts.C10

/-- go-did `VerificationMethod.PublicKey()` on a parsed verification method (same three cases as `resolvePublicKey1`) -/
def vmPublicKey (v : NVM) : Res Key :=
  if v.pkUnsupported then .err eUnsupportedType
  else
    match v.key with
    | .key k => .ok k
    | .bad => .err eBadJwk
    | .none => .panic "VerificationMethod.PublicKey:nil-jwk"

/-- `orm.DIDChangeLog.Type` as `Commit` switches on it -/
inductive ChangeType where
  | created | deactivated | updated | other
  deriving DecidableEq, Repr, Inhabited

/-- what `Commit` hands to `networkClient.CreateTransaction` -/
inductive Template where
  | update (p : Published)                       -- kid, additional prevs, payload
  | create (kid : String) (key : Key) (doc : NDoc)  -- kid, attached key, NO additional prevs, payload
  | nothing                                      -- `onUpdate` on a deactivated document: warning, `return nil`
  deriving Repr, Inhabited

/-- the tail shared by `Manager.Update` and `Manager.onUpdate`: validator, `resolveControllerWithKey`, the controller's
    metadata through `m.resolver`, the template -/
def publishTail (c : Cfg) (s : Store) (has : String → Bool) (svcOk : Bool) (cur : Doc) (curMeta : Meta) (next : NDoc) : Res Published :=
  match validate c.thumb c.vmNilJwkErr c.validators next with
  | .err e => .err ("mgr:" ++ e)
  | .panic x => .panic x
  | .ok () =>
    if !svcOk then .err "mgr:validate:managed-service"
    else
      match managerControllers c.maxDepth s cur with
      | .err e => .err ("mgr:controllers:" ++ e)
      | .panic x => .panic x
      | .ok ctrls =>
        if ctrls.isEmpty then .err "mgr:no-controllers"
        else
          match firstOwnedKey has ctrls with
          | none => .err "mgr:no-key"
          | some (ctrl, kid) =>
            match resolverResolve c.maxDepth s none ctrl.id with
            | .err e => .err ("mgr:controller-meta:" ++ e)
            | .panic x => .panic x
            | .ok _ =>
              match resolve s ctrl.id none with
              | .ok (_, ctrlMeta) => .ok { kid := kid, prevs := curMeta.sourceTx ++ ctrlMeta.sourceTx, doc := next }
              | .err e => .err ("mgr:controller-meta:" ++ e)
              | .panic x => .panic x

/-- `Manager.onUpdate(ctx, event)`: `m.resolver.Resolve(id, AllowDeactivated)` is the store lookup (resolver.go: no
    controller check when deactivated documents are allowed) -/
def managerOnUpdate (c : Cfg) (s : Store) (has : String → Bool) (svcOk : Bool) (id : String) (next : Option NDoc) : Res Template :=
  match resolve s id (some { allowDeactivated := true }) with
  | .err e => .err ("mgr:resolve:" ++ e)
  | .panic x => .panic x
  | .ok (cur, curMeta) =>
    if isDeactivated cur then .ok .nothing
    else
      match next with
      | none => .err "mgr:unparseable"
      | some d =>
        match publishTail c s has svcOk cur curMeta d with
        | .ok p => .ok (.update p)
        | .err e => .err e
        | .panic x => .panic x

/-- `CreateDocument()` with `ID = id`: what `Deactivate` proposes (after `withJSONLDContext`: both contexts are there) -/
def deactivationDoc (id idID : String) (contexts : List String) : NDoc :=
  { id := id, idID := idID, contexts := contexts }

/-- `Manager.onCreate`: no validator, no store access; `VerificationMethod[0]` is an index expression -/
def managerOnCreate (next : Option NDoc) : Res Template :=
  match next with
  | none => .err "mgr:unparseable"
  | some d =>
    if d.vmNull then .panic "onCreate:null-verification-method(not modelled)"
    else
      match d.vms with
      | [] => .panic "onCreate:VerificationMethod[0]"
      | v :: _ =>
        match vmPublicKey v with
        | .ok k => .ok (.create v.id k d)
        | .err e => .err ("mgr:create-key:" ++ e)
        | .panic x => .panic x

/-- `Manager.Commit(ctx, change)`.  `next` is the parsed `change.DIDDocumentVersion`; for `deactivated` the proposal is
    ignored and `dnext` (the parsed empty document with its contexts) is what `Update` receives. -/
def managerCommit (c : Cfg) (s : Store) (has : String → Bool) (svcOk : Bool) (t : ChangeType) (id : String)
    (next : Option NDoc) (dnext : NDoc) : Res Template :=
  match t with
  | .created => managerOnCreate next
  | .deactivated =>
    match managerUpdate c s has svcOk id dnext with
    | .ok p => .ok (.update p)
    | .err e => .err e
    | .panic x => .panic x
  | .updated => managerOnUpdate c s has svcOk id next
  | .other => .err "mgr:unknown-event-type"

/-! ### key naming (`getKIDName`) and the document of `NewDocument` -/

/-- `getKIDName(pKey, idFunc)`: `did:nuts:<idFunc(key)>#<jwk thumbprint>` -/
def getKIDName (thumb : Key → String) (idString : String) (k : Key) : String :=
  "did:nuts:" ++ idString ++ "#" ++ thumb k

/-- `DIDKIDNamingFunc`: the id string is `nutsCrypto.Thumbprint(key)` -/
def didKIDName (c : Cfg) (k : Key) : String := getKIDName c.thumb (c.didThumb k) k

/-- `didSubKIDNamingFunc(owningDID)`: the id string is the owning DID's -/
def didSubKIDName (c : Cfg) (ownerIdID : String) (k : Key) : String := getKIDName c.thumb ownerIdID k

/-- `did.NewVerificationMethod(*keyID, JsonWebKey2020, keyID.DID, publicKey)` for `keyID = ParseDIDURL(kidName)` -/
def namedVM (thumb : Key → String) (idString : String) (k : Key) : NVM :=
  { id := getKIDName thumb idString k, pfx := "did:nuts:" ++ idString, frag := thumb k, key := .key k }

/-- the document the SQL layer generates from `NewDocument`'s result (`DefaultKeyFlags` = all five relationships) -/
def newDocument (c : Cfg) (k : Key) : NDoc :=
  let v := namedVM c.thumb (c.didThumb k) k
  { id := "did:nuts:" ++ c.didThumb k, idID := c.didThumb k,
    vms := [v], auth := [v], assertion := [v], keyAgr := [v], capInv := [v], capDel := [v] }

/-- the transaction the network layer makes from a creation template (`WithAttachKey`): the attached key is embedded and
    the node signs with that key's private half (kid = name under which the key store created it) -/
def createdTx (key : Key) (ref clock sigTime : Nat) (prevs : List Nat) (payloadHash : String) : Tx :=
  { ref := ref, clock := clock, sigTime := sigTime, prevs := prevs, payloadHash := payloadHash, embedded := some key, signer := key }

end Nuts.C09
