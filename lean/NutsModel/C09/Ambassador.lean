/-
  C09 — model of the did:nuts network ambassador and what it relies on.  Core Lean only.

  Mirrors (file : function):
    vdr/didnuts/ambassador.go : callback, checkTransactionIntegrity, isUpdate, handleCreateDIDDocument,
                                handleUpdateDIDDocument, resolveControllers, findKeyByThumbprint
    vdr/didnuts/validators.go : NetworkDocumentValidator = [W3CSpecValidator, verificationMethodValidator,
                                basicServiceValidator], verifyDocumentEntryID
    go-did did/validator.go   : W3CSpecValidator (on structural flags of the parsed document; contract)
    vdr/didnuts/resolver.go   : Resolver.Resolve, resolve, ResolveControllers, resolveControllers
    network/dag/keys.go       : SourceTXKeyResolver.ResolvePublicKey, resolvePublicKey
    network/dag/verifier.go   : NewTransactionSignatureVerifier (signature check = "the resolved/embedded key is the
                                key that made the signature"; unforgeability is a contract)
  The store is the C10 model (vdr/didnuts/didstore): `C10.add`, `C10.resolve`.

  Modelling decisions
  * Keys are opaque names (`Key = String`); `thumb : Key → String` is a parameter (injectivity is a hypothesis of
    the theorems that need it, never an axiom). A stored verification method / relationship entry is a C10
    `Entry` whose body is the key (`KeyInfo.body`): "" = no publicKeyJwk (`JWK()` returns nil), "!" = a
    publicKeyJwk that does not parse.
  * JSON parsing of the payload (go-did) is a contract: the harness passes the parsed structure (`NDoc`) or
    "does not unmarshal".
  * The depth-limited mutual recursion `resolve`/`resolveControllers` is written with the remaining depth
    (`maxControllerDepth - depth`) as the structurally decreasing argument.
-/
import NutsModel.Base
import NutsModel.C10.DidStore

namespace Nuts.C09
open Nuts Nuts.C10

abbrev Key := String

inductive KeyInfo where
  | none
  | bad
  | key (k : Key)
  deriving DecidableEq, Repr, Inhabited

def KeyInfo.body : KeyInfo → String
  | .none => "" | .bad => "!" | .key k => k

def KeyInfo.ofBody (b : String) : KeyInfo :=
  if b = "" then .none else if b = "!" then .bad else .key b

/-! ### error vocabulary (shared with the harness canonicaliser) -/
def eNotFound := "not-found"                    -- resolver.ErrNotFound (C10 model uses the same string)
def eDeactivated := "deactivated"               -- resolver.ErrDeactivated
def eNoActiveController := "no-active-controller" -- resolver.ErrNoActiveController
def eTooDeep := "too-deep"                      -- didnuts.ErrNestedDocumentsTooDeep
def eKeyNotFound := "key-not-found"             -- resolver.ErrKeyNotFound
def eInvalidKid := "invalid-kid"
def eBadJwk := "bad-jwk"
def eUnsupportedType := "unsupported-type"      -- go-did `VerificationMethod.PublicKey()` for a type it has no key decoding for

/-! ### the parsed network document -/

/-- a verification method as parsed by go-did (`did.VerificationMethod`) -/
structure NVM where
  id : String            -- ID.String()
  pfx : String           -- ID with the fragment removed, as string (`entryID.Fragment = ""; entryID.String()`)
  frag : String          -- ID.Fragment
  idEmpty : Bool := false      -- ID.Empty()
  typeBlank : Bool := false    -- strings.TrimSpace(Type) == ""
  ctrlEmpty : Bool := false    -- Controller.Empty()
  pkUnsupported : Bool := false -- the type is none of those for which go-did's `PublicKey()` reads the publicKeyJwk
                                -- (JsonWebKey2020, EcdsaSecp256k1VerificationKey2019): `PublicKey()` fails for it
  key : KeyInfo
  deriving DecidableEq, Repr, Inhabited

structure NSvc where
  id : String
  pfx : String
  frag : String
  type : String
  idBlank : Bool := false      -- strings.TrimSpace(ID.String()) == ""
  typeBlank : Bool := false
  endpointBad : Bool := false  -- ServiceEndpoint nil or not string / map / slice
  body : String := ""          -- digest of the JSON (identity only)
  deriving DecidableEq, Repr, Inhabited

structure NDoc where
  id : String                  -- ID.String()
  idID : String                -- ID.ID (method specific id)
  idEmpty : Bool := false      -- ID.Empty()
  hasDidCtx : Bool := true     -- containsContextURI(doc, DIDContextV1)
  contexts : List String := []
  controllers : List String := []
  ctrlEmptyAny : Bool := false -- some controller DID is Empty()
  vmNull : Bool := false       -- `verificationMethod` holds a nil entry (JSON null); nil entries are not listed in `vms`
  relNull : Bool := false      -- some verification relationship has no verification method (JSON null)
  vms : List NVM := []
  auth : List NVM := []
  assertion : List NVM := []
  keyAgr : List NVM := []
  capInv : List NVM := []
  capDel : List NVM := []
  services : List NSvc := []
  deriving Repr, Inhabited

def vmEntry (v : NVM) : Entry := { id := v.id, body := v.key.body }

/-- entries of `verificationMethod` additionally carry (as a leading '?') that `PublicKey()` cannot use the method's
    type; the validator and `findKeyByThumbprint` read the JWK whatever the type says -/
def vmEntryPK (v : NVM) : Entry := { id := v.id, body := (if v.pkUnsupported then "?" else "") ++ v.key.body }
def pkMarked (b : String) : Bool := b.toList.head? == some '?'

/-- the document as the store keeps it (C10 `Doc`) -/
def NDoc.toDoc (d : NDoc) : Doc :=
  { id := d.id
    f := fun
      | .ctx => d.contexts.map (fun c => { id := c, body := "c" })
      | .controller => d.controllers.map (fun c => { id := c, body := "c" })
      | .vm => d.vms.map vmEntryPK
      | .auth => d.auth.map vmEntry
      | .assertion => d.assertion.map vmEntry
      | .capInv => d.capInv.map vmEntry
      | .capDel => d.capDel.map vmEntry
      | .keyAgr => d.keyAgr.map vmEntry
      | .service => d.services.map (fun s => { id := s.id, body := s.body }) }

/-! ### validators.go + go-did W3CSpecValidator -/

inductive Validator where
  | nilEntry | w3c | nutsVM | nutsService
  deriving DecidableEq, Repr, Inhabited

/-- the individual checks; `validateWith` runs exactly the enabled ones (so that necessity of each can be stated) -/
inductive Rule where
  | nilEntries
  | w3cContext | w3cId | w3cController | w3cVM | w3cRel | w3cService
  | vmFragment | vmUnique | vmPrefix | vmThumbprint
  | svcFragment | svcUnique | svcPrefix | svcTypeUnique
  deriving DecidableEq, Repr, Inhabited

def Validator.rules : Validator → List Rule
  | .nilEntry => [.nilEntries]
  | .w3c => [.w3cContext, .w3cId, .w3cController, .w3cVM, .w3cRel, .w3cService]
  | .nutsVM => [.vmFragment, .vmUnique, .vmPrefix, .vmThumbprint]
  | .nutsService => [.svcFragment, .svcUnique, .svcPrefix, .svcTypeUnique]

def Rule.all : List Rule :=
  [.nilEntries, .w3cContext, .w3cId, .w3cController, .w3cVM, .w3cRel, .w3cService,
   .vmFragment, .vmUnique, .vmPrefix, .vmThumbprint, .svcFragment, .svcUnique, .svcPrefix, .svcTypeUnique]

/-- `validateVM` of go-did -/
def vmW3COk (v : NVM) : Bool := !v.idEmpty && !v.typeBlank && !v.ctrlEmpty

def firstBadRel (d : NDoc) : Option String :=
  if !d.auth.all vmW3COk then some "authentication"
  else if !d.assertion.all vmW3COk then some "assertionMethod"
  else if !d.keyAgr.all vmW3COk then some "keyAgreement"
  else if !d.capInv.all vmW3COk then some "capabilityInvocation"
  else if !d.capDel.all vmW3COk then some "capabilityDelegation"
  else none

def svcW3COk (s : NSvc) : Bool := !s.idBlank && !s.typeBlank && !s.endpointBad

/-- `did.W3CSpecValidator{}.Validate` -/
def validateW3C (on : Rule → Bool) (d : NDoc) : Res Unit :=
  if on .w3cContext && !d.hasDidCtx then .err "validate:w3c:context"
  else if on .w3cId && d.idEmpty then .err "validate:w3c:id"
  else if on .w3cController && d.ctrlEmptyAny then .err "validate:w3c:controller"
  else if on .w3cVM && !d.vms.all vmW3COk then .err "validate:w3c:verificationMethod"
  else match (if on .w3cRel then firstBadRel d else none) with
    | some r => .err ("validate:w3c:" ++ r)
    | none => if on .w3cService && !d.services.all svcW3COk then .err "validate:w3c:service" else .ok ()

/-- `verifyDocumentEntryID(owner, entryID, knownIDs)`; returns the error name or none -/
def entryIdErr (fragOn uniqOn pfxOn : Bool) (owner : String) (id pfx frag : String) (known : List String) : Option String :=
  if fragOn && frag = "" then some "fragment"
  else if uniqOn && known.contains id then some "unique"
  else if pfxOn && owner ≠ pfx then some "prefix"
  else none

/-- `verificationMethodValidator.Validate`: loop over `document.VerificationMethod` only -/
def validateVMs (thumb : Key → String) (nilErr : Bool) (on : Rule → Bool) (owner : String) : List NVM → List String → Res Unit
  | [], _ => .ok ()
  | v :: vs, known =>
    match entryIdErr (on .vmFragment) (on .vmUnique) (on .vmPrefix) owner v.id v.pfx v.frag known with
    | some e => .err ("validate:vm:" ++ e)
    | none =>
      match v.key with
      | .bad => .err "validate:vm:jwk"
      | .none => if nilErr then .err "validate:vm:jwk" else .panic "verifyThumbprint:nil-jwk"
      | .key k =>
        if on .vmThumbprint && thumb k ≠ v.frag then .err "validate:vm:thumbprint"
        else validateVMs thumb nilErr on owner vs (v.id :: known)

/-- `basicServiceValidator.Validate` -/
def validateSvcs (on : Rule → Bool) (owner : String) : List NSvc → List String → List String → Res Unit
  | [], _, _ => .ok ()
  | s :: ss, knownIds, knownTypes =>
    match entryIdErr (on .svcFragment) (on .svcUnique) (on .svcPrefix) owner s.id s.pfx s.frag knownIds with
    | some e => .err ("validate:svc:" ++ e)
    | none =>
      if on .svcTypeUnique && knownTypes.contains s.type then .err "validate:svc:duplicate-type"
      else validateSvcs on owner ss (s.id :: knownIds) (s.type :: knownTypes)

/-- `nilEntryValidator.Validate`: null entries are refused before anything dereferences them -/
def validateNil (on : Rule → Bool) (d : NDoc) : Res Unit :=
  if on .nilEntries && d.vmNull then .err "validate:nil:verificationMethod"
  else if on .nilEntries && d.relNull then .err "validate:nil:relationship"
  else .ok ()

def runValidator (thumb : Key → String) (nilErr : Bool) (on : Rule → Bool) (d : NDoc) : Validator → Res Unit
  | .nilEntry => validateNil on d
  | .w3c => validateW3C on d
  | .nutsVM => validateVMs thumb nilErr on d.id d.vms []
  | .nutsService => validateSvcs on d.id d.services [] []

/-- `did.MultiValidator.Validate`: first error wins -/
def validateList (thumb : Key → String) (nilErr : Bool) (on : Rule → Bool) (d : NDoc) : List Validator → Res Unit
  | [] => .ok ()
  | v :: vs =>
    match runValidator thumb nilErr on d v with
    | .ok () => validateList thumb nilErr on d vs
    | .err e => .err e
    | .panic s => .panic s

/-- `NetworkDocumentValidator().Validate(doc)`; `vals` is the regenerated list of composed validators and `nilErr`
    the regenerated fact "verifyThumbprint tests the JWK for nil" (without the test: nil-interface panic; the
    theorems hold for either value) -/
def validate (thumb : Key → String) (nilErr : Bool) (vals : List Validator) (d : NDoc) : Res Unit :=
  validateList thumb nilErr (fun _ => true) d vals

/-! ### resolver.go -/

def controllersOf (d : Doc) : List String := (d.f .controller).map (·.id)

/-- errors for which `resolveControllers` silently skips a controller reference
    (ErrDeactivated, ErrNoActiveController, ErrNotFound; ErrDIDMethodNotSupported cannot come from the store) -/
def skippable (e : String) : Bool := e == eDeactivated || e == eNoActiveController || e == eNotFound

/-- the loop `for _, ref := range refsToResolve` -/
def resolveRefs (res : String → Res Doc) : List String → Res (List Doc)
  | [] => .ok []
  | r :: rs =>
    match res r with
    | .ok node =>
      match resolveRefs res rs with
      | .ok l => .ok (node :: l)
      | .err e => .err e
      | .panic s => .panic s
    | .err e => if skippable e then resolveRefs res rs else .err e
    | .panic s => .panic s

/-- the document is added as a leaf once for every time it lists itself (or once if it has no controller) -/
def selfLeaves (doc : Doc) : List Doc :=
  let cs := controllersOf doc
  let hasCI := !(doc.f .capInv).isEmpty
  if cs.isEmpty then (if hasCI then [doc] else [])
  else (cs.filter (fun c => c == doc.id)).flatMap (fun _ => if hasCI then [doc] else [])

def foreignRefs (doc : Doc) : List String := (controllersOf doc).filter (fun c => !(c == doc.id))

/-- `resolveControllers(didResolver, doc, metadata, depth)` where `res` is `resolve(didResolver, ·, metadata, depth)` -/
def ctrlsWith (res : String → Res Doc) (doc : Doc) : Res (List Doc) :=
  match resolveRefs res (foreignRefs doc) with
  | .ok l => .ok ((selfLeaves doc ++ l).filter (fun d => !isDeactivated d))
  | .err e => .err e
  | .panic s => .panic s

/-- `resolve(didResolver, id, metadata, depth)` with `n = maxControllerDepth - depth` remaining;
    `R` is `didResolver.Resolve(·, metadata)` and `allow` is `metadata != nil && metadata.AllowDeactivated` -/
def resolveN (R : String → Res Doc) (allow : Bool) : Nat → String → Res Doc
  | 0, _ => .err eTooDeep
  | n + 1, id =>
    match R id with
    | .ok doc =>
      if !(controllersOf doc).isEmpty && !allow then
        match ctrlsWith (fun r => resolveN R allow n r) doc with
        | .ok cs => if cs.isEmpty then .err eNoActiveController else .ok doc
        | .err e => .err e
        | .panic s => .panic s
      else .ok doc
    | .err e => .err e
    | .panic s => .panic s

def allowOf (rm : Option ResolveMeta) : Bool :=
  match rm with | some r => r.allowDeactivated | none => false

/-- `didstore.Store.Resolve` (document only) -/
def storeDoc (s : Store) (rm : Option ResolveMeta) (id : String) : Res Doc :=
  match resolve s id rm with
  | .ok (d, _) => .ok d
  | .err e => .err e
  | .panic x => .panic x

/-- `didnuts.Resolver.Resolve` -/
def resolverResolve (maxDepth : Nat) (s : Store) (rm : Option ResolveMeta) (id : String) : Res Doc :=
  if allowOf rm then storeDoc s rm id
  else resolveN (storeDoc s rm) false maxDepth id

/-- `ResolveControllers(&Resolver{Store}, doc, metadata)` as the ambassador calls it: the outer recursion runs over
    the `Resolver` (which itself runs the inner recursion over the store from depth 0) -/
def resolveControllersTop (maxDepth : Nat) (s : Store) (rm : Option ResolveMeta) (doc : Doc) : Res (List Doc) :=
  ctrlsWith (fun r => resolveN (resolverResolve maxDepth s rm) (allowOf rm) maxDepth r) doc

/-! ### dag/keys.go -/

structure Kid where
  parseOK : Bool := true   -- did.ParseDIDURL(kid) succeeds
  holder : String := ""    -- the DID part
  id : String := ""        -- the parsed DID URL as string
  deriving DecidableEq, Repr, Inhabited

/-- `resolvePublicKey(didResolver, kid, metadata)`; `res` is `didResolver.Resolve(·, &metadata)` -/
def resolvePublicKey1 (res : Option ResolveMeta → String → Res Doc) (kid : Kid) (rm : Option ResolveMeta) : Res Key :=
  if !kid.parseOK then .err eInvalidKid
  else
    match res rm kid.holder with
    | .ok doc =>
      match (doc.f .vm).find? (fun e => e.id == kid.id) with
      | none => .err eKeyNotFound
      | some vm =>
        if pkMarked vm.body then .err eUnsupportedType
        else
          match KeyInfo.ofBody vm.body with
          | .key k => .ok k
          | .bad => .err eBadJwk
          | .none => .panic "VerificationMethod.PublicKey:nil-jwk"
    | .err e => .err e
    | .panic x => .panic x

/-- `SourceTXKeyResolver{Resolver: r}.ResolvePublicKey(kid, sourceTransactionsRefs)` -/
def resolvePublicKeyWith (res : Option ResolveMeta → String → Res Doc) (kid : Kid) : List Nat → Res Key
  | [] => .err eNotFound
  | h :: hs =>
    match resolvePublicKey1 res kid (some { sourceTx := some h }) with
    | .ok k => .ok k
    | .err e => if e = eNotFound then resolvePublicKeyWith res kid hs else .err e
    | .panic x => .panic x

/-- the ambassador's key resolver (`NewAmbassador`: `dag.SourceTXKeyResolver{Resolver: didnuts.Resolver{Store}}`) -/
def resolvePublicKey (maxDepth : Nat) (s : Store) (kid : Kid) (prevs : List Nat) : Res Key :=
  resolvePublicKeyWith (resolverResolve maxDepth s) kid prevs

/-- the DAG signature verifier's key resolver (`Network.Configure`: `dag.SourceTXKeyResolver{Resolver: n.didStore}` —
    the store itself, no controller check) -/
def resolvePublicKeyStore (s : Store) (kid : Kid) (prevs : List Nat) : Res Key :=
  resolvePublicKeyWith (storeDoc s) kid prevs

/-! ### transactions -/

structure Tx where
  ref : Nat
  clock : Nat
  sigTime : Nat
  prevs : List Nat
  payloadHash : String
  payloadHashEmpty : Bool := false
  sigTimeZero : Bool := false
  typeOK : Bool := true            -- PayloadType() == "application/did+json"
  embedded : Option Key := none     -- SigningKey() (jwk header)
  kid : Kid := {}                   -- SigningKeyID() (kid header)
  signer : Key                      -- the key whose private half made the signature
  deriving Repr, Inhabited

/-- `NewTransactionSignatureVerifier`: the signature verifies iff the key used for verification is the signer's -/
def verifySig (s : Store) (tx : Tx) : Res Unit :=
  match tx.embedded with
  | some k => if k = tx.signer then .ok () else .err "sig:invalid"
  | none =>
    match resolvePublicKeyStore s tx.kid tx.prevs with
    | .ok k => if k = tx.signer then .ok () else .err "sig:invalid"
    | .err e => .err ("sig:key:" ++ e)
    | .panic x => .panic x

/-! ### ambassador.go -/

structure Cfg where
  thumb : Key → String      -- RFC 7638 SHA-256 thumbprint as it appears in key ids (base64url) / compared in findKeyByThumbprint
  didThumb : Key → String   -- the same thumbprint as it appears in a DID (`nutsCrypto.Thumbprint`: base58)
  maxDepth : Nat
  validators : List Validator
  vmNilJwkErr : Bool        -- verifyThumbprint guards against a nil JWK (else: panic)
  findKeyNilJwkErr : Bool   -- findKeyByThumbprint guards against a nil JWK (else: panic)
  store : C10.Cfg

def checkTransactionIntegrity (tx : Tx) : Res Unit :=
  if !tx.typeOK then .err "integrity:payload-type"
  else if tx.payloadHashEmpty then .err "integrity:payload-hash"
  else if tx.sigTimeZero then .err "integrity:signing-time"
  else .ok ()

def eventOf (tx : Tx) (d : NDoc) : Event :=
  { clock := tx.clock, sigTime := tx.sigTime, ref := tx.ref, prevs := tx.prevs,
    payloadHash := tx.payloadHash, doc := d.toDoc }

def storeAdd (c : Cfg) (s : Store) (tx : Tx) (d : NDoc) : Res Store :=
  match add c.store s (eventOf tx d) with
  | .ok s' => .ok s'
  | .err e => .err ("store:" ++ e)
  | .panic x => .panic x

/-- `handleCreateDIDDocument` (the `SigningKey() == nil` test is dead code behind `isUpdate`) -/
def handleCreate (c : Cfg) (s : Store) (tx : Tx) (k : Key) (d : NDoc) : Res Store :=
  if d.idID ≠ c.didThumb k then .err "create:thumbprint-mismatch"
  else storeAdd c s tx d

/-- the loop over `transaction.Previous()` that picks the version the update refers to, then the fallback -/
def currentVersion (s : Store) (id : String) : List Nat → Res Doc
  | [] =>
    match resolve s id (some { allowDeactivated := true }) with
    | .ok (d, _) => .ok d
    | .err e => .err ("update:resolve:" ++ e)
    | .panic x => .panic x
  | p :: ps =>
    match resolve s id (some { allowDeactivated := true, sourceTx := some p }) with
    | .ok (d, _) => .ok d
    | .err e => if e = eNotFound then currentVersion s id ps else .err ("update:resolve:" ++ e)
    | .panic x => .panic x

/-- every version of the document that the transaction's prevs name (with its hash), in the order of the prevs -/
def namedVersions (s : Store) (id : String) : List Nat → Res (List (Doc × Hash))
  | [] => .ok []
  | p :: ps =>
    match resolve s id (some { allowDeactivated := true, sourceTx := some p }) with
    | .ok (d, m) =>
      match namedVersions s id ps with
      | .ok l => .ok ((d, m.hash) :: l)
      | .err e => .err e
      | .panic x => .panic x
    | .err e => if e = eNotFound then namedVersions s id ps else .err ("update:resolve:" ++ e)
    | .panic x => .panic x

/-- distinct hashes, first occurrence kept -/
def dedupByHash : List (Doc × Hash) → List Hash → List Doc
  | [], _ => []
  | (d, h) :: l, seen => if seen.contains h then dedupByHash l seen else d :: dedupByHash l (h :: seen)

/-- the versions the transaction names besides the first one found (`otherVersions` in `handleUpdateDIDDocument`) -/
def otherNamed (s : Store) (id : String) (prevs : List Nat) : Res (List Doc) :=
  match namedVersions s id prevs with
  | .ok [] => .ok []
  | .ok ((_, h) :: l) => .ok (dedupByHash l [h])
  | .err e => .err e
  | .panic x => .panic x

/-- `ambassador.resolveControllers`: per previous transaction, errors not-found / no-active-controller skipped -/
def ctrlsPerPrev (c : Cfg) (s : Store) (doc : Doc) : List Nat → Res (List Doc)
  | [] => .ok []
  | p :: ps =>
    match resolveControllersTop c.maxDepth s (some { sourceTx := some p }) doc with
    | .ok cs =>
      match ctrlsPerPrev c s doc ps with
      | .ok rest => .ok (cs ++ rest)
      | .err e => .err e
      | .panic x => .panic x
    | .err e => if e = eNotFound || e = eNoActiveController then ctrlsPerPrev c s doc ps else .err e
    | .panic x => .panic x

def ambControllers (c : Cfg) (s : Store) (doc : Doc) (tx : Tx) : Res (List Doc) :=
  match ctrlsPerPrev c s doc tx.prevs with
  | .ok cs =>
    if cs.isEmpty then resolveControllersTop c.maxDepth s (some { time := some tx.sigTime }) doc
    else .ok cs
  | .err e => .err e
  | .panic x => .panic x

/-- `findKeyByThumbprint` over the controllers' capabilityInvocation entries -/
def findKey (thumb : Key → String) (nilErr : Bool) (t : String) : List Entry → Res Bool
  | [] => .ok false
  | e :: es =>
    match KeyInfo.ofBody e.body with
    | .bad => .err "update:capinv-jwk"
    | .none => if nilErr then .err "update:capinv-jwk" else .panic "findKeyByThumbprint:nil-jwk"
    | .key k => if thumb k = t then .ok true else findKey thumb nilErr t es

def capInvOf (cs : List Doc) : List Entry := cs.flatMap (fun d => d.f .capInv)

/-- is the key with thumbprint `t` listed for capabilityInvocation by a controller of version `v`? -/
def authorisedBy (c : Cfg) (s : Store) (tx : Tx) (t : String) (v : Doc) : Res Bool :=
  match ambControllers c s v tx with
  | .err e => .err ("update:controllers:" ++ e)
  | .panic x => .panic x
  | .ok ctrls => findKey c.thumb c.findKeyNilJwkErr t (capInvOf ctrls)

/-- the loop over `otherVersions`: every other version the prevs name must authorise the signing key as well -/
def checkOthers (c : Cfg) (s : Store) (tx : Tx) (t : String) : List Doc → Res Bool
  | [] => .ok true
  | v :: vs =>
    match authorisedBy c s tx t v with
    | .ok true => checkOthers c s tx t vs
    | .ok false => .ok false
    | .err e => .err e
    | .panic x => .panic x

/-- `handleUpdateDIDDocument` -/
def handleUpdate (c : Cfg) (s : Store) (tx : Tx) (d : NDoc) : Res Store :=
  match currentVersion s d.id tx.prevs with
  | .err e => .err e
  | .panic x => .panic x
  | .ok cur =>
    match ambControllers c s cur tx with
    | .err e => .err ("update:controllers:" ++ e)
    | .panic x => .panic x
    | .ok ctrls =>
      match resolvePublicKey c.maxDepth s tx.kid tx.prevs with
      | .err e => .err ("update:signingkey:" ++ e)
      | .panic x => .panic x
      | .ok k =>
        match findKey c.thumb c.findKeyNilJwkErr (c.thumb k) (capInvOf ctrls) with
        | .err e => .err e
        | .panic x => .panic x
        | .ok false => .err "update:not-signed-by-controller"
        | .ok true =>
          match otherNamed s d.id tx.prevs with
          | .err e => .err e
          | .panic x => .panic x
          | .ok others =>
            match checkOthers c s tx (c.thumb k) others with
            | .err e => .err e
            | .panic x => .panic x
            | .ok false => .err "update:not-signed-by-controller"
            | .ok true => storeAdd c s tx d

/-- `callback(tx, payload)`; `pd = none` when the payload does not unmarshal into a `did.Document` -/
def callback (c : Cfg) (s : Store) (tx : Tx) (pd : Option NDoc) : Res Store :=
  match checkTransactionIntegrity tx with
  | .err e => .err e
  | .panic x => .panic x
  | .ok () =>
    match pd with
    | none => .err "unmarshal"
    | some d =>
      match validate c.thumb c.vmNilJwkErr c.validators d with
      | .err e => .err e
      | .panic x => .panic x
      | .ok () =>
        match tx.embedded with
        | none => handleUpdate c s tx d
        | some k => handleCreate c s tx k d

/-- what the node does with a received DID-document transaction: the DAG's signature verifier, then the callback -/
def deliver (c : Cfg) (s : Store) (tx : Tx) (pd : Option NDoc) : Res Store :=
  match verifySig s tx with
  | .ok () => callback c s tx pd
  | .err e => .err e
  | .panic x => .panic x

/-- one delivery: the store afterwards and the outcome class -/
def step (c : Cfg) (s : Store) (tx : Tx) (pd : Option NDoc) : Store × String :=
  match deliver c s tx pd with
  | .ok s' => (s', "ok")
  | .err e => (s, "err:" ++ e)
  | .panic x => (s, "panic:" ++ x)

end Nuts.C09
