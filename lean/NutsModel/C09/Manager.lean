/-
  C09 — the node's OWN publishing path for did:nuts updates: what `Manager.Update` hands to the network.  Core Lean only.

  Mirrors vdr/didnuts/manager.go : Manager.Update (steps up to `networkClient.CreateTransaction`), resolveControllerWithKey.
  `Deactivate` = `Update` with the empty document, `RemoveVerificationMethod` = `Update` with one method removed.
  Wiring (vdr/vdr.go, NewManager): `m.store` = the DID store, `m.resolver` = `didnuts.Resolver{Store}` for did:nuts.
  The key store is the predicate `has` (kid -> the node holds the private key); the managed-service check
  (`managedServiceValidator`, needs service resolution) is the flag `svcOk`; JSON-LD contexts are added by the caller of the
  model (`next` is the document AFTER `withJSONLDContext`).
-/
import NutsModel.C09.Ambassador

namespace Nuts.C09
open Nuts Nuts.C10

/-- what `Manager.Update` asks the network to create: `TransactionTemplate(DIDDocumentType, payload, kid)
    .WithAdditionalPrevs(previousTransactions)` -/
structure Published where
  kid : String
  prevs : List Nat
  doc : NDoc
  deriving Repr, Inhabited

/-- `resolveControllerWithKey`'s double loop: the first controller (in `ResolveControllers` order) and its first
    capabilityInvocation entry whose key id the key store has -/
def firstOwnedKey (has : String → Bool) : List Doc → Option (Doc × String)
  | [] => none
  | c :: cs =>
    match (c.f .capInv).find? (fun e => has e.id) with
    | some e => some (c, e.id)
    | none => firstOwnedKey has cs

/-- `ResolveControllers(m.store, doc, nil)`: the recursion runs over the STORE itself (not over `didnuts.Resolver`) -/
def managerControllers (maxDepth : Nat) (s : Store) (doc : Doc) : Res (List Doc) :=
  ctrlsWith (fun r => resolveN (storeDoc s none) false maxDepth r) doc

/-- `Manager.Update(ctx, id, next)` up to and including the transaction template -/
def managerUpdate (c : Cfg) (s : Store) (has : String → Bool) (svcOk : Bool) (id : String) (next : NDoc) : Res Published :=
  match resolve s id (some { allowDeactivated := true }) with
  | .err e => .err ("mgr:resolve:" ++ e)
  | .panic x => .panic x
  | .ok (cur, curMeta) =>
    if curMeta.deactivated then .err "mgr:deactivated"
    else
      match validate c.thumb c.vmNilJwkErr c.validators next with
      | .err e => .err ("mgr:" ++ e)
      | .panic x => .panic x
      | .ok () =>
        if !svcOk then .err "mgr:validate:managed-service"
        else
          match managerControllers c.maxDepth s cur with
          | .err e => .err ("mgr:controllers:" ++ e)
          | .panic x => .panic x
          | .ok ctrls =>
            if ctrls.isEmpty then .err "mgr:no-controllers"
            else
              match firstOwnedKey has ctrls with
              | none => .err "mgr:no-key"
              | some (ctrl, kid) =>
                -- `m.resolver.Resolve(controller.ID, nil)` (for the metadata)
                match resolverResolve c.maxDepth s none ctrl.id with
                | .err e => .err ("mgr:controller-meta:" ++ e)
                | .panic x => .panic x
                | .ok _ =>
                  match resolve s ctrl.id none with
                  | .ok (_, ctrlMeta) => .ok { kid := kid, prevs := curMeta.sourceTx ++ ctrlMeta.sourceTx, doc := next }
                  | .err e => .err ("mgr:controller-meta:" ++ e)
                  | .panic x => .panic x

end Nuts.C09
