/-
  C09 — the ENTRY layer of the did:nuts ambassador: how a DAG event reaches `callback` and what the ambassador answers
  to the notifier.  Core Lean only.

  Mirrors (file : function):
    vdr/didnuts/ambassador.go : Start (the `network.WithSelectionFilter` closure handed to `networkClient.Subscribe`),
                                handleNetworkEvent (error classification: database error => retry, anything else => fatal)
    network/dag/notifier.go   : notifier.Notify (filters first, then the receiver) — only the part "a filtered event never
                                reaches the receiver"; retry scheduling / persistence are not modelled here
  The constants the filter compares with (`dag.PayloadEventType`, `didnuts.DIDDocumentType`) and the classification
  condition are REGENERATED (Facts.C09.*), the driver instantiates `EntryCfg` with them.

  Fault injection: `AddFault` = `didStore.Add` fails (with or without a `stoabs.ErrDatabase` wrapper). Every path of
  `callback` ends in that one store call (`fact_store_calls`), so the faulty run is the normal run whose last step fails.
-/
import NutsModel.C09.Ambassador

namespace Nuts.C09
open Nuts Nuts.C10

/-- the two constants `ambassador.Start`'s selection filter compares with -/
structure EntryCfg where
  payloadEventType : String   -- dag.PayloadEventType
  didDocumentType : String    -- didnuts.DIDDocumentType
  deriving Repr, Inhabited

/-- a `dag.Event` as the notifier hands it to its filters and to the receiver -/
structure DagEvent where
  evType : String              -- Event.Type
  payloadType : String         -- Event.Transaction.PayloadType()
  tx : Tx                      -- Event.Transaction
  payload : Option NDoc        -- Event.Payload, parsed (same contract as `callback`'s `pd`)
  deriving Repr, Inhabited

/-- `Tx.typeOK` is by definition the comparison `PayloadType() == DIDDocumentType` that `checkTransactionIntegrity`
    makes; an event is coherent when the flag says what the payload type says -/
def DagEvent.coherent (e : EntryCfg) (ev : DagEvent) : Prop :=
  ev.tx.typeOK = (ev.payloadType == e.didDocumentType)

/-- the closure `func(event dag.Event) bool { return event.Type == dag.PayloadEventType &&
    event.Transaction.PayloadType() == DIDDocumentType }` -/
def selectionFilter (e : EntryCfg) (ev : DagEvent) : Bool :=
  ev.evType == e.payloadEventType && ev.payloadType == e.didDocumentType

/-- `didStore.Add` fails with an error named `name`; `isDb` = the error is (wraps) a `stoabs.ErrDatabase` -/
structure AddFault where
  name : String
  isDb : Bool
  deriving DecidableEq, Repr, Inhabited

def faultErr (f : AddFault) : String := "store:fault:" ++ f.name

/-- is this error of the model's own `storeAdd` (the real store refused the event)? -/
def isStoreErr (e : String) : Bool := e.startsWith "store:"

/-- `callback` run against a DID store whose `Add` fails: whatever reached `didStore.Add` gets the fault's error,
    everything refused earlier is refused as before. (A panic inside the real `Add` cannot happen: it does not run.) -/
def callbackF (c : Cfg) (s : Store) (tx : Tx) (pd : Option NDoc) : Option AddFault → Res Store
  | none => callback c s tx pd
  | some f =>
    match callback c s tx pd with
    | .ok _ => .err (faultErr f)
    | .err e => if isStoreErr e then .err (faultErr f) else .err e
    | .panic x => .panic x

/-- what `handleNetworkEvent` returns to the notifier -/
inductive Ack where
  | finished                 -- (true, nil)
  | fatal (e : String)       -- (false, dag.EventFatal{Err: err}): never retried
  | retry (e : String)       -- (false, err): the notifier schedules a retry
  | panic (x : String)
  deriving DecidableEq, Repr, Inhabited

def Ack.render : Ack → String
  | .finished => "ok"
  | .fatal e => "err:" ++ e
  | .retry e => "retry:err:" ++ e
  | .panic x => "panic:" ++ x

/-- `errors.As(err, new(stoabs.ErrDatabase))` on the callback's error: only a failing store call yields a database
    error, and only when the store's error is one -/
def isDatabaseErr (f : Option AddFault) (e : String) : Bool :=
  match f with
  | some f => f.isDb && e == faultErr f
  | none => false

/-- `handleNetworkEvent(event)`; `fatalUnlessDb` is the regenerated fact "the error is wrapped into `dag.EventFatal`
    exactly when it is NOT a database error" (with `false`: every error would be retried) -/
def handleNetworkEvent (fatalUnlessDb : Bool) (c : Cfg) (s : Store) (ev : DagEvent) (f : Option AddFault) : Store × Ack :=
  match callbackF c s ev.tx ev.payload f with
  | .ok s' => (s', .finished)
  | .err e => if fatalUnlessDb && !isDatabaseErr f e then (s, .fatal e) else (s, .retry e)
  | .panic x => (s, .panic x)

/-- `notifier.Notify(event)` of the subscription `Start` makes: the filters decide whether the receiver runs at all
    (`none` = the receiver was not called) -/
def notify (e : EntryCfg) (fatalUnlessDb : Bool) (c : Cfg) (s : Store) (ev : DagEvent) (f : Option AddFault) : Store × Option Ack :=
  if selectionFilter e ev then
    let r := handleNetworkEvent fatalUnlessDb c s ev f
    (r.1, some r.2)
  else (s, none)

/-- any stream of events, each with its (possible) store fault -/
def notifyAll (e : EntryCfg) (fatalUnlessDb : Bool) (c : Cfg) : Store → List (DagEvent × Option AddFault) → Store
  | s, [] => s
  | s, p :: ps => notifyAll e fatalUnlessDb c (notify e fatalUnlessDb c s p.1 p.2).1 ps

/-- the events of a stream that reach `callback` with a working store, as (transaction, payload) pairs -/
def passed (e : EntryCfg) : List (DagEvent × Option AddFault) → List (Tx × Option NDoc)
  | [] => []
  | p :: ps =>
    if selectionFilter e p.1 && p.2.isNone then (p.1.tx, p.1.payload) :: passed e ps else passed e ps

end Nuts.C09
