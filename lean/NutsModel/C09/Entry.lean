/-
  C09 — the ENTRY layer of the did:nuts ambassador: how a DAG event reaches `callback` and what the ambassador answers
  to the notifier.  Core Lean only.

  Mirrors (file : function):
    vdr/didnuts/ambassador.go : Start (the `network.WithSelectionFilter` closure handed to `networkClient.Subscribe`),
                                handleNetworkEvent (error classification: database error => retry, anything else => fatal)
    network/dag/notifier.go   : notifier.Notify (filters first, then the receiver) — only the part "a filtered event never
                                reaches the receiver"; retry scheduling / persistence are not modelled here
  The constants the filter compares with (`dag.PayloadEventType`, `didnuts.DIDDocumentType`) and the classification
  condition are REGENERATED (Facts.C09.*), the driver instantiates `EntryCfg` with them.

  Fault injection (`AddFault`, with or without a `stoabs.ErrDatabase` wrapper) at the ambassador's own store handle:
  * `didStore.Add` fails. Every path of `callback` ends in that one store call (`fact_store_calls`), so the faulty run
    is the normal run whose last step fails.
  * `didStore.Resolve` fails in `handleUpdateDIDDocument`'s loop over the transaction's prevs (position k) or in the
    fallback lookup after it: the loop returns the error at once (regenerated fact `updateLookupErrorBranch`).
-/
import NutsModel.C09.Ambassador

namespace Nuts.C09
open Nuts Nuts.C10

/-- the two constants `ambassador.Start`'s selection filter compares with -/
structure EntryCfg where
  payloadEventType : String   -- dag.PayloadEventType
  didDocumentType : String    -- didnuts.DIDDocumentType
  deriving Repr, Inhabited

/-- a `dag.Event` as the notifier hands it to its filters and to the receiver -/
structure DagEvent where
  evType : String              -- Event.Type
  payloadType : String         -- Event.Transaction.PayloadType()
  tx : Tx                      -- Event.Transaction
  payload : Option NDoc        -- Event.Payload, parsed (same contract as `callback`'s `pd`)
  deriving Repr, Inhabited

/-- `Tx.typeOK` is by definition the comparison `PayloadType() == DIDDocumentType` that `checkTransactionIntegrity`
    makes; an event is coherent when the flag says what the payload type says -/
def DagEvent.coherent (e : EntryCfg) (ev : DagEvent) : Prop :=
  ev.tx.typeOK = (ev.payloadType == e.didDocumentType)

/-- the closure `func(event dag.Event) bool { return event.Type == dag.PayloadEventType &&
    event.Transaction.PayloadType() == DIDDocumentType }` -/
def selectionFilter (e : EntryCfg) (ev : DagEvent) : Bool :=
  ev.evType == e.payloadEventType && ev.payloadType == e.didDocumentType

/-- where the ambassador's own DID store handle (`n.didStore`) fails -/
inductive FaultSite where
  /-- `didStore.Add` fails -/
  | add
  /-- `didStore.Resolve(id, {AllowDeactivated, SourceTransaction: prev})` in the loop over `transaction.Previous()` of
      `handleUpdateDIDDocument` fails at the prev positions `ks` (0-based); `fallback`: the latest-version lookup after
      the loop fails as well -/
  | lookup (ks : List Nat) (fallback : Bool)
  deriving DecidableEq, Repr, Inhabited

/-- a failing store call: error named `name`; `isDb` = the error is (wraps) a `stoabs.ErrDatabase` -/
structure AddFault where
  name : String
  isDb : Bool
  site : FaultSite := .add
  deriving DecidableEq, Repr, Inhabited

def faultErr (f : AddFault) : String :=
  match f.site with
  | .add => "store:fault:" ++ f.name
  | .lookup _ _ => "update:resolve:fault:" ++ f.name

/-- is this error of the model's own `storeAdd` (the real store refused the event)? -/
def isStoreErr (e : String) : Bool := e.startsWith "store:"

/-- the steps of `callback` in front of `handleUpdateDIDDocument`: `some d` iff the delivery reaches it with document `d` -/
def reachesUpdate (c : Cfg) (tx : Tx) (pd : Option NDoc) : Option NDoc :=
  match checkTransactionIntegrity tx with
  | .ok () =>
    match pd with
    | none => none
    | some d =>
      match validate c.thumb c.vmNilJwkErr c.validators d with
      | .ok () => (match tx.embedded with | none => some d | some _ => none)
      | _ => none
  | _ => none

/-- after the loop no version was found: the fallback lookup (latest version) is made -/
def fallbackUsed (s : Store) (id : String) (prevs : List Nat) : Bool :=
  match namedVersions s id prevs with
  | .ok [] => true
  | _ => false

/-- does a failing lookup get executed? The loop visits EVERY prev (it does not stop at the first version found) and
    returns the first error that is not not-found; the fallback lookup runs only when the loop found nothing -/
def lookupHit (s : Store) (id : String) (prevs : List Nat) (ks : List Nat) (fallback : Bool) : Bool :=
  ks.any (fun k => decide (k < prevs.length)) || (fallback && fallbackUsed s id prevs)

/-- does the fault fire in this delivery (when it reaches the faulty call at all)? -/
def faultHit (c : Cfg) (s : Store) (tx : Tx) (pd : Option NDoc) : Option AddFault → Bool
  | none => false
  | some f =>
    match f.site with
    | .add => true
    | .lookup ks fb =>
      match reachesUpdate c tx pd with
      | some d => lookupHit s d.id tx.prevs ks fb
      | none => false

/-- `callback` run against a faulty DID store.
    `add`: whatever reached `didStore.Add` gets the fault's error, everything refused earlier is refused as before
    (a panic inside the real `Add` cannot happen: it does not run).
    `lookup`: a delivery that reaches `handleUpdateDIDDocument` and executes a failing lookup returns that error at once
    (`unable to update DID document: %w`) — before controllers, key and authorisation are looked at; otherwise as before. -/
def callbackF (c : Cfg) (s : Store) (tx : Tx) (pd : Option NDoc) : Option AddFault → Res Store
  | none => callback c s tx pd
  | some f =>
    match f.site with
    | .add =>
      match callback c s tx pd with
      | .ok _ => .err (faultErr f)
      | .err e => if isStoreErr e then .err (faultErr f) else .err e
      | .panic x => .panic x
    | .lookup _ _ =>
      if faultHit c s tx pd (some f) then .err (faultErr f) else callback c s tx pd

/-- what `handleNetworkEvent` returns to the notifier -/
inductive Ack where
  | finished                 -- (true, nil)
  | fatal (e : String)       -- (false, dag.EventFatal{Err: err}): never retried
  | retry (e : String)       -- (false, err): the notifier schedules a retry
  | panic (x : String)
  deriving DecidableEq, Repr, Inhabited

def Ack.render : Ack → String
  | .finished => "ok"
  | .fatal e => "err:" ++ e
  | .retry e => "retry:err:" ++ e
  | .panic x => "panic:" ++ x

/-- `errors.As(err, new(stoabs.ErrDatabase))` on the callback's error: only a failing store call yields a database
    error, and only when the store's error is one -/
def isDatabaseErr (f : Option AddFault) (e : String) : Bool :=
  match f with
  | some f => f.isDb && e == faultErr f
  | none => false

/-- `handleNetworkEvent(event)`; `fatalUnlessDb` is the regenerated fact "the error is wrapped into `dag.EventFatal`
    exactly when it is NOT a database error" (with `false`: every error would be retried) -/
def handleNetworkEvent (fatalUnlessDb : Bool) (c : Cfg) (s : Store) (ev : DagEvent) (f : Option AddFault) : Store × Ack :=
  match callbackF c s ev.tx ev.payload f with
  | .ok s' => (s', .finished)
  | .err e => if fatalUnlessDb && !isDatabaseErr f e then (s, .fatal e) else (s, .retry e)
  | .panic x => (s, .panic x)

/-- `notifier.Notify(event)` of the subscription `Start` makes: the filters decide whether the receiver runs at all
    (`none` = the receiver was not called) -/
def notify (e : EntryCfg) (fatalUnlessDb : Bool) (c : Cfg) (s : Store) (ev : DagEvent) (f : Option AddFault) : Store × Option Ack :=
  if selectionFilter e ev then
    let r := handleNetworkEvent fatalUnlessDb c s ev f
    (r.1, some r.2)
  else (s, none)

/-- any stream of events, each with its (possible) store fault -/
def notifyAll (e : EntryCfg) (fatalUnlessDb : Bool) (c : Cfg) : Store → List (DagEvent × Option AddFault) → Store
  | s, [] => s
  | s, p :: ps => notifyAll e fatalUnlessDb c (notify e fatalUnlessDb c s p.1 p.2).1 ps

end Nuts.C09
