/-
  C09 — the seen-set of `basicServiceValidator.Validate` (vdr/didnuts/validators.go), literally:

      if knownServiceTypes[LOOK(service)] { return duplicate }
      knownServiceTypes[REC(service)] = true

  `look` / `rec` are the two key expressions (REGENERATED: Facts.C09.serviceTypeLookupKey / serviceTypeRecordKey; today both
  are `service.Type`, which is what `validateSvcs` in Ambassador.lean hard-codes). The rule "at most one service per type"
  is enforced exactly when both expressions are the same function of the service type.  Core Lean only.
-/
namespace Nuts.C09

/-- does the loop report a duplicate? `seen` = the keys recorded so far -/
def seenSetRejects (look rec : String → String) : List String → List String → Bool
  | [], _ => false
  | t :: ts, seen => if seen.contains (look t) then true else seenSetRejects look rec ts (rec t :: seen)

/-- the key expressions as the model understands them: the source text of the index expression -> function of the type -/
def serviceTypeKey (src : String) : Option (String → String) :=
  if src = "service.Type" then some (fun t => t) else none

end Nuts.C09
