/-
  C18/C20 — byte-level model of the parts of Go's `net/url`, `net/netip` that nuts-node's did:web code and
  `core.ParsePublicURL` rely on (Go 1.23: url.Parse, parseAuthority, parseHost, unescape, escape, setPath,
  splitHostPort, netip.ParseAddr accept/reject).  Strings are Go strings: lists of bytes (`Nat`, each < 256).
  Core Lean only.  These are "written-down models" of the standard library (DESIGN §4): tied to the real
  functions by the correspondence harness, not verified.
-/
import NutsModel.Base

namespace Nuts.C18

abbrev Bytes := List Nat

/-! ### characters -/
def cPct : Nat := 37      -- %
def cSlash : Nat := 47    -- /
def cColon : Nat := 58    -- :
def cQ : Nat := 63        -- ?
def cHash : Nat := 35     -- #
def cAt : Nat := 64       -- @
def cDot : Nat := 46      -- .
def cLB : Nat := 91       -- [
def cRB : Nat := 93       -- ]

def isDigit (c : Nat) : Bool := 48 ≤ c && c ≤ 57
def isUpper (c : Nat) : Bool := 65 ≤ c && c ≤ 90
def isLower (c : Nat) : Bool := 97 ≤ c && c ≤ 122
def isAlnum (c : Nat) : Bool := isDigit c || isUpper c || isLower c
def isHex (c : Nat) : Bool := isDigit c || (65 ≤ c && c ≤ 70) || (97 ≤ c && c ≤ 102)
def unhex (c : Nat) : Nat :=
  if isDigit c then c - 48 else if 65 ≤ c && c ≤ 70 then c - 65 + 10 else c - 97 + 10
/-- `"0123456789ABCDEF"[n]` -/
def hexDigit (n : Nat) : Nat := if n < 10 then 48 + n else 55 + n
def toLowerB (c : Nat) : Nat := if isUpper c then c + 32 else c
def lower (s : Bytes) : Bytes := s.map toLowerB

/-! ### strings.* helpers -/

/-- `strings.Cut(s, string(c))`: before, after (`none` when `c` does not occur) -/
def cut (c : Nat) : Bytes → Bytes × Option Bytes
  | [] => ([], none)
  | x :: xs => if x = c then ([], some xs) else
      let r := cut c xs
      (x :: r.1, r.2)

/-- `strings.Split(s, string(c))` -/
def splitOn (c : Nat) : Bytes → List Bytes
  | [] => [[]]
  | x :: xs =>
    if x = c then [] :: splitOn c xs else
      match splitOn c xs with
      | [] => [[x]]          -- unreachable: splitOn never returns []
      | p :: ps => (x :: p) :: ps

def joinWith (c : Nat) : List Bytes → Bytes
  | [] => []
  | [p] => p
  | p :: ps => p ++ c :: joinWith c ps

/-- suffix after the LAST occurrence of `c` (`none` when absent): `s[strings.LastIndex(s, c)+1:]` -/
def afterLast (c : Nat) : Bytes → Option Bytes
  | [] => none
  | x :: xs =>
    match afterLast c xs with
    | some r => some r
    | none => if x = c then some xs else none

/-- prefix before the LAST occurrence of `c` (whole string when absent) -/
def beforeLast (c : Nat) : Bytes → Bytes
  | [] => []
  | x :: xs =>
    match afterLast c xs with
    | some _ => x :: beforeLast c xs
    | none => if x = c then [] else x :: beforeLast c xs

def hasSuffix (suf s : Bytes) : Bool := suf.isSuffixOf s
def cutSuffix (suf s : Bytes) : Bytes := if hasSuffix suf s then s.take (s.length - suf.length) else s
def hasPrefix (pre s : Bytes) : Bool := pre.isPrefixOf s

/-- `strings.Contains(s, "//")`-style: two consecutive `c` -/
def hasDouble (c : Nat) : Bytes → Bool
  | x :: y :: rest => (x = c && y = c) || hasDouble c (y :: rest)
  | _ => false

/-! ### percent escapes (net/url) -/

/-- every `%` is followed by two hex digits -/
def validEscapes : Bytes → Bool
  | [] => true
  | 37 :: a :: b :: rest => isHex a && isHex b && validEscapes rest
  | 37 :: _ => false
  | _ :: rest => validEscapes rest

/-- decode every `%HH` (call only when `validEscapes`; a malformed `%` is copied) -/
def unescapeAll : Bytes → Bytes
  | [] => []
  | 37 :: a :: b :: rest => (unhex a * 16 + unhex b) :: unescapeAll rest
  | c :: rest => c :: unescapeAll rest

/-- `url.PathUnescape` / `unescape(s, encodePath|encodePathSegment|encodeFragment)` -/
def pathUnescape (s : Bytes) : Res Bytes :=
  if validEscapes s then .ok (unescapeAll s) else .err "escape"

/-- `shouldEscape(c, encodeHost)` -/
def shouldEscapeHost (c : Nat) : Bool :=
  !(isAlnum c || [33, 36, 38, 39, 40, 41, 42, 43, 44, 59, 61, 58, 91, 93, 60, 62, 34].contains c
      || [45, 95, 46, 126].contains c)

/-- `shouldEscape(c, encodePath)` -/
def shouldEscapePath (c : Nat) : Bool :=
  !(isAlnum c || [45, 95, 46, 126].contains c || [36, 38, 43, 44, 47, 58, 59, 61, 64].contains c)

/-- `escape(s, encodePath)` -/
def escapePath (s : Bytes) : Bytes :=
  s.flatMap fun c => if shouldEscapePath c then [cPct, hexDigit (c / 16), hexDigit (c % 16)] else [c]

/-- the checking pass of `unescape(s, encodeHost)`: `%HH` only for bytes ≥ 0x80 (or `%25`), no ASCII byte that
    would need escaping -/
def hostCheck : Bytes → Bool
  | [] => true
  | 37 :: a :: b :: rest => isHex a && isHex b && !(unhex a < 8 && !(a = 50 && b = 53)) && hostCheck rest
  | 37 :: _ => false
  | c :: rest => !(c < 128 && shouldEscapeHost c) && hostCheck rest

/-- the checking pass of `unescape(s, encodeZone)` -/
def zoneCheck : Bytes → Bool
  | [] => true
  | 37 :: a :: b :: rest =>
    isHex a && isHex b &&
      !(!(a = 50 && b = 53) && (unhex a * 16 + unhex b) != 32 && shouldEscapeHost (unhex a * 16 + unhex b)) && zoneCheck rest
  | 37 :: _ => false
  | c :: rest => !(c < 128 && shouldEscapeHost c) && zoneCheck rest

def unescapeHost (s : Bytes) : Res Bytes := if hostCheck s then .ok (unescapeAll s) else .err "host-escape"
def unescapeZone (s : Bytes) : Res Bytes := if zoneCheck s then .ok (unescapeAll s) else .err "host-escape"

/-- `validOptionalPort` -/
def validOptionalPort : Bytes → Bool
  | [] => true
  | c :: rest => c = cColon && rest.all isDigit

/-- index of the first `%25` in `s` -/
def indexPct25 : Bytes → Option Nat
  | [] => none
  | 37 :: 50 :: 53 :: _ => some 0
  | _ :: rest => (indexPct25 rest).map (· + 1)

/-- `parseHost` -/
def parseHost (host : Bytes) : Res Bytes :=
  if hasPrefix [cLB] host then
    match afterLast cRB host with
    | none => .err "missing-bracket"
    | some colonPort =>
      if !validOptionalPort colonPort then .err "port" else
      let i := host.length - colonPort.length - 1     -- index of the last ']'
      match indexPct25 (host.take i) with
      | some zone =>
        match unescapeHost (host.take zone), unescapeZone ((host.take i).drop zone), unescapeHost (host.drop i) with
        | .ok h1, .ok h2, .ok h3 => .ok (h1 ++ h2 ++ h3)
        | _, _, _ => .err "host-escape"
      | none => unescapeHost host
  else
    match afterLast cColon host with
    | some port => if !(port.all isDigit) then .err "port" else unescapeHost host
    | none => unescapeHost host

/-- `validUserinfo` -/
def validUserinfo (s : Bytes) : Bool :=
  s.all fun r => isAlnum r || [45, 46, 95, 58, 126, 33, 36, 38, 39, 40, 41, 42, 43, 44, 59, 61, 37, 64].contains r

structure URL where
  scheme : Bytes := []
  opaq : Bytes := []
  hasUser : Bool := false
  host : Bytes := []
  path : Bytes := []
  rawPath : Bytes := []
  forceQuery : Bool := false
  rawQuery : Bytes := []
  fragment : Bytes := []
  deriving Repr, DecidableEq, Inhabited

/-- `parseAuthority`: (user present, host) -/
def parseAuthority (authority : Bytes) : Res (Bool × Bytes) :=
  match afterLast cAt authority with
  | none => (parseHost authority).bind fun h => .ok (false, h)
  | some hostPart =>
    (parseHost hostPart).bind fun h =>
      let userinfo := beforeLast cAt authority
      if !validUserinfo userinfo then .err "userinfo" else
      -- username / password are unescaped with mode encodeUserPassword: only well-formedness matters
      let (u, p) := cut cColon userinfo
      if validEscapes u && validEscapes (p.getD []) then .ok (true, h) else .err "escape"

/-- `getScheme`: scheme, rest -/
def getSchemeAux : Bytes → Bytes → Res (Bytes × Bytes)
  | _, [] => .ok ([], [])      -- caller substitutes the whole input
  | acc, c :: rest =>
    if isUpper c || isLower c then getSchemeAux (acc ++ [c]) rest
    else if isDigit c || c = 43 || c = 45 || c = 46 then
      if acc = [] then .ok ([], []) else getSchemeAux (acc ++ [c]) rest
    else if c = cColon then
      if acc = [] then .err "missing-scheme" else .ok (acc, rest)
    else .ok ([], [])

def getScheme (raw : Bytes) : Res (Bytes × Bytes) :=
  match getSchemeAux [] raw with
  | .ok ([], _) => .ok ([], raw)
  | r => r

def hasCTL (s : Bytes) : Bool := s.any fun b => b < 32 || b = 127

/-- `(*URL).setPath` -/
def setPath (u : URL) (p : Bytes) : Res URL :=
  (pathUnescape p).bind fun path =>
    .ok { u with path := path, rawPath := if escapePath path = p then [] else p }

/-- the `?` handling of `parse`: (rest, ForceQuery, RawQuery) -/
def splitQuery (rest0 : Bytes) : Bytes × Bool × Bytes :=
  if hasSuffix [cQ] rest0 && rest0.count cQ = 1 then (rest0.take (rest0.length - 1), true, [])
  else ((cut cQ rest0).1, false, (cut cQ rest0).2.getD [])

/-- `parse` after the scheme and the query have been split off: opaque / authority / path -/
def parseHier (scheme rest : Bytes) (u : URL) : Res URL :=
  if !hasPrefix [cSlash] rest && scheme ≠ [] then .ok { u with opaq := rest } else
  if !hasPrefix [cSlash] rest && (cut cSlash rest).1.contains cColon then .err "first-segment-colon" else
  if (scheme ≠ [] || !hasPrefix [cSlash, cSlash, cSlash] rest) && hasPrefix [cSlash, cSlash] rest then
    let a := rest.drop 2
    let rest' := match (cut cSlash a).2 with | some t => cSlash :: t | none => []
    (parseAuthority (cut cSlash a).1).bind fun r =>
      setPath { u with hasUser := r.1, host := r.2 } rest'
  else setPath u rest

/-- `parse(rawURL, viaRequest=false)` -/
def parseNoFrag (raw : Bytes) : Res URL :=
  if hasCTL raw then .err "ctl" else
  if raw = [42] then .ok { path := [42] } else
  (getScheme raw).bind fun sr =>
    let q := splitQuery sr.2
    parseHier sr.1 q.1 { scheme := lower sr.1, forceQuery := q.2.1, rawQuery := q.2.2 }

/-- `url.Parse` -/
def parseURL (raw : Bytes) : Res URL :=
  let (u, frag) := cut cHash raw
  (parseNoFrag u).bind fun url =>
    match frag with
    | none => .ok url
    | some [] => .ok url
    | some f => (pathUnescape f).bind fun fr => .ok { url with fragment := fr }

/-- `validEncoded(s, encodePath)` -/
def validEncodedPath (s : Bytes) : Bool :=
  s.all fun c => [33, 36, 38, 39, 40, 41, 42, 43, 44, 59, 61, 58, 64, 91, 93, 37].contains c || !shouldEscapePath c

/-- `(*URL).EscapedPath()` -/
def escapedPath (u : URL) : Bytes :=
  if u.rawPath ≠ [] && validEncodedPath u.rawPath && validEscapes u.rawPath && unescapeAll u.rawPath = u.path then u.rawPath
  else if u.path = [42] then [42] else escapePath u.path

/-- `removeEmptyPort` (net/http NewRequest): "host:" -> "host" -/
def removeEmptyPort (h : Bytes) : Bytes := if hasSuffix [cColon] h then h.dropLast else h

/-- `splitHostPort(host).host` = `(*URL).Hostname()` -/
def hostname (hostPort : Bytes) : Bytes :=
  let host :=
    match afterLast cColon hostPort with
    | some port => if port.all isDigit then beforeLast cColon hostPort else hostPort
    | none => hostPort
  if hasPrefix [cLB] host && hasSuffix [cRB] host then (host.drop 1).take (host.length - 2) else host

/-- `(*URL).Port()` -/
def port (hostPort : Bytes) : Bytes :=
  match afterLast cColon hostPort with
  | some p => if p.all isDigit then p else []
  | none => []

/-! ### net.ParseIP (netip.ParseAddr, zone ⇒ nil): accept / reject only -/

def decVal (s : Bytes) : Nat := s.foldl (fun a c => a * 10 + (c - 48)) 0

/-- one IPv4 octet: digits, no leading zero, ≤ 255 -/
def v4Field (f : Bytes) : Bool :=
  f ≠ [] && f.all isDigit && !(f.length > 1 && f.head? = some 48) && decVal f ≤ 255

def isIPv4 (s : Bytes) : Bool :=
  let fs := splitOn cDot s
  fs.length = 4 && fs.all v4Field

/-- the `for i < 16` loop of `parseIPv6`; `i` counts bytes filled, `ell` = an ellipsis was seen -/
def v6Loop : Nat → Nat → Bool → Bytes → Bool
  | 0, _, _, _ => false      -- fuel exhausted: unreachable with fuel 9 (i grows by ≥ 2 per round)
  | fuel + 1, i, ell, s =>
    if i ≥ 16 then (s = [] && !ell) else
    let digits := s.takeWhile isHex
    let off := digits.length
    if off > 4 then false else
    if off = 0 then false else
    let s' := s.drop off
    if s'.head? = some cDot then
      if !ell && i ≠ 12 then false else
      if i + 4 > 16 then false else
      if !isIPv4 s then false else
      (i + 4 < 16 && ell) || (i + 4 = 16 && !ell)
    else
      let i := i + 2
      match s' with
      | [] => (i < 16 && ell) || (i = 16 && !ell)
      | c :: t =>
        if c ≠ cColon then false else
        match t with
        | [] => false
        | c2 :: t2 =>
          if c2 = cColon then
            if ell then false else
            if t2 = [] then i < 16 else v6Loop fuel i true t2
          else v6Loop fuel i ell t

def isIPv6 (s : Bytes) : Bool :=
  if s.contains cPct then false else      -- a zone makes net.ParseIP return nil
  match s with
  | 58 :: 58 :: [] => true
  | 58 :: 58 :: rest => v6Loop 9 0 true rest
  | _ => v6Loop 9 0 false s

/-- `net.ParseIP(s) != nil` -/
def isIP (s : Bytes) : Bool :=
  match s.find? (fun c => c = cDot || c = cColon || c = cPct) with
  | some 46 => isIPv4 s
  | some 58 => isIPv6 s
  | _ => false

end Nuts.C18
