/-
  C18 — model of did:web resolution (vdr/didweb/web.go Resolve) through http/client.StrictHTTPClient and
  net/http's redirect loop (Client.do), the method router (vdr/resolver/did.go DIDResolverRouter), the
  local-first chain (vdr/vdr.go, ChainedDIDResolver) and deactivation (vdr/didsubject/resolver.go).
  The server is an arbitrary function of (hop number, request): adversarial.  The redirect policy is a record
  computed from regenerated facts.  Core Lean only.
-/
import NutsModel.C18.DidWeb

namespace Nuts.C18

/-- what the transport is asked to fetch -/
structure Req where
  scheme : Bytes
  host : Bytes
  path : Bytes        -- EscapedPath()
  user : Bool := false
  query : Bytes := []
  deriving Repr, DecidableEq, Inhabited

inductive Body where
  | doc (idStr : Bytes)     -- a JSON object whose "id" member is this string
  | raw (parsedID : Option Bytes)  -- arbitrary JSON text; the id go-did's Document parser reads from it (none = rejected): library verdict
  | badjson | big | empty
  deriving Repr, DecidableEq, Inhabited

structure Resp where
  status : Nat
  mediaType : Option Bytes := none   -- result of mime.ParseMediaType on the Content-Type header (none = error); harness data
  loc : Bytes := []                  -- Location header ("" = absent)
  body : Body := .empty
  deriving Repr, DecidableEq, Inhabited

/-- the redirect policy of the http.Client that did:web resolution uses (from regenerated facts) -/
structure Policy where
  /-- http/client: CheckRedirect refuses a non-https target while StrictMode is on -/
  strictHttpsRedirect : Bool
  /-- vdr/didweb: a redirect to another host (or away from https) is refused -/
  sameOriginRedirect : Bool
  maxRedirects : Nat := 10
  deriving Repr, DecidableEq

def sHttp : Bytes := [104, 116, 116, 112]

def isRedirect (st : Nat) : Bool := st = 301 || st = 302 || st = 303 || st = 307 || st = 308

def hasDotSeg (p : Bytes) : Bool := (splitOn cSlash p).any fun s => s = [cDot] || s = [cDot, cDot]

/-- `req.URL.Parse(loc)` = Parse + ResolveReference, for absolute URLs, scheme-relative and absolute-path references
    without dot segments (what the generator produces; anything else is reported as unmodelled, never guessed) -/
def redirectTarget (cur : Req) (loc : Bytes) : Res Req :=
  match parseURL loc with
  | .err _ => .err "http:location"
  | .panic p => .panic p
  | .ok ref =>
    let p := escapedPath ref
    if hasDotSeg p then .err "unmodelled:dot-segment-location" else
    if ref.opaq ≠ [] then .err "unmodelled:opaque-location" else
    match setPath ref p with
    | .ok r =>
      if ref.scheme ≠ [] || ref.host ≠ [] || ref.hasUser then
        .ok { scheme := if ref.scheme = [] then cur.scheme else ref.scheme, host := ref.host, path := escapedPath r,
              user := ref.hasUser, query := ref.rawQuery }
      else if ref.path = [] then .err "unmodelled:empty-path-location"
      else if !hasPrefix [cSlash] ref.path then .err "unmodelled:relative-path-location"
      else .ok { scheme := cur.scheme, host := cur.host, path := escapedPath r, user := cur.user, query := ref.rawQuery }
    | .err e => .err e
    | .panic p => .panic p

/-- the client's CheckRedirect decision for the next request `nxt`, `first` being the original request and `n` the
    number of requests already made -/
def checkRedirect (pol : Policy) (strict : Bool) (first nxt : Req) (n : Nat) : Res Unit :=
  if pol.strictHttpsRedirect && strict && nxt.scheme ≠ sHttps then .err "http:redirect-refused" else
  if n ≥ pol.maxRedirects then .err "http:too-many-redirects" else
  if pol.sameOriginRedirect && (nxt.scheme ≠ first.scheme || nxt.host ≠ first.host) then .err "http:redirect-refused" else .ok ()

/-- `http.Client.do`: requests made (in order) and the final response -/
def clientLoop (pol : Policy) (strict : Bool) (srv : Nat → Req → Option Resp) (first : Req) :
    Nat → List Req → Req → List Req × Res Resp
  | 0, reqs, _ => (reqs, .err "unmodelled:fuel")
  | fuel + 1, reqs, cur =>
    let reqs' := reqs ++ [cur]
    match srv reqs.length cur with
    | none => (reqs', .err "http:transport")
    | some resp =>
      if !isRedirect resp.status then (reqs', .ok resp) else
      if resp.loc = [] then (reqs', .ok resp) else
      match redirectTarget cur resp.loc with
      | .err e => (reqs', .err e)
      | .panic p => (reqs', .panic p)
      | .ok nxt =>
        match checkRedirect pol strict first nxt reqs'.length with
        | .err e => (reqs', .err e)
        | .panic p => (reqs', .panic p)
        | .ok () => clientLoop pol strict srv first fuel reqs' nxt

/-- `StrictHTTPClient.Do` -/
def strictDo (pol : Policy) (strict : Bool) (srv : Nat → Req → Option Resp) (req : Req) : List Req × Res Resp :=
  if strict && req.scheme ≠ sHttps then ([], .err "http:strict") else
  match clientLoop pol strict srv req (pol.maxRedirects + 2) [] req with
  | (reqs, .ok resp) => if resp.body = .big then (reqs, .err "http:toolarge") else (reqs, .ok resp)
  | r => r

/-- the request `Resolve` builds from the URL `DIDToURL` returned (Path gets "/did.json" or "/.well-known/did.json";
    `String()` then `http.NewRequest` re-parse it) -/
def firstReq (u : URL) : Req :=
  { scheme := u.scheme, host := removeEmptyPort u.host,
    path := escapePath (if u.path = [] then sWellKnown ++ sDidJson else u.path ++ sDidJson),
    user := u.hasUser, query := u.rawQuery }

/-- `didweb.Resolver.Resolve`: requests made, and the returned document's id (as a string) or the error.
    `dec` = percentDecodeChar set, `cts` = accepted media types (both regenerated facts). -/
def resolveWeb (dec : List Nat) (cts : List Bytes) (pol : Policy) (strict : Bool) (d : DID)
    (srv : Nat → Req → Option Resp) : List Req × Res Bytes :=
  if d.method ≠ sWeb then ([], .err "notweb") else
  match didToURL dec d with
  | .err e => ([], .err ("d2u:" ++ e))
  | .panic p => ([], .panic p)
  | .ok u =>
    match strictDo pol strict srv (firstReq u) with
    | (reqs, .err e) => (reqs, .err e)
    | (reqs, .panic p) => (reqs, .panic p)
    | (reqs, .ok resp) =>
      if !(200 ≤ resp.status && resp.status < 300) then (reqs, .err "status") else
      match resp.mediaType with
      | none => (reqs, .err "ct-invalid")
      | some ct =>
        if !cts.contains ct then (reqs, .err "ct-unsupported") else
        match resp.body with
        | .doc idStr =>
          match parseDID idStr with
          | .ok docID => if docID.str = d.str then (reqs, .ok docID.str) else (reqs, .err "id-mismatch")
          | _ => (reqs, .err "json")
        | .raw (some pid) =>
          -- the id compared is the id of the document that is returned (`document.ID`), whatever other members the text has
          if pid = d.str then (reqs, .ok pid) else (reqs, .err "id-mismatch")
        | _ => (reqs, .err "json")

/-! ### method router, local-first chain, deactivation -/

/-- what `didsubject.Resolver` finds in the node's SQL store for a DID -/
inductive LocalState where
  | absent | active | deactivated | dbError
  | noActiveController     -- did:nuts: the document names controllers, none of which resolves to an active document
  deriving Repr, DecidableEq, Inhabited

structure ResolveResult where
  docID : Bytes
  deactivated : Bool := false
  deriving Repr, DecidableEq, Inhabited

/-- SQL store (did_document_version): the latest version decides; a version is active iff it has keys
    (`IsDeactivated`: no controller and no capabilityInvocation). `hist` = versions oldest first, `true` = active. -/
def sqlState (hist : List Bool) : LocalState :=
  match hist.getLast? with
  | none => .absent
  | some true => .active
  | some false => .deactivated

/-- did:nuts store (vdr/didnuts/didstore, modelled in C10): deactivation is permanent (`C10.Props.deactivated_monotone`) -/
def nutsStateOf (hist : List Bool) : LocalState :=
  if hist = [] then .absent else if hist.all id then .active else .deactivated

/-- did:nuts with controllers (vdr/didnuts/resolver.go): `orphanedLast` = the latest version has no key of its own and
    no active controller -/
def nutsStateOf' (hist : List Bool) (orphanedLast : Bool) : LocalState :=
  match nutsStateOf hist with
  | .active => if orphanedLast then .noActiveController else .active
  | s => s

/-- `didsubject.Resolver.Resolve` -/
def resolveLocal (st : LocalState) (allowDeactivated : Bool) (d : DID) : Res ResolveResult :=
  match st with
  | .absent => .err "not-found"
  | .dbError => .err "db"
  | .active => .ok { docID := d.str }
  | .deactivated => if allowDeactivated then .ok { docID := d.str, deactivated := true } else .err "deactivated"
  | .noActiveController => if allowDeactivated then .ok { docID := d.str } else .err "deactivated"   -- ErrNoActiveController

def sJwk : Bytes := [106, 119, 107]
def sKey : Bytes := [107, 101, 121]
def sNuts : Bytes := [110, 117, 116, 115]
def sX509 : Bytes := [120, 53, 48, 57]

/-- the node as far as resolution is concerned -/
structure Node where
  didMethods : List Bytes                 -- config `didmethods`
  localState : DID → LocalState           -- SQL store (did_document_version), by DID
  keyDecodes : DID → Bool                 -- did:jwk / did:key: does the identifier decode to a supported public key (library verdict)
  nutsState : DID → LocalState            -- did:nuts store (C10 models its content; here: present / deactivated)

/-- `Module.Resolver().Resolve(id, &ResolveMetadata{AllowDeactivated})`: DIDResolverRouter, then for did:web the
    chain [owned (SQL), web]; `chainOrder` is the regenerated order of that chain (true = local store first). -/
def resolve (dec : List Nat) (cts : List Bytes) (pol : Policy) (localFirst : Bool) (strict : Bool) (n : Node)
    (allowDeactivated : Bool) (d : DID) (srv : Nat → Req → Option Resp) : List Req × Res ResolveResult :=
  let web : List Req × Res ResolveResult :=
    match resolveWeb dec cts pol strict d srv with
    | (reqs, .ok id) => (reqs, .ok { docID := id })
    | (reqs, .err e) => (reqs, .err e)
    | (reqs, .panic p) => (reqs, .panic p)
  if d.method = sWeb then
    if !n.didMethods.contains sWeb then ([], .err "method-not-supported") else
    if localFirst then
      -- ChainedDIDResolver: only ErrNotFound (= the store has no such DID) moves on to the next resolver
      match n.localState d with
      | .absent => web
      | st => ([], resolveLocal st allowDeactivated d)
    else web   -- the web resolver never returns ErrNotFound: a web-first chain would never consult the store
  else if d.method = sJwk || d.method = sKey then
    ([], if n.keyDecodes d then .ok { docID := d.str } else .err "invalid-key")
  else if d.method = sNuts then
    if !n.didMethods.contains sNuts then ([], .err "method-not-supported") else
    ([], resolveLocal (n.nutsState d) allowDeactivated d)
  else if d.method = sX509 then ([], .err "x509")   -- only the path without a certificate chain in the metadata: refused, no I/O
  else ([], .err "method-not-supported")

end Nuts.C18
