/-
  C18 (deepening round) — the STATEFUL core of the node-wide HTTP response cache that did:web resolution goes through
  (http/client/caching.go: responseCache.get / insert / removeExpiredEntries / pop, CachingRoundTripper.RoundTrip /
  cacheResponse), as REPAIRED by /repo commit b991549 (before: `insert` replaced the head of the expiry list whenever its
  scan did not advance, orphaning the old head in `entriesByURL`/`currentSizeBytes` for ever, and the make-room loop
  `for size+len >= max { pop() }` span for ever once the list was empty — `RCacheOld` in NutsProofs keeps that code and
  the witnesses).  The Go control flow is mirrored statement by statement; every loop is a structural recursion over
  the expiry list (the calls terminate).  Pointer identity of `*cacheEntry` = `id` (allocation order).  `entriesByURL` (map URL-string -> slice) is kept flattened in append order: the slice of a key is the
  sub-list with that key, in order.  Time is an `Int` (any unit), `Before` is `<`.  Core Lean only.
-/
import NutsModel.C18.Cache

namespace Nuts.C18

structure CEntry where
  id : Nat
  key : Bytes          -- requestURL.String()
  method : Bytes       -- requestMethod
  query : Bytes        -- requestRawQuery
  size : Nat           -- len(responseData)
  exp : Int            -- expirationTime
  deriving Repr, DecidableEq, Inhabited

structure RCache where
  maxBytes : Int
  size : Int := 0                 -- currentSizeBytes
  list : List CEntry := []        -- head, head.next, ...
  all : List CEntry := []         -- entriesByURL, flattened
  nextId : Nat := 0
  deriving Repr, DecidableEq, Inhabited

/-- `append(entries[:i], entries[i+1:]...)` for the first `entry == h.head` within `entriesByURL[h.head.requestURL.String()]` -/
def eraseEntry (h : CEntry) : List CEntry → List CEntry
  | [] => []
  | e :: es => if e.key = h.key ∧ e.id = h.id then es else e :: eraseEntry h es

/-- `pop` -/
def RCache.pop (c : RCache) : RCache :=
  match c.list with
  | [] => c
  | h :: t => { c with all := eraseEntry h c.all, size := c.size - (h.size : Int), list := t }

/-- `for h.head != nil && cond(h.head, h.currentSizeBytes) { h.pop() }` on the three fields `pop` touches: the shape of
    both loops of the cache (prune expired entries; make room).  Structural in the list: it terminates. -/
def popWhile (p : CEntry → Int → Bool) : List CEntry → List CEntry → Int → List CEntry × List CEntry × Int
  | [], all, size => ([], all, size)
  | h :: t, all, size => if p h size then popWhile p t (eraseEntry h all) (size - (h.size : Int)) else (h :: t, all, size)

def RCache.popWhile (c : RCache) (p : CEntry → Int → Bool) : RCache :=
  let r := Nuts.C18.popWhile p c.list c.all c.size
  { c with list := r.1, all := r.2.1, size := r.2.2 }

/-- `removeExpiredEntries`: `for current != nil { if current.expirationTime.Before(now) { current = h.pop() } else break }` -/
def RCache.removeExpired (c : RCache) (now : Int) : RCache := c.popWhile (fun h _ => h.exp < now)

/-- `get`: prune, then the first entry of the URL's slice with the request's method and raw query -/
def RCache.get (c : RCache) (now : Int) (key method query : Bytes) : RCache × Option CEntry :=
  let c' := c.removeExpired now
  (c', (c'.all.filter (fun e => e.key = key)).find? (fun e => e.method = method ∧ e.query = query))

/-- `for h.head != nil && h.currentSizeBytes+len(entry.responseData) > h.maxBytes { _ = h.pop() }` -/
def RCache.makeRoom (c : RCache) (need : Int) : RCache := c.popWhile (fun _ size => size + need > c.maxBytes)

/-- `for current.next != nil && current.next.expirationTime.Before(entry.expirationTime) { current = current.next }`,
    then `entry.next = current.next; current.next = entry` — the argument is `current.next` -/
def linkAfter (e : CEntry) : List CEntry → List CEntry
  | [] => [e]
  | x :: xs => if x.exp < e.exp then x :: linkAfter e xs else e :: x :: xs

/-- the linked-list part of `insert`: new head when the list is empty or the entry expires before the head -/
def linkIn (e : CEntry) : List CEntry → List CEntry
  | [] => [e]
  | h :: t => if e.exp < h.exp then e :: h :: t else h :: linkAfter e t

/-- `insert` (the entry gets the next pointer identity whether or not it is kept).  A total function: it returns. -/
def RCache.insert (c : RCache) (key method query : Bytes) (size : Nat) (exp : Int) : RCache :=
  let e : CEntry := { id := c.nextId, key := key, method := method, query := query, size := size, exp := exp }
  let c := { c with nextId := c.nextId + 1 }
  if (size : Int) > c.maxBytes then c else
  let c' := c.makeRoom size
  { c' with list := linkIn e c'.list, all := c'.all ++ [e], size := c'.size + (size : Int) }

/-- what the wrapped transport (and `cachecontrol.CachableResponse` on its answer) said: library verdicts -/
inductive Inner where
  | fail                                          -- transport error
  | resp (size : Nat) (cacheable : Option Int)    -- body length; `some t` = no reasons against caching, expiry `t`
  deriving Repr, DecidableEq, Inhabited

inductive RTOut where
  | hit (e : CEntry) | net (stored : Bool) | netErr
  deriving Repr, DecidableEq, Inhabited

def sGET : Bytes := [71, 69, 84]

/-- the miss path of `RoundTrip`: wrapped transport, then `cacheResponse`; `maxCache` = `maxCacheTime` in the caller's time unit -/
def RCache.rtMiss (c1 : RCache) (now maxCache : Int) (key method query : Bytes) (inner : Inner) : RCache × RTOut :=
  match inner with
  | .fail => (c1, .netErr)
  | .resp size cacheable =>
    if method ≠ sGET then (c1, .net false) else
    match cacheable with
    | none => (c1, .net false)
    | some t =>
      let t' := if t > now + maxCache then now + maxCache else t
      let c2 := c1.insert key method query size t'
      (c2, .net (c2.all.any (fun e => e.id = c1.nextId)))

/-- `CachingRoundTripper.RoundTrip` -/
def RCache.roundTrip (c : RCache) (now maxCache : Int) (key method query : Bytes) (inner : Inner) : RCache × RTOut :=
  if method = sGET then
    match c.get now key method query with
    | (c1, some e) => (c1, .hit e)
    | (c1, none) => c1.rtMiss now maxCache key method query inner
  else c.rtMiss now maxCache key method query inner

/-- operations of the cache as the rest of the node can drive it -/
inductive COp where
  | get (now : Int) (key method query : Bytes)
  | insert (key method query : Bytes) (size : Nat) (exp : Int)
  | pop
  | roundTrip (now maxCache : Int) (key method query : Bytes) (inner : Inner)
  deriving Repr, DecidableEq, Inhabited

/-- one operation (every call returns) -/
def RCache.step (c : RCache) : COp → RCache
  | .get now k m q => (c.get now k m q).1
  | .insert k m q s t => c.insert k m q s t
  | .pop => c.pop
  | .roundTrip now mc k m q i => (c.roundTrip now mc k m q i).1

def RCache.run (c : RCache) : List COp → RCache
  | [] => c
  | o :: os => (c.step o).run os

def RCache.new (maxBytes : Int) : RCache := { maxBytes := maxBytes }

def sumSizes (l : List CEntry) : Int := (l.map (fun e => (e.size : Int))).sum

/-- `maxCacheTime` in minutes, from the regenerated source expression -/
def maxCacheMinutes (expr : String) : Option Nat := if expr = "time.Hour" then some 60 else none

end Nuts.C18
