/-
  C18 (deepening round / wave 8) — the SQL lookup behind the local-first resolver: vdr/didsubject/did_document.go
  `SqlDIDDocumentManager.Latest` (`WHERE did = ? AND updated_at <= ? ORDER BY version desc`, first row) and what
  `didsubject.Resolver.Resolve` makes of the row (the document it returns is built from the ROW: its id is the row's
  `did`).  The table holds the versions of every DID managed by the node, case variants included.  Core Lean only.
-/
import NutsModel.C18.Resolve

namespace Nuts.C18

/-- a row of did_document_version (joined with did) -/
structure DocRow where
  did : Bytes
  version : Nat
  updatedAt : Int
  active : Bool        -- the version has verification methods (`IsDeactivated` = false)
  deriving Repr, DecidableEq, Inhabited

/-- `ORDER BY version desc` + `First`: keep the row with the highest version (the first one among equals) -/
def pickLatest : Option DocRow → DocRow → Option DocRow
  | none, r => some r
  | some b, r => if r.version > b.version then some r else some b

/-- the rows the WHERE clause selects: the did column EQUALS the requested DID string, byte for byte -/
def latestWhere (d : Bytes) (notAfter : Int) (r : DocRow) : Bool := r.did = d && r.updatedAt ≤ notAfter

/-- `Latest(did, resolveTime)` (`none` = gorm.ErrRecordNotFound) -/
def sqlLatest (rows : List DocRow) (d : Bytes) (notAfter : Int) : Option DocRow :=
  (rows.filter (latestWhere d notAfter)).foldl pickLatest none

def rowState : Option DocRow → LocalState
  | none => .absent
  | some r => if r.active then .active else .deactivated

/-- `didsubject.Resolver.Resolve` on the table: the returned document is the stored one (`docID` = the row's did) -/
def sqlResolveLocal (rows : List DocRow) (notAfter : Int) (allowDeactivated : Bool) (d : DID) : Res ResolveResult :=
  match sqlLatest rows d.str notAfter with
  | none => .err "not-found"
  | some r =>
    if r.active then .ok { docID := r.did }
    else if allowDeactivated then .ok { docID := r.did, deactivated := true } else .err "deactivated"

/-- the versions of one DID as the harness writes them: version i, `true` = active -/
def rowsOf (d : Bytes) (hist : List Bool) : List DocRow :=
  (hist.zipIdx).map fun (a, i) => { did := d, version := i, updatedAt := 0, active := a }

/-- the SQL part of a node whose table is `rows` -/
def sqlLocalState (rows : List DocRow) (notAfter : Int) (d : DID) : LocalState := rowState (sqlLatest rows d.str notAfter)

/-- the query of `Latest` as the source spells it (regenerated: `Facts.C18.latestQuery`) -/
def latestQueryModelled : List String :=
  ["First(&doc)", "Order(\"version desc\")", "Where(\"did = ? AND updated_at <= ?\", did.String(), notAfter)"]

end Nuts.C18
