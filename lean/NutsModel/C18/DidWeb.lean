/-
  C18 — model of nuts-node's did:web identifier <-> URL conversion and DID parsing.
  Mirrors /repo/vdr/didweb/util.go (percentEncodeString, percentDecodeString, shouldPercentEncode,
  percentDecodeChar, DIDToURL, URLToDID) and go-did's `did.ParseDID` (regular expression `didURLPattern`).
  The two character sets are parameters (`enc`, `dec`); Props instantiates them with the regenerated facts.
  Core Lean only.
-/
import NutsModel.C18.Url

namespace Nuts.C18

/-! ### Go `for _, c := range s` : UTF-8 decoding with RuneError (U+FFFD, width 1) for invalid input -/

def isCont (b : Nat) : Bool := 128 ≤ b && b ≤ 191

/-- `utf8.DecodeRuneInString(c :: rest)` : (rune, width) -/
def runeAt (c : Nat) (rest : Bytes) : Nat × Nat :=
  if c < 128 then (c, 1) else
  let bad : Nat × Nat := (65533, 1)
  if 194 ≤ c && c ≤ 223 then
    match rest with
    | b1 :: _ => if isCont b1 then ((c - 192) * 64 + (b1 - 128), 2) else bad
    | _ => bad
  else if 224 ≤ c && c ≤ 239 then
    match rest with
    | b1 :: b2 :: _ =>
      let lo := if c = 224 then 160 else 128
      let hi := if c = 237 then 159 else 191
      if lo ≤ b1 && b1 ≤ hi && isCont b2 then ((c - 224) * 4096 + (b1 - 128) * 64 + (b2 - 128), 3) else bad
    | _ => bad
  else if 240 ≤ c && c ≤ 244 then
    match rest with
    | b1 :: b2 :: b3 :: _ =>
      let lo := if c = 240 then 144 else 128
      let hi := if c = 244 then 143 else 191
      if lo ≤ b1 && b1 ≤ hi && isCont b2 && isCont b3 then
        ((c - 240) * 262144 + (b1 - 128) * 4096 + (b2 - 128) * 64 + (b3 - 128), 4) else bad
    | _ => bad
  else bad

/-- the runes a Go `range` loop over the string visits -/
def runesF : Nat → Bytes → List Nat
  | 0, _ => []
  | _, [] => []
  | n + 1, c :: rest => (runeAt c rest).1 :: runesF n (rest.drop ((runeAt c rest).2 - 1))

/-- fuel = byte length suffices: every rune consumes at least one byte -/
def runes (s : Bytes) : List Nat := runesF s.length s

/-! ### percentEncodeString / percentDecodeString -/

/-- `lengthAfterPercentEncoding` -/
def lengthAfterEncoding (enc : List Nat) (s : Bytes) : Nat :=
  ((runes s).map fun r => if enc.contains r then 3 else 1).sum

/-- one step of the encoding loop: `%XX` for a rune in the set (upperhex[c>>4], upperhex[c&15]; in range because the
    set is ASCII — `fact_sets`), otherwise `byte(c)` — a multi-byte rune is TRUNCATED to its low byte (as the code does) -/
def encodeRune (enc : List Nat) (r : Nat) : Bytes :=
  if enc.contains r then [cPct, hexDigit (r / 16), hexDigit (r % 16)] else [r % 256]

/-- `percentEncodeString` (including its "nothing to encode" shortcut, which compares a rune count with a byte length) -/
def percentEncode (enc : List Nat) (s : Bytes) : Bytes :=
  if lengthAfterEncoding enc s = s.length then s else (runes s).flatMap (encodeRune enc)

/-- `percentDecodeChar(s[i:i+3])` at the head of the string -/
def decodeAt (dec : List Nat) : Bytes → Option Nat
  | 37 :: a :: b :: _ =>
    if isHex a && isHex b && dec.contains (unhex a * 16 + unhex b) then some (unhex a * 16 + unhex b) else none
  | _ => none

/-- the loop of `percentDecodeString`; `skip` = bytes still to be skipped after a decoded triple (`i += 2`) -/
def percentDecodeAux (dec : List Nat) : Nat → Bytes → Bytes
  | _, [] => []
  | skip + 1, _ :: rest => percentDecodeAux dec skip rest
  | 0, c :: rest =>
    match decodeAt dec (c :: rest) with
    | some v => v :: percentDecodeAux dec 2 rest
    | none => c :: percentDecodeAux dec 0 rest

/-- `percentDecodeString`: decodes `%HH` only when the decoded byte is in the `percentDecodeChar` set -/
def percentDecode (dec : List Nat) (s : Bytes) : Bytes := percentDecodeAux dec 0 s

/-! ### did.ParseDID (go-did v0.15 `didURLPattern`) -/

structure DID where
  method : Bytes
  id : Bytes
  deriving Repr, DecidableEq, Inhabited

def sDid : Bytes := [100, 105, 100, 58]                 -- "did:"
def sWeb : Bytes := [119, 101, 98]                      -- "web"
def sDidWeb : Bytes := [100, 105, 100, 58, 119, 101, 98, 58]   -- "did:web:"
def sHttpsSS : Bytes := [104, 116, 116, 112, 115, 58, 47, 47]  -- "https://"
def sHttps : Bytes := [104, 116, 116, 112, 115]         -- "https"
def sDidJson : Bytes := [47, 100, 105, 100, 46, 106, 115, 111, 110]   -- "/did.json"
def sWellKnown : Bytes := [47, 46, 119, 101, 108, 108, 45, 107, 110, 111, 119, 110]  -- "/.well-known"

def DID.str (d : DID) : Bytes := if d.method = [] then [] else sDid ++ d.method ++ cColon :: d.id

/-- `[a-zA-Z0-9.\-_:]` -/
def isIdChar (c : Nat) : Bool := isAlnum c || c = 46 || c = 45 || c = 95 || c = 58

/-- longest prefix matching `(idchar | %HH)*`, and the rest -/
def spanId : Bytes → Bytes × Bytes
  | [] => ([], [])
  | 37 :: a :: b :: rest =>
    if isHex a && isHex b then ((37 :: a :: b :: (spanId rest).1), (spanId rest).2) else ([], 37 :: a :: b :: rest)
  | c :: rest => if isIdChar c then (c :: (spanId rest).1, (spanId rest).2) else ([], c :: rest)

/-- what may follow the identifier for `ParseDID` to accept: `/`? (`?` `&`*)? `#`? — an empty path, a query without
    parameters and an empty fragment are all "empty" for `urlEmpty()` -/
def emptyTail (r : Bytes) : Bool :=
  let r := match r with | 47 :: t => t | t => t
  let r := match r with | 63 :: t => t.dropWhile (· = 38) | t => t
  r = [] || r = [35]

/-- the identifier alphabet `did.ParseDID` guarantees: `(idchar | %HH)*` -/
def idOK : Bytes → Bool
  | [] => true
  | 37 :: a :: b :: rest => isHex a && isHex b && idOK rest
  | c :: rest => isIdChar c && idOK rest

/-- `did.ParseDID` -/
def parseDID (s : Bytes) : Res DID :=
  if !hasPrefix sDid s then .err "invalid-did" else
  let s1 := s.drop 4
  let m := s1.takeWhile fun c => isDigit c || isLower c
  match s1.drop m.length with
  | 58 :: s2 =>
    let (id, tl) := spanId s2
    if m = [] || id = [] then .err "invalid-did" else
    if tl = [] then .ok { method := m, id := id } else
    match tl with
    | c :: _ =>
      if c = 47 || c = 63 || c = 35 then
        if emptyTail tl then .ok { method := m, id := id } else .err "invalid-did"
      else .err "invalid-did"
    | [] => .ok { method := m, id := id }
  | _ => .err "invalid-did"

/-! ### DIDToURL / URLToDID -/

def colonToSlash (c : Nat) : Nat := if c = cColon then cSlash else c

/-- the sub-path of a did:web identifier: everything from the first ':' on, with ':' replaced by '/' -/
def didPath (id : Bytes) : Bytes :=
  match (cut cColon id).2 with
  | some t => cSlash :: t.map colonToSlash
  | none => []

/-- `DIDToURL` -/
def didToURL (dec : List Nat) (d : DID) : Res URL :=
  if d.method ≠ sWeb then .err "method" else
  if (cut cColon d.id).2.isSome && (hasSuffix [cSlash] (didPath d.id) || hasDouble cSlash (didPath d.id)) then
    .err "empty-path-element" else
  match pathUnescape (cut cColon d.id).1 with
  | .err _ => .err "unescape"
  | .panic p => .panic p
  | .ok unescapedID =>
    match parseURL (sHttpsSS ++ unescapedID ++ percentDecode dec (didPath d.id)) with
    | .err _ => .err "parse"
    | .panic p => .panic p
    | .ok u =>
      if u.host ≠ unescapedID then .err "host" else
      if isIP (hostname u.host) then .err "ip" else .ok u

/-- `URLToDID` (takes the parsed URL: only Host, Path, RawPath are read) -/
def urlToDID (enc : List Nat) (u : URL) : Res DID :=
  let path := if u.rawPath ≠ [] then u.rawPath else u.path
  let path := cutSuffix (sWellKnown ++ sDidJson) path
  let path := cutSuffix sDidJson path
  let parts := ((splitOn cSlash path).filter (· ≠ [])).map (percentEncode enc)
  let str := sDidWeb ++ percentEncode enc u.host ++ (if parts = [] then [] else cColon :: joinWith cColon parts)
  parseDID str

/-! ### the round-trip grammar (decidable): `did:web:` name [`%3A` digits] (`:` segment)* -/

/-- `[A-Za-z0-9._-]` -/
def isNameChar (c : Nat) : Bool := isAlnum c || c = 46 || c = 45 || c = 95
def isUpperHex (c : Nat) : Bool := isDigit c || (65 ≤ c && c ≤ 70)

/-- a path segment: name characters and upper-case escapes `%XX` of the reserved characters in `set` -/
def wfSeg (set : List Nat) : Bytes → Bool
  | [] => true
  | 37 :: a :: b :: rest => isUpperHex a && isUpperHex b && set.contains (unhex a * 16 + unhex b) && wfSeg set rest
  | c :: rest => isNameChar c && wfSeg set rest

def sPct3A : Bytes := [37, 51, 65]                                    -- "%3A"
def sDidJsonSeg : Bytes := [100, 105, 100, 46, 106, 115, 111, 110]    -- "did.json"

/-- host component: a domain name that is not an IPv4 address, optionally followed by `%3A` and a decimal port -/
def wfHost (h : Bytes) : Bool :=
  let name := h.takeWhile isNameChar
  let tl := h.dropWhile isNameChar
  name ≠ [] && !isIPv4 name && (tl = [] || (hasPrefix sPct3A tl && (tl.drop 3).all isDigit))

/-- the identifiers for which `URLToDID (DIDToURL d) = d` is claimed: method web; host component as above; every
    further component a non-empty segment; the last one not `did.json` (a URL ending in /did.json denotes its parent) -/
def wfDID (set : List Nat) (d : DID) : Bool :=
  d.method = sWeb &&
  match splitOn cColon d.id with
  | h :: segs => wfHost h && segs.all (fun s => s ≠ [] && wfSeg set s) && segs.getLast? ≠ some sDidJsonSeg
  | [] => false

end Nuts.C18
