/-
  C18 (deepening round 3) — vdr/resolver/did.go as general code: `ChainedDIDResolver.Resolve` over ANY number of
  resolvers and `DIDResolverRouter` (`Register` = sync.Map Store: the last registration of a method wins; `Resolve` =
  exact, case-sensitive method lookup).  `Resolve.lean`'s `resolve` is the instance [own SQL store, web].  Core Lean only.
-/
import NutsModel.C18.Resolve

namespace Nuts.C18

/-- what one resolver of a chain answers: a document (named by a number), `ErrNotFound` (possibly wrapped: `errors.Is`),
    or any other error (`ErrDeactivated`, `ErrNoActiveController`, storage / transport errors …) -/
inductive ROut where
  | ok (doc : Nat)
  | notFound
  | fail (e : String)
  deriving Repr, DecidableEq, Inhabited

/-- `ChainedDIDResolver.Resolve`: the answers of the resolvers in chain order (a resolver is only asked when the loop
    reaches it); result and the number of resolvers that were asked.  `err == nil` returns, `errors.Is(err, ErrNotFound)`
    continues, anything else returns; an exhausted chain returns the bare `ErrNotFound`. -/
def chainResolve : List ROut → ROut × Nat
  | [] => (.notFound, 0)
  | .notFound :: rest => ((chainResolve rest).1, (chainResolve rest).2 + 1)
  | o :: _ => (o, 1)

/-- `DIDResolverRouter`: registrations in call order; `Store` overwrites -/
def routerLookup {β} (regs : List (Bytes × β)) (method : Bytes) : Option β :=
  match (regs.reverse.find? (fun r => r.1 = method)) with
  | some r => some r.2
  | none => none

/-- `DIDResolverRouter.Resolve` over resolvers whose answer for this DID is known -/
def routerResolve (regs : List (Bytes × ROut)) (method : Bytes) : Res ROut :=
  match routerLookup regs method with
  | none => .err "method-not-supported"
  | some o => .ok o

/-- the class of a `resolve` result as a chain member's answer -/
def toROut : Res ResolveResult → ROut
  | .ok _ => .ok 0
  | .err e => if e = "not-found" then .notFound else .fail e
  | .panic p => .fail ("panic:" ++ p)

/-- the web member of the did:web chain as `resolve` uses it -/
def webOut (dec : List Nat) (cts : List Bytes) (pol : Policy) (strict : Bool) (d : DID) (srv : Nat → Req → Option Resp) : List Req × Res ResolveResult :=
  match resolveWeb dec cts pol strict d srv with
  | (reqs, .ok id) => (reqs, .ok { docID := id })
  | (reqs, .err e) => (reqs, .err e)
  | (reqs, .panic p) => (reqs, .panic p)

end Nuts.C18
