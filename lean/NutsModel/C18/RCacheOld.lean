/-
  C18 — the response cache AS IT WAS before /repo commit b991549 (kept only for the witness theorems of the defect;
  the check's correspondence runs `NutsModel/C18/RCache.lean`, the repaired code).  Original header:
  the STATEFUL core of the node-wide HTTP response cache that did:web resolution goes through
  (http/client/caching.go: responseCache.get / insert / removeExpiredEntries / pop, CachingRoundTripper.RoundTrip /
  cacheResponse).  The Go control flow is mirrored as it is written, including what it does to the linked list:
  `insert` sets `h.head = entry` whenever the scan did not advance (`current == h.head`), which unlinks the old head
  while leaving it in `entriesByURL` and in `currentSizeBytes`; the make-room loop `for size+len >= max { pop() }`
  does not terminate once the list is empty (outcome `hang`).  Pointer identity of `*cacheEntry` = `id` (allocation
  order).  `entriesByURL` (map URL-string -> slice) is kept flattened in append order: the slice of a key is the
  sub-list with that key, in order.  Time is an `Int` (any unit), `Before` is `<`.  Core Lean only.
-/
import NutsModel.C18.RCache

namespace Nuts.C18.Old
open Nuts Nuts.C18

structure RCache where
  maxBytes : Int
  size : Int := 0                 -- currentSizeBytes
  list : List CEntry := []        -- head, head.next, ...
  all : List CEntry := []         -- entriesByURL, flattened
  nextId : Nat := 0
  deriving Repr, DecidableEq, Inhabited

/-- `append(entries[:i], entries[i+1:]...)` for the first `entry == h.head` within `entriesByURL[h.head.requestURL.String()]` -/
def eraseEntry (h : CEntry) : List CEntry → List CEntry
  | [] => []
  | e :: es => if e.key = h.key ∧ e.id = h.id then es else e :: eraseEntry h es

/-- `pop` -/
def RCache.pop (c : RCache) : RCache :=
  match c.list with
  | [] => c
  | h :: t => { c with all := eraseEntry h c.all, size := c.size - (h.size : Int), list := t }

/-- `removeExpiredEntries` (fuel = length of the list: every round pops one element) -/
def removeExpiredN (now : Int) : Nat → RCache → RCache
  | 0, c => c
  | n + 1, c =>
    match c.list with
    | [] => c
    | h :: _ => if h.exp < now then removeExpiredN now n c.pop else c

def RCache.removeExpired (c : RCache) (now : Int) : RCache := removeExpiredN now c.list.length c

/-- `get`: prune, then the first entry of the URL's slice with the request's method and raw query -/
def RCache.get (c : RCache) (now : Int) (key method query : Bytes) : RCache × Option CEntry :=
  let c' := c.removeExpired now
  (c', (c'.all.filter (fun e => e.key = key)).find? (fun e => e.method = method ∧ e.query = query))

/-- `for h.currentSizeBytes+len(entry.responseData) >= h.maxBytes { _ = h.pop() }`; with an empty list `pop` changes
    nothing and the loop spins for ever: `hang` -/
def makeRoomN (need : Int) : Nat → RCache → Res RCache
  | 0, c => if c.size + need ≥ c.maxBytes then .err "hang" else .ok c
  | n + 1, c =>
    if c.size + need ≥ c.maxBytes then
      match c.list with
      | [] => .err "hang"
      | _ :: _ => makeRoomN need n c.pop
    else .ok c

/-- the linked-list part of `insert` -/
def linkIn (e : CEntry) : List CEntry → List CEntry
  | [] => [e]
  | h :: t =>
    let pre := t.takeWhile (fun x => x.exp < e.exp)     -- `current` advances over these
    let post := t.dropWhile (fun x => x.exp < e.exp)
    if pre = [] then e :: t                              -- `current == h.head`: `h.head = entry`, `entry.next = head.next`
    else h :: (pre ++ e :: post)

/-- `insert` (the entry gets the next pointer identity whether or not it is kept) -/
def RCache.insert (c : RCache) (key method query : Bytes) (size : Nat) (exp : Int) : Res RCache :=
  let e : CEntry := { id := c.nextId, key := key, method := method, query := query, size := size, exp := exp }
  let c := { c with nextId := c.nextId + 1 }
  if (size : Int) > c.maxBytes then .ok c else
  match makeRoomN size c.list.length c with
  | .ok c' => .ok { c' with list := linkIn e c'.list, all := c'.all ++ [e], size := c'.size + (size : Int) }
  | .err x => .err x
  | .panic p => .panic p

/-- what the wrapped transport (and `cachecontrol.CachableResponse` on its answer) said: library verdicts -/
inductive Inner where
  | fail                                          -- transport error
  | resp (size : Nat) (cacheable : Option Int)    -- body length; `some t` = no reasons against caching, expiry `t`
  deriving Repr, DecidableEq, Inhabited

inductive RTOut where
  | hit (e : CEntry) | net (stored : Bool) | netErr | hang
  deriving Repr, DecidableEq, Inhabited


/-- the miss path of `RoundTrip`: wrapped transport, then `cacheResponse`; `maxCache` = `maxCacheTime` in the caller's time unit -/
def RCache.rtMiss (c1 : RCache) (now maxCache : Int) (key method query : Bytes) (inner : Inner) : RCache × RTOut :=
  match inner with
  | .fail => (c1, .netErr)
  | .resp size cacheable =>
    if method ≠ sGET then (c1, .net false) else
    match cacheable with
    | none => (c1, .net false)
    | some t =>
      let t' := if t > now + maxCache then now + maxCache else t
      match c1.insert key method query size t' with
      | .ok c2 => (c2, .net (c2.all.any (fun e => e.id = c1.nextId)))
      | _ => (c1, .hang)

/-- `CachingRoundTripper.RoundTrip` -/
def RCache.roundTrip (c : RCache) (now maxCache : Int) (key method query : Bytes) (inner : Inner) : RCache × RTOut :=
  if method = sGET then
    match c.get now key method query with
    | (c1, some e) => (c1, .hit e)
    | (c1, none) => c1.rtMiss now maxCache key method query inner
  else c.rtMiss now maxCache key method query inner

/-- operations of the cache as the rest of the node can drive it -/
inductive COp where
  | get (now : Int) (key method query : Bytes)
  | insert (key method query : Bytes) (size : Nat) (exp : Int)
  | pop
  | roundTrip (now maxCache : Int) (key method query : Bytes) (inner : Inner)
  deriving Repr, DecidableEq, Inhabited

/-- one operation; `none` = the call does not return (`hang`) -/
def RCache.step (c : RCache) : COp → Option RCache
  | .get now k m q => some (c.get now k m q).1
  | .insert k m q s t => match c.insert k m q s t with | .ok c' => some c' | _ => none
  | .pop => some c.pop
  | .roundTrip now mc k m q i => match c.roundTrip now mc k m q i with | (_, .hang) => none | (c', _) => some c'

def RCache.run (c : RCache) : List COp → Option RCache
  | [] => some c
  | o :: os => match c.step o with | some c' => c'.run os | none => none

def RCache.new (maxBytes : Int) : RCache := { maxBytes := maxBytes }

end Nuts.C18.Old
