/-
  C18 (deepening round) — what a case of the multicodec switch of vdr/didkey/resolver.go Resolve does with the key
  bytes (the type of the regenerated table `Facts.C18.didKeyTable`).  Core Lean only.
-/
namespace Nuts.C18

inductive KeyAct where
  | unsupported                       -- the case returns an error at once
  | fixedLen (n : Nat)                -- `keyLength != n` is refused, the bytes ARE the key
  | ec (expectedLen : Option Nat)     -- `unmarshalEC(curve, n, bytes)` (`-1` = no length check), then the library
  | rsa                               -- `x509.ParsePKCS1PublicKey`, size check
  deriving Repr, DecidableEq, Inhabited

end Nuts.C18
