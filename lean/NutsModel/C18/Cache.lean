/-
  C18 — model of the node-wide HTTP response cache (http/client/caching.go CachingRoundTripper / responseCache) that
  did:web resolution shares with every other user of `client.NewWithCache`: entries are indexed by the request URL's
  `String()`.  Core Lean only.
-/
import NutsModel.C18.Resolve

namespace Nuts.C18

/-- a request URL by its components (as `url.URL` holds them after `http.NewRequest`) -/
structure CUrl where
  scheme : Bytes
  user : Bytes := []      -- user-info, without the '@'
  host : Bytes
  path : Bytes            -- escaped path
  query : Bytes := []
  frag : Bytes := []
  deriving Repr, DecidableEq, Inhabited

/-- the cache index: `requestURL.String()` — scheme (lower-cased by the parser) `://` [user `@`] host path [`?` query] [`#` fragment] -/
def cacheKey (u : CUrl) : Bytes :=
  lower u.scheme ++ (cColon :: cSlash :: cSlash ::
    ((if u.user = [] then [] else u.user ++ [cAt]) ++
      (u.host ++ (u.path ++ ((if u.query = [] then [] else cQ :: u.query) ++ (if u.frag = [] then [] else cHash :: u.frag))))))

/-- one GET through the caching transport: (cache after, request that reached the network if any). `cacheable` = the
    response may be stored (Cache-Control) -/
def cacheGet (cacheable : Bool) (cache : List Bytes) (u : CUrl) : List Bytes × Option Bytes :=
  if cache.contains (cacheKey u) then (cache, none)
  else (if cacheable then cacheKey u :: cache else cache, some (cacheKey u))

/-- GETs of other components of the node through `StrictHTTPClient` on the shared transport (a non-https URL does not
    get past `Do` in strict mode) -/
def thirdPartyFetches (strict cacheable : Bool) : List Bytes → List CUrl → List Bytes × List Bytes
  | cache, [] => (cache, [])
  | cache, u :: us =>
    if strict && lower u.scheme ≠ sHttps then thirdPartyFetches strict cacheable cache us else
    let r := cacheGet cacheable cache u
    let rest := thirdPartyFetches strict cacheable r.1 us
    (rest.1, (match r.2 with | some q => [q] | none => []) ++ rest.2)

/-- the URL did:web resolution requests -/
def didWebURL (dec : List Nat) (d : DID) : Res CUrl :=
  match didToURL dec d with
  | .ok u => .ok { scheme := (firstReq u).scheme, host := (firstReq u).host, path := (firstReq u).path }
  | .err e => .err e
  | .panic p => .panic p

/-- the key decoded back into its components (used to state that the index is injective) -/
def decodeKey (k : Bytes) : CUrl :=
  let f := cut cHash k
  let s := cut cColon f.1
  let rest := (s.2.getD []).drop 2
  let q := cut cQ rest
  let a := cut cAt q.1                       -- user-info contains no '/', so an '@' before the first '/' ends it
  let hp := match a.2 with | some x => x | none => a.1
  let h := cut cSlash hp
  { scheme := s.1, user := (match a.2 with | some _ => a.1 | none => []), host := h.1,
    path := (match h.2 with | some p => cSlash :: p | none => []), query := q.2.getD [], frag := f.2.getD [] }

/-- the URLs the index is claimed injective on: lower-case scheme of letters; user-info, host free of `/ ? # @`
    (and `:` for the scheme); path starting with `/`, free of `? #`; query free of `#` -/
def CUrl.wf (u : CUrl) : Bool :=
  u.scheme.all isLower && u.user.all (fun c => c ≠ cSlash && c ≠ cQ && c ≠ cHash && c ≠ cAt) &&
  u.host.all (fun c => c ≠ cSlash && c ≠ cQ && c ≠ cHash && c ≠ cAt) &&
  u.path.head? = some cSlash && u.path.all (fun c => c ≠ cQ && c ≠ cHash) && u.query.all (fun c => c ≠ cHash)

end Nuts.C18
