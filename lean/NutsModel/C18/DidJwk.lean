/-
  C18 (deepening round 3) — vdr/didjwk/resolver.go Resolve as a function of the identifier: the method guard,
  `base64.RawStdEncoding.DecodeString` (modelled byte for byte: standard alphabet, no padding, CR / LF skipped, a single
  left-over character refused, trailing bits NOT checked — Go's non-strict mode), then the ORDER of the refusals
  (JWK parser, `rawPrivateKeyOf`, private-key refusal, `PublicRawKeyOf`, EC point check, verification method).
  JSON/JWK parsing, the DeepEqual of raw key and raw public key, and the curve arithmetic are library verdicts on the
  DECODED BYTES handed in as data.  Core Lean only.
-/
import NutsModel.C18.Resolve

namespace Nuts.C18

/-- `decodeMap` of `base64.StdEncoding`: the value of a character of the standard alphabet -/
def b64Val (c : Nat) : Option Nat :=
  if 65 ≤ c ∧ c ≤ 90 then some (c - 65)
  else if 97 ≤ c ∧ c ≤ 122 then some (c - 71)
  else if 48 ≤ c ∧ c ≤ 57 then some (c + 4)
  else if c = 43 then some 62
  else if c = 47 then some 63
  else none

/-- `encodeStd[n]` -/
def b64Chr (n : Nat) : Nat :=
  if n < 26 then n + 65 else if n < 52 then n + 71 else if n < 62 then n - 4 else if n = 62 then 43 else 47

/-- `Encoding.Decode` with `NoPadding`, non-strict: `acc` = the values of the current quantum read so far (< 4).
    `decodeQuantum`: a character of the alphabet is stored; `\n` / `\r` are skipped; anything else (also `=`, there is no
    padding character) is `CorruptInputError`; at the end of the input 0 pending values end the decoding, 1 is
    corrupt, 2 / 3 give 1 / 2 bytes (the unused low bits are not inspected). -/
def b64DecAux : Bytes → List Nat → Res Bytes
  | [], acc =>
    match acc with
    | [] => .ok []
    | [a, b] => .ok [a * 4 + b / 16]
    | [a, b, c] => .ok [a * 4 + b / 16, (b % 16) * 16 + c / 4]
    | _ => .err "corrupt"
  | ch :: rest, acc =>
    if ch = 10 ∨ ch = 13 then b64DecAux rest acc else
    match b64Val ch with
    | none => .err "corrupt"
    | some v =>
      match acc with
      | [a, b, c] =>
        match b64DecAux rest [] with
        | .ok t => .ok ((a * 4 + b / 16) :: ((b % 16) * 16 + c / 4) :: ((c % 4) * 64 + v) :: t)
        | e => e
      | _ => b64DecAux rest (acc ++ [v])

/-- `base64.RawStdEncoding.DecodeString` -/
def b64Decode (s : Bytes) : Res Bytes := b64DecAux s []

/-- `base64.RawStdEncoding.EncodeToString` (to state the round trip) -/
def b64Enc : Bytes → Bytes
  | [] => []
  | [a] => [b64Chr (a / 4), b64Chr ((a % 4) * 16)]
  | [a, b] => [b64Chr (a / 4), b64Chr ((a % 4) * 16 + b / 16), b64Chr ((b % 16) * 4)]
  | a :: b :: c :: rest =>
    b64Chr (a / 4) :: b64Chr ((a % 4) * 16 + b / 16) :: b64Chr ((b % 16) * 4 + c / 64) :: b64Chr (c % 64) :: b64Enc rest

/-- library verdicts on the DECODED bytes (jwx: `jwk.ParseKey`, `Raw`, `PublicKeyOf`, `PublicRawKeyOf`;
    `reflect.DeepEqual`; crypto/elliptic; go-did `NewVerificationMethod`) -/
structure JwkLib where
  parseOK : Bool := true       -- `jwk.ParseKey` accepts the bytes
  rawErr : Bool := false       -- `rawPrivateKeyOf` returns an error
  isPrivate : Bool := false    -- the raw key differs from the raw public key (`!reflect.DeepEqual`)
  pubRawErr : Bool := false    -- `jwk.PublicRawKeyOf` fails
  isEC : Bool := false         -- the raw public key is an `*ecdsa.PublicKey`
  onCurve : Bool := true       -- coordinates in [0, p) and on the curve
  vmErr : Bool := false        -- `did.NewVerificationMethod` fails
  deriving Repr, DecidableEq, Inhabited

/-- where `didjwk.Resolver.Resolve` refuses (or `ok`) — in source order -/
inductive JwkClass where
  | method | base64 | parse | rawpriv | priv | pubraw | curve | vm | ok | panic (site : String)
  deriving Repr, DecidableEq, Inhabited

def JwkClass.str : JwkClass → String
  | .method => "method" | .base64 => "base64" | .parse => "parse" | .rawpriv => "rawpriv" | .priv => "private"
  | .pubraw => "pubraw" | .curve => "curve" | .vm => "vm" | .ok => "ok" | .panic p => "panic:" ++ p

/-- the refusal steps after the base64 decoding, in the order the source takes them (`order` = regenerated from the
    return statements of Resolve: the step names in source order) -/
def jwkStep (lib : JwkLib) : String → Option JwkClass
  | "parse" => if lib.parseOK then none else some .parse
  | "rawpriv" => if lib.rawErr then some .rawpriv else none
  | "private" => if lib.isPrivate then some .priv else none
  | "pubraw" => if lib.pubRawErr then some .pubraw else none
  | "curve" => if lib.isEC && !lib.onCurve then some .curve else none
  | "vm" => if lib.vmErr then some .vm else none
  | s => some (.panic ("unknown-step:" ++ s))

def jwkSteps (lib : JwkLib) : List String → JwkClass
  | [] => .ok
  | s :: rest => match jwkStep lib s with
    | some c => c
    | none => jwkSteps lib rest

/-- the order of vdr/didjwk/resolver.go as read by the earlier builder (pinned to the regenerated one by `fact_did_jwk_flow`) -/
def jwkOrder : List String := ["parse", "rawpriv", "private", "pubraw", "curve", "vm"]

/-- which refusal step a message of a `return nil, nil, <error>` of Resolve belongs to (the messages are regenerated
    from the source in order: `Facts.C18.jwkRefusals`) -/
def stepOfMsg (m : String) : String :=
  if m = "failed to parse JWK: %w" then "parse"
  else if m = "rawPrivateKeyOf() failed: %w" then "rawpriv"
  else if m = "private keys are forbidden in DID JWK: %T" then "private"
  else if m = "failed to get PublicRawKeyOf(key): %w" then "pubraw"
  else if m = "invalid JWK: EC public key is not a point on its curve" then "curve"
  else if m = "failed to create verification method: %w" then "vm"
  else "unmapped:" ++ m

/-- the refusal order after the method guard and the base64 decoding, from the regenerated message list -/
def jwkOrderOf (refusals : List String) : List String := (refusals.drop 2).map stepOfMsg

/-- outcome class of `didjwk.Resolver.Resolve` for `did:<method>:<id>`; `lib` = the library's verdicts as a function of
    the decoded bytes -/
def resolveJwkClass (order : List String) (method id : Bytes) (lib : Bytes → JwkLib) : JwkClass :=
  if method ≠ sJwk then .method else
  match b64Decode id with
  | .err _ => .base64
  | .panic p => .panic p
  | .ok raw => jwkSteps (lib raw) order

end Nuts.C18
