/-
  C18 — the model instantiated with what /repo's source says today (regenerated facts).
-/
import NutsModel.C18.Resolve
import NutsModel.Facts.C18

namespace Nuts.C18
open Nuts.Facts.C18

/-- the condition text with which `http/client.checkRedirect` refuses a scheme downgrade in strict mode -/
def condStrictHttps : String := "StrictMode && req.URL.Scheme != \"https\""
/-- Go's default limit, which a custom CheckRedirect has to re-implement -/
def condMaxRedirects : String := "len(via) >= maxRedirects"
/-- the condition text with which did:web's redirect check refuses to leave the origin of the first request -/
def condSameOrigin : String := "req.URL.Scheme != via[0].URL.Scheme || req.URL.Host != via[0].URL.Host"

/-- every `http.Client` built by http/client carries the package's CheckRedirect -/
def allClientsCheckRedirects : Bool :=
  clientCheckRedirects ≠ [] && clientCheckRedirects.all fun c => c == "checkRedirect"

/-- `WithRedirectCheck` runs the package policy first, then the caller's check -/
def wrapperKeepsPolicy : Bool :=
  withRedirectCheckBody = ["if-err:checkRedirect(req, via)", "return:check(req, via)"]

/-- redirect policy of the client did:web resolution uses, read off the facts (no CheckRedirect at all = Go's default:
    follow up to 10 redirects) -/
def factPolicy : Policy :=
  { strictHttpsRedirect := allClientsCheckRedirects && checkRedirectConds.contains condStrictHttps &&
      (didwebRedirectCheck == "none" || wrapperKeepsPolicy)
    sameOriginRedirect := didwebRedirectCheck != "none" && didwebRedirectConds.contains condSameOrigin
    maxRedirects := maxRedirectsConst.getD 10 }

/-- did:web chain order: the node's own store is asked before the network -/
def factLocalFirst : Bool := webResolverChain = ["r.ownedDIDResolver", "didweb.NewResolver()"]

end Nuts.C18
