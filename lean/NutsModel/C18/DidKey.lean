/-
  C18 (deepening round) — vdr/didkey/resolver.go Resolve as a function of the identifier: the `z` prefix, the
  multicodec varint (`encoding/binary.ReadUvarint`, modelled byte for byte), the switch on the codec (regenerated table)
  and the length checks.  base58 decoding, elliptic-curve point decompression, PKCS#1 parsing and the JWK conversion
  are library verdicts handed in as data.  Core Lean only.
-/
import NutsModel.C18.KeyAct
import NutsModel.C18.Resolve

namespace Nuts.C18

/-- `binary.ReadUvarint` on the remaining bytes: value and rest; `i` = bytes consumed so far, `x`/`s` the accumulator.
    `MaxVarintLen64 = 10`; the tenth byte may only be 0 or 1.  `x | uint64(b&0x7f)<<s` is written arithmetically
    (`x + (b % 128) * 2^s`: the bit ranges are disjoint, and the two overflow checks keep everything below 2^64). -/
def readUvarintAux : Bytes → Nat → Nat → Nat → Res (Nat × Bytes)
  | [], i, _, _ => if i > 0 then .err "unexpected-eof" else .err "eof"
  | b :: rest, i, x, s =>
    if i = 10 then .err "overflow" else
    if b < 128 then
      if i = 9 ∧ b > 1 then .err "overflow" else .ok (x + b * 2 ^ s, rest)
    else readUvarintAux rest (i + 1) (x + (b % 128) * 2 ^ s) (s + 7)

def readUvarint (bs : Bytes) : Res (Nat × Bytes) := readUvarintAux bs 0 0 0

/-- `binary.AppendUvarint` (used to state the round trip) -/
def appendUvarint (n : Nat) : Bytes :=
  if h : n < 128 then [n] else (n % 128 + 128) :: appendUvarint (n / 128)
termination_by n
decreasing_by omega

/-- library verdicts on the key bytes -/
structure KeyLib where
  ecOK : Bool := true          -- the curve point decompresses and go-did/jwx accept the key
  rsa : String := "ok"         -- "parse" (PKCS#1 error) | "small" (< 2048 bits) | "ok"
  deriving Repr, DecidableEq, Inhabited

def cZ : Nat := 122

/-- where `didkey.Resolver.Resolve` refuses (or `ok`) -/
inductive KeyClass where
  | noz | base58 | multicodec | type | unsupported (name : String) | len | lib | rsaParse | rsaSmall | ok | panic (site : String)
  deriving Repr, DecidableEq, Inhabited

def KeyClass.str : KeyClass → String
  | .noz => "noz" | .base58 => "base58" | .multicodec => "multicodec" | .type => "type"
  | .unsupported n => "unsupported:" ++ n | .len => "len" | .lib => "lib" | .rsaParse => "rsa-parse" | .rsaSmall => "rsa-small"
  | .ok => "ok" | .panic p => "panic:" ++ p

/-- the outcome class of `didkey.Resolver.Resolve` for identifier `id` (method-specific part); `decoded` = base58btc
    verdict on `id[1:]` -/
def resolveKeyClass (table : List (Nat × String × KeyAct)) (id : Bytes) (decoded : Option Bytes) (lib : KeyLib) : KeyClass :=
  match id with
  | [] => .noz
  | c :: _ =>
    if c ≠ cZ then .noz else
    match decoded with
    | none => .base58
    | some mc =>
      match readUvarint mc with
      | .err _ => .multicodec
      | .panic p => .panic p
      | .ok (code, key) =>
        match table.find? (fun r => r.1 = code) with
        | none => .type
        | some (_, name, act) =>
          match act with
          | .unsupported => .unsupported name
          | .fixedLen n => if key.length ≠ n then .len else .ok
          | .ec (some n) => if key.length ≠ n then .len else if lib.ecOK then .ok else .lib
          | .ec none => if lib.ecOK then .ok else .lib
          | .rsa => if lib.rsa = "parse" then .rsaParse else if lib.rsa = "small" then .rsaSmall else .ok

end Nuts.C18
