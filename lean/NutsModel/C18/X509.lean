/-
  C18 (deepening round 2) — vdr/didx509: the did:x509 resolver as a function of the identifier and of the JWT
  protected headers it is handed (`x5c`, `x5t`, `x5t#S256`).  No network, no store.
    resolver.go    Resolve (check order), parseX509Did (strings.Split on "::" and ":"), findValidationCertificate
    validation.go  validatePolicy / validate (pairs, url.QueryUnescape, validatorMap)
    x509_utils.go  findCertificateByHash (base64url verdict, hash switch after strings.ToLower)
  Certificates are DATA supplied by the harness (attribute lists of each certificate; a hash is the abstract token
  "hash of certificate k under algorithm a"); PEM/ASN.1 parsing, SHA, CRL checking and JWK conversion are verdicts.
  Core Lean only.
-/
import NutsModel.C18.Resolve

namespace Nuts.C18

/-- `strings.Split(s, "::")` (left-most, non-overlapping) -/
def splitDC : Bytes → List Bytes
  | [] => [[]]
  | [x] => [[x]]
  | x :: y :: rest =>
    if x = 58 ∧ y = 58 then [] :: splitDC rest else
      match splitDC (y :: rest) with
      | [] => [[x]]          -- unreachable
      | p :: ps => (x :: p) :: ps

/-- `strings.Join(parts, "::")` -/
def joinDC : List Bytes → Bytes
  | [] => []
  | [p] => p
  | p :: q :: ps => p ++ 58 :: 58 :: joinDC (q :: ps)

structure XPolicy where
  name : Bytes
  value : Bytes
  deriving DecidableEq, Repr

structure XRef where
  method : Bytes
  root : Bytes
  policies : List XPolicy
  deriving DecidableEq, Repr

/-- the policy loop of `parseX509Did`: `name:rest…`, at least one `:` -/
def parsePolicies : List Bytes → Res (List XPolicy)
  | [] => .ok []
  | s :: rest =>
    match splitOn 58 s with
    | name :: v :: vs =>
      match parsePolicies rest with
      | .ok l => .ok ({ name := name, value := joinWith 58 (v :: vs) } :: l)
      | r => r
    | _ => .err "policy-malformed"

/-- `parseX509Did(id)` on `id.ID` -/
def parseX509Did (id : Bytes) : Res XRef :=
  match splitDC id with
  | [] => .err "malformed"      -- unreachable: Split never returns an empty slice
  | didString :: policyStrings =>
    match splitOn 58 didString with
    | [v, m, r] =>
      if v ≠ [48] then .err "version" else
      match parsePolicies policyStrings with
      | .ok ps => .ok { method := m, root := r, policies := ps }
      | .err e => .err e
      | .panic p => .panic p
    | _ => .err "malformed"

/-! ### validation.go -/

/-- the attributes of an `x509.Certificate` that the validators look at -/
structure XCert where
  otherNames : Option (List Bytes) := some []   -- `none`: findOtherNameValues failed
  dns : List Bytes := []
  email : List Bytes := []
  ips : List Bytes := []                        -- `ip.String()` of every address
  serial : Bytes := []
  cn : Bytes := []
  locality : List Bytes := []
  country : List Bytes := []
  province : List Bytes := []
  street : List Bytes := []
  org : List Bytes := []
  ou : List Bytes := []
  deriving Repr

inductive XAttr | otherName | dns | email | ip | serial | cn | l | c | o | ou | st | street
  deriving DecidableEq, Repr

def sSubject : Bytes := [115, 117, 98, 106, 101, 99, 116]
def sSan : Bytes := [115, 97, 110]

/-- `validatorMap`: (policy name, key) → the certificate attribute compared -/
def xValidatorTable : List ((Bytes × Bytes) × XAttr) :=
  [ ((sSan, [111,116,104,101,114,78,97,109,101]), .otherName),
    ((sSan, [100,110,115]), .dns),
    ((sSan, [101,109,97,105,108]), .email),
    ((sSan, [105,112]), .ip),
    ((sSubject, [115,101,114,105,97,108,78,117,109,98,101,114]), .serial),
    ((sSubject, [67,78]), .cn),
    ((sSubject, [76]), .l),
    ((sSubject, [67]), .c),
    ((sSubject, [83,84]), .st),
    ((sSubject, [83,84,82,69,69,84]), .street),
    ((sSubject, [79]), .o),
    ((sSubject, [79,85]), .ou) ]

/-- the attribute a validator body compares, from what the extractor read in the function literal
    (`mode`: `contains` = `slices.Contains(attr, value)`, `eq` = `attr != value`, `ipstr` = loop with `ip.String() == value`) -/
def attrOfField (mode field : String) : Option XAttr :=
  if mode = "contains" ∧ field = "findOtherNameValues(cert)" then some .otherName else
  if mode = "contains" ∧ field = "cert.DNSNames" then some .dns else
  if mode = "contains" ∧ field = "cert.EmailAddresses" then some .email else
  if mode = "ipstr" ∧ field = "cert.IPAddresses" then some .ip else
  if mode = "eq" ∧ field = "cert.Subject.SerialNumber" then some .serial else
  if mode = "eq" ∧ field = "cert.Subject.CommonName" then some .cn else
  if mode = "contains" ∧ field = "cert.Subject.Locality" then some .l else
  if mode = "contains" ∧ field = "cert.Subject.Country" then some .c else
  if mode = "contains" ∧ field = "cert.Subject.Province" then some .st else
  if mode = "contains" ∧ field = "cert.Subject.StreetAddress" then some .street else
  if mode = "contains" ∧ field = "cert.Subject.Organization" then some .o else
  if mode = "contains" ∧ field = "cert.Subject.OrganizationalUnit" then some .ou else none

/-- the validator table from the regenerated rows; `none` when a row is not understood -/
def tableOfFacts : List ((Bytes × Bytes) × String × String) → Option (List ((Bytes × Bytes) × XAttr))
  | [] => some []
  | (k, mode, field) :: rest =>
    match attrOfField mode field, tableOfFacts rest with
    | some a, some t => some ((k, a) :: t)
    | _, _ => none

def lookupValidator (tbl : List ((Bytes × Bytes) × XAttr)) (name key : Bytes) : Option XAttr :=
  match tbl.find? (fun e => e.1 = (name, key)) with
  | some e => some e.2
  | none => none

/-- the body of one validator: `.ok true` match, `.ok false` mismatch, `.err` lookup failure (otherName) -/
def attrMatches (c : XCert) (a : XAttr) (v : Bytes) : Res Bool :=
  match a with
  | .otherName => match c.otherNames with
    | some l => .ok (l.contains v)
    | none => .err "othername-parse"
  | .dns => .ok (c.dns.contains v)
  | .email => .ok (c.email.contains v)
  | .ip => .ok (c.ips.contains v)
  | .serial => .ok (c.serial == v)
  | .cn => .ok (c.cn == v)
  | .l => .ok (c.locality.contains v)
  | .c => .ok (c.country.contains v)
  | .st => .ok (c.province.contains v)
  | .street => .ok (c.street.contains v)
  | .o => .ok (c.org.contains v)
  | .ou => .ok (c.ou.contains v)

/-- `url.QueryUnescape` on a string whose escapes are valid: `%HH` decoded, `+` → space -/
def unescapeQ : Bytes → Bytes
  | [] => []
  | 37 :: a :: b :: rest => (unhex a * 16 + unhex b) :: unescapeQ rest
  | 43 :: rest => 32 :: unescapeQ rest
  | c :: rest => c :: unescapeQ rest

/-- the `for i := 0; i < len(keyValue); i += 2` loop of `validate` -/
def validatePairs (tbl : List ((Bytes × Bytes) × XAttr)) (name : Bytes) (c : XCert) : List Bytes → Res Unit
  | k :: v :: rest =>
    if !validEscapes v then .err "escape" else
    match lookupValidator tbl name k with
    | none => .err "unknown-key"
    | some a =>
      match attrMatches c a (unescapeQ v) with
      | .ok true => validatePairs tbl name c rest
      | .ok false => .err "mismatch"
      | .err e => .err e
      | .panic p => .panic p
  | [_] => .panic "validate-index"     -- keyValue[i+1] out of range: excluded by the parity check
  | [] => .ok ()

def validate (tbl : List ((Bytes × Bytes) × XAttr)) (p : XPolicy) (c : XCert) : Res Unit :=
  let kv := splitOn 58 p.value
  if kv.length % 2 ≠ 0 then .err "policy-malformed" else validatePairs tbl p.name c kv

/-- `validatePolicy`: every policy in identifier order, first error wins -/
def validatePolicy (tbl : List ((Bytes × Bytes) × XAttr)) (c : XCert) : List XPolicy → Res Unit
  | [] => .ok ()
  | p :: ps =>
    match (if p.name = sSubject ∨ p.name = sSan then validate tbl p c else .err "unknown-policy") with
    | .ok () => validatePolicy tbl c ps
    | r => r

/-! ### x509_utils.go findCertificateByHash -/

def sSha1 : Bytes := [115,104,97,49]
def sSha256 : Bytes := [115,104,97,50,53,54]
def sSha384 : Bytes := [115,104,97,51,56,52]
def sSha512 : Bytes := [115,104,97,53,49,50]
def hashAlgs : List Bytes := [sSha1, sSha256, sSha384, sSha512]

/-- a thumbprint string: the base64url hash of certificate `cert` under `alg` (token), or any other text -/
inductive XTarget
  | hashOf (cert : Nat) (alg : Bytes)
  | lit (s : Bytes)
  deriving DecidableEq, Repr

def isB64URL (c : Nat) : Bool := isAlnum c || c = 45 || c = 95

/-- `base64.RawURLEncoding.DecodeString` succeeds (texts without CR/LF) -/
def rawURLOK (s : Bytes) : Bool := s.all isB64URL && s.length % 4 ≠ 1

/-- the loop of `findCertificateByHash` (`alg` already lower-cased by `hash`) -/
def findLoop (t : XTarget) (alg : Bytes) : List Nat → Res Nat
  | [] => .err "cert-not-found"
  | c :: cs =>
    if !hashAlgs.contains alg then .err "unsupported-alg" else
    if t = .hashOf c alg then .ok c else findLoop t alg cs

def findByHash (chain : List Nat) (t : XTarget) (alg : Bytes) : Res Nat :=
  match t with
  | .lit s => if !rawURLOK s then .err "invalid-hash" else findLoop t (lower alg) chain
  | _ => findLoop t (lower alg) chain

/-- `findValidationCertificate`: x5t (sha1) and x5t#S256 (sha256), both must name the same certificate -/
def findValidationCert (chain : List Nat) (x5t x5tS256 : Option XTarget) : Res Nat :=
  let r1 : Res (Option Nat) :=
    match x5t with
    | some t => match findByHash chain t sSha1 with
      | .ok c => .ok (some c) | .err e => .err e | .panic p => .panic p
    | none => .ok none
  match r1 with
  | .ok v =>
    let r2 : Res (Option Nat) :=
      match x5tS256 with
      | some t => match findByHash chain t sSha256 with
        | .ok o => (match v with
          | none => .ok (some o)
          | some c => if o = c then .ok (some c) else .err "thumbprints-differ")
        | .err e => .err e | .panic p => .panic p
      | none => .ok v
    match r2 with
    | .ok (some c) => .ok c
    | .ok none => .err "no-thumbprint"
    | .err e => .err e
    | .panic p => .panic p
  | .err e => .err e
  | .panic p => .panic p

/-! ### resolver.go Resolve -/

inductive XChain
  | nilMeta                 -- `metadata == nil`: `metadata.GetProtectedHeaderChain` dereferences it
  | missing                 -- no `x5c` header, or not a `*cert.Chain`
  | badPem (e : String)     -- parseChain refuses an element
  | chain (ids : List Nat)
  deriving Repr

structure XInput where
  chain : XChain
  x5t : Option XTarget
  x5tS256 : Option XTarget
  certs : Nat → XCert
  crlOK : Bool
  vmOK : Bool        -- did.NewVerificationMethod accepts the certificate's public key


/-- token syntax of a hash reference inside an identifier / header: `H<digit><alg>` -/
def targetOf (s : Bytes) : XTarget :=
  match s with
  | 72 :: d :: alg => if isDigit d && hashAlgs.contains alg then .hashOf (d - 48) alg else .lit s
  | _ => .lit s

/-- `Resolver.Resolve`: the identifier text of the returned document, or the first refusal -/
def resolveX509 (tbl : List ((Bytes × Bytes) × XAttr)) (method id : Bytes) (inp : XInput) : Res Bytes :=
  if method ≠ sX509 then .err "unsupported-method" else
  match parseX509Did id with
  | .err e => .err e
  | .panic p => .panic p
  | .ok ref =>
    match inp.chain with
    | .nilMeta => .panic "nil-metadata"
    | .missing => .err "chain-missing"
    | .badPem e => .err e
    | .chain ids =>
      match findByHash ids (targetOf ref.root) ref.method with
      | .err e => .err e
      | .panic p => .panic p
      | .ok _ =>
        match findValidationCert ids inp.x5t inp.x5tS256 with
        | .err e => .err e
        | .panic p => .panic p
        | .ok v =>
          match validatePolicy tbl (inp.certs v) ref.policies with
          | .err e => .err e
          | .panic p => .panic p
          | .ok () =>
            if !inp.crlOK then .err "crl" else
            if !inp.vmOK then .err "verification-method" else
            .ok (sDid ++ method ++ cColon :: id)

end Nuts.C18
