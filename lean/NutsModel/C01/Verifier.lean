/-
  C01 — model of nuts-node's credential / presentation verification.

  Mirrors (Go):  vcr/verifier/verifier.go (Verify, doVerifyVP), vcr/verifier/signature_verifier.go (VerifySignature,
  VerifyVPSignature, jsonldProof, jwtSignature, resolveSigningKey), vcr/credential/validator.go + resolver.go (FindValidator,
  the three validators, PresentationSigner), vcr/credential/util.go (ResolveSubjectDID, PresenterIsCredentialSubject),
  vcr/signature/proof/jsonld.go (ProofOptions.ValidAt, LDProof.Verify), crypto/jwx.go (ParseJWT), vdr/resolver/key.go
  (ResolveKeyByID / ResolveKey), vcr/trust/trust.go (IsTrusted), vcr/revocation (StatusList2021.Verify),
  vcr/issuer/issuer.go (Issue / buildAndSignVC), vcr/holder/presenter.go (buildPresentation).

  A document is the record of the members the node reads after go-did has parsed it (typed fields) plus the flattened leaf
  claims of `credentialSubject`; canonicalisation (json-gold URDNA2015), SHA-256 and the signature schemes are PARAMETERS
  (`Crypto`), the DID document history, revocation store, status lists, trust configuration and go-did's DID-URL parser are
  PARAMETERS (`Env`).  Every Go `return <error>` of the verification path is one named `Check`; `verify` is "first check that
  does not pass", so the order of the Go code fixes the error class and the SET of checks fixes the accept set.
  Core Lean only.
-/
import NutsModel.Base
import NutsModel.C01.Atoi
namespace Nuts.C01

abbrev Time := Int        -- unix milliseconds (the harness only generates whole milliseconds)
abbrev Bytes := String
abbrev Key := String      -- a public key (the harness names keys by thumbprint)
abbrev Sig := String

def vcType : String := "VerifiableCredential"
def vcContextV1 : String := "https://www.w3.org/2018/credentials/v1"
def nutsContextV1 : String := "https://nuts.nl/credentials/v1"
def orgType : String := "NutsOrganizationCredential"
def authType : String := "NutsAuthorizationCredential"
def statusListEntryType : String := "StatusList2021Entry"
def statusListContext : String := "https://w3id.org/vc/status-list/2021/v1"
/-- Go's zero `time.Time` (0001-01-01T00:00:00Z) in unix milliseconds -/
def zeroTime : Time := -62135596800000

/-- `strings.Split(s, "#")[0]` -/
def beforeHash (s : String) : String := String.ofList (s.toList.takeWhile (fun c => c != '#'))

/-! ## configuration regenerated from the source -/
structure Cfg where
  maxSkew : Int                   -- verifier.maxSkew in ms
  supportedAlgs : List String     -- crypto/jwx.SupportedAlgorithms
  deriving Repr

/-! ## documents as the node reads them -/

inductive Format where
  | ld | jwt | other
  deriving Repr, DecidableEq, Inhabited

/-- proof.LDProof after `UnmarshalProofValue` (the members that are re-marshalled, canonicalised and signed, plus `jws`) -/
structure Proof where
  typ : String := ""
  vm : String := ""                   -- verificationMethod
  purpose : String := ""
  created : Time := zeroTime
  expires : Option Time := none
  domain : Option String := none
  challenge : Option String := none
  nonce : Option String := none
  jws : Sig := ""
  deriving Repr, DecidableEq, Inhabited

/-- the signed proof options: everything in the proof but the signature value -/
def Proof.options (p : Proof) : Proof := { p with jws := "" }

/-- what `signedDocument["proof"]` decodes to in `jsonldProof` -/
inductive ProofShape where
  | absent                -- no `proof` member (decodes to the zero LDProof: "missing proof")
  | malformed             -- several proofs / wrong member types: UnmarshalProofValue fails
  | one (p : Proof)
  deriving Repr, DecidableEq, Inhabited

/-- one `credentialSubject` element's id as `VerifiableCredential.SubjectDID` decodes it -/
inductive SubjId where
  | empty                 -- no id member
  | did (d : String)
  deriving Repr, DecidableEq, Inhabited

/-- a `credentialStatus` entry -/
structure Status where
  id : String := ""
  typ : String := ""
  purpose : String := ""
  indexText : String := ""            -- statusListIndex as written in the document (a JSON string)
  listCred : String := ""
  entryValid : Bool := true           -- raw entry unmarshals and StatusList2021Entry.Validate() passes
  deriving Repr, DecidableEq, Inhabited

/-- `strconv.Atoi(statusListIndex)` with `n >= 0` — computed by the model from the document's text (NutsModel/C01/Atoi.lean);
    it used to be a measured input -/
def Status.index (s : Status) : Option Nat := indexOfText s.indexText

/-- JOSE header / registered claims of a JWT document -/
structure JwtInfo where
  kid : String := ""
  alg : String := ""
  nbf : Option Time := none
  exp : Option Time := none
  iat : Option Time := none
  sig : Sig := ""
  deriving Repr, DecidableEq, Inhabited

structure Cred where
  format : Format := .ld
  ctx : List String := []
  id : Option String := none
  types : List String := []
  issuer : String := ""
  issued : Time := zeroTime                   -- IssuanceDate (JWT: nbf)
  expires : Option Time := none               -- ExpirationDate (JWT: exp)
  subjects : Option (List SubjId) := some []  -- none: credentialSubject does not decode as [{id: DID}]
  statuses : Option (List Status) := some []  -- none: CredentialStatuses() fails; some []: no credentialStatus
  proof : ProofShape := .absent
  nProofs : Nat := 0                          -- len(cred.Proof)
  shapeOK : Bool := true                      -- type-specific credentialSubject shape (organization.name/city, purposeOfUse, resources)
  jwt : Option JwtInfo := none
  claims : List (String × String) := []       -- flattened leaf members of credentialSubject (path, value)
  raw : String := ""                          -- JWT: the compact serialisation (identity of the signing input)
  caseVariant : Bool := false                 -- signature_verifier.go caseVariantMember: the canonicalised document has a member that only differs by case from a member go-did reads, or an object (any depth) with two member names that only differ by case
  cd : String := ""                           -- driver only: measured digest of the real canonical form (the theorems never read it)
  deriving Repr, DecidableEq, Inhabited

/-- SignedDocument.DocumentWithoutProof -/
def Cred.stripProof (c : Cred) : Cred := { c with proof := .absent, nProofs := 0 }

structure Pres where
  format : Format := .ld
  holder : Option String := none
  vcs : List Cred := []
  nProofs : Nat := 0                          -- len(vp.Proof)   (PresentationSigner / ParseLDProof want exactly 1)
  proofDecodes : Bool := true                 -- vp.UnmarshalProofValue(&[]LDProof) succeeds
  signerVM : String := ""                     -- proofs[0].VerificationMethod as PresentationSigner sees it
  proof : ProofShape := .absent               -- `proof` member of the document that is canonicalised (jsonldProof)
  jwt : Option JwtInfo := none
  jwtParses : Bool := true                    -- crypto.JWTKidAlg(raw) succeeds
  raw : String := ""
  caseVariant : Bool := false                 -- the raw JSON-LD document has a member that only differs by case from a member go-did reads
  cd : String := ""
  deriving Repr, DecidableEq, Inhabited

def Pres.stripProof (vp : Pres) : Pres := { vp with proof := .absent, nProofs := 0, signerVM := "", proofDecodes := true }

/-! ## the trust store (vcr/trust/trust.go): per credential type the LIST of issuers the YAML file holds — a list, not a set:
    `AddTrust` never creates duplicates, but the file is plain YAML that operators edit / merge -/

abbrev TrustStore := List (String × List String)

def trustList (s : TrustStore) (t : String) : List String := (alGet s t).getD []

/-- Config.IsTrusted -/
def isTrusted (s : TrustStore) (t i : String) : Bool := (trustList s t).contains i

/-- Config.AddTrust (then save: the file is the store) -/
def addTrust (s : TrustStore) (t i : String) : TrustStore :=
  if isTrusted s t i then s else alPut s t (trustList s t ++ [i])

/-- Config.RemoveTrust: a new slice of length len-1 receives every entry that differs from the issuer; with duplicates of
    the issuer fewer entries are copied and the tail keeps Go's zero value "" -/
def removeTrust (s : TrustStore) (t i : String) : TrustStore :=
  if !isTrusted s t i then s else
  let l := trustList s t
  let kept := l.filter (fun x => x != i)
  alPut s t (kept ++ List.replicate (l.length - 1 - kept.length) "")

/-- Config.Load into a config: yaml.Unmarshal into the map replaces the lists of the types the file names -/
def loadTrust (s : TrustStore) (file : TrustStore) : TrustStore := file.foldl (fun acc p => alPut acc p.1 p.2) s

/-! ## environment: state of the verifying node + contracts of libraries -/

/-- a resolved DID document: the `assertionMethod` relationships in document order -/
structure DidDoc where
  /-- the ASSERTION relationship (the only collection ResolveKeyByID iterates for credentials/presentations): ids as written in
      the document — absolute (`did:…#k`) or relative (`#k`) -/
  assertion : List (String × Key)
  /-- "@base" of the document's @context (relative ids are resolved against it) -/
  base : Option String := none
  deriving Repr, DecidableEq, Inhabited

/-- a status list credential as the node can obtain it -/
structure StatusList where
  purpose : String
  bit : Nat → Option Bool        -- none: index out of range

structure Env where
  now : Time
  /-- `didResolver.Resolve(did, {ResolveTime: at, AllowDeactivated: false})`; none = error (unknown, deactivated, no version at `at`) -/
  resolve : Option Time → String → Option DidDoc
  /-- verifier store has a revocation for this credential id -/
  revoked : String → Bool
  /-- the revocation store cannot answer (GetRevocations returns an error other than not-found): Verify returns that error -/
  storeFails : Bool := false
  statusList : String → Option StatusList
  /-- trust.Config.IsTrusted type issuer -/
  trusted : String → String → Bool
  /-- did.ParseDID -/
  parseDID : String → Option String
  /-- resolver.GetDIDFromURL / did.ParseDIDURL(..).DID -/
  didOfURL : String → Option String

structure Crypto where
  /-- URDNA2015 n-quads of the document without proof, as the verifier marshals it -/
  canon : Cred → Bytes
  canonVP : Pres → Bytes
  /-- same for the re-marshalled proof options (+ proof context, − jws) -/
  canonProof : Proof → Bytes
  digest : Bytes → Bytes
  /-- JWS signing input (header.payload) of a JWT document -/
  jwtInput : String → Bytes
  sigOK : Key → Bytes → Sig → Bool
  /-- kind of a public key as crypto/jwx.AlgorithmFitsKey sees it: "P-256", "P-384", "P-521", "Ed25519" (of the right length), or
      anything else (RSA, other curves) -/
  keyKind : Key → String := fun _ => "P-256"

/-- to-be-verified bytes of a linked-data proof: digest(canonical proof options) ‖ digest(canonical document) -/
def tbs (P : Crypto) (p : Proof) (doc : Bytes) : Bytes := P.digest (P.canonProof p.options) ++ P.digest doc

/-! ## checks -/

inductive Outcome where
  | pass
  | fail (cls : String)
  | panic (site : String)
  deriving Repr, DecidableEq, Inhabited

structure Check (α : Type) where
  name : String
  run : α → Outcome

/-- first check that does not pass decides -/
def runChecks {α} : List (Check α) → α → Res Unit
  | [], _ => .ok ()
  | c :: cs, x =>
    match c.run x with
    | .pass => runChecks cs x
    | .fail e => .err e
    | .panic s => .panic s

def guard (ok : Bool) (cls : String) : Outcome := if ok then .pass else .fail cls

/-! ### validators (vcr/credential/validator.go, resolver.go) -/

inductive Validator where
  | default | org | auth
  deriving Repr, DecidableEq

/-- FindValidator: first extra type that names a Nuts credential -/
def findValidator (types : List String) : Validator :=
  match (types.filter (fun t => t != vcType)).find? (fun t => t == orgType || t == authType) with
  | some t => if t == orgType then .org else .auth
  | none => .default

def statusSyntaxOK (c : Cred) : Bool :=
  match c.statuses with
  | none => false
  | some l => l.all (fun s => s.id != "" && s.typ != "" &&
      (s.typ != statusListEntryType || (c.ctx.contains statusListContext && s.entryValid)))

def validateDefault (c : Cred) : Outcome :=
  guard (c.types.contains vcType && c.ctx.contains vcContextV1 && c.issuer != "" && c.id.isSome
         && c.issued != zeroTime && statusSyntaxOK c) "invalid"

/-- validateNutsCredentialID (a missing id is a validation error since repo commit c6cc6be; it used to be a nil dereference) -/
def validateNutsCredentialID (E : Env) (c : Cred) : Outcome :=
  match c.id with
  | none => .fail "invalid"
  | some id =>
    match E.didOfURL id with
    | none => .fail "invalid"
    | some d => guard (d == c.issuer) "invalid"

def validateNuts (E : Env) (ty : String) (c : Cred) : Outcome :=
  match validateNutsCredentialID E c with
  | .pass =>
    if c.types.contains ty && c.ctx.contains nutsContextV1 && c.shapeOK then validateDefault c else .fail "invalid"
  | o => o

def validate (E : Env) (c : Cred) : Outcome :=
  match findValidator c.types with
  | .default => validateDefault c
  | .org => validateNuts E orgType c
  | .auth => validateNuts E authType c

/-! ### status list (vcr/revocation StatusList2021.Verify): only a confirmed revocation fails -/

inductive StatusVerdict where
  | ok | revoked | softErr
  deriving Repr, DecidableEq

def statusVerdictL (E : Env) : List Status → StatusVerdict
  | [] => .ok
  | s :: rest =>
    if s.typ != statusListEntryType then statusVerdictL E rest
    else if !s.entryValid then .softErr
    else if s.purpose != "revocation" then statusVerdictL E rest
    else match E.statusList s.listCred with
      | none => .softErr
      | some sl =>
        if sl.purpose != s.purpose then .softErr else
        match s.index with
        | none => .softErr
        | some i =>
          match sl.bit i with
          | none => .softErr
          | some true => .revoked
          | some false => statusVerdictL E rest

def statusVerdict (E : Env) (c : Cred) : StatusVerdict :=
  match c.statuses with
  | none => .softErr
  | some l => statusVerdictL E l

/-! ### time windows -/

def atOf (E : Env) (at_ : Option Time) : Time := at_.getD E.now

/-- vc.VerifiableCredential.ValidAt(t, skew) -/
def credValidAt (cfg : Cfg) (c : Cred) (t : Time) : Bool :=
  !(t + cfg.maxSkew < c.issued) && (match c.expires with | none => true | some e => !(t - cfg.maxSkew > e))

/-- proof.ProofOptions.ValidAt(t, skew) -/
def proofValidAt (cfg : Cfg) (p : Proof) (t : Time) : Bool :=
  !(p.created > t + cfg.maxSkew) && (match p.expires with | none => true | some e => !(e + cfg.maxSkew < t))

/-- jwx default validation, clock = t, zero skew, truncated to seconds; a claim whose unix time is 0 is not checked -/
def sec (t : Time) : Int := t / 1000
def jwtTimeOK (j : JwtInfo) (t : Time) : Bool :=
  (match j.exp with | none => true | some e => sec e == 0 || sec t < sec e) &&
  (match j.iat with | none => true | some i => sec i == 0 || !(sec t < sec i)) &&
  (match j.nbf with | none => true | some n => sec n == 0 || !(sec t < sec n))

/-! ### key resolution (vdr/resolver/key.go) -/

/-- key.go: `localKeyId == keyID`, or — with an @base and a relative id — `base + localKeyId == keyID` -/
def keyIdMatches (base : Option String) (localId kid : String) : Bool :=
  localId == kid ||
  (match base with
   | some b => "#".toList.isPrefixOf localId.toList && b ++ localId == kid
   | none => false)

def lookupKey (base : Option String) (l : List (String × Key)) (kid : String) : Option Key :=
  (l.find? (fun p => keyIdMatches base p.1 kid)).map (·.2)

/-- DIDKeyResolver.ResolveKeyByID(keyID, {ResolveTime: at}, AssertionMethod) -/
def resolveKeyByID (E : Env) (at_ : Option Time) (keyID : String) : Option Key :=
  match E.didOfURL keyID with
  | none => none
  | some d =>
    match E.resolve at_ d with
    | none => none
    | some doc => lookupKey doc.base doc.assertion keyID

/-- DIDKeyResolver.ResolveKey(did, nil, AssertionMethod): first assertion method of the current document -/
def resolveKey (E : Env) (d : String) : Option (String × Key) :=
  match E.resolve none d with
  | none => none
  | some doc => doc.assertion.head?

/-! ### linked-data proof (signature_verifier.go jsonldProof) -/

/-- what `jsonldProof` looks at: the decoded proof and whether the document has case-variant members -/
structure LdDoc where
  proof : ProofShape
  caseVariant : Bool := false

def ldNoCaseVariant : Check LdDoc :=
  { name := "ld:no-case-variant-member", run := fun d => guard (!d.caseVariant) "ambiguous-member" }
def ldProofDecodes : Check LdDoc :=
  { name := "ld:proof-decodes", run := fun d => match d.proof with | .malformed => .fail "bad-proof" | _ => .pass }
def ldProofPresent : Check LdDoc :=
  { name := "ld:proof-present", run := fun d => match d.proof with
      | .absent => .fail "missing-proof"
      | .one p => guard (p.vm != "") "missing-proof"
      | .malformed => .pass }
def ldVmOfIssuer (issuer : String) : Check LdDoc :=
  { name := "ld:vm-of-issuer", run := fun d => match d.proof with
      | .one p => guard (beforeHash p.vm != "" && beforeHash p.vm == issuer) "vm-not-of-issuer"
      | _ => .pass }
def ldProofValidAt (cfg : Cfg) (E : Env) (at_ : Option Time) : Check LdDoc :=
  { name := "ld:proof-valid-at", run := fun d => match d.proof with
      | .one p => guard (proofValidAt cfg p (atOf E at_)) "proof-not-valid-at-time"
      | _ => .pass }
def ldKeyResolves (E : Env) (at_ : Option Time) : Check LdDoc :=
  { name := "ld:key-resolves", run := fun d => match d.proof with
      | .one p => guard (resolveKeyByID E at_ p.vm).isSome "key-unresolvable"
      | _ => .pass }
def ldSignature (P : Crypto) (E : Env) (at_ : Option Time) (docBytes : Bytes) : Check LdDoc :=
  { name := "ld:signature", run := fun d => match d.proof with
      | .one p => match resolveKeyByID E at_ p.vm with
        | some k => guard (P.sigOK k (tbs P p docBytes) p.jws) "bad-signature"
        | none => .pass
      | _ => .pass }

def ldChecks (cfg : Cfg) (P : Crypto) (E : Env) (at_ : Option Time) (issuer : String) (docBytes : Bytes) : List (Check LdDoc) :=
  [ ldNoCaseVariant, ldProofDecodes, ldProofPresent, ldVmOfIssuer issuer, ldProofValidAt cfg E at_, ldKeyResolves E at_, ldSignature P E at_ docBytes ]

/-! ### JWT (signature_verifier.go jwtSignature, crypto/jwx.go ParseJWT) -/

/-- resolveSigningKey: empty kid falls back to the issuer; did:jwk gets "#0" -/
def jwtKeyID (kid issuer : String) : String :=
  let k := if kid == "" then issuer else kid
  if "did:jwk:".toList.isPrefixOf k.toList && !(k.toList.contains '#') then k ++ "#0" else k

def jwtParses : Check (Option JwtInfo) :=
  { name := "jwt:parses", run := fun j => guard j.isSome "jwt-malformed" }
def jwtKeyResolves (E : Env) (at_ : Option Time) (issuer : String) : Check (Option JwtInfo) :=
  { name := "jwt:key-resolves", run := fun j => match j with
      | some j => guard (resolveKeyByID E at_ (jwtKeyID j.kid issuer)).isSome "jwt-key-unresolvable"
      | none => .pass }
def jwtAlgSupported (cfg : Cfg) : Check (Option JwtInfo) :=
  { name := "jwt:alg-supported", run := fun j => match j with
      | some j => guard (cfg.supportedAlgs.contains j.alg) "jwt-alg"
      | none => .pass }
/-- crypto/jwx.AlgorithmFitsKey (repo commit 7cefebb): an ECDSA algorithm must be the one of the key's curve, an Ed25519 key fits
    EdDSA only; other key types are not restricted here -/
def algorithmFitsKey (alg kind : String) : Bool :=
  if kind == "P-256" then alg == "ES256"
  else if kind == "P-384" then alg == "ES384"
  else if kind == "P-521" then alg == "ES512"
  else if kind == "Ed25519" then alg == "EdDSA"
  else true

def jwtAlgFitsKey (P : Crypto) (E : Env) (at_ : Option Time) (issuer : String) : Check (Option JwtInfo) :=
  { name := "jwt:alg-fits-key", run := fun j => match j with
      | some j => match resolveKeyByID E at_ (jwtKeyID j.kid issuer) with
        | some k => guard (algorithmFitsKey j.alg (P.keyKind k)) "jwt-alg-key"
        | none => .pass
      | none => .pass }

def jwtSignature (P : Crypto) (E : Env) (at_ : Option Time) (issuer : String) (raw : String) : Check (Option JwtInfo) :=
  { name := "jwt:signature", run := fun j => match j with
      | some j => match resolveKeyByID E at_ (jwtKeyID j.kid issuer) with
        | some k => guard (P.sigOK k (P.jwtInput raw) j.sig) "jwt-bad-signature"
        | none => .pass
      | none => .pass }
def jwtClock (E : Env) (at_ : Option Time) : Check (Option JwtInfo) :=
  { name := "jwt:clock", run := fun j => match j with
      | some j => guard (jwtTimeOK j (atOf E at_)) "jwt-time"
      | none => .pass }
def jwtKidOfIssuer (issuer : String) : Check (Option JwtInfo) :=
  { name := "jwt:kid-of-issuer", run := fun j => match j with
      | some j => guard (j.kid == "" || beforeHash j.kid == issuer) "vm-not-of-issuer"
      | none => .pass }

def jwtChecks (cfg : Cfg) (P : Crypto) (E : Env) (at_ : Option Time) (issuer : String) (raw : String) : List (Check (Option JwtInfo)) :=
  [ jwtParses, jwtKeyResolves E at_ issuer, jwtAlgSupported cfg, jwtAlgFitsKey P E at_ issuer, jwtSignature P E at_ issuer raw, jwtClock E at_,
    jwtKidOfIssuer issuer ]

/-! ### Verify (verifier.go) -/

def lift {α β} (f : β → α) (c : Check α) : Check β := { name := c.name, run := fun x => c.run (f x) }

def chkValidator (E : Env) : Check Cred := { name := "validator", run := validate E }
def chkMaxTypes : Check Cred := { name := "max-2-types", run := fun c => guard (c.types.length ≤ 2) "too-many-types" }
def chkNotRevoked (E : Env) : Check Cred :=
  { name := "not-revoked", run := fun c => match c.id with
      | none => .pass
      | some id => guard (!E.storeFails && !E.revoked id) (if E.storeFails then "store-error" else "revoked") }
def chkStatusList (E : Env) : Check Cred :=
  { name := "status-list", run := fun c => guard (statusVerdict E c != .revoked) "revoked" }
def chkTrusted (E : Env) (allowUntrusted : Bool) : Check Cred :=
  { name := "trusted", run := fun c =>
      guard (allowUntrusted || c.types.all (fun t => t == vcType || E.trusted t c.issuer)) "untrusted" }
def chkValidAt (cfg : Cfg) (E : Env) (at_ : Option Time) : Check Cred :=
  { name := "valid-at", run := fun c => guard (credValidAt cfg c (atOf E at_)) "not-valid-at-time" }
/-- did.ParseDID(issuer) (an error is returned since repo commit b8f4b3e; before, the nil DID was dereferenced) -/
def chkIssuerIsDID (E : Env) : Check Cred :=
  { name := "issuer-is-did", run := fun c => match E.parseDID c.issuer with
      | none => .fail "issuer-unresolvable" | some _ => .pass }
def chkIssuerResolves (E : Env) (at_ : Option Time) : Check Cred :=
  { name := "issuer-resolves", run := fun c => match E.parseDID c.issuer with
      | some d => guard (E.resolve at_ d).isSome "issuer-unresolvable"
      | none => .pass }
def chkFormat {α} : Check α := { name := "sig:format", run := fun _ => .fail "unsupported-format" }

def preChecks (cfg : Cfg) (E : Env) (allowUntrusted : Bool) (at_ : Option Time) : List (Check Cred) :=
  [ chkValidator E, chkMaxTypes, chkNotRevoked E, chkStatusList E, chkTrusted E allowUntrusted, chkValidAt cfg E at_ ]

def issuerChecks (E : Env) (at_ : Option Time) : List (Check Cred) :=
  [ chkIssuerIsDID E, chkIssuerResolves E at_ ]

def signatureChecks (cfg : Cfg) (P : Crypto) (E : Env) (at_ : Option Time) (c : Cred) : List (Check Cred) :=
  match c.format with
  | .ld => (ldChecks cfg P E at_ c.issuer (P.canon c.stripProof)).map (lift (fun c => { proof := c.proof, caseVariant := c.caseVariant }))
  | .jwt => (jwtChecks cfg P E at_ c.issuer c.raw).map (lift (·.jwt))
  | .other => [ chkFormat ]

def vcChecks (cfg : Cfg) (P : Crypto) (E : Env) (allowUntrusted checkSig : Bool) (at_ : Option Time) (c : Cred) : List (Check Cred) :=
  preChecks cfg E allowUntrusted at_ ++
  (if checkSig then issuerChecks E at_ ++ signatureChecks cfg P E at_ c else [])

def verify (cfg : Cfg) (P : Crypto) (E : Env) (allowUntrusted checkSig : Bool) (at_ : Option Time) (c : Cred) : Res Unit :=
  runChecks (vcChecks cfg P E allowUntrusted checkSig at_ c) c

/-! ### VerifyVP (verifier.go doVerifyVP, credential/util.go) -/

/-- VerifiableCredential.SubjectDID -/
def subjectDID (c : Cred) : Option String :=
  match c.subjects with
  | none => none
  | some [] => none
  | some (s :: rest) =>
    if (s :: rest).all (fun x => x == s) then
      match s with | .did d => if d == "" then none else some d | .empty => none
    else none

/-- ResolveSubjectDID: all credentials share one subject; the empty list gives the empty DID ("") -/
def resolveSubjectDID : List Cred → String → Option String
  | [], acc => some acc
  | c :: cs, acc =>
    match subjectDID c with
    | none => none
    | some d => if acc != "" && acc != d then none else resolveSubjectDID cs d

/-- PresentationSigner -/
def presentationSigner (E : Env) (vp : Pres) : Option String :=
  match vp.format with
  | .jwt =>
    match vp.jwt with
    | none => none
    | some j => if !vp.jwtParses || j.kid == "" then none else E.didOfURL j.kid
  | .ld =>
    if !vp.proofDecodes || vp.nProofs != 1 then none else
    match E.didOfURL vp.signerVM with
    | some d => if d == "" then none else some d
    | none => none
  | .other => none

def vpSignatureChecks (cfg : Cfg) (P : Crypto) (E : Env) (at_ : Option Time) (vp : Pres) (signer : String) : List (Check Pres) :=
  match vp.format with
  | .ld => (ldChecks cfg P E at_ signer (P.canonVP vp.stripProof)).map (lift (fun vp => { proof := vp.proof, caseVariant := vp.caseVariant }))
  | .jwt => (jwtChecks cfg P E at_ signer vp.raw).map (lift (·.jwt))
  | .other => [ chkFormat ]

/-- the self-attested rule: a credential issued by the holder needs no proof of its own -/
def vcCheckSig (vp : Pres) (c : Cred) : Bool :=
  if vp.holder.isSome && vp.holder == some c.issuer then decide (c.nProofs > 0) else true

def vpResolves (E : Env) : Check Pres :=
  { name := "vp:signer-and-subject-resolve", run := fun vp =>
      guard ((presentationSigner E vp).isSome && (resolveSubjectDID vp.vcs "").isSome) "vp-subject-error" }
def vpSignerIsSubject (E : Env) : Check Pres :=
  { name := "vp:signer-is-subject", run := fun vp =>
      match presentationSigner E vp, resolveSubjectDID vp.vcs "" with
      | some s, some d => guard (s == d || vp.vcs.isEmpty) "vp-not-by-subject"
      | _, _ => .pass }
def vpHolderIsSubject (E : Env) : Check Pres :=
  { name := "vp:holder-is-subject", run := fun vp =>
      match presentationSigner E vp, resolveSubjectDID vp.vcs "" with
      | some s, some d => guard (!(s == d) || vp.holder.isNone || vp.holder == some s) "vp-holder-mismatch"
      | _, _ => .pass }

def vpHeadChecks (E : Env) : List (Check Pres) := [ vpResolves E, vpSignerIsSubject E, vpHolderIsSubject E ]

def verifyVCs (cfg : Cfg) (P : Crypto) (E : Env) (allowUntrusted : Bool) (at_ : Option Time) (vp : Pres) : List Cred → Res Unit
  | [] => .ok ()
  | c :: cs =>
    match verify cfg P E allowUntrusted (vcCheckSig vp c) at_ c with
    | .ok _ => verifyVCs cfg P E allowUntrusted at_ vp cs
    | .err e => .err ("vc:" ++ e)
    | .panic s => .panic s

def verifyVP (cfg : Cfg) (P : Crypto) (E : Env) (verifyVCsFlag allowUntrusted : Bool) (at_ : Option Time) (vp : Pres) : Res Unit :=
  match runChecks (vpHeadChecks E) vp with
  | .ok _ =>
    match runChecks (vpSignatureChecks cfg P E at_ vp ((presentationSigner E vp).getD "")) vp with
    | .ok _ => if verifyVCsFlag then verifyVCs cfg P E allowUntrusted at_ vp vp.vcs else .ok ()
    | r => r
  | r => r

/-! ## sibling entry points of the same clauses -/

/-- POST /internal/vcr/v2/verifier/vc (vcr/api/vcr/v2 VerifyVC): signature always checked, at the current time; trust is
    required for did:nuts issuers unless the (deprecated) option says otherwise, never for other DID methods -/
def apiAllowUntrustedVC (issuer : String) (option : Option Bool) : Bool :=
  if "did:nuts".toList.isPrefixOf issuer.toList then option.getD false else true

def apiVerifyVC (cfg : Cfg) (P : Crypto) (E : Env) (option : Option Bool) (c : Cred) : Res Unit :=
  verify cfg P E (apiAllowUntrustedVC c.issuer option) true none c

/-- POST /internal/vcr/v2/verifier/vp (VerifyVP): credentials verified unless the request says otherwise; trust in the
    credentials' issuers is required when the presentation's signer is a did:nuts DID -/
def apiVerifyVP (cfg : Cfg) (P : Crypto) (E : Env) (verifyCredentials : Option Bool) (at_ : Option Time) (vp : Pres) : Res Unit :=
  match presentationSigner E vp with
  | none => .err "vp-subject-error"
  | some s => verifyVP cfg P E (verifyCredentials.getD true) (!("did:nuts:".toList.isPrefixOf s.toList)) at_ vp

/-- VCR.StoreCredential (vcr/store.go) — the network-ingest path (ambassador → StoreCredential): a credential whose id is already stored
    is a no-op when the content is equal and an error otherwise; every OTHER credential has its signature verified at the transaction's
    signing time — unconditionally, whoever issued it — before it is written.  Resolve / Search later verify WITHOUT signature check. -/
def storeCredential (cfg : Cfg) (P : Crypto) (E : Env) (validAt : Option Time) (store : List Cred) (c : Cred) : Res (List Cred) :=
  match (if c.id.isSome then store.find? (fun x => x.id == c.id) else none) with
  | some x => if x == c then .ok store else .err "exists-with-different-content"
  | none =>
    match runChecks (signatureChecks cfg P E validAt c) c with
    | .ok _ => .ok (c :: store)
    | .err e => .err e
    | .panic s => .panic s

/-- VCR.Resolve: the stored credential with that id, if `Verify(cred, allowUntrusted = false, checkSignature = false, t)` accepts it -/
def resolveStored (cfg : Cfg) (P : Crypto) (E : Env) (t : Option Time) (store : List Cred) (id : String) : Option Cred :=
  (store.find? (fun x => x.id == some id)).filter (fun c => (verify cfg P E false false t c).isOk)

/-- sqlWallet.List: the stored credentials that `Verify(cred, allowUntrusted = true, checkSignature = false, now)` accepts -/
def walletList (cfg : Cfg) (P : Crypto) (E : Env) (stored : List Cred) : List Cred :=
  stored.filter (fun c => (verify cfg P E true false none c).isOk)

/-- sqlWallet.BuildPresentation(validateVC = true): every credential's signature is verified at the proof's creation time first -/
def walletValidate (cfg : Cfg) (P : Crypto) (E : Env) (created : Time) : List Cred → Res Unit
  | [] => .ok ()
  | c :: cs =>
    match runChecks (signatureChecks cfg P E (some created) c) c with
    | .ok _ => walletValidate cfg P E created cs
    | .err e => .err ("invalid-credential:" ++ e)
    | .panic s => .panic s

/-! ## the node's own issuer and wallet (issuer.go buildAndSignVC / Issue, presenter.go buildPresentation) -/

structure Template where
  ctx : List String
  types : List String
  issuer : String
  expires : Option Time
  subjects : Option (List SubjId)
  shapeOK : Bool
  claims : List (String × String)
  deriving Repr, DecidableEq

/-- the unsigned credential buildAndSignVC assembles (no status list entry: `WithStatusListRevocation = false`) -/
def unsignedCred (t : Template) (fmt : Format) (issuerDID uuid : String) (now : Time) : Cred :=
  { format := fmt
    ctx := if t.ctx.contains vcContextV1 then t.ctx else vcContextV1 :: t.ctx
    id := some (issuerDID ++ "#" ++ uuid)
    types := if t.types.contains vcType then t.types else t.types ++ [vcType]
    issuer := t.issuer, issued := now, expires := t.expires, subjects := t.subjects
    statuses := some [], shapeOK := t.shapeOK, claims := t.claims }

/-- Issue: sign with the first assertion key of the issuer's current document, then the AllFieldsDefined gate and the
    type-specific validator.  `sign` is the key store (private half selected by key id), `allDefined` json-gold's safe-mode
    expansion, `rawOf` the serialisation. -/
def issue (P : Crypto) (E : Env) (sign : Key → Bytes → Sig) (allDefined : Cred → Bool) (rawOf : Cred → String)
    (fmt : Format) (t : Template) (uuid : String) (now : Time) : Res Cred :=
  match E.parseDID t.issuer with
  | none => .err "issuer-not-a-did"
  | some d =>
    match resolveKey E d with
    | none => .err "no-assertion-key"
    | some (kid, key) =>
      if t.types.length == 0 || t.types.length > 2 || (t.types.length == 2 && !t.types.contains vcType) then .err "types" else
      let u := unsignedCred t fmt d uuid now
      match fmt with
      | .other => .err "unsupported-format"
      | .ld =>
        let p : Proof := { typ := "JsonWebSignature2020", vm := kid, purpose := "assertionMethod", created := now }
        let c := { u with proof := .one { p with jws := sign key (tbs P p (P.canon u)) }, nProofs := 1 }
        if !allDefined c then .err "undefined-fields" else
        match validate E c with
        | .pass =>
          -- combinedStore.StoreCredential: the SQL store (every DID method but did:nuts) indexes by subject DID
          if !("did:nuts:".toList.isPrefixOf t.issuer.toList) && (subjectDID c).isNone then .err "no-subject" else .ok c
        | .fail e => .err e
        | .panic s => .panic s
      | .jwt =>
        match subjectDID u with
        | none => .err "no-subject"
        | some _ =>
          let r := rawOf u
          let c := { u with jwt := some { kid := kid, alg := "ES256", nbf := some now, exp := t.expires, sig := sign key (P.jwtInput r) }, raw := r }
          match validate E c with
          | .pass => .ok c
          | .fail e => .err e
          | .panic s => .panic s

structure PresOptions where
  holder : Option String
  created : Time
  expires : Option Time
  domain : Option String
  challenge : Option String
  nonce : Option String

/-- buildPresentation with an explicit signer -/
def present (P : Crypto) (E : Env) (sign : Key → Bytes → Sig) (rawOf : Pres → String)
    (fmt : Format) (signer : String) (vcs : List Cred) (o : PresOptions) : Res Pres :=
  match resolveKey E signer with
  | none => .err "no-assertion-key"
  | some (kid, key) =>
    match fmt with
    | .other => .err "unsupported-format"
    | .ld =>
      let u : Pres := { format := .ld, holder := o.holder, vcs := vcs }
      let p : Proof := { typ := "JsonWebSignature2020", vm := kid, purpose := "assertionMethod", created := o.created,
                         expires := o.expires, domain := o.domain, challenge := o.challenge, nonce := o.nonce }
      .ok { u with nProofs := 1, signerVM := kid,
                   proof := .one { p with jws := sign key (tbs P p (P.canonVP u)) } }
    | .jwt =>
      let u : Pres := { format := .jwt, holder := o.holder, vcs := vcs }
      let r := rawOf u
      .ok { u with raw := r, jwt := some { kid := kid, alg := "ES256", nbf := some o.created, exp := o.expires, sig := sign key (P.jwtInput r) } }

end Nuts.C01
