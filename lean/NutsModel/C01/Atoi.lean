/-
  C01 — Go's `strconv.Atoi` as the node uses it on `credentialStatus.statusListIndex`
  (vcr/revocation/types.go StatusList2021Entry.Validate: `n, err := strconv.Atoi(e.StatusListIndex); err != nil || n < 0`;
   vcr/revocation/statuslist2021_verifier.go Verify: `index, err := strconv.Atoi(slEntry.StatusListIndex)` → `Bitstring.bit(index)`).

  strconv.Atoi (64-bit int): fast path for 0 < len(s) < 19 — one optional leading '+' / '-', then at least one byte, every byte
  an ASCII digit ('0'..'9'), value accumulated as n*10+d, negated for '-'.  Slow path = ParseInt(s, 10, 0): same syntax (base 10
  is given explicitly, so '_' separators and 0x/0b/0o prefixes are NOT accepted), ErrRange when the magnitude exceeds
  2^63-1 (positive) or 2^63 (negative).  Both paths agree wherever both apply, so the model is one function.
  Go strings are bytes and Lean's are code points: a non-ASCII code point is never an ASCII digit in either view.
  Core Lean only.
-/
import NutsModel.Base
namespace Nuts.C01

def isAsciiDigit (c : Char) : Bool := 48 ≤ c.toNat && c.toNat ≤ 57
def digitVal (c : Char) : Nat := c.toNat - 48

/-- the loop `for _, ch := range []byte(s) { n = n*10 + int(ch-'0') }` -/
def decVal : List Char → Nat → Nat
  | [], acc => acc
  | c :: cs, acc => decVal cs (acc * 10 + digitVal c)

def maxInt64 : Nat := 9223372036854775807

/-- `if s[0] == '-' || s[0] == '+' { s = s[1:] }` -/
def splitSign : List Char → Bool × List Char
  | [] => (false, [])
  | c :: r => if c = '-' then (true, r) else if c = '+' then (false, r) else (false, c :: r)

/-- strconv.Atoi: `none` = *NumError (ErrSyntax or ErrRange) -/
def goAtoi (s : String) : Option Int :=
  let p := splitSign s.toList
  if p.2.isEmpty then none
  else if !p.2.all isAsciiDigit then none
  else
    let v := decVal p.2 0
    if p.1 then (if v ≤ maxInt64 + 1 then some (-(v : Int)) else none)
    else (if v ≤ maxInt64 then some (v : Int) else none)

/-- the slot a `statusListIndex` text names: Atoi succeeded and `n < 0` is false (what Validate accepts and Verify hands to `bit`) -/
def indexOfText (s : String) : Option Nat :=
  match goAtoi s with
  | some n => if n < 0 then none else some n.toNat
  | none => none

end Nuts.C01
