/-
  C01 — deepening round 3 (2026-09-28): the service-to-service token endpoint's consumers of the presentation dates and of the
  presenter = subject rule (was fact-only):
    vcr/credential/util.go   : PresenterIsCredentialSubject
    auth/api/iam/validation.go : validatePresentationSigner (threads the credential subject through ALL presentations of the envelope)
    auth/api/iam/s2s_vptoken.go: validateS2SPresentationMaxValidity, and the first loop of handleS2SAccessTokenRequest
-/
import NutsModel.C01.Subject
namespace Nuts.C01

/-- `credential.PresenterIsCredentialSubject`: error when signer or subject cannot be resolved, `nil, nil` when they differ -/
def presenterIsCredentialSubject (E : Env) (vp : Pres) : Res (Option String) :=
  match presentationSigner E vp with
  | none => .err "resolve"
  | some s =>
    match resolveSubjectDID vp.vcs "" with
    | none => .err "resolve"
    | some d => if d != s then .ok none else .ok (some s)

/-- `validatePresentationSigner(presentation, expectedCredentialSubjectDID)`; `expected = ""` is Go's empty DID -/
def validatePresentationSigner (E : Env) (vp : Pres) (expected : String) : Res String :=
  if vp.vcs.length == 0 then
    match presentationSigner E vp with
    | none => .err "resolve"
    | some s => if expected != "" && s != expected then .err "not-same" else .ok s
  else
    match presenterIsCredentialSubject E vp with
    | .err e => .err e
    | .panic p => .panic p
    | .ok none => .err "not-subject"
    | .ok (some d) => if expected != "" && d != expected then .err "not-same" else .ok d

/-- `validateS2SPresentationMaxValidity` (`maxValidity` = s2sMaxPresentationValidity in ms) -/
def validateS2SMaxValidity (maxValidity : Time) (vp : Pres) : Res Unit :=
  match presentationIssuanceDate vp with
  | .panic p => .panic p
  | .err e => .err e
  | .ok created =>
    match presentationExpirationDate vp with
    | .panic p => .panic p
    | .err e => .err e
    | .ok expires =>
      match created, expires with
      | some c, some e => if e - c > maxValidity then .err "too-long" else .ok ()
      | _, _ => .err "missing-date"

/-- the first loop of `handleS2SAccessTokenRequest` (without the audience check, which does not touch the subject):
    `credentialSubjectID` starts empty and is replaced by each presentation's result -/
def s2sPresentations (maxValidity : Time) (E : Env) : List Pres → String → Res String
  | [], acc => .ok acc
  | vp :: rest, acc =>
    match validateS2SMaxValidity maxValidity vp with
    | .err e => .err e
    | .panic p => .panic p
    | .ok _ =>
      match validatePresentationSigner E vp acc with
      | .err e => .err e
      | .panic p => .panic p
      | .ok d => s2sPresentations maxValidity E rest d

end Nuts.C01
