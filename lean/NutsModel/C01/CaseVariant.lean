/-
  C01 (deepening round 2026-09-28) — signature_verifier.go caseVariantMember / ambiguousMember: the guard of `jsonldProof` that refuses
  documents with case-variant member names (`Cred.caseVariant` / `Pres.caseVariant` of the first model are its verdict).

  A JSON document is a tree; member names come with their image under `strings.Map(foldRune, ·)` (unicode.SimpleFold orbits are a
  library contract; the harness supplies the folded names computed by the real foldRune).  Go iterates maps in random order: the
  member order is an explicit argument (a list), and `ambObj_iff` shows the verdict does not depend on it.
  Core Lean only.
-/
import NutsModel.Base
namespace Nuts.C01

/-- a decoded JSON value as ambiguousMember walks it; object members carry their FOLDED name -/
inductive JTree where
  | leaf
  | obj (members : List (String × JTree))
  | arr (items : List JTree)

mutual
/-- ambiguousMember(value) != "" -/
def JTree.amb : JTree → Bool
  | .leaf => false
  | .obj ms => ambObj [] ms
  | .arr xs => ambItems xs
/-- the loop over an object's members in iteration order: `names` is the set of folded names seen so far -/
def ambObj (seen : List String) : List (String × JTree) → Bool
  | [] => false
  | (n, c) :: rest =>
    if seen.contains n then true
    else if c.amb then true
    else ambObj (n :: seen) rest
/-- the loop over an array's items -/
def ambItems : List JTree → Bool
  | [] => false
  | c :: rest => if c.amb then true else ambItems rest
end

/-- the first loop of caseVariantMember: per top-level member of the document, the json names of the struct fields it is
    `strings.EqualFold` to (EqualFold is a library contract, measured by the harness) -/
def topVariant : List (String × List String) → Bool
  | [] => false
  | (member, fields) :: rest => if fields.any (fun f => f != member) then true else topVariant rest

/-- caseVariantMember(document, decodedInto) != "" -/
def caseVariantMember (top : List (String × List String)) (doc : JTree) : Bool :=
  if topVariant top then true else doc.amb

end Nuts.C01
