/-
  C01 (deepening round 2026-09-28) — the parts of vcr/credential that the first model took as inputs:

  * validator.go  nutsOrganizationCredentialValidator / nutsAuthorizationCredentialValidator: the type-specific
    `credentialSubject` requirements (`Cred.shapeOK` was an input measured by the harness), validateResources,
    validOperation, validOperationTypes;
  * util.go  PresentationIssuanceDate / PresentationExpirationDate (the validity window auth/api/iam reads off a presentation),
    FilterOnDIDMethod (the wallet's DID-method filter), AutoCorrectSelfAttestedCredential.

  encoding/json is a contract: the model starts from what `UnmarshalCredentialSubject(&target)` leaves in `target`
  (`SubjectView`).  `strings.TrimSpace` and `strings.ToLower` are modelled on runes: the rune tables (`isGoSpace`,
  `lowerRune`) are compared with Go's `unicode` tables over ALL runes by the harness (op `rune-tables`).
  Core Lean only.
-/
import NutsModel.C01.Verifier
namespace Nuts.C01

/-! ## strings.TrimSpace / strings.ToLower as far as the validators use them -/

/-- unicode.IsSpace: the runes strings.TrimSpace trims (White_Space property; Latin-1: '\t' '\n' '\v' '\f' '\r' ' ' U+0085 U+00A0) -/
def isGoSpace (c : Char) : Bool :=
  let n := c.toNat
  (9 ≤ n && n ≤ 13) || n == 0x20 || n == 0x85 || n == 0xA0 || n == 0x1680 || (0x2000 ≤ n && n ≤ 0x200A) ||
  n == 0x2028 || n == 0x2029 || n == 0x202F || n == 0x205F || n == 0x3000

/-- `len(strings.TrimSpace(s)) == 0` -/
def blank (s : String) : Bool := s.toList.all isGoSpace

/-- unicode.ToLower as far as a comparison with an all-ASCII, all-lower-case word can see it: exactly A–Z, U+212A KELVIN SIGN (→ k)
    and U+0130 (→ i) are mapped to ASCII letters; every other rune lowers to itself or to another non-ASCII rune -/
def lowerRune (c : Char) : Char :=
  if c.toNat == 0x212A then 'k' else if c.toNat == 0x130 then 'i' else c.toLower

def goLower (s : String) : String := String.ofList (s.toList.map lowerRune)

/-! ## validator.go: resources of a NutsAuthorizationCredential -/

/-- credential.Resource (the members the validator reads) -/
structure Resource where
  path : String
  operations : List String
  deriving Repr, DecidableEq, Inhabited

/-- validOperation: `o == strings.ToLower(operation)` for some o of validOperationTypes() -/
def validOperation (valid : List String) (operation : String) : Bool := valid.contains (goLower operation)

/-- the inner loop of validateResources -/
def operationsValid (valid : List String) : List String → Bool
  | [] => true
  | o :: os => if !validOperation valid o then false else operationsValid valid os

/-- validateResources (true = nil error) -/
def validateResources (valid : List String) : List Resource → Bool
  | [] => true
  | r :: rs =>
    if blank r.path then false
    else if r.operations.length == 0 then false
    else if !operationsValid valid r.operations then false
    else validateResources valid rs

/-! ## validator.go: the credentialSubject of the two Nuts credential types -/

/-- what `credential.UnmarshalCredentialSubject(&target)` leaves in `target` for the two typed subjects (errors are ignored by the
    validators: "if it fails, length check will trigger") -/
structure SubjectView where
  n : Nat := 0                                   -- len(target)
  id : String := ""                              -- target[0].ID
  orgNil : Bool := true                          -- target[0].Organization == nil
  orgName : Option String := none                -- target[0].Organization["name"] (none: !ok)
  orgCity : Option String := none
  purposeOfUse : String := ""
  resources : List Resource := []
  deriving Repr, DecidableEq, Inhabited

/-- nutsOrganizationCredentialValidator.Validate between the context check and the default validator -/
def orgShape (E : Env) (s : SubjectView) : Bool :=
  if s.n != 1 then false
  else if s.orgNil then false
  else if s.id == "" then false
  else if (E.parseDID s.id).isNone then false
  else if (match s.orgName with | none => true | some n => blank n) then false
  else if (match s.orgCity with | none => true | some c => blank c) then false
  else true

/-- nutsAuthorizationCredentialValidator.Validate between the context check and the default validator -/
def authShape (valid : List String) (E : Env) (s : SubjectView) : Bool :=
  if s.n != 1 then false
  else if blank s.id then false
  else if (E.parseDID s.id).isNone then false
  else if blank s.purposeOfUse then false
  else if !validateResources valid s.resources then false
  else true

/-- the value of `Cred.shapeOK`: the validator FindValidator selects decides which typed subject is looked at -/
def shapeOf (valid : List String) (E : Env) (types : List String) (s : SubjectView) : Bool :=
  match findValidator types with
  | .default => true
  | .org => orgShape E s
  | .auth => authShape valid E s

/-- a credential as the validators see it: the typed fields plus the decoded subject -/
def Cred.withSubject (valid : List String) (E : Env) (c : Cred) (s : SubjectView) : Cred :=
  { c with shapeOK := shapeOf valid E c.types s }

/-! ## util.go: the dates of a presentation -/

/-- credential.ParseLDProof: the single proof of a JSON-LD presentation -/
def parseLDProof (vp : Pres) : Option Proof :=
  if !vp.proofDecodes then none
  else if vp.nProofs != 1 then none
  else match vp.proof with
    | .one p => some p
    | _ => none

/-- `if result.IsZero() { return nil }` -/
def nonZero (t : Time) : Option Time := if t == zeroTime then none else some t

/-- a jwx getter of an absent claim returns the zero time -/
def claimTime (t : Option Time) : Time := t.getD zeroTime

/-- PresentationIssuanceDate: JWT: `nbf`, else `iat`; JSON-LD: `created` of the single proof; nil when zero.
    (`presentation.JWT()` is nil exactly when the format is not JWT: go-did sets both from the same parse.) -/
def presentationIssuanceDate (vp : Pres) : Res (Option Time) :=
  match vp.format with
  | .jwt =>
    match vp.jwt with
    | none => .panic "PresentationIssuanceDate:nil-token"
    | some j =>
      let r := if claimTime j.nbf == zeroTime then claimTime j.iat else claimTime j.nbf
      .ok (nonZero r)
  | .ld =>
    match parseLDProof vp with
    | none => .ok none
    | some p => .ok (nonZero p.created)
  | .other => .ok none

/-- PresentationExpirationDate: JWT: `exp`; JSON-LD: `expires` of the single proof; nil when absent or zero -/
def presentationExpirationDate (vp : Pres) : Res (Option Time) :=
  match vp.format with
  | .jwt =>
    match vp.jwt with
    | none => .panic "PresentationExpirationDate:nil-token"
    | some j => .ok (nonZero (claimTime j.exp))
  | .ld =>
    match parseLDProof vp with
    | none => .ok none
    | some p =>
      match p.expires with
      | none => .ok none
      | some e => .ok (nonZero e)
  | .other => .ok none

/-! ## util.go: FilterOnDIDMethod -/

/-- what FilterOnDIDMethod reads of one credential -/
structure MethodView where
  issuerMethod : Option String                 -- did.ParseDID(issuer): none = error (the issuer is then not checked)
  subjects : Option (List (String × Option String))  -- none: UnmarshalCredentialSubject(&[]BaseCredentialSubject) fails;
                                               -- per element: ID and the method of did.ParseDID(ID) (none = error)
  deriving Repr, DecidableEq, Inhabited

/-- the inner loop: false = `continue outer` -/
def subjectsMatch (methods : List String) : List (String × Option String) → Bool
  | [] => true
  | (id, m) :: rest =>
    if id != "" then
      match m with
      | some mm => if !methods.contains mm then false else subjectsMatch methods rest
      | none => subjectsMatch methods rest
    else subjectsMatch methods rest

def keepOnMethod (methods : List String) (c : MethodView) : Bool :=
  (match c.issuerMethod with
   | some m => methods.contains m
   | none => true) &&
  (match c.subjects with
   | none => false
   | some l => subjectsMatch methods l)

/-- FilterOnDIDMethod over any carrier `α` of credentials (`view` = what the function reads of each) -/
def filterOnDIDMethod {α} (view : α → MethodView) (creds : List α) (methods : List String) : List α :=
  if methods.length == 0 then creds else creds.filter (fun c => keepOnMethod methods (view c))

/-! ## util.go: AutoCorrectSelfAttestedCredential -/

/-- the members AutoCorrectSelfAttestedCredential reads and writes -/
structure SelfAttested where
  nProofs : Nat
  id : Option String
  issuer : String
  issued : Time
  nSubjects : Option Nat            -- len(credentialSubject) after UnmarshalCredentialSubject(&[]map[string]interface{}) (none: error → 0 elements)
  subject0HasId : Bool              -- credentialSubject[0] has an "id" member
  subject0Id : Option String        -- its value when it is a string (unchanged unless the member is absent)
  deriving Repr, DecidableEq, Inhabited

def autoCorrect (c : SelfAttested) (requester uuid : String) (now : Time) : SelfAttested :=
  if c.nProofs > 0 then c else
  let c1 := if c.id.isNone then { c with id := some uuid } else c
  let c2 := if c1.issuer == "" then { c1 with issuer := requester } else c1
  let c3 := if c2.issued == zeroTime then { c2 with issued := now - now % 1000 } else c2
  if c3.nSubjects == some 1 && !c3.subject0HasId then { c3 with subject0HasId := true, subject0Id := some requester } else c3

/-! ## crypto/jwx.AlgorithmFitsKey driven by the table regenerated from its `switch curve` (tie for `algorithmFitsKey`) -/

def algorithmFitsKeyT (table : List (String × String)) (alg kind : String) : Bool :=
  match table.find? (fun p => p.1 == kind) with
  | some p => alg == p.2
  | none => if kind == "Ed25519" then alg == "EdDSA" else true

/-! ## vcr/revocation/types.go StatusList2021Entry.Validate (was the measured input `Status.entryValid`) -/

/-- `json.Unmarshal(credentialStatus.Raw(), &cs)` succeeded (`unmarshals`; encoding/json is a contract) and `cs.Validate()` passes:
    the id is not the list's URL, the type is StatusList2021Entry, a purpose is given, statusListIndex is a non-negative number
    (`Status.index` = strconv.Atoi), statusListCredential parses as a request URI (`urlOK`; net/url is a contract) -/
def entryValidOf (unmarshals urlOK : Bool) (s : Status) : Bool :=
  if !unmarshals then false
  else if s.id == s.listCred then false
  else if s.typ != statusListEntryType then false
  else if s.purpose == "" then false
  else if s.index.isNone then false
  else if !urlOK then false
  else true

end Nuts.C01
