/-
  C01 — deepening round 3 (2026-09-28): the revocation LOOKUP inside the model.
  Before, `Env.storeFails` / `Env.revoked` were two independent inputs.  Here they are COMPUTED from what the go-leia query returned,
  by mirrors of
    vcr/verifier/leia_store.go : leiaVerifierStore.GetRevocations   (read error | ErrNotFound | decode error | revocations)
    vcr/verifier/verifier.go   : verifier.IsRevoked                  (errors.Is(err, ErrNotFound) -> (false,nil); other error -> error)
    vcr/verifier/verifier.go   : verifier.GetRevocation              (revocation[0] — a Go index expression)
  go-leia's `Collection.Find` itself is a contract: its outcome (`FindOut`) is measured by the harness on the real store.
-/
import NutsModel.C01.Verifier
namespace Nuts.C01

/-- outcome of `s.revocationCollection().Find(ctx, query)`: an error (closed database, I/O fault), or the matching raw documents —
    of each document only whether `json.Unmarshal(result, &credential.Revocation{})` succeeds matters to the callers -/
inductive FindOut where
  | error
  | docs (decodes : List Bool)
  deriving Repr, DecidableEq, Inhabited

/-- what `GetRevocations` returns -/
inductive GetRev where
  /-- `fmt.Errorf("error while getting revocation by id: %w", err)` -/
  | readError
  /-- `ErrNotFound` -/
  | notFound
  /-- the `json.Unmarshal` error of the first document that does not decode -/
  | decodeError
  /-- `revocations, nil` with `len(revocations) = n` -/
  | found (n : Nat)
  deriving Repr, DecidableEq, Inhabited

/-- the `for i, result := range results` loop: the first document that does not decode ends the call with its error -/
def decodeAll : List Bool → Nat → GetRev
  | [], n => .found n
  | true :: rest, n => decodeAll rest (n + 1)
  | false :: _, _ => .decodeError

/-- `leiaVerifierStore.GetRevocations`, guard by guard -/
def getRevocations (f : FindOut) : GetRev :=
  match f with
  | .error => .readError                                  -- if err != nil
  | .docs ds => if ds.length == 0 then .notFound           -- if len(results) == 0
                else decodeAll ds 0

/-- `(bool, error)` of `verifier.IsRevoked` -/
inductive Revoked where
  | no | yes | error
  deriving Repr, DecidableEq, Inhabited

/-- `errors.Is(err, ErrNotFound)` on the errors GetRevocations can return: the read error wraps go-leia's error (never the verifier's
    own sentinel), the decode error is encoding/json's -/
def isNotFound : GetRev → Bool
  | .notFound => true
  | _ => false

/-- `verifier.IsRevoked` -/
def isRevoked (g : GetRev) : Revoked :=
  match g with
  | .found _ => .yes                                       -- err == nil
  | e => if isNotFound e then .no else .error

/-- `verifier.GetRevocation`: `revocation[0]` is a Go index expression — out of range would panic -/
def getRevocation (g : GetRev) : Res Nat :=
  match g with
  | .found 0 => .panic "GetRevocation:revocation[0]"
  | .found (_ + 1) => .ok 0
  | .readError => .err "read-error"
  | .notFound => .err "not-found"
  | .decodeError => .err "decode-error"

/-- the verifying node's environment for the check of the credential with id `id`, with the two revocation inputs of `Verify`
    computed from the store's answers (`find x` = outcome of the query for credential id `x`) -/
def Env.readingStore (E : Env) (find : String → FindOut) (id : String) : Env :=
  { E with storeFails := isRevoked (getRevocations (find id)) == .error
           revoked := fun x => isRevoked (getRevocations (find x)) == .yes }

/-! ## verifier.RegisterRevocation: how a revocation gets INTO the store (was an input; C11 models the status-list side) -/

/-- a `credential.Revocation` as RegisterRevocation reads it -/
structure Rev where
  subject : String            -- revocation.Subject.String(): the id of the revoked credential
  fragment : String           -- revocation.Subject.Fragment
  hasContext : Bool           -- len(r.Context) != 0
  typeOK : Bool               -- r.Type contains CredentialRevocation
  issuer : String
  date : Time
  hasProof : Bool             -- r.Proof != nil
  vm : String                 -- r.Proof.VerificationMethod.String()
  proofDecodes : Bool         -- document.UnmarshalProofValue(&ldProof) succeeds
  deriving Repr, DecidableEq, Inhabited

/-- `verifier.RegisterRevocation`, return by return (ValidateRevocation's five guards first).  `sigOK` is the measured outcome of
    `ldProof.Verify(document.DocumentWithoutProof(), JSONWebSignature2020, pk)`; `storeOK` = StoreRevocation succeeds.
    The key is resolved at the revocation's OWN date, in the assertion relationship. -/
def registerRevocation (E : Env) (sigOK : Key → Rev → Bool) (storeOK : Bool) (store : List Rev) (r : Rev) : Res (List Rev) :=
  if r.subject == "" || r.fragment == "" then .err "invalid" else
  if r.hasContext && !r.typeOK then .err "invalid" else
  if r.issuer == "" then .err "invalid" else
  if r.date == zeroTime then .err "invalid" else
  if !r.hasProof then .err "invalid" else
  if beforeHash r.subject != r.issuer then .err "issuer-not-credential-issuer" else
  if beforeHash r.vm != r.issuer then .err "vm-not-of-issuer" else
  match resolveKeyByID E (some r.date) r.vm with
  | none => .err "no-key"
  | some k =>
    if !r.proofDecodes then .err "proof-malformed" else
    if !sigOK k r then .err "bad-signature" else
    if !storeOK then .err "store" else .ok (store ++ [r])

/-- a history of RegisterRevocation calls (each with its own store outcome); a refused call leaves the store as it was -/
def registerAll (E : Env) (sigOK : Key → Rev → Bool) : List Rev → List (Rev × Bool) → List Rev
  | store, [] => store
  | store, (r, storeOK) :: rest =>
    match registerRevocation E sigOK storeOK store r with
    | .ok s' => registerAll E sigOK s' rest
    | _ => registerAll E sigOK store rest

/-- the store's answer to the query for credential id `id` (all stored documents decode: they were marshalled by StoreRevocation) -/
def findIn (store : List Rev) (id : String) : FindOut := .docs ((store.filter (fun r => r.subject == id)).map (fun _ => true))

/-- canonical text of the driver / harness line -/
def GetRev.show : GetRev → String
  | .readError => "read-error" | .notFound => "not-found" | .decodeError => "decode-error" | .found n => "found:" ++ toString n

def Revoked.show : Revoked → String
  | .no => "false" | .yes => "true" | .error => "error"

end Nuts.C01
