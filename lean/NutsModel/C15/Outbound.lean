/-
  C15: how the "peer identity on the connection" comes about for OUTBOUND connections
  (network/transport/grpc/connection_manager.go connect / openOutboundStreams / openOutboundStream, connection.go
  verifyOrSetPeerID / setPeer / registerStream / disconnect). The node dials a contact (address + EXPECTED node DID, empty for a
  bootstrap contact); the identity the v2 handlers later read from `connection.Peer()` starts as the expected DID,
  unauthenticated, and becomes authenticated only when the server's response headers name that DID and the server's certificate
  covers the NutsComm host of it. One connection carries one stream per protocol: each is set up by `openOutboundStream`.
  did.ParseDID, service resolution, url parsing and x509 host name verification are oracles (data from the harness).
-/
import NutsModel.C15.Streams

namespace Nuts.C15
open Nuts.Proto

/-- one protocol's client stream as `openOutboundStream` meets it -/
structure OutStream where
  sid : Nat
  proto : String                  -- protocol.MethodName()
  createFails : Bool              -- protocol.CreateClientStream returned an error
  headerFails : Bool              -- clientStream.Header() returned an error
  pids : List String              -- values of the peerID header in the server's response headers
  dids : List String              -- values of the nodeDID header
  other : Bool                    -- some other header is present (len(peerHeaders) != 0 although the two above are absent)
  cert : Option (List String)     -- DNS names of `extractCertificate(peerFromCtx)` of THIS stream (none = no TLS info)
  deriving Repr

inductive OutRes where
  | fatal (why : String)          -- fatalError: the whole connection is given up
  | skipped                       -- non-fatal: other protocols may continue
  | opened
  deriving DecidableEq, Repr, Inhabited

/-- `conn.verifyOrSetPeerID(id)`: the first stream fixes the peer ID, later streams must announce the same -/
def verifyOrSetPeerID (c : Conn) (id : String) : Conn × Bool :=
  if c.id == "" then ({ c with id := id }, true) else (c, c.id == id)

/-- `connection.registerStream` (refused when the protocol already has a stream; `setPeer` has happened by then) -/
def registerOut (c : Conn) (r : StreamRec) : Conn × OutRes :=
  if hasProto c r.proto then (c, .fatal "already") else ({ c with streams := c.streams ++ [r] }, .opened)

def outAuthIn (E : InEnv) (d : String) (s : OutStream) : AuthIn := { cert := s.cert, endpoint := E.resolve d }

/-- `openOutboundStream(connection, protocol, grpcConn, md)`. Order as in the source: create, headers, metadata, peer ID,
    certificate of this stream, then — only for a connection with an expected DID — server DID present, equal to the expected
    one, authenticated; `setPeer`; `registerStream`. A bootstrap connection (no expected DID) is never authenticated and the
    server's DID header is ignored (it must still parse). -/
def openOutboundStream (E : InEnv) (c : Conn) (s : OutStream) : Conn × OutRes :=
  if s.createFails then (c, .fatal "create")
  else if s.headerFails then (c, .fatal "header")
  else if s.pids.isEmpty && s.dids.isEmpty && !s.other then (c, .skipped)
  else
    match readMetadata E.parseDID s.pids s.dids with
    | .ok (pid, srv) =>
      if !(verifyOrSetPeerID c pid).2 then ((verifyOrSetPeerID c pid).1, .fatal "peerid")
      else
        let c1 := (verifyOrSetPeerID c pid).1
        if c1.peer.did != "" then
          if srv == "" then (c1, .fatal "maintenance")
          else if srv != c1.peer.did then (c1, .fatal "unexpected")
          else
            let a := cmAuthenticate E.kind E.auth srv c1.peer (outAuthIn E srv s)
            if a.2 then (c1, .fatal "auth")
            else registerOut { c1 with peer := a.1, cert := s.cert } ⟨s.sid, s.proto, srv, outAuthIn E srv s, a.1⟩
        else registerOut { c1 with cert := s.cert } ⟨s.sid, s.proto, "", outAuthIn E "" s, c1.peer⟩
    | _ => (c, .fatal "metadata")

inductive LoopRes where
  | fatal (why : String)
  | noProtocol                    -- "could not use any of the supported protocols"
  | blocked                       -- streams are up: `waitUntilDisconnected`
  deriving DecidableEq, Repr, Inhabited

/-- the protocol loop of `openOutboundStreams`: a fatal error ends it, a non-fatal one moves on; `n` counts opened streams -/
def openOutboundStreams (E : InEnv) : Conn → List OutStream → Nat → Conn × LoopRes
  | c, [], n => (c, if n == 0 then .noProtocol else .blocked)
  | c, s :: rest, n =>
    match (openOutboundStream E c s).2 with
    | .fatal w => ((openOutboundStream E c s).1, .fatal w)
    | .skipped => openOutboundStreams E (openOutboundStream E c s).1 rest n
    | .opened => openOutboundStreams E (openOutboundStream E c s).1 rest (n + 1)

/-- `conn.disconnect()`: streams dropped; peer ID, node DID and the authenticated flag reset (the certificate stays) -/
def disconnect (c : Conn) : Conn :=
  { c with id := "", peer := { c.peer with did := "", authenticated := false }, streams := [] }

/-- `createConnection(ctx, contact.peer)` via `getOrRegister(…, outbound = true)`: the expected DID, not authenticated -/
def dialled (expected : String) : Conn := { id := "", peer := { key := 0, did := expected }, cert := none, streams := [] }

/-- `connect(contact)` from the dial on: every way out of `openOutboundStreams` other than blocking on live streams runs the
    deferred `connection.disconnect()` (and removal from the list) at once -/
def connectOutbound (E : InEnv) (expected : String) (ss : List OutStream) : Conn × LoopRes :=
  match (openOutboundStreams E (dialled expected) ss 0).2 with
  | .blocked => openOutboundStreams E (dialled expected) ss 0
  | r => (disconnect (openOutboundStreams E (dialled expected) ss 0).1, r)

/-! ### inbound streams and outbound connections on ONE connection list
    `connectionList` is shared: `getOrRegister(…, outbound = false)` of an inbound stream also matches a connection this node
    dialled (peer ID and node DID equal), and `getOrRegister(…, outbound = true)` of `connect` matches any connection with the
    expected DID (a bootstrap contact: address and empty DID). -/

/-- `connections.getOrRegister(ctx, contact.peer, true)`: false = "already has a connection" (nothing dialled) -/
def dialOut (cs : List Conn) (addr x : String) : List Conn × Bool :=
  if cs.any (fun c => if x == "" then c.addr == addr && c.peer.did == "" else c.peer.did == x) then (cs, false)
  else (cs ++ [{ dialled x with addr := addr }], true)

def modifyAt (cs : List Conn) (i : Nat) (f : Conn → Conn) : List Conn :=
  match cs, i with
  | [], _ => []
  | c :: rest, 0 => f c :: rest
  | c :: rest, i + 1 => c :: modifyAt rest i f

inductive MEv where
  | inOpen (s : StreamIn)                   -- handleInboundStream
  | close (sid : Nat)                       -- an inbound stream ends
  | dial (addr x : String)                  -- connect: getOrRegister(outbound)
  | outStream (i : Nat) (s : OutStream)     -- openOutboundStream on the connection at index i
  | outEnd (i : Nat)                        -- connect returns: disconnect() + remove
  deriving Repr

def stepM (E : InEnv) (cs : List Conn) : MEv → List Conn
  | .inOpen s => (handleInbound E cs s).1
  | .close sid => closeStream cs sid
  | .dial a x => (dialOut cs a x).1
  | .outStream i s => modifyAt cs i (fun c => (openOutboundStream E c s).1)
  | .outEnd i => cs.eraseIdx i

def runM (E : InEnv) (cs : List Conn) (evs : List MEv) : List Conn := evs.foldl (stepM E) cs

end Nuts.C15
