/-
  C15: how the "peer identity on the connection" comes about for INBOUND streams
  (network/transport/grpc/util.go readMetadata, connection_manager.go handleInboundStream,
  connection_list.go getOrRegister (inbound branch) + get, connection.go registerStream, connectionList.remove).
  The v2 handlers decide on `connection.Peer()`; a stream is attached to an EXISTING connection when peer ID and node DID
  match, so the identity the handlers see for a stream may have been established by ANOTHER stream.
  did.ParseDID, service resolution, url parsing and x509 host name verification are oracles (data from the harness).
-/
import NutsModel.C15.Authn

namespace Nuts.C15
open Nuts.Proto

/-- the ASCII part of `unicode.IsSpace` (gRPC metadata values are printable ASCII) -/
def isSpace (c : Char) : Bool :=
  c == ' ' || c == '\t' || c == '\n' || c == '\r' || c == '\x0b' || c == '\x0c'

def trimChars (l : List Char) : List Char := ((l.dropWhile isSpace).reverse.dropWhile isSpace).reverse

/-- `strings.TrimSpace` -/
def trimSpace (s : String) : String := String.ofList (trimChars s.toList)

/-- `val(key, required)` inside `readMetadata`: exactly one value (none allowed when not required), trimmed -/
def headerValue (vals : List String) (required : Bool) : Nuts.Res String :=
  match vals with
  | [] => if required then .err "peer didn't send header" else .ok ""
  | [v] => .ok (trimSpace v)
  | _ :: _ :: _ => .err "peer sent multiple values for header"

/-- `readMetadata(md)`: peer ID (required, non-empty after trimming) and node DID (optional; must parse when present).
    `parseDID` = `did.ParseDID` (canonical string; none = parse error). Result: (peer ID, node DID or "") -/
def readMetadata (parseDID : String → Option String) (pids dids : List String) : Nuts.Res (String × String) :=
  match headerValue pids true with
  | .ok pid =>
    if pid == "" then .err "peer sent empty peerID header"
    else
      match headerValue dids false with
      | .ok d =>
        if d == "" then .ok (pid, "")
        else
          match parseDID d with
          | none => .err "peer sent invalid node DID"
          | some c => .ok (pid, c)
      | .err e => .err e
      | .panic s => .panic s
  | .err e => .err e
  | .panic s => .panic s

/-- an inbound stream as it reaches `handleInboundStream` -/
structure StreamIn where
  sid : Nat                       -- harness name of the stream
  pids : List String              -- values of the peerID header
  dids : List String              -- values of the nodeDID header
  cert : Option (List String)     -- DNS names of `extractCertificate(peerFromCtx)` (none = no TLS info)
  proto : String                  -- protocol.MethodName()
  deriving Repr

/-- what is remembered of a stream attached to a connection: the identity ITS OWN set-up established -/
structure StreamRec where
  sid : Nat
  proto : String
  claimed : String
  auth : AuthIn
  peer : Peer
  deriving Repr

/-- a `conn` in the connection list: `Peer()` is set once, by the stream that created it -/
structure Conn where
  id : String
  peer : Peer
  cert : Option (List String)
  streams : List StreamRec
  /-- `Peer().Address`: the dialled address of an outbound connection; inbound connections carry the remote ip:port, which is
      never a contact address (left empty here) -/
  addr : String := ""
  deriving Repr

def hasProto (c : Conn) (p : String) : Bool := c.streams.any (fun s => s.proto == p)

/-- `connections.getOrRegister(ctx, peer, false)` (first connection matching ByPeerID ∧ ByNodeDID, else a new one at the
    end) followed by `connection.registerStream` (refused when the protocol already has a stream on that connection).
    none = ErrAlreadyConnected (list unchanged); some i = attached to the connection at index i -/
def attach (id did : String) (r : StreamRec) (fresh : Conn) : List Conn → List Conn × Option Nat
  | [] => ([fresh], some 0)
  | c :: rest =>
    if c.id == id && c.peer.did == did then
      if hasProto c r.proto then (c :: rest, none)
      else ({ c with streams := c.streams ++ [r] } :: rest, some 0)
    else
      let x := attach id did r fresh rest
      (c :: x.1, x.2.map (· + 1))

inductive InRes where
  | errMetadata | errAuth | alreadyConnected
  | joined (i : Nat)
  deriving DecidableEq, Repr, Inhabited

/-- the environment of stream set-up: which authenticator, its oracles, DID parsing and NutsComm resolution -/
structure InEnv where
  kind : AuthKind
  auth : AuthEnv
  parseDID : String → Option String
  resolve : String → Option String

def streamAuthIn (E : InEnv) (claimed : String) (s : StreamIn) : AuthIn := { cert := s.cert, endpoint := E.resolve claimed }

/-- the result of the connection manager's `authenticate` for THIS stream (peer, refused?) -/
def streamAuth (E : InEnv) (claimed : String) (s : StreamIn) : Peer × Bool :=
  cmAuthenticate E.kind E.auth claimed { key := 0 } (streamAuthIn E claimed s)

def streamRec (E : InEnv) (claimed : String) (s : StreamIn) : StreamRec :=
  { sid := s.sid, proto := s.proto, claimed := claimed, auth := streamAuthIn E claimed s, peer := (streamAuth E claimed s).1 }

/-- `createConnection(ctx, peer)`: the connection's `Peer()` is the creating stream's peer -/
def freshConn (E : InEnv) (pid claimed : String) (s : StreamIn) : Conn :=
  { id := pid, peer := (streamAuth E claimed s).1, cert := s.cert, streams := [streamRec E claimed s] }

/-- `handleInboundStream` up to the point where it blocks: metadata, authentication of the claimed DID with THIS stream's
    certificate, connection lookup / creation, stream registration. Every refusal leaves the list unchanged. -/
def handleInbound (E : InEnv) (cs : List Conn) (s : StreamIn) : List Conn × InRes :=
  match readMetadata E.parseDID s.pids s.dids with
  | .ok (pid, claimed) =>
    if (streamAuth E claimed s).2 then (cs, .errAuth)
    else
      let x := attach pid (streamAuth E claimed s).1.did (streamRec E claimed s) (freshConn E pid claimed s) cs
      match x.2 with
      | none => (cs, .alreadyConnected)
      | some i => (x.1, .joined i)
  | _ => (cs, .errMetadata)

/-- a stream of the connection ends: the connection's context is cancelled, every `handleInboundStream` blocked on it
    returns and `connections.remove(connection)` drops it -/
def closeStream (cs : List Conn) (sid : Nat) : List Conn :=
  cs.filter (fun c => !c.streams.any (fun s => s.sid == sid))

inductive Ev where
  | open_ (s : StreamIn)
  | close (sid : Nat)
  deriving Repr

def stepEv (E : InEnv) (cs : List Conn) : Ev → List Conn
  | .open_ s => (handleInbound E cs s).1
  | .close sid => closeStream cs sid

def runEvs (E : InEnv) (cs : List Conn) (evs : List Ev) : List Conn := evs.foldl (stepEv E) cs

/-- a predicate of `connectionList.get(...)` as written at the call site -/
inductive LookupKey where
  | peerID | nodeDID | address
  | unknown_ (src : String)
  deriving DecidableEq, Repr

def LookupKey.ofSource (s : String) : LookupKey :=
  if s == "ByPeerID(peer.ID)" then .peerID
  else if s == "ByNodeDID(peer.NodeDID)" then .nodeDID
  else if s == "ByAddress(peer.Address)" then .address
  else .unknown_ s

/-- `connectionList.get(query...)` on one connection: ALL predicates must match (an unknown predicate matches nothing,
    the address is not part of the inbound model) -/
def connMatches (keys : List LookupKey) (c : Conn) (id did : String) : Bool :=
  !keys.isEmpty && keys.all (fun k => match k with
    | .peerID => c.id == id
    | .nodeDID => c.peer.did == did
    | _ => false)

end Nuts.C15
