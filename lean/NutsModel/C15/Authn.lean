/-
  C15: node identity authentication (network/transport/grpc/authenticator.go tlsAuthenticator.Authenticate)
  and the PAL encryption model (network/dag/pal.go PAL.Encrypt) the decryption theorems are stated against.
  x509 host name verification, URL parsing and service resolution are oracles (data from the harness).
-/
import NutsModel.C07.Handlers

namespace Nuts.C15
open Nuts.Proto

/-- what the authenticator is given: the peer's TLS certificate (its DNS names) and the NutsComm endpoint the
    service resolver returns for the claimed DID -/
structure AuthIn where
  cert : Option (List String)
  endpoint : Option String          -- none = serviceResolver.Resolve failed
  deriving Repr

structure AuthEnv where
  /-- `url.Parse(s)` then `.Hostname()`; none = parse error -/
  parseHost : String → Option String
  /-- `x509.Certificate.VerifyHostname(host) == nil` -/
  verifyHostname : List String → String → Bool

/-- `tlsAuthenticator.Authenticate(nodeDID, peer)`: on every failure the peer is returned unchanged -/
def authenticate (e : AuthEnv) (claimed : String) (peer : Peer) (i : AuthIn) : Peer × String :=
  match i.cert with
  | none => (peer, "err:no-cert")
  | some dns =>
    match i.endpoint with
    | none => (peer, "err:resolve")
    | some ep =>
      match e.parseHost ep with
      | none => (peer, "err:resolve")
      | some host =>
        if !e.verifyHostname dns host then (peer, "err:hostname")
        else ({ peer with did := claimed, authenticated := true }, "ok")

/-- how the TLS server treats client certificates (`tls.Config.ClientAuth`) -/
inductive ClientAuthMode where
  | requireAndVerify        -- tls.RequireAndVerifyClientCert
  | other (name : String)   -- anything weaker
  deriving DecidableEq, Repr, Inhabited

def ClientAuthMode.ofSource (s : String) : ClientAuthMode :=
  if s == "tls.RequireAndVerifyClientCert" then .requireAndVerify else .other s

/-- does the TLS server complete the handshake with (and hand the protocol the certificate of) a client that presented
    a certificate (`presented`) which chains to the trust store (`chains`)? — crypto/tls is a contract, exercised by the harness -/
def serverAcceptsClient (mode : ClientAuthMode) (presented chains : Bool) : Bool :=
  match mode with
  | .requireAndVerify => presented && chains
  | .other _ => presented

/-- a value of the TLS-offloading client certificate header: how many certificates it parses to and (for one) whose it is -/
inductive HeaderVal where
  | cert (owner : String)     -- exactly one certificate
  | many                      -- more than one certificate in one value
  | garbage
  deriving DecidableEq, Repr, Inhabited

/-- `tlsOffloadingAuthenticator.authenticate`: EXACTLY one header value, holding exactly one certificate (a proxy that
    appends its header after a client-supplied one produces two values: refused) -/
def offloadedCertificate : List HeaderVal → Option String
  | [.cert owner] => some owner
  | _ => none

/-- `tlsOffloadingAuthenticator.intercept` on one stream. grpc-go keeps ONE `*peer.Peer` per HTTP/2 connection, shared by all
    streams a multiplexing proxy sends over it: `shared` is the certificate owner held in its `AuthInfo` (none = no TLS info)
    when the stream arrives. The interceptor OVERWRITES `AuthInfo` with the certificate of THIS stream's header; a refused
    stream leaves the shared peer alone. Result: the shared peer afterwards and what this stream's handler sees. -/
def interceptStream (shared : Option String) (vals : List HeaderVal) : Option String × Option String :=
  match offloadedCertificate vals with
  | none => (shared, none)
  | some owner => (some owner, some owner)

/-- the streams of one connection in arrival order: what each handler sees (none = refused) -/
def interceptStreams : Option String → List (List HeaderVal) → List (Option String)
  | _, [] => []
  | shared, vals :: rest =>
    let (shared', seen) := interceptStream shared vals
    seen :: interceptStreams shared' rest

/-- which `grpc.Authenticator` the connection manager is given -/
inductive AuthKind where
  | tls | dummy
  deriving DecidableEq, Repr, Inhabited

/-- `dummyAuthenticator.Authenticate`: believes any claimed node DID -/
def dummyAuthenticate (claimed : String) (peer : Peer) : Peer × String :=
  ({ peer with did := claimed, authenticated := true }, "ok")

/-- `Network.Configure`, "Configure TLS": the TLS authenticator whenever TLS is configured (strict or not); without TLS
    an error in strict mode, else the dummy authenticator (demo/workshop set-ups) -/
def configureAuthenticator (tlsEnabled strict : Bool) : Nuts.Res AuthKind :=
  if tlsEnabled then .ok .tls
  else if strict then .err "disabling TLS in strict mode is not allowed"
  else .ok .dummy

def authenticateWith (k : AuthKind) (e : AuthEnv) (claimed : String) (peer : Peer) (i : AuthIn) : Peer × String :=
  match k with
  | .tls => authenticate e claimed peer i
  | .dummy => dummyAuthenticate claimed peer

/-- `extractCertificate`: the certificate a connection is authenticated with is the FIRST of the peer's certificates — the
    only one whose private key the TLS handshake proved possession of; whatever else the peer sends along is unproven -/
def peerCertificate {α : Type} (chain : List α) : Option α := chain.head?

/-- `grpcConnectionManager.authenticate` (inbound and outbound stream set-up): no claimed DID = no authentication;
    a failed authentication is an error and yields the zero peer (the stream is refused), never a half-authenticated one -/
def cmAuthenticate (k : AuthKind) (e : AuthEnv) (claimed : String) (peer : Peer) (i : AuthIn) : Peer × Bool :=
  if claimed == "" then (peer, false)
  else
    let r := authenticateWith k e claimed peer i
    if r.2 == "ok" then (r.1, false) else ({ key := 0 }, true)

/-- what `keyResolver.ResolveKey(recipient, KeyAgreement)` answers for a participant -/
inductive KeyRes where
  | ok | deactivated | notFound | badKey
  deriving DecidableEq, Repr, Inhabited

/-- `PAL.Encrypt` as far as the NUMBER of header entries goes: every participant must resolve to an EC key agreement
    key (any failure, deactivation included, aborts); then one ciphertext per participant -/
def encryptCount : List KeyRes → Nuts.Res Nat
  | [] => .ok 0
  | .ok :: rest => (encryptCount rest).bind (fun k => .ok (k + 1))
  | _ :: _ => .err "unable to resolve keyAgreement key"

/-- `Network.CreateTransaction`, private part: participants require a node DID; the PAL header is what `Encrypt`
    returns; without participants the transaction is public (0 entries). Result = number of PAL entries. -/
def createPalCount (nodeDIDSet : Bool) (parts : List KeyRes) : Nuts.Res Nat :=
  if parts.isEmpty then .ok 0
  else if !nodeDIDSet then .err "node DID must be configured to create private transactions"
  else encryptCount parts

/-- `PAL.Encrypt`: the plaintext is the whole participant list; one ciphertext per participant under that
    participant's key agreement key. `cipherFor d` names the ciphertext made for participant `d`. -/
def encryptPAL (cipherFor : String → Nat) (pal : List String) : List Nat := pal.map cipherFor

/-- the ECIES contract instantiated for an honestly encrypted PAL: the ciphertext made for `d` decrypts to the
    list under the key of `d` and under no other key -/
def HonestPal (env : Env) (keyOf : String → String) (cipherFor : String → Nat) (pal : List String) : Prop :=
  ∀ d ∈ pal, ∀ kid, env.dec kid (cipherFor d) = if kid = keyOf d then .ok (pal.map some) else .fail

end Nuts.C15
