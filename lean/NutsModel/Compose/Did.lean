/-
  Composition C09 ∘ C10 — the did:nuts pipeline end to end.  Core Lean only; executable.

  The property models:
    * C09 (`Nuts.C09`): the ambassador.  `deliver c s tx pd` is ONE delivery (DAG signature verifier, then `callback`) into a
      given C10 store `s`; `step` is the store afterwards plus the outcome class.
    * C10 (`Nuts.C10`): the DID store.  `addAll cfg {} l` is the store after the arrival sequence `l` of events; C10's theorems
      take `l` ("the accepted events") as an unconstrained input.
    * C13 (`Nuts.C13`): the subject manager.  Its external did:nuts state `pub : Nat → List Content` ("what the didstore
      resolves") is an unconstrained input there; `pubOf` is the view of a C10 store as such a state.
  This file holds ONLY the glue: a node that receives a whole HISTORY of deliveries through C09's `step`, and the list of
  events C09 accepted on the way — the list C10's theorems are to be instantiated with.  Nothing of the two models is copied:
  everything goes through `C09.step` / `C09.deliver` / `C09.eventOf` and `C10.addAll`.
-/
import NutsModel.C09.Ambassador
import NutsModel.C09.Manager
import NutsModel.C13.Subject

namespace Nuts.Compose.Did
open Nuts Nuts.C10 Nuts.C09

/-- what can be delivered to a node: a did+json transaction and its payload as parsed (`none` = does not unmarshal) -/
abbrev Delivery := Tx × Option NDoc

/-- the node: the store after a history of deliveries, each through C09's `step` (a rejected delivery keeps the store) -/
def run (c : C09.Cfg) : Store → List Delivery → Store
  | s, [] => s
  | s, p :: ps => run c (step c s p.1 p.2).1 ps

/-- the event C09 hands to the store for ONE delivery into `s`: the C10 event of the transaction and document if C09's
    `deliver` accepts, nothing otherwise -/
def acceptedEvent (c : C09.Cfg) (s : Store) (p : Delivery) : Option Event :=
  match p.2, deliver c s p.1 p.2 with
  | some d, .ok _ => some (eventOf p.1 d)
  | _, _ => none

/-- C09 history → C10 arrival sequence: the events of exactly the accepted deliveries, in delivery order (a replayed
    delivery that is accepted again is listed again) -/
def accepted (c : C09.Cfg) : Store → List Delivery → List Event
  | _, [] => []
  | s, p :: ps => (acceptedEvent c s p).toList ++ accepted c (step c s p.1 p.2).1 ps

/-- the outcome classes of a history (`"ok"`, `"err:…"`, `"panic:…"`), for the order-(in)dependence statements -/
def outcomes (c : C09.Cfg) : Store → List Delivery → List String
  | _, [] => []
  | s, p :: ps => (step c s p.1 p.2).2 :: outcomes c (step c s p.1 p.2).1 ps

/-- refs of the transactions of a history that were accepted -/
def acceptedRefs (c : C09.Cfg) (s : Store) (l : List Delivery) : List Nat := (accepted c s l).map (·.ref)

/-- a delivery order is causally consistent when every prev a transaction names that occurs in the history at all is
    delivered before it (the DAG hands a transaction to its subscribers after its prevs) -/
def causalFrom (seen : List Nat) (all : List Nat) : List Delivery → Bool
  | [] => true
  | p :: ps => p.1.prevs.all (fun r => !all.contains r || seen.contains r) && causalFrom (p.1.ref :: seen) all ps

def causal (l : List Delivery) : Bool := causalFrom [] (l.map (·.1.ref)) l


/-! ### C10 store → C13's external did:nuts state -/

/-- C10 `Doc` → C13 `Content`: the capabilityInvocation key ids as tokens (`tok`; C13: "every generated key has that usage")
    and the service ids -/
def absContent (tok : String → Nat) (d : Doc) : C13.Content :=
  { vms := (d.f .capInv).map (fun e => tok e.id), svcs := (d.f .service).map (·.id) }

/-- C10 `Store` → C13 `pub` ("the documents published for DID `d`, newest first: what the didstore resolves"): the DID's
    version chain, newest first; `name` is C13's numbering of the DIDs -/
def pubOf (tok : String → Nat) (name : Nat → String) (s : Store) : Nat → List C13.Content :=
  fun n => (s.get (name n)).chain.reverse.map (fun p => absContent tok p.1)

/-- the `did_change_log` record C13 hands to didnuts `Commit` for a deactivation of DID `n` -/
def deactivationOf (n : Nat) : C13.Change :=
  { did := n, method := .nuts, row := 0, typ := .deactivated, tx := 0, ts := 0, c := C13.Content.empty }
end Nuts.Compose.Did
