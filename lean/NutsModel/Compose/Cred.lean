/-
  Composition C11 → C01 → (C12) → C02 — the credential pipeline end to end.  Core Lean only; executable.

  The four property models were written independently:
    * C11 (`Nuts.C11`): revocation.  `World` = two nodes with their revocation store (`netRevs`), status-list pages, cached
      lists; `Act`/`run` = everything that can happen to them.
    * C01 (`Nuts.C01`): `verify` / `verifyVP`.  The revocation store (`Env.revoked`) and the status lists (`Env.statusList`)
      are unconstrained PARAMETERS.
    * C12 (`Nuts.C12`): Presentation Exchange.  Credentials are opaque values (`C12.Cred`: raw, key, JSON tree).
    * C02 (`Nuts.C02`): token issue + introspection.  "The presentation verifies" (`VP.verifies`), "the submission matches
      the definition" (`S2SReq.pex`) and the resolved field values (`S2SReq.claims`) are unconstrained PARAMETERS.
  This file holds ONLY the maps between their types and the composed authorization server (revocation layer next to the
  token endpoint).  Nothing of the four models is copied: every map goes through their public definitions; records of the
  downstream model are produced by UPDATING a caller-supplied base record, never by a full structure literal.
-/
import NutsModel.C01.Verifier
import NutsModel.C11.Revocation
import NutsModel.C12.PE
import NutsModel.C02.History

namespace Nuts.Compose.Cred

/-- what the downstream models need and the upstream models do not produce.  Data, supplied — never axioms.
    Each field is one reported seam. -/
structure Glue where
  /-- C01 keeps `statusListCredential` as the string of the document, C11 as a parsed `Url` -/
  urlOf : String → C11.Url
  /-- C12 takes a credential as an opaque value (raw, marshalled key, JSON tree, format facts): the PE view of a C01 credential -/
  view : C01.Cred → C12.Cred
  /-- the envelope value (`vp_token` as `interface{}`) the descriptor map's JSON paths are evaluated on -/
  envJ : List C01.Pres → C12.J
  /-- C02 names a presentation definition by a key (`Def.key`), C12 works on its content -/
  pdOf : Nat → C12.PD
  /-- C12 resolves field values as JSON (`Values`), C02 stores the claims of a token as strings -/
  render : C12.Values → C02.Claims
  /-- C02 counts time in units of its own (`Cfg.second` per second, `Nat`), C01 in unix milliseconds (`Int`): the moment of a
      token request as C01's clock shows it -/
  clock : Nat → C01.Time

/-! ### (1a) C11's revocation / status-list state → the revocation inputs of C01's verifier -/

/-- the record node `i` judges entries of list `u` with in world `w`: C11's `statusList`, after C11's `download` when
    C11's `needsFetch` says one is made (exactly the first iteration of C11's `verifyStatuses`) -/
def statusRecord (E : C11.Env) (i : Bool) (w : C11.World) (u : C11.Url) : Option C11.CredRec :=
  let fw := if C11.needsFetch E w.now (w.get i) u then C11.download E w u else (C11.Fetch.fail, w)
  match C11.statusList E fw.2.now (fw.2.get i) u fw.1 with
  | .ok (rec, _) => some rec
  | _ => none

/-- a C11 status-list record as C01's verifier reads one: purpose and `bit` (C11's `Bits.bit`; an error = out of range) -/
def slOf (rec : C11.CredRec) : C01.StatusList :=
  { purpose := rec.purpose
    bit := fun k => match rec.bits.bit (k : Int) with | .ok b => some b | _ => none }

/-- C01's environment with its two revocation inputs READ FROM C11's world (node `i`): the revocation store is C11's
    `Node.isRevoked`, a status list is C11's `statusList` record for the parsed URL.  Everything else (DID documents,
    trust, clock, the store-fault flag) stays the parameter `base`. -/
def revEnv (g : Glue) (E : C11.Env) (i : Bool) (w : C11.World) (base : C01.Env) : C01.Env :=
  { base with
    revoked := fun id => (w.get i).isRevoked id
    statusList := fun s => (statusRecord E i w (g.urlOf s)).map slOf }

/-- a C01 `credentialStatus` entry as C11 reads it -/
def status11 (g : Glue) (s : C01.Status) : C11.StatusEntry :=
  { type := s.typ, purpose := s.purpose, list := g.urlOf s.listCred, idx := s.index.map Int.ofNat }

/-- a C01 credential as far as C11's revocation checks look at it -/
def cred11 (g : Glue) (c : C01.Cred) : C11.Cred :=
  { id := c.id, issuer := c.issuer, statuses := c.statuses.map (·.map (status11 g)) }

/-- C01's loop skips this entry without consulting a list (other type, or a well-formed entry with another purpose) -/
def skipped (s : C01.Status) : Bool :=
  s.typ != C01.statusListEntryType || (s.entryValid && s.purpose != "revocation")

/-! ### (1b) C01's accept decision and C12's Validate outcome → the inputs of C02's token issue -/

/-- everything that parametrises the three upstream models at one authorization server (node `node` of C11's world) -/
structure Ctx where
  g : Glue
  cfg1 : C01.Cfg
  P : C01.Crypto
  base : C01.Env
  E11 : C11.Env
  K : C11.KeyEnv
  node : Bool
  cfg12 : C12.Cfg
  re : C12.Regex
  decode : C12.Decoder

/-- C01's environment at this server in revocation world `rw` at C02-time `t` (the verifier's clock is the request's moment) -/
def Ctx.env (x : Ctx) (rw : C11.World) (t : Nat) : C01.Env := revEnv x.g x.E11 x.node rw { x.base with now := x.g.clock t }

/-- `Verifier.VerifyVP(vp, true, true, nil)` (the call of the token endpoint: credentials verified, untrusted issuers
    allowed, at the current time) over revocation world `rw` -/
def accepts (x : Ctx) (rw : C11.World) (t : Nat) (vp : C01.Pres) : Bool :=
  (C01.verifyVP x.cfg1 x.P (x.env rw t) true true none vp).isOk

/-- a presentation as the token endpoint sees it: `wire` carries what C01 does not model (dates as C02 counts them,
    audience, nonce, challenge); the verdict, signer, subjects and format COME FROM C01 -/
def vpOf (x : Ctx) (rw : C11.World) (t : Nat) (vp : C01.Pres) (wire : C02.VP) : C02.VP :=
  { wire with
    verifies := accepts x rw t vp
    signer := C01.presentationSigner (x.env rw t) vp
    subjects := vp.vcs.map C01.subjectDID
    ld := decide (vp.format = .ld) }

/-- the envelope C12's `Validate` works on, built from the presentations C01 verified -/
def envelopeOf (x : Ctx) (rw : C11.World) (t : Nat) (vps : List C01.Pres) : C12.Envelope :=
  { (default : C12.Envelope) with
    asInterface := x.g.envJ vps
    presentations := vps.map (fun vp => vp.vcs.map x.g.view)
    signerOK := vps.map (fun vp => (C01.presentationSigner (x.env rw t) vp).isSome) }

/-- what the token endpoint computes from a submission for the definition with key `k`:
    `PEXConsumer.fulfill` → C12 `validate`; `credentialMap` → C12 `resolve`; `resolveInputDescriptorValues` →
    C12 `resolveFields` (one definition: nothing to merge) -/
def fieldsOf (x : Ctx) (rw : C11.World) (t : Nat) (vps : List C01.Pres) (sub : List C12.Mapping) (k : Nat) : Res C12.Values :=
  match C12.validate x.cfg12 x.re x.decode (x.g.pdOf k) (envelopeOf x rw t vps) sub with
  | .ok _ =>
    match C12.resolve x.cfg12 x.decode (envelopeOf x rw t vps).asInterface [] sub with
    | .ok cm => C12.resolveFields x.cfg12 x.re (x.g.pdOf k) [] cm
    | .err e => .err e
    | .panic s => .panic s
  | .err e => .err e
  | .panic s => .panic s

/-- a token request in terms of the upstream objects: the presentations (C01 documents, each with its wire data), the
    descriptor map (C12), and `wire` = the rest of the HTTP request as C02 holds it (tenant, client, scope, definition id,
    DPoP, …; its `vps`/`pex`/`claims` are ignored) -/
structure Req where
  wire : C02.S2SReq
  vps : List (C01.Pres × C02.VP)
  sub : List C12.Mapping

def Req.pres (r : Req) : List C01.Pres := r.vps.map (·.1)

/-- the request C02's `issueS2S` receives: its three formerly free inputs are now COMPUTED by C01 and C12.
    C02 has ONE refusal for the PEX step (`pex k = false`); both C12 failures on the way to the claims — `Validate`
    refuses, or the field resolution errs — are mapped to it (the Go handler answers no token in both cases). -/
def s2sOf (x : Ctx) (rw : C11.World) (t : Nat) (r : Req) : C02.S2SReq :=
  { r.wire with
    vps := r.vps.map (fun p => vpOf x rw t p.1 p.2)
    pex := fun k => (fieldsOf x rw t r.pres r.sub k).isOk
    claims := fun k => match fieldsOf x rw t r.pres r.sub k with | .ok vals => x.g.render vals | _ => [] }

/-! ### the composed server: the revocation layer (C11) next to the token endpoint (C02) -/

inductive Ev where
  /-- anything C11 knows: a revocation arrives, the issuer revokes, a list is served / fetched, time passes, … -/
  | rev (a : C11.Act)
  /-- a token request arrives at C02-time `t` -/
  | req (t : Nat) (r : Req)

structure St where
  rw : C11.World
  as : C02.World

/-- the C02 operation an event amounts to in state `s` (revocation events are invisible to C02) -/
def opOf (x : Ctx) (s : St) : Ev → Option (Nat × C02.Op)
  | .rev _ => none
  | .req t r => some (t, .s2s (s2sOf x s.rw t r))

/-- one event.  A token request reads the revocation world as it is (a status list it would fetch is judged through
    C11's `download`, see `statusRecord`) and leaves it unchanged; the caching side effect of a verification is C11's
    `Act.verify`, which a history may place after the request as a `rev` event. -/
def stepEv (x : Ctx) (cfg2 : C02.Cfg) (s : St) : Ev → St × Option (Res C02.TokenResponse)
  | .rev a => ({ s with rw := C11.step x.E11 x.K s.rw a }, none)
  | .req t r =>
    let o := C02.issueS2S cfg2 s.as t (s2sOf x s.rw t r)
    ({ s with as := o.1 }, some o.2)

def runEv (x : Ctx) (cfg2 : C02.Cfg) (s : St) (evs : List Ev) : St := evs.foldl (fun s e => (stepEv x cfg2 s e).1) s

/-- the C11 history a composed history contains -/
def revActs : List Ev → List C11.Act
  | [] => []
  | .rev a :: rest => a :: revActs rest
  | .req _ _ :: rest => revActs rest

/-- the C02 history a composed history amounts to, from state `s` -/
def trace (x : Ctx) (cfg2 : C02.Cfg) : St → List Ev → List (Nat × C02.Op)
  | _, [] => []
  | s, e :: rest =>
    match opOf x s e with
    | some o => o :: trace x cfg2 (stepEv x cfg2 s e).1 rest
    | none => trace x cfg2 (stepEv x cfg2 s e).1 rest

end Nuts.Compose.Cred
