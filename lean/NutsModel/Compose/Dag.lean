/-
  Composition C06 ∘ C08 ∘ C07 — the DAG transaction network end to end.  Core Lean only; executable.

  The three property models were written independently:
    * C06 (`Nuts.C06`): admission.  `St.txs` = the admitted transactions, newest first; refs are `Nat`.
    * C08 (`Nuts.C08`): digests.  `State.add` over `Tx` with refs `BitVec 256` and the murmur3 values of the ref.
    * C07 (`Nuts.Proto`): gossip protocol over an abstract DAG `List Tx` (newest first), refs `Nat`, abstract verdict `sigOK`.
  This file holds ONLY the maps between their types and the composed node (admission feeding the digest state).
  Nothing of the three models is copied: every map goes through their public definitions.
-/
import NutsModel.C06.Admit
import NutsModel.C08.Spec
import NutsModel.C07.Dag

namespace Nuts.Compose.Dag

/-- what the downstream models carry per transaction and the admission model does not: the murmur3 values of a ref
    (`hashKey`, `bucketIndices`: C08), the ciphertext id of a PAL entry and the length of the serialized transaction (C07).
    Data, supplied per ref — never axioms. -/
structure Wire where
  hk : Nat → BitVec 64
  idx : Nat → List Nat
  palId : String → Nat
  size : Nat → Nat

/-- a SHA-256 value as C08 holds it. Injective exactly on values `< 2^256` (`embRef_inj`). -/
def embRef (r : Nat) : C08.Ref := BitVec.ofNat 256 r

/-- C06.Tx → C08.Tx: ref, clock, prevs; the murmur3 values travel with the ref -/
def embTx (w : Wire) (t : C06.Tx) : C08.Tx :=
  { (default : C08.Tx) with ref := embRef t.ref, clock := t.clock, prevs := t.prevs.map embRef, hk := w.hk t.ref, idx := w.idx t.ref }

/-- the admitted transactions in ADMISSION order (C06 keeps them newest first; C08's transaction shelf is oldest first) -/
def embList (w : Wire) (l : List C06.Tx) : List C08.Tx := l.reverse.map (embTx w)

/-- C06.St → the transaction list C08's state is built from -/
def embSet (w : Wire) (s : C06.St) : List C08.Tx := embList w s.txs

/-- one fault-free `state.Add` of the digest layer (no payload argument, no store fault) -/
def feed {n : Nat} (cfg : C08.Cfg) (s : C08.State n) (t : C08.Tx) : C08.State n := (C08.add cfg s t {}).1

/-- C06.St → C08.State: the digest state obtained by feeding exactly the admitted transactions, in admission order, to
    C08's `add`, starting from the empty store -/
def digests {n : Nat} (cfg : C08.Cfg) (w : Wire) (s : C06.St) : C08.State n :=
  (embSet w s).foldl (feed cfg) (C08.State.init cfg)

/-! ### deliveries to the admission layer -/

/-- what can be delivered to a node: bytes (decoded header + optional payload: `ParseTransaction` then `Add`) or an
    already parsed transaction (`Add`) -/
inductive Delivery where
  | bytes (hd : C06.Hdr) (payload : Option Nat)
  | tx (tx : C06.Tx) (payload : Option Nat)

/-- the ref of the delivered bytes / transaction (the SHA-256 of the bytes: supplied) -/
def Delivery.ref : Delivery → Nat
  | .bytes hd _ => hd.ref
  | .tx t _ => t.ref

/-- the admission layer's parameters -/
structure Adm where
  cfg : C06.Cfg
  b64 : String → Bool
  env : C06.Env
  subs : List C06.Sub

def deliver6 (a : Adm) (s : C06.St) : Delivery → C06.St × Res Unit
  | .bytes hd p => C06.offer a.cfg a.b64 a.env a.subs s hd p
  | .tx t p => C06.add a.env a.subs s t p

def step6 (a : Adm) (s : C06.St) (d : Delivery) : C06.St := (deliver6 a s d).1

/-- C06's state after a sequence of deliveries from the empty store -/
def run6 (a : Adm) (ds : List Delivery) : C06.St := ds.foldl (step6 a) {}

/-! ### the composed node: admission (C06) in front of the digest state (C08) -/

structure Node (n : Nat) where
  st : C06.St
  dg : C08.State n

def Node.init {n : Nat} (cfg8 : C08.Cfg) : Node n := { st := {}, dg := C08.State.init cfg8 }

/-- the transactions a step of the admission layer added (newest first): the new front of the documents shelf -/
def newTxs (old new : C06.St) : List C06.Tx := new.txs.take (new.txs.length - old.txs.length)

/-- one delivery: the admission layer decides; exactly what it admitted — nothing else — reaches the digest layer -/
def Node.deliver {n : Nat} (a : Adm) (cfg8 : C08.Cfg) (w : Wire) (nd : Node n) (d : Delivery) : Node n × Res Unit :=
  let r := deliver6 a nd.st d
  ({ st := r.1, dg := (embList w (newTxs nd.st r.1)).foldl (feed cfg8) nd.dg }, r.2)

def Node.step {n : Nat} (a : Adm) (cfg8 : C08.Cfg) (w : Wire) (nd : Node n) (d : Delivery) : Node n :=
  (nd.deliver a cfg8 w d).1

def Node.run {n : Nat} (a : Adm) (cfg8 : C08.Cfg) (w : Wire) (ds : List Delivery) : Node n :=
  ds.foldl (Node.step a cfg8 w) (Node.init cfg8)

/-! ### the gossip protocol's view (C07) -/

/-- C06.Tx → C07's abstract transaction: the signature verdict is C06's `verifySig` (a function of the transaction
    and the resolver alone — not of the state) -/
def viewTx (w : Wire) (env : C06.Env) (t : C06.Tx) : Proto.Tx :=
  { (default : Proto.Tx) with
    ref := t.ref, clock := t.clock, prevs := t.prevs, pal := t.pal.map w.palId,
    payloadHash := t.payloadHash, sigOK := decide (C06.verifySig env t = .ok ()), size := w.size t.ref }

/-- C06.St → C07's DAG (both newest first) -/
def view (w : Wire) (env : C06.Env) (s : C06.St) : List Proto.Tx := s.txs.map (viewTx w env)

/-- C08 state → C07's DAG view: what the digest layer alone knows of a transaction (ref, clock, prevs); newest first -/
def viewOfDigests {n : Nat} (s : C08.State n) : List Proto.Tx :=
  s.disk.txs.reverse.map fun t =>
    { (default : Proto.Tx) with ref := t.ref.toNat, clock := t.clock, prevs := t.prevs.map (·.toNat), sigOK := true }

/-- the part of a C07 transaction both routes determine -/
def skeleton (t : Proto.Tx) : Nat × Nat × List Nat := (t.ref, t.clock, t.prevs)

/-- the keys C08's IBLT holds for the refs C07's `State.IBLT(lc)` abstracts as a set -/
def ikeyOf (w : Wire) (r : Nat) : C08.IKey := ⟨embRef r, w.hk r, w.idx r⟩

/-- the IBLT C08 computes for a set of refs as C07 lists it (newest first): inserted oldest first into the empty IBLT -/
def ibltOfSet (n : Nat) (w : Wire) (refs : List Nat) : C08.Iblt n :=
  refs.foldr (fun r g => (C08.ibltOps n).ins g (ikeyOf w r)) (C08.ibltOps n).zero

/-- C07's payload argument of `Add` as C06 sees it: payloads are identified by their hash -/
def viewPayload (sha : Nat → Nat) (p : Nat) : Proto.Payload := { (default : Proto.Payload) with sha := sha p }

end Nuts.Compose.Dag
