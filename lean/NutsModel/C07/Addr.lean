/-
  C07 deepening round 3: HOW THE PERIODIC GOSSIP MESSAGE FINDS ITS CONNECTION.

  Mirrors protocol.go `(*protocol).sendGossip` (the gossip.SenderFunc the gossip manager calls for every peer queue on
  every tick): `conn := p.connectionList.Get(grpc.ByConnected(), grpc.ByPeer(transportPeer))`; no connection =>
  grpc.ErrNoConnection; otherwise `sendGossipMsg(conn, …)` = `conn.Send`; any error => `false` (the queue is kept),
  else `true` (the gossip manager clears the queue). Also network/transport/grpc: predicate.go (the six `Match`
  methods), connection_list.go `get` (empty query => nil; FIRST connection of the list all predicates match) and
  transport.Peer.Key() (`"%s(%s)@%s"` of peer ID, node DID text, address; the text of an empty DID is "").

  The query that `sendGossip` uses is REGENERATED (Facts.C07.sendGossipQuery, the source text of the arguments of
  `Get`) and interpreted by `predOfSrc`: an argument this file cannot interpret yields `none` (the driver prints
  `unmapped`). Core Lean only.
-/
namespace Nuts.Proto.Addr

/-- transport.Peer (`did` = NodeDID.String(), "" for the empty DID) -/
structure TPeer where
  id : String
  did : String
  addr : String
  deriving DecidableEq, Repr, Inhabited

/-- transport.Peer.Key() -/
def TPeer.key (p : TPeer) : String := p.id ++ "(" ++ p.did ++ ")@" ++ p.addr

/-- what the predicates look at in a grpc.Connection; `sendOK` = result of `Send` (outbox full / closed stream => false) -/
structure Conn where
  peer : TPeer
  connected : Bool
  authenticated : Bool
  sendOK : Bool := true
  deriving DecidableEq, Repr, Inhabited

/-- grpc/predicate.go -/
inductive Pred where
  | byPeer (p : TPeer)          -- conn.Peer().Key() == predicate.peer.Key()
  | byPeerID (id : String)      -- conn.Peer().ID == predicate.peerID
  | byConnected (want : Bool)   -- conn.IsConnected() == predicate.connected
  | byNodeDID (d : String)      -- conn.Peer().NodeDID.Equals(predicate.nodeDID)  (go-did: String() == String())
  | byAuthenticated             -- conn.IsAuthenticated()
  | byAddress (a : String)      -- predicate.address == conn.Peer().Address
  deriving DecidableEq, Repr, Inhabited

def Pred.matches : Pred → Conn → Bool
  | .byPeer p, c => c.peer.key == p.key
  | .byPeerID i, c => c.peer.id == i
  | .byConnected w, c => c.connected == w
  | .byNodeDID d, c => c.peer.did == d
  | .byAuthenticated, c => c.authenticated
  | .byAddress a, c => a == c.peer.addr

def matchesAll (q : List Pred) (c : Conn) : Bool := q.all (fun pr => pr.matches c)

/-- the loop of connection_list.go `get` from list position `i` on: index of the first connection all predicates match -/
def getFrom (q : List Pred) : List Conn → Nat → Option Nat
  | [], _ => none
  | c :: r, i => if matchesAll q c then some i else getFrom q r (i + 1)

/-- `connectionList.Get(query...)`: an empty query selects nothing -/
def get (l : List Conn) (q : List Pred) : Option Nat :=
  if q.isEmpty then none else getFrom q l 0

/-- one argument of `Get` in `sendGossip` (source text) as a predicate about the queue's peer `p` -/
def predOfSrc (p : TPeer) (src : String) : Option Pred :=
  if src == "grpc.ByConnected()" then some (.byConnected true)
  else if src == "grpc.ByNotConnected()" then some (.byConnected false)
  else if src == "grpc.ByAuthenticated()" then some .byAuthenticated
  else if src == "grpc.ByPeer(transportPeer)" then some (.byPeer p)
  else if src == "grpc.ByPeerID(transportPeer.ID)" then some (.byPeerID p.id)
  else if src == "grpc.ByNodeDID(transportPeer.NodeDID)" then some (.byNodeDID p.did)
  else if src == "grpc.ByAddress(transportPeer.Address)" then some (.byAddress p.addr)
  else none

def queryOfSrc (p : TPeer) : List String → Option (List Pred)
  | [] => some []
  | s :: r =>
    match predOfSrc p s, queryOfSrc p r with
    | some a, some b => some (a :: b)
    | _, _ => none

/-- the query `sendGossip` is written with -/
def gossipQuery (p : TPeer) : List Pred := [.byConnected true, .byPeer p]

/-- result of `sendGossip`: the connection the Gossip message was handed to (none: ErrNoConnection) and the bool the
    gossip manager gets (true = sent, clear the queue) -/
structure SendRes where
  target : Option Nat
  cleared : Bool
  deriving DecidableEq, Repr, Inhabited

def sendGossipWith (q : List Pred) (l : List Conn) : SendRes :=
  match get l q with
  | none => { target := none, cleared := false }                 -- err = grpc.ErrNoConnection => return false
  | some i =>
    match l[i]? with
    | some c => { target := some i, cleared := c.sendOK }        -- err = sendGossipMsg(conn, …); err != nil => false
    | none => { target := none, cleared := false }

/-- `(*protocol).sendGossip(transportPeer, …)` on the connection list `l` -/
def sendGossip (l : List Conn) (p : TPeer) : SendRes := sendGossipWith (gossipQuery p) l

end Nuts.Proto.Addr
