/-
  C07 deepening round 2: the DISPATCHER of network/transport/v2 inside the model.

  Mirrors handlers.go `protocol.Handle` (classification of the error of `handle`: nil and context.Canceled are
  swallowed, an error of `allowedErrors` is returned as is, everything else becomes errInternalError), `protocol.handle`
  (type switch: most envelopes start a goroutine through `handleASync` and return nil; a TransactionList is put on the
  bounded channel `p.listHandler.ch` with a NON-BLOCKING send — `select { case ch <- pe: default: }` — so a full
  channel drops the message; an envelope of no known type returns errMessageNotSupported) and
  transactionlist_handler.go `newTransactionListHandler` (capacity grpc.OutboxHardLimit) / `start` (one goroutine
  takes the lists off the channel one at a time, in channel order, and runs `handleTransactionList`).

  The scheduling of the goroutines inside one node is an explicit event list: `arrive` (the gRPC stream calls Handle),
  `listRun` (one iteration of `start`), `asyncRun i` (the i-th waiting handleASync goroutine runs). Handlers stay
  atomic (`Nuts.Proto.handle`). Core Lean only.
-/
import NutsModel.C07.Handlers

namespace Nuts.Proto.Disp
open Nuts.Proto

/-- where `protocol.handle` sends an envelope -/
inductive Route where
  | async        -- handleASync(p.ctx, connection, envelope, p.handleX)
  | listChan     -- p.listHandler.ch <- pe (non-blocking)
  | unsupported  -- falls out of the switch: errMessageNotSupported
  deriving DecidableEq, Repr, Inhabited

/-- name of the oneof wrapper type of a message (`envelope.Message.(type)`); "" = nil / unknown wrapper -/
def envName : Msg → String
  | .gossip .. => "Envelope_Gossip"
  | .state .. => "Envelope_State"
  | .txSet .. => "Envelope_TransactionSet"
  | .listQuery .. => "Envelope_TransactionListQuery"
  | .rangeQuery .. => "Envelope_TransactionRangeQuery"
  | .txList .. => "Envelope_TransactionList"
  | .payloadQuery .. => "Envelope_TransactionPayloadQuery"
  | .payload .. => "Envelope_TransactionPayload"
  | .diagnostics => "Envelope_DiagnosticsBroadcast"
  | .unsupported => ""

/-- the switch of `protocol.handle` as a table (REGENERATED: Facts.C07.dispatch, entries `Type->target`, a target
    starting with `channel:` is the non-blocking send) -/
def routeName (tbl : List (String × String)) (name : String) : Route :=
  match tbl.find? (fun e => e.1 == name) with
  | none => .unsupported
  | some e => if e.2 == "channel" then .listChan else .async

def routeOf (tbl : List (String × String)) (m : Msg) : Route := routeName tbl (envName m)

/-- the errors `Handle` tells apart (Go variable names) -/
inductive HErr where
  | canceled       -- context.Canceled
  | internal       -- errInternalError
  | notSupported   -- errMessageNotSupported
  | other (what : String)
  deriving DecidableEq, Repr, Inhabited

def HErr.name : HErr → String
  | .canceled => "context.Canceled"
  | .internal => "errInternalError"
  | .notSupported => "errMessageNotSupported"
  | .other w => w

/-- `err == allowedError` for some element of `allowedErrors` (identity of error VALUES: an error that is none of the
    package's named error variables is never identical to an element of the list) -/
def HErr.allowedBy (allowed : List String) : HErr → Bool
  | .other _ => false
  | e => allowed.contains e.name

/-- `protocol.Handle` after `err := p.handle(...)`: `if err != nil && err != context.Canceled { for allowed … return err;
    return errInternalError }; return nil` -/
def handleRet (allowed : List String) : Option HErr → Option HErr
  | none => none
  | some .canceled => none
  | some e => if e.allowedBy allowed then some e else some .internal

/-- one node with its dispatcher state -/
structure DNode where
  node : Node
  /-- `p.listHandler.ch`, oldest first -/
  chan : List (Peer × Msg) := []
  /-- goroutines started by `handleASync` that did not run their handler yet -/
  pending : List (Peer × Msg) := []

/-- `protocol.handle` -/
def dispatchMsg (rt : Msg → Route) (cap : Nat) (d : DNode) (peer : Peer) (m : Msg) : DNode × Option HErr :=
  match rt m with
  | .unsupported => (d, some .notSupported)
  | .listChan =>
    if d.chan.length < cap then ({ d with chan := d.chan ++ [(peer, m)] }, none)
    else (d, none)      -- `default:` "channel full", the list is dropped, nil is returned
  | .async => ({ d with pending := d.pending ++ [(peer, m)] }, none)

/-- `protocol.Handle` -/
def Handle (allowed : List String) (rt : Msg → Route) (cap : Nat) (d : DNode) (peer : Peer) (m : Msg) : DNode × Option HErr :=
  ((dispatchMsg rt cap d peer m).1, handleRet allowed (dispatchMsg rt cap d peer m).2)

inductive Ev where
  | arrive (peer : Peer) (m : Msg)
  | listRun
  | asyncRun (i : Nat)
  deriving Repr, Inhabited

/-- the messages a schedule hands to `Handle`, in order -/
def arrivals : List Ev → List (Peer × Msg)
  | [] => []
  | .arrive p m :: r => (p, m) :: arrivals r
  | _ :: r => arrivals r

structure Params where
  cfg : Cfg
  env : Env
  rt : Msg → Route
  cap : Nat
  allowed : List String

/-- one event; second component = the message whose handler ran (if any) -/
def stepEv (P : Params) (d : DNode) : Ev → DNode × List (Peer × Msg)
  | .arrive p m => ((Handle P.allowed P.rt P.cap d p m).1, [])
  | .listRun =>
    match d.chan with
    | [] => (d, [])
    | x :: rest => ({ d with node := (handle P.cfg P.env d.node x.1 x.2).node, chan := rest }, [x])
  | .asyncRun i =>
    match d.pending[i]? with
    | none => (d, [])
    | some x => ({ d with node := (handle P.cfg P.env d.node x.1 x.2).node, pending := d.pending.eraseIdx i }, [x])

/-- a whole schedule; second component = the handler invocations in the order they ran -/
def run (P : Params) (d : DNode) : List Ev → DNode × List (Peer × Msg)
  | [] => (d, [])
  | e :: r => ((run P (stepEv P d e).1 r).1, (stepEv P d e).2 ++ (run P (stepEv P d e).1 r).2)

/-- running handlers one after the other (what the abstract network layer `World.recv` does per delivery) -/
def foldHandle (cfg : Cfg) (env : Env) (n : Node) : List (Peer × Msg) → Node
  | [] => n
  | x :: r => foldHandle cfg env (handle cfg env n x.1 x.2).node r

end Nuts.Proto.Disp
