/-
  Loss-free protocol rounds between two connected nodes, built from the handlers: the puller `a` receives the
  gossip of `b` and the two exchange the resulting request/response messages batch by batch (every message of a
  batch is delivered, in the order sent) until nothing is in flight. TransactionPayloadQuery / TransactionPayload
  messages are not part of the reconciliation and stay in flight (delay). A round is a particular fair schedule of
  `World` steps (see `Lemmas/C07Live.lean: pullRound_is_run`).
-/
import NutsModel.C07.Net

namespace Nuts.Proto

/-- messages that drive set reconciliation -/
def driving : Msg → Bool
  | .gossip .. => true | .state .. => true | .txSet .. => true | .listQuery .. => true
  | .rangeQuery .. => true | .txList .. => true
  | _ => false

/-- the driving messages among `out` that go to peer `key` -/
def toPeer (key : Nat) (out : Out) : List Msg :=
  (out.filter (fun o => o.1 == key && driving o.2)).map (·.2)

/-- node `n` handles `msgs` arriving from `p` in order; returns the driving messages it sends back to `p` -/
def absorb (cfg : Cfg) (env : Env) (n : Node) (p : Peer) : List Msg → Node × List Msg
  | [] => (n, [])
  | m :: ms =>
    let r := handle cfg env n p m
    let rest := absorb cfg env r.node p ms
    (rest.1, toPeer p.key r.out ++ rest.2)

/-- `pB` is how `a` sees `b`, `pA` is how `b` sees `a` -/
def pingPong (cfg : Cfg) (env : Env) (pA pB : Peer) : Nat → Node → Node → List Msg → Node × Node
  | 0, a, b, _ => (a, b)
  | fuel + 1, a, b, toB =>
    if toB.isEmpty then (a, b)
    else
      let rb := absorb cfg env b pA toB
      let ra := absorb cfg env a pB rb.2
      pingPong cfg env pA pB fuel ra.1 rb.1 ra.2

/-- one loss-free round started by `b`'s gossip tick: `a` pulls what it misses from `b` -/
def pullRound (cfg : Cfg) (env : Env) (pA pB : Peer) (fuel : Nat) (a b : Node) : Node × Node :=
  let t := gossipTick b pA.key
  let ra := absorb cfg env a pB (toPeer pA.key t.out)
  pingPong cfg env pA pB fuel ra.1 t.node ra.2

/-- "conversations that lost a message eventually expire": enough time passes, the evictor runs -/
def expireAll (n : Node) : Node :=
  evict { n with now := n.now + n.convs.foldl (fun m c => max m c.expiry) 0 }

/-- a fair round pair: stale conversations expire, `a` pulls from `b`, then `b` pulls from `a` -/
def roundPair (cfg : Cfg) (env : Env) (pA pB : Peer) (fuel : Nat) (ab : Node × Node) : Node × Node :=
  let r1 := pullRound cfg env pA pB fuel (expireAll ab.1) (expireAll ab.2)
  let r2 := pullRound cfg env pB pA fuel r1.2 r1.1
  (r2.2, r2.1)

def roundPairs (cfg : Cfg) (env : Env) (pA pB : Peer) (fuel : Nat) : Nat → Node × Node → Node × Node
  | 0, ab => ab
  | k + 1, ab => roundPairs cfg env pA pB fuel k (roundPair cfg env pA pB fuel ab)

end Nuts.Proto
