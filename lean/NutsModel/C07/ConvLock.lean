/-
  C07 deepening round 3: THE LOCK DISCIPLINE OF conversation.go's `conversationManager`.

  Every request sender (`sendState`, `sendTransactionListQuery`, `sendTransactionRangeQuery` -> `startConversation`), every
  response handler (`check`, `done`, `resetTimeout`) and the evict ticker take `cMan.mutex`. A method that returns with the
  mutex still held blocks every later request and response of the node: no further reconciliation, no convergence. The
  property's "stale or unsolicited responses / refused requests may slow this down but never prevent it" therefore needs:
  EVERY exit of EVERY method releases what it locked.

  The extractor lists, per method, the mutex events and the `return`s in source order with their block nesting depth
  (Facts.C07.convLockEvents). `okFrom` is the executable check: mutex events only as statements of the method body
  (depth 0: every path runs them, in this order), never more unlocks than locks, and at every `return` and at the end of
  the body the deferred unlocks bring both counters (writer, reader) to zero. Core Lean only.
-/
namespace Nuts.Proto.ConvLock

inductive LEv where
  | lock (reader : Bool)          -- cMan.mutex.Lock() / RLock()
  | unlock (reader : Bool)        -- cMan.mutex.Unlock() / RUnlock()
  | deferUnlock (reader : Bool)   -- defer cMan.mutex.Unlock() / RUnlock()
  | ret                           -- return
  | goStmt                        -- go func(){…}() (body not entered)
  | unknown                       -- anything else the extractor printed
  deriving DecidableEq, Repr, Inhabited

def evOf (s : String) : LEv :=
  if s == "Lock" then .lock false else if s == "RLock" then .lock true
  else if s == "Unlock" then .unlock false else if s == "RUnlock" then .unlock true
  else if s == "defer Unlock" then .deferUnlock false else if s == "defer RUnlock" then .deferUnlock true
  else if s == "return" then .ret else if s == "go" then .goStmt else .unknown

/-- what a running method holds: writer locks, reader locks, deferred unlocks (of the writer / of the reader lock) -/
structure LSt where
  w : Int := 0
  r : Int := 0
  dw : Int := 0
  dr : Int := 0
  deriving DecidableEq, Repr, Inhabited

def stepL (s : LSt) : LEv → LSt
  | .lock false => { s with w := s.w + 1 }
  | .lock true => { s with r := s.r + 1 }
  | .unlock false => { s with w := s.w - 1 }
  | .unlock true => { s with r := s.r - 1 }
  | .deferUnlock false => { s with dw := s.dw + 1 }
  | .deferUnlock true => { s with dr := s.dr + 1 }
  | _ => s

/-- locks still held after the deferred calls ran -/
def heldAtExit (s : LSt) : Int × Int := (s.w - s.dw, s.r - s.dr)

def balanced (s : LSt) : Bool := heldAtExit s == (0, 0)

/-- no unlock of an unlocked mutex (a Go runtime fatal error) -/
def sane (s : LSt) : Bool := decide (0 ≤ s.w) && decide (0 ≤ s.r)

def isMutexEv : LEv → Bool
  | .lock _ | .unlock _ | .deferUnlock _ => true
  | _ => false

/-- the check over the (depth, event) list of one method -/
def okFrom (s : LSt) : List (Nat × LEv) → Bool
  | [] => balanced s
  | (d, e) :: rest =>
    match e with
    | .unknown => false
    | .ret => balanced s && okFrom s rest
    | .goStmt => okFrom s rest
    | e => d == 0 && sane (stepL s e) && okFrom (stepL s e) rest

def methodOK (evs : List (Nat × String)) : Bool := okFrom {} (evs.map (fun x => (x.1, evOf x.2)))

/-- state when control reaches position `pre.length` of the event list having run every mutex event before it -/
def stateAfter (s : LSt) (pre : List (Nat × LEv)) : LSt := pre.foldl (fun a x => stepL a x.2) s

end Nuts.Proto.ConvLock
