/-
  Abstract DAG state, payload store, gossip queues and conversation manager.
  Mirrors: dag/state.go (Add, XOR, IBLT, FindBetweenLC, Read/WritePayload), dag/verifier.go
  (NewPrevTransactionsVerifier), dag/dag.go (addSingle root rule), gossip/queue.go, gossip/manager.go,
  transport/v2/conversation.go.
-/
import NutsModel.C07.Types

namespace Nuts.Proto

/-! ### DAG -/

def present (d : List Tx) (r : Ref) : Bool := d.any (fun t => t.ref == r)
def getTx (d : List Tx) (r : Ref) : Option Tx := d.find? (fun t => t.ref == r)
def xorStep (a : Ref) (t : Tx) : Ref := a ^^^ t.ref
def xorOf (d : List Tx) : Ref := d.foldl xorStep 0
def lcStep (a : Nat) (t : Tx) : Nat := if a < t.clock then t.clock else a
/-- `lamportClockHigh` -/
def lcOf (d : List Tx) : Nat := d.foldl lcStep 0

/-- `State.IBLT(lc)`: the refs on all pages up to and including the page of `lc` -/
def ibltSet (cfg : Cfg) (d : List Tx) (lc : Nat) : List Ref :=
  (d.filter (fun t => pageOf cfg t.clock ≤ pageOf cfg lc)).map (·.ref)

def txLt (a b : Tx) : Bool := a.clock < b.clock || (a.clock == b.clock && a.ref < b.ref)

/-- `State.FindBetweenLC`: by clock, then by ref -/
def findBetween (d : List Tx) (start stop : Nat) : List Tx :=
  Nuts.sortBy txLt (d.filter (fun t => start ≤ t.clock && t.clock < stop))

/-- highest clock of the prevs + 1 (0 without prevs); prevs are present when this is used -/
def expectedClock (d : List Tx) (prevs : List Ref) : Nat :=
  match prevs.filterMap (getTx d) with
  | [] => 0
  | ps => lcOf ps + 1

def readPayload (n : Node) (h : Ref) : Option Payload := Nuts.alGet n.payloads h

inductive AddRes where
  | added | present | prevMissing | badClock | badSig | payloadMismatch | rootExists
  deriving DecidableEq, Repr, Inhabited

def AddRes.cls : AddRes → String
  | .added => "ok" | .present => "ok" | .prevMissing => "prev-missing" | .badClock => "err:add-clock"
  | .badSig => "err:add-sig" | .payloadMismatch => "err:add-payload-hash" | .rootExists => "err:add-root"

def payloadMismatch (payload : Option Payload) (tx : Tx) : Bool :=
  match payload with
  | some p => p.sha != tx.payloadHash
  | none => false

/-- the decision of `state.Add`: presence, verifiers in registration order (prevs+clock, signature),
    then inside the write transaction the payload hash and the single-root rule -/
def addCheck (d : List Tx) (tx : Tx) (payload : Option Payload) : AddRes :=
  if present d tx.ref then .present
  else if !(tx.prevs.all (present d)) then .prevMissing
  else if tx.clock != expectedClock d tx.prevs then .badClock
  else if !tx.sigOK then .badSig
  else if payloadMismatch payload tx then .payloadMismatch
  else if tx.prevs.isEmpty && d.any (fun t => t.clock == 0) then .rootExists
  else .added

/-! ### gossip queues (uniqueList = list without duplicates, insertion order) -/

def uAdd (l : List Ref) (r : Ref) : List Ref := if l.contains r then l else l ++ [r]

/-- `peerQueue.enqueue(clock, xor, ref)` -/
def PeerQueue.enqueue (cfg : Cfg) (q : PeerQueue) (clock : Nat) (xor : Ref) (r : Ref) : PeerQueue :=
  let q := { q with xor := xor, clock := clock }
  if q.queue.length ≥ cfg.maxQueue then q
  else if q.log.contains r then q
  else { q with queue := uAdd q.queue r }

def logStep (cfg : Cfg) (q : PeerQueue) (r : Ref) : PeerQueue :=
  let log := uAdd q.log r
  let queue := q.queue.filter (fun x => x != r)
  let log := if log.length > cfg.maxQueue then log.drop 1 else log
  { q with log := log, queue := queue }

/-- `peerQueue.logReceivedTransactions(refs...)` -/
def PeerQueue.logReceived (cfg : Cfg) (q : PeerQueue) (refs : List Ref) : PeerQueue :=
  refs.foldl (logStep cfg) q

/-- `manager.GossipReceived(peer, refs...)`: unknown peer = no-op (error is logged) -/
def gossipReceived (cfg : Cfg) (n : Node) (peer : Nat) (refs : List Ref) : Node :=
  { n with queues := n.queues.map (fun q => if q.peer == peer then q.logReceived cfg refs else q) }

/-- `manager.TransactionRegistered(ref, xor, clock)` -/
def transactionRegistered (cfg : Cfg) (n : Node) (r : Ref) : Node :=
  let xor := xorOf n.dag
  let clock := lcOf n.dag
  { n with queues := n.queues.map (fun q => q.enqueue cfg clock xor r) }

/-- `protocol.connectionStateCallback(StateConnected)` → `PeerConnected(peer, xor, clock)` -/
def peerConnected (n : Node) (p : Peer) : Node :=
  let n := { n with peers := n.peers ++ [p] }
  if n.queues.any (fun q => q.peer == p.key) then n
  else { n with queues := n.queues ++ [{ peer := p.key, xor := xorOf n.dag, clock := lcOf n.dag }] }

/-- what can happen to a connection: the object flips before the state callback runs (`down`/`up`), or the callback runs
    (`disconnect` → `PeerDisconnected` drops the gossip queue; `connect` → `PeerConnected` creates one unless it exists) -/
inductive ConnMode where
  | down | up | disconnect | connect
  deriving DecidableEq, Repr, Inhabited

def setConnected (n : Node) (key : Nat) (b : Bool) : Node :=
  { n with peers := n.peers.map (fun p => if p.key == key then { p with connected := b } else p) }

def connChange (n : Node) (key : Nat) : ConnMode → Node
  | .down => setConnected n key false
  | .up => setConnected n key true
  | .disconnect => { setConnected n key false with queues := n.queues.filter (fun q => q.peer != key) }
  | .connect =>
    let n1 := setConnected n key true
    if n1.queues.any (fun q => q.peer == key) then n1
    else { n1 with queues := n1.queues ++ [{ peer := key, xor := xorOf n1.dag, clock := lcOf n1.dag }] }

/-- a process restart: conversations, gossip logs and queues are volatile; DAG, payloads and connections' identities are
    not; on start-up every connected peer gets a fresh queue with the current XOR and clock (loaded from disk) -/
def restartNode (n : Node) : Node :=
  { n with convs := [], lastConv := [],
           queues := (n.peers.filter (·.connected)).map (fun p => { peer := p.key, xor := xorOf n.dag, clock := lcOf n.dag }) }

/-! ### conversations -/

def ConvData.blockable (cfg : Cfg) : ConvData → Bool
  | .state _ => cfg.blockState
  | .listQuery _ => cfg.blockList
  | .rangeQuery _ _ => cfg.blockRange

def findConv (n : Node) (cid : Cid) : Option Conv := n.convs.find? (fun c => c.cid == cid)

/-- `hasActiveConversation(peer)` -/
def hasActive (n : Node) (peer : Nat) : Bool :=
  match Nuts.alGet n.lastConv peer with
  | none => false
  | some cid =>
    match findConv n cid with
    | none => false
    | some c => c.expiry > n.now

/-- `startConversation`: none = refused because a blocking conversation with the peer is active -/
def startConversation (cfg : Cfg) (n : Node) (peer : Nat) (data : ConvData) : Option (Node × Cid) :=
  if data.blockable cfg && hasActive n peer then none
  else
    let cid : Cid := (n.id, n.nextCid)
    let n1 := { n with nextCid := n.nextCid + 1,
                       convs := { cid := cid, expiry := n.now + cfg.validity, data := data } :: n.convs }
    some (if data.blockable cfg then { n1 with lastConv := Nuts.alPut n1.lastConv peer cid } else n1, cid)

/-- `conversationManager.done(cid)` -/
def convDone (n : Node) (cid : Cid) : Node := { n with convs := n.convs.filter (fun c => c.cid != cid) }

/-- `conversationManager.resetTimeout(cid)` -/
def resetTimeout (cfg : Cfg) (n : Node) (cid : Cid) : Node :=
  { n with convs := n.convs.map (fun c => if c.cid == cid then { c with expiry := n.now + cfg.validity } else c) }

/-- `conversationManager.evict()`; the instant `expiry = now` has measure zero in real time and is
    counted as expired (consistently with `hasActive`) -/
def evict (n : Node) : Node := { n with convs := n.convs.filter (fun c => c.expiry > n.now) }

/-! ### State.Add: the add mutex (network/dag/state.go Add, go-stoabs bbolt doTX) -/

/-- how `db.Write(fn, hooks…)` can end -/
inductive WriteExit where
  | committed      -- fn ok, commit ok: the AfterCommit hooks run
  | fnError        -- fn returned an error: rollback, the OnRollback hooks run
  | commitError    -- commit failed / context expired at commit: rollback, the OnRollback hooks run
  | noTransaction  -- failed BEFORE a transaction existed (write lock not obtained in time, store closed, Begin failed): NO hook runs
  deriving DecidableEq, Repr

/-- where `Add` releases `addMutex` -/
structure AddUnlock where
  deferred : Bool       -- `defer unlock()` at the top level of Add
  afterCommit : Bool    -- registered as `stoabs.AfterCommit` hook
  onRollback : Bool     -- released inside the `stoabs.OnRollback` handler
  once : Bool           -- the release goes through a `sync.Once`
  deriving DecidableEq, Repr

def hookUnlocks (u : AddUnlock) : WriteExit → Nat
  | .committed => if u.afterCommit then 1 else 0
  | .fnError => if u.onRollback then 1 else 0
  | .commitError => if u.onRollback then 1 else 0
  | .noTransaction => 0

def requestedUnlocks (u : AddUnlock) (e : WriteExit) : Nat :=
  hookUnlocks u e + (if u.deferred then 1 else 0)

/-- number of `addMutex.Unlock()` calls on this exit of Add (0 = the mutex stays locked for ever, 2 = unlock of an unlocked mutex) -/
def unlockCalls (u : AddUnlock) (e : WriteExit) : Nat :=
  if u.once then Nat.min (requestedUnlocks u e) 1 else requestedUnlocks u e

end Nuts.Proto
