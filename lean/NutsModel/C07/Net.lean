/-
  The network: nodes + the log of every message ever handed to `Connection.Send`. The adversarial
  scheduler may deliver any logged message any number of times (duplication, reordering, delay), never
  (loss), inject arbitrary messages, tick gossip, advance clocks, evict conversations, and let nodes
  create transactions.
-/
import NutsModel.C07.Handlers

namespace Nuts.Proto

structure Packet where
  src : Nat
  dst : Nat
  msg : Msg
  deriving Repr, Inhabited

structure World where
  nodes : List Node
  sent : List Packet := []
  deriving Repr, Inhabited

inductive Step where
  | deliver (i : Nat) (env : Env)
  | inject (src dst : Nat) (m : Msg) (env : Env)
  | tick (n peer : Nat)
  | advance (n dt : Nat)
  | evict (n : Nat)
  | create (n : Nat) (tx : Tx) (payload : Option Payload) (env : Env)
  | conn (n peer : Nat) (mode : ConnMode)
  | restart (n : Nat)

def peerOf (n : Node) (src : Nat) : Option Peer := n.peers.find? (fun p => p.key == src)

def refLt (a b : Tx) : Bool := a.ref < b.ref

/-- the immediate re-attempts of the private payload scheduler, run at the end of the step in ref order -/
def retryOut (env : Env) (n : Node) (txs : List Tx) : Out :=
  (Nuts.sortBy refLt txs).flatMap (privateRetry env n)

def World.post (env : Env) (w : World) (at_ : Nat) (r : HR) : World :=
  { nodes := w.nodes.set at_ r.node,
    sent := w.sent ++ (r.out ++ retryOut env r.node r.retry).map (fun o => { src := at_, dst := o.1, msg := o.2 }) }

/-- node `dst` handles message `m` arriving on its connection with `src` -/
def World.recv (cfg : Cfg) (w : World) (src dst : Nat) (m : Msg) (env : Env) : World × Option HR :=
  match w.nodes[dst]? with
  | none => (w, none)
  | some n =>
    match peerOf n src with
    | none => (w, none)
    | some p => let r := handle cfg env n p m; (w.post env dst r, some r)

def World.stepR (cfg : Cfg) (w : World) : Step → World × Option HR
  | .deliver i env =>
    match w.sent[i]? with
    | none => (w, none)
    | some pk => w.recv cfg pk.src pk.dst pk.msg env
  | .inject src dst m env => w.recv cfg src dst m env
  | .tick i peer =>
    match w.nodes[i]? with
    | none => (w, none)
    | some n => let r := gossipTick n peer; ({ nodes := w.nodes.set i r.node, sent := w.sent ++ r.out.map (fun o => { src := i, dst := o.1, msg := o.2 }) }, some r)
  | .advance i dt =>
    match w.nodes[i]? with
    | none => (w, none)
    | some n => ({ w with nodes := w.nodes.set i { n with now := n.now + dt } }, none)
  | .evict i =>
    match w.nodes[i]? with
    | none => (w, none)
    | some n => ({ w with nodes := w.nodes.set i (evict n) }, none)
  | .conn i peer mode =>
    match w.nodes[i]? with
    | none => (w, none)
    | some n => ({ w with nodes := w.nodes.set i (connChange n peer mode) }, none)
  | .restart i =>
    match w.nodes[i]? with
    | none => (w, none)
    | some n => ({ w with nodes := w.nodes.set i (restartNode n) }, none)
  | .create i tx payload env =>
    match w.nodes[i]? with
    | none => (w, none)
    | some n =>
      let (n1, out, res) := addTx cfg env n tx payload
      let r : HR := { node := n1, out := out, ret := res.cls,
                      retry := if res == .added && needsRetry env n1 tx then [tx] else [] }
      (w.post env i r, some r)

/-- the DAG of node `i` ([] if there is no such node) -/
def World.dag (w : World) (i : Nat) : List Tx := ((w.nodes[i]?).map (·.dag)).getD []

def World.step (cfg : Cfg) (w : World) (s : Step) : World := (w.stepR cfg s).1

def World.run (cfg : Cfg) (w : World) (sched : List Step) : World := sched.foldl (World.step cfg) w

end Nuts.Proto
