/-
  The protocol handlers as pure functions `Node → Peer → Msg → HR` with the branch structure of
  transport/v2/handlers.go, transactionlist_handler.go, senders.go, protocol.go (decryptPAL,
  handlePrivateTxRetry, sendGossip) and gossip/manager.go (callSenders).
-/
import NutsModel.C07.Dag

namespace Nuts.Proto

/-! ### PAL decryption (dag/pal.go EncryptedPAL.Decrypt, protocol.go decryptPAL) -/

inductive PalRes where
  | err (why : String)          -- decryptPAL returned an error
  | notForUs                    -- (nil, nil)
  | pal (dids : List String)
  deriving DecidableEq, Repr, Inhabited

/-- inner loop over the key ids for one ciphertext: `some r` = stop with r, `none` = try next ciphertext -/
def tryKeys (env : Env) (cipher : Nat) : List Kak → Option DecRes
  | [] => none
  | k :: ks =>
    match (if k.held then env.dec k.kid cipher else .notFound) with
    | .notFound => some .notFound
    | .ok p => some (.ok p)
    | .fail => tryKeys env cipher ks

def tryCiphers (env : Env) (kaks : List Kak) : List Nat → Option DecRes
  | [] => none
  | c :: cs =>
    match tryKeys env c kaks with
    | some r => some r
    | none => tryCiphers env kaks cs

def parseDids : List (Option String) → Option (List String)
  | [] => some []
  | none :: _ => none
  | some d :: rest => (parseDids rest).map (d :: ·)

def decryptPAL (env : Env) (n : Node) (epal : List Nat) : PalRes :=
  if n.did == "" then .err "node DID is not set"
  else if !n.resolvable then .err "resolve"
  else
    match tryCiphers env n.kaks epal with
    | some .notFound => .err "private key not found"
    | some (.ok []) => .notForUs
    | some (.ok plain) =>
      match parseDids plain with
      | none => .err "invalid participant"
      | some dids => .pal dids
    | _ => .notForUs

/-! ### senders -/

def sendRequest (cfg : Cfg) (n : Node) (peer : Nat) (data : ConvData) (mk : Cid → Msg) : HR :=
  match startConversation cfg n peer data with
  | none => { node := n }
  | some (n', cid) => { node := n', out := [(peer, mk cid)] }

def sendState (cfg : Cfg) (n : Node) (peer : Nat) (xor : Ref) (clock : Nat) : HR :=
  sendRequest cfg n peer (.state clock) (fun cid => .state cid xor clock)

def sendListQuery (cfg : Cfg) (n : Node) (peer : Nat) (refs : List Ref) : HR :=
  sendRequest cfg n peer (.listQuery refs) (fun cid => .listQuery cid refs)

def sendRangeQuery (cfg : Cfg) (n : Node) (peer : Nat) (a b : Nat) : HR :=
  sendRequest cfg n peer (.rangeQuery a b) (fun cid => .rangeQuery cid a b)

def netSize (cfg : Cfg) (t : NetTx) : Nat :=
  (match t.payload with | some p => p.len | none => 0) + (match t.tx with | some x => x.size | none => 0) + cfg.txOverhead

/-- loop state of `chunkTransactionList`: finished chunks (reversed), current chunk (reversed), its size.
    `cur` plays the role of `transactions[startIndex:endIndex]`. -/
def chunkStep (cfg : Cfg) (st : List (List NetTx) × List NetTx × Nat) (t : NetTx) : List (List NetTx) × List NetTx × Nat :=
  let (done, cur, size) := st
  let sz := netSize cfg t
  if size + sz > cfg.maxMsg - cfg.msgOverhead then (cur.reverse :: done, [t], sz)
  else (done, t :: cur, size + sz)

def chunkTransactionList (cfg : Cfg) (l : List NetTx) : List (List NetTx) :=
  let (done, cur, _) := l.foldl (chunkStep cfg) ([], [], 0)
  -- `if startIndex != len(transactions)`: the trailing chunk is non-empty
  if cur.isEmpty then done.reverse else (cur.reverse :: done).reverse

def numberChunks (cid : Cid) (total : Nat) : Nat → List (List NetTx) → List Msg
  | _, [] => []
  | i, c :: cs => Msg.txList cid (i + 1) total c :: numberChunks cid total (i + 1) cs

def sendTransactionList (cfg : Cfg) (peer : Nat) (cid : Cid) (l : List NetTx) : Out :=
  let chunks := chunkTransactionList cfg l
  (numberChunks cid chunks.length 0 chunks).map (fun m => (peer, m))

/-- `collectTransactionList`: none = a public transaction has no payload in the store (error, nothing is sent) -/
def collect (n : Node) : List Tx → Option (List NetTx)
  | [] => some []
  | t :: ts =>
    if t.pal.isEmpty then
      match readPayload n t.payloadHash with
      | none => none
      | some p => (collect n ts).map (fun r => { tx := some t, payload := some p } :: r)
    else (collect n ts).map (fun r => { tx := some t, payload := none } :: r)

/-! ### adding a transaction and its after-commit notifications -/

def firstConn (n : Node) (did : String) : Option Peer :=
  n.peers.find? (fun p => p.connected && p.did == did && p.authenticated)

/-- `handlePrivateTxRetry`: the TransactionPayloadQuery broadcast to connected authenticated participants -/
def privateRetry (env : Env) (n : Node) (tx : Tx) : Out :=
  if (readPayload n tx.payloadHash).isSome then []
  else match decryptPAL env n tx.pal with
    | .pal dids => dids.filterMap (fun d => (firstConn n d).map (fun p => (p.key, Msg.payloadQuery tx.ref)))
    | _ => []

/-- does the "private" notifier schedule an immediate re-attempt after the synchronous one? (not finished, not fatal) -/
def needsRetry (env : Env) (n : Node) (tx : Tx) : Bool :=
  !tx.pal.isEmpty && n.hasReceiver && (readPayload n tx.payloadHash).isNone &&
    (match decryptPAL env n tx.pal with | .pal _ => true | _ => false)

def putPayload (ps : List (Ref × Payload)) : Option Payload → List (Ref × Payload)
  | some p => Nuts.alPut ps p.sha p
  | none => ps

/-- the write transaction of `state.Add` plus the "gossip" notifier (`TransactionRegistered`) -/
def commitTx (cfg : Cfg) (n : Node) (tx : Tx) (payload : Option Payload) : Node :=
  transactionRegistered cfg { n with dag := tx :: n.dag, payloads := putPayload n.payloads payload } tx.ref

/-- the "private" notifier's synchronous attempt -/
def notifyPrivate (env : Env) (n : Node) (tx : Tx) : Out :=
  if !tx.pal.isEmpty && n.hasReceiver then privateRetry env n tx else []

/-- `state.Add(tx, payload)` with the synchronous after-commit notifiers ("gossip", "private") -/
def addTx (cfg : Cfg) (env : Env) (n : Node) (tx : Tx) (payload : Option Payload) : Node × Out × AddRes :=
  match addCheck n.dag tx payload with
  | .added => (commitTx cfg n tx payload, notifyPrivate env (commitTx cfg n tx payload) tx, .added)
  | r => (n, [], r)

inductive LoopRes where
  | finished | noPayload | prevMissing | addErr (r : AddRes)
  deriving DecidableEq, Repr, Inhabited

def payloadEmpty : Option Payload → Bool
  | none => true
  | some p => p.len == 0

structure LoopOut where
  node : Node
  out : Out := []
  retry : List Tx := []
  res : LoopRes

/-- the `for i, tx := range txs` loop of `handleTransactionList` -/
def addLoop (cfg : Cfg) (env : Env) (n : Node) : List (Tx × Option Payload) → LoopOut
  | [] => { node := n, res := .finished }
  | (tx, pl) :: rest =>
    if tx.pal.isEmpty && payloadEmpty pl then { node := n, res := .noPayload }
    else
      match addTx cfg env n tx pl with
      | (n1, out1, .added) =>
        let r := addLoop cfg env n1 rest
        { r with out := out1 ++ r.out, retry := (if needsRetry env n1 tx then [tx] else []) ++ r.retry }
      | (n1, _, .present) => addLoop cfg env n1 rest
      | (_, _, .prevMissing) => { node := n, res := .prevMissing }
      | (_, _, r) => { node := n, res := .addErr r }

/-! ### conversation check -/

def parseAll : List NetTx → Option (List (Tx × Option Payload))
  | [] => some []
  | t :: ts =>
    match t.tx with
    | none => none
    | some x => (parseAll ts).map ((x, t.payload) :: ·)

/-- `conversationData.checkResponse(envelope)`: none = accepted -/
def checkResponse (data : ConvData) (m : Msg) : Option String :=
  match data, m with
  | .state lc, .txSet _ lcReq _ _ => if lc != lcReq then some "err:lcreq" else none
  | .listQuery refs, .txList _ _ _ txs =>
    match parseAll txs with
    | none => some "err:parse"
    | some ps => if ps.all (fun p => refs.contains p.1.ref) then none else some "err:not-requested"
  | .rangeQuery a b, .txList _ _ _ txs =>
    match parseAll txs with
    | none => some "err:parse"
    | some ps => if ps.all (fun p => a ≤ p.1.clock && p.1.clock < b) then none else some "err:out-of-range"
  | _, _ => some "err:wrong-type"

/-- `cMan.check(envelope)` -/
def convCheck (n : Node) (cid : Cid) (m : Msg) : Option String :=
  match findConv n cid with
  | none => some "err:unknown-conv"
  | some c => checkResponse c.data m

/-! ### handlers -/

def xorRefs (x : Ref) (refs : List Ref) : Ref := refs.foldl (· ^^^ ·) x

def handleGossip (cfg : Cfg) (n : Node) (peer : Peer) (pxor : Ref) (plc : Nat) (refs : List Ref) : HR :=
  let xor := xorOf n.dag
  let clock := lcOf n.dag
  if xor == pxor then { node := n }
  else
    let n1 := if refs.isEmpty then n else gossipReceived cfg n peer.key refs
    let news := refs.filter (fun r => !present n.dag r)
    if xorRefs xor news == pxor || (plc < clock && !news.isEmpty) then sendListQuery cfg n1 peer.key news
    else sendState cfg n1 peer.key xor clock

def handleState (cfg : Cfg) (n : Node) (peer : Peer) (cid : Cid) (pxor : Ref) (lc : Nat) : HR :=
  if xorOf n.dag == pxor then { node := n }
  else { node := n, out := [(peer.key, .txSet cid lc (lcOf n.dag) (.ofSet (ibltSet cfg n.dag lc)))] }

def handleTransactionSet (cfg : Cfg) (env : Env) (n : Node) (peer : Peer) (cid : Cid) (lcReq lc : Nat) (iblt : IbltV) : HR :=
  match convCheck n cid (.txSet cid lcReq lc iblt) with
  | some e => { node := n, ret := e }
  | none =>
    let n1 := convDone n cid
    let minLC := Nat.min lc lcReq
    match env.decode (ibltSet cfg n1.dag minLC) iblt with
    | .err => { node := n1, ret := "err:iblt" }
    | .fail =>
      if minLC < cfg.pageSize then sendRangeQuery cfg n1 peer.key 0 cfg.pageSize
      else sendState cfg n1 peer.key (xorOf n1.dag) (pageStart cfg (pageOf cfg minLC) - 1)
    | .ok missing =>
      if !missing.isEmpty then sendListQuery cfg n1 peer.key missing
      else
        let peerPage := pageOf cfg lc
        let localPage := pageOf cfg (lcOf n1.dag)
        let reqPage := pageOf cfg lcReq
        if peerPage > reqPage then
          if localPage > reqPage then
            sendRangeQuery cfg n1 peer.key (pageStart cfg (reqPage + cfg.nextOne.1)) (pageStart cfg (reqPage + cfg.nextOne.2))
          else
            sendRangeQuery cfg n1 peer.key (pageStart cfg (reqPage + cfg.nextTwo.1)) (pageStart cfg (reqPage + cfg.nextTwo.2))
        else { node := n1 }

def handleTransactionList (cfg : Cfg) (env : Env) (n : Node) (peer : Peer) (cid : Cid) (num total : Nat) (txs : List NetTx) : HR :=
  match convCheck n cid (.txList cid num total txs) with
  | some e => { node := n, ret := e }
  | none =>
    match parseAll txs with
    | none => { node := n, ret := "err:parse" }
    | some ps =>
      let l := addLoop cfg env n ps
      match l.res with
      | .finished =>
        { node := if num ≥ total then convDone l.node cid else resetTimeout cfg l.node cid, out := l.out, retry := l.retry }
      | .noPayload => { node := l.node, out := l.out, ret := "err:no-payload", retry := l.retry }
      | .prevMissing =>
        let r := sendState cfg (convDone l.node cid) peer.key (xorOf l.node.dag) (lcOf l.node.dag)
        { r with out := l.out ++ r.out, retry := l.retry }
      | .addErr e => { node := l.node, out := l.out, ret := e.cls, retry := l.retry }

def handleTransactionListQuery (cfg : Cfg) (env : Env) (n : Node) (peer : Peer) (cid : Cid) (refs : List Ref) : HR :=
  if refs.isEmpty then { node := n }
  else
    match collect n (env.order (refs.filterMap (getTx n.dag))) with
    | none => { node := n, ret := "err:missing-payload" }
    | some l => { node := n, out := sendTransactionList cfg peer.key cid l }

def handleTransactionRangeQuery (cfg : Cfg) (n : Node) (peer : Peer) (cid : Cid) (start stop : Nat) : HR :=
  if start ≥ stop then { node := n, ret := "err:invalid-range" }
  else
    let limit := start + cfg.rangePages * cfg.pageSize
    let stop' := if stop > limit then limit else stop
    match collect n (findBetween n.dag start stop') with
    | none => { node := n, ret := "err:missing-payload" }
    | some l => { node := n, out := sendTransactionList cfg peer.key cid l }

def emptyPayload (peer : Peer) (ref : Ref) : Out := [(peer.key, .payload ref none)]

def handleTransactionPayloadQuery (env : Env) (n : Node) (peer : Peer) (ref : Ref) : HR :=
  match getTx n.dag ref with
  | none => { node := n, out := emptyPayload peer ref }
  | some tx =>
    let release : HR :=
      match readPayload n tx.payloadHash with
      | none => { node := n, ret := "err:payload-not-found" }
      | some p => { node := n, out := [(peer.key, .payload ref (some p))] }
    if !tx.pal.isEmpty then
      if !peer.authenticated then { node := n, out := emptyPayload peer ref }
      else
        match decryptPAL env n tx.pal with
        | .err _ => { node := n, out := emptyPayload peer ref }
        | .notForUs => { node := n, out := emptyPayload peer ref }
        | .pal dids => if !dids.contains peer.did then { node := n, out := emptyPayload peer ref } else release
    else release

def handleTransactionPayload (n : Node) (ref : Ref) (data : Option Payload) : HR :=
  if ref == 0 then { node := n, ret := "err:empty-ref" }
  else
    match data with
    | none => { node := n, ret := "err:no-data" }
    | some p =>
      if p.len == 0 then { node := n, ret := "err:no-data" }
      else
        match getTx n.dag ref with
        | none => { node := n, ret := "err:unknown-tx" }
        | some tx =>
          if p.sha != tx.payloadHash then { node := n, ret := "err:hash-mismatch" }
          else
            -- `privatePayloadReceiver.Finished(ref)` is skipped when no receiver is configured (no node DID)
            { node := { n with payloads := Nuts.alPut n.payloads p.sha p } }

/-- `protocol.handle` with every handler run synchronously -/
def handle (cfg : Cfg) (env : Env) (n : Node) (peer : Peer) (m : Msg) : HR :=
  match m with
  | .gossip xor lc refs => handleGossip cfg n peer xor lc refs
  | .state cid xor lc => handleState cfg n peer cid xor lc
  | .txSet cid lcReq lc iblt => handleTransactionSet cfg env n peer cid lcReq lc iblt
  | .listQuery cid refs => handleTransactionListQuery cfg env n peer cid refs
  | .rangeQuery cid a b => handleTransactionRangeQuery cfg n peer cid a b
  | .txList cid num total txs => handleTransactionList cfg env n peer cid num total txs
  | .payloadQuery ref => handleTransactionPayloadQuery env n peer ref
  | .payload ref data => handleTransactionPayload n ref data
  | .diagnostics => { node := n }
  | .unsupported => { node := n, ret := "err:not-supported" }

/-- one gossip tick for one peer: `callSenders` → `sendGossip` → `sendGossipMsg`; the queue is cleared
    only when the message could be handed to a connection -/
def gossipTick (n : Node) (peer : Nat) : HR :=
  match n.queues.find? (fun q => q.peer == peer) with
  | none => { node := n }
  | some q =>
    if n.peers.any (fun p => p.key == peer && p.connected) then
      { node := { n with queues := n.queues.map (fun x => if x.peer == peer then { x with queue := [] } else x) },
        out := [(peer, .gossip q.xor q.clock q.queue)] }
    else { node := n, ret := "err:no-connection" }

end Nuts.Proto
