/-
  C07 deepening (2026-09-28): the IBLT of network/dag/tree/iblt.go INSIDE the model.
  Until now `Env.decode` (Subtract + Decode of `handleTransactionSet`) was an oracle with a measured contract (`DC`).
  This file mirrors the Go code: buckets (count, hashSum, keySum), Insert / Delete over `bucketIndices(hashKey(ref))`,
  Subtract with `validate`, the peeling loop of `Decode` (outer `for`, inner sweep over the buckets IN INDEX ORDER on
  the table being mutated, the `pures` map and ErrDecodeLoop, ErrDecodeNotPossible when a sweep peels nothing and the
  table is not empty), and `bucketIndices` (murmur3 hash chain bounded by ibltMaxChain, then linear probing).
  Third-party murmur3 is a parameter (`Hash`): `hashKey` = murmur3.SeedSum64(hc, ref), `chain0`/`chain` = murmur3.SeedSum32(hk, ·)
  on the 8 bytes of the key hash / the 4 bytes of the previous value. Core Lean only.
-/
import NutsModel.C07.Types

namespace Nuts.Proto.Iblt

/-- `tree.bucket` -/
structure Bucket where
  count : Int
  hashSum : Nat
  keySum : Ref
  deriving DecidableEq, Repr, Inhabited

def Bucket.zero : Bucket := ⟨0, 0, 0⟩
/-- `bucket.insert`: count++, update -/
def Bucket.ins (b : Bucket) (key : Ref) (h : Nat) : Bucket := ⟨b.count + 1, b.hashSum ^^^ h, b.keySum ^^^ key⟩
/-- `bucket.delete`: count--, update -/
def Bucket.del (b : Bucket) (key : Ref) (h : Nat) : Bucket := ⟨b.count - 1, b.hashSum ^^^ h, b.keySum ^^^ key⟩
/-- `bucket.subtract` -/
def Bucket.sub (b o : Bucket) : Bucket := ⟨b.count - o.count, b.hashSum ^^^ o.hashSum, b.keySum ^^^ o.keySum⟩
/-- `bucket.isEmpty` -/
def Bucket.isEmpty (b : Bucket) : Bool := decide (b = Bucket.zero)

/-- murmur3 as data -/
structure Hash where
  /-- `Iblt.hashKey` = murmur3.SeedSum64(hc, key) -/
  hashKey : Ref → Nat
  /-- murmur3.SeedSum32(hk, 8 little-endian bytes of the key hash) -/
  chain0 : Nat → Nat
  /-- murmur3.SeedSum32(hk, 4 little-endian bytes of the previous value) -/
  chain : Nat → Nat

/-- constants of iblt.go (regenerated: Facts/C07.lean `ibltK`, `ibltMaxChain`) -/
structure Par where
  k : Nat
  maxChain : Nat
  deriving Repr

/-! ### bucketIndices -/

/-- first loop of `bucketIndices`: walk the hash chain for at most `steps` steps, collecting unused buckets until `k`
    are found. State = (indices so far, `next`, last `bucketID`). -/
def chainLoop (H : Hash) (n k : Nat) : Nat → List Nat → Nat → Nat → List Nat × Nat
  | 0, acc, _, last => (acc, last)
  | steps + 1, acc, next, last =>
    if acc.length < k then
      let b := next % n
      let acc' := if acc.contains b then acc else acc ++ [b]
      chainLoop H n k steps acc' (H.chain next) b
    else (acc, last)

/-- second loop: linear probing from the last bucket, offsets `off .. n-1` -/
def probeLoop (n k last : Nat) : Nat → Nat → List Nat → List Nat
  | 0, _, acc => acc
  | cnt + 1, off, acc =>
    if acc.length < k then
      let p := (last + off) % n
      probeLoop n k last cnt (off + 1) (if acc.contains p then acc else acc ++ [p])
    else acc

/-- `Iblt.bucketIndices(hash)` for a table of `n` buckets (`n ≥ 1`: NewIblt forces n ≥ k, UnmarshalBinary of 0 buckets never inserts) -/
def bucketIndices (H : Hash) (P : Par) (n : Nat) (hash : Nat) : List Nat :=
  let k := if P.k > n then n else P.k
  let (acc, last) := chainLoop H n k P.maxChain [] (H.chain0 hash) 0
  probeLoop n k last (n - 1) 1 acc

/-! ### the table -/

abbrev Table := List Bucket

def zeroTable (n : Nat) : Table := List.replicate n Bucket.zero

/-- `i.buckets[h].f()`; `h < len(buckets)` always holds in Go (`% numBuckets`), see `bucketIndices_lt` -/
def modAt : Table → Nat → (Bucket → Bucket) → Table
  | [], _, _ => []
  | b :: t, 0, f => f b :: t
  | b :: t, i + 1, f => b :: modAt t i f

def insStep (key : Ref) (h : Nat) (t : Table) (i : Nat) : Table := modAt t i (fun b => b.ins key h)
def delStep (key : Ref) (h : Nat) (t : Table) (i : Nat) : Table := modAt t i (fun b => b.del key h)

/-- `Iblt.Insert(ref)` -/
def insert (H : Hash) (P : Par) (t : Table) (ref : Ref) : Table :=
  let kh := H.hashKey ref
  (bucketIndices H P t.length kh).foldl (insStep ref kh) t

/-- `Iblt.Delete(ref)` -/
def delete (H : Hash) (P : Par) (t : Table) (ref : Ref) : Table :=
  let kh := H.hashKey ref
  (bucketIndices H P t.length kh).foldl (delStep ref kh) t

/-- the IBLT of a list of refs (`State.IBLT`: every transaction inserted once) -/
def encode (H : Hash) (P : Par) (n : Nat) (refs : List Ref) : Table := refs.foldl (insert H P) (zeroTable n)

/-- `Iblt.Subtract(other)`: `validate` compares the bucket counts (hc, hk, k are constants after UnmarshalBinary) -/
def subtract (a b : Table) : Option Table :=
  if a.length != b.length then none else some (List.zipWith Bucket.sub a b)

/-- `Iblt.Empty` -/
def isEmpty (t : Table) : Bool := t.all Bucket.isEmpty

/-! ### Decode -/

structure DSt where
  tab : Table
  pures : List Ref
  remaining : List Ref
  missing : List Ref
  updated : Bool
  deriving Repr

/-- the test of the inner loop: count = ±1 and hashKey(keySum) = hashSum -/
def Bucket.pure (H : Hash) (b : Bucket) : Bool := (b.count == 1 || b.count == -1) && H.hashKey b.keySum == b.hashSum

/-- body of `for idx := range i.buckets`; `none` = ErrDecodeLoop -/
def peelAt (H : Hash) (P : Par) (st : DSt) (idx : Nat) : Option DSt :=
  match st.tab[idx]? with
  | none => some st
  | some b =>
    if b.pure H then
      let txRef := b.keySum
      if st.pures.contains txRef then none
      else if b.count == 1 then
        some { st with tab := delete H P st.tab txRef, pures := txRef :: st.pures, remaining := st.remaining ++ [txRef], updated := true }
      else
        some { st with tab := insert H P st.tab txRef, pures := txRef :: st.pures, missing := st.missing ++ [txRef], updated := true }
    else some st

/-- one pass over the buckets in index order, on the table as it is being modified -/
def sweep (H : Hash) (P : Par) : List Nat → DSt → Option DSt
  | [], st => some st
  | i :: is, st =>
    match peelAt H P st i with
    | none => none
    | some st' => sweep H P is st'

inductive DecOut where
  | ok (remaining missing : List Ref)
  | notPossible (remaining missing : List Ref)   -- ErrDecodeNotPossible
  | loop                                          -- ErrDecodeLoop
  | fuel                                          -- the model's bound on outer iterations ran out (never under `Faithful`)
  deriving DecidableEq, Repr, Inhabited

/-- `Iblt.Decode`: the outer `for {}`; every outer iteration but the last adds a new entry to `pures` -/
def decodeLoop (H : Hash) (P : Par) : Nat → Table → List Ref → List Ref → List Ref → DecOut
  | 0, _, _, _, _ => .fuel
  | fuel + 1, tab, pures, rem, mis =>
    match sweep H P (List.range tab.length) { tab := tab, pures := pures, remaining := rem, missing := mis, updated := false } with
    | none => .loop
    | some st =>
      if st.updated then decodeLoop H P fuel st.tab st.pures st.remaining st.missing
      else if isEmpty st.tab then .ok st.remaining st.missing
      else .notPossible st.remaining st.missing

def decode (H : Hash) (P : Par) (fuel : Nat) (t : Table) : DecOut := decodeLoop H P fuel t [] [] []

/-- what `handleTransactionSet` does with the peer's IBLT: `iblt := state.IBLT(minLC); iblt.Subtract(peer); iblt.Decode()`;
    only `missing` is used; ErrDecodeNotPossible = page fallback, any other error is returned -/
def decodeAgainst (H : Hash) (P : Par) (n fuel : Nat) (loc : List Ref) (peer : Table) : DecodeRes :=
  match subtract (encode H P n loc) peer with
  | none => .err
  | some t =>
    match decode H P fuel t with
    | .ok _ mis => .ok mis
    | .notPossible _ _ => .fail
    | .loop => .err
    | .fuel => .err

/-- the oracle `Env.decode` instantiated with the modelled algorithm (peer IBLT = the encoding of the peer's ref list,
    both sides with `n` buckets); at most |loc| + |peer| keys can be peeled, so the bound on outer iterations is never hit
    (`decode_fuel_irrelevant`) -/
def envDecode (H : Hash) (P : Par) (n : Nat) (loc : List Ref) : IbltV → DecodeRes
  | .garbage => .err
  | .ofSet peer => decodeAgainst H P n (loc.length + peer.length + 1) loc (encode H P n peer)

end Nuts.Proto.Iblt
