/-
  Shared protocol model for C07 (convergence) and C15 (private payload release): data types.
  Mirrors network/transport/v2 (protocol.pb.go messages, conversation.go, gossip/queue.go) and the
  parts of network/dag the protocol handlers use. The DAG is kept abstract: a list of transactions
  (newest first) with refs, clocks, prevs, PAL, payload hash and an abstract signature verdict.
  Core Lean only.
-/
import NutsModel.Base

namespace Nuts.Proto

/-- transaction reference / payload hash / XOR digest (the harness supplies the leading 64 bits) -/
abbrev Ref := Nat

/-- conversation id: (owner node, counter). The implementation uses random UUIDs; the harness renames
    them in order of first appearance. Forged messages may carry any pair. -/
abbrev Cid := Nat × Nat

/-- constants of the source the model is parameterised by (regenerated facts, see Facts/C07.lean) -/
structure Cfg where
  pageSize : Nat        -- dag.PageSize
  maxQueue : Nat        -- gossip.maxQueueSize
  rangePages : Nat      -- handleTransactionRangeQuery: limit := Start + rangePages*PageSize
  msgOverhead : Nat     -- transactionListMessageOverhead
  txOverhead : Nat      -- transactionListTXOverhead
  maxMsg : Nat          -- grpc.MaxMessageSizeInBytes
  validity : Nat        -- conversation validity in schedule ticks
  blockState : Bool     -- Envelope_State implements blockable
  blockList : Bool      -- Envelope_TransactionListQuery implements blockable
  blockRange : Bool     -- Envelope_TransactionRangeQuery implements blockable
  nextOne : Nat × Nat   -- handleTransactionSet, historical page: range pageClockStart(req+a) .. pageClockStart(req+b)
  nextTwo : Nat × Nat   -- handleTransactionSet, new node: range pageClockStart(req+a) .. pageClockStart(req+b)
  deriving Repr

/-- payload bytes: an opaque id, its length and its SHA-256 (the hash function is supplied as data) -/
structure Payload where
  id : String
  len : Nat
  sha : Ref
  deriving DecidableEq, Repr, Inhabited

structure Tx where
  ref : Ref
  clock : Nat
  prevs : List Ref
  pal : List Nat        -- encrypted PAL header: one ciphertext id per recipient; [] = public transaction
  payloadHash : Ref
  sigOK : Bool          -- abstract `valid`: verdict of the signature verifier (data)
  size : Nat            -- len(Data)
  deriving DecidableEq, Repr, Inhabited

/-- `Transaction` of the wire format: serialized tx (none = bytes that do not parse) + payload (none = empty) -/
structure NetTx where
  tx : Option Tx
  payload : Option Payload
  deriving DecidableEq, Repr, Inhabited

/-- an IBLT on the wire: the digest of a set of refs, or bytes that do not unmarshal -/
inductive IbltV where
  | ofSet (refs : List Ref)
  | garbage
  deriving DecidableEq, Repr, Inhabited

inductive Msg where
  | gossip (xor : Ref) (lc : Nat) (refs : List Ref)
  | state (cid : Cid) (xor : Ref) (lc : Nat)
  | txSet (cid : Cid) (lcReq lc : Nat) (iblt : IbltV)
  | listQuery (cid : Cid) (refs : List Ref)
  | rangeQuery (cid : Cid) (start stop : Nat)
  | txList (cid : Cid) (num total : Nat) (txs : List NetTx)
  | payloadQuery (ref : Ref)
  | payload (ref : Ref) (data : Option Payload)
  | diagnostics
  | unsupported
  deriving DecidableEq, Repr, Inhabited

/-- what a conversation remembers about its request (`conversation.conversationData`) -/
inductive ConvData where
  | state (lc : Nat)
  | listQuery (refs : List Ref)
  | rangeQuery (start stop : Nat)
  deriving DecidableEq, Repr, Inhabited

structure Conv where
  cid : Cid
  expiry : Nat
  data : ConvData
  deriving DecidableEq, Repr, Inhabited

/-- gossip `peerQueue` -/
structure PeerQueue where
  peer : Nat
  queue : List Ref := []
  log : List Ref := []
  xor : Ref := 0
  clock : Nat := 0
  deriving DecidableEq, Repr, Inhabited

/-- `transport.Peer` as seen by the node that owns the connection -/
structure Peer where
  key : Nat
  authenticated : Bool := false
  did : String := ""
  connected : Bool := true
  deriving DecidableEq, Repr, Inhabited

/-- a keyAgreement key id in the node's resolved DID document, and whether the key store holds its private key -/
structure Kak where
  kid : String
  held : Bool
  deriving DecidableEq, Repr, Inhabited

structure Node where
  id : Nat
  did : String := ""              -- "" = node DID not set
  resolvable : Bool := true       -- didResolver.Resolve(nodeDID) succeeds
  kaks : List Kak := []
  hasReceiver : Bool := true      -- privatePayloadReceiver != nil
  dag : List Tx := []             -- newest first
  payloads : List (Ref × Payload) := []
  convs : List Conv := []
  lastConv : List (Nat × Cid) := []
  nextCid : Nat := 0
  queues : List PeerQueue := []
  peers : List Peer := []
  now : Nat := 0
  deriving Repr, Inhabited

inductive DecodeRes where
  | ok (missing : List Ref)
  | fail                 -- tree.ErrDecodeNotPossible
  | err                  -- unmarshal / subtract / ErrDecodeLoop
  deriving DecidableEq, Repr, Inhabited

/-- result of `crypto.Decrypter.Decrypt(kid, ciphertext)`; plaintext = list of entries, `none` = not a DID -/
inductive DecRes where
  | ok (plain : List (Option String))
  | fail
  | notFound             -- crypto.ErrPrivateKeyNotFound
  deriving DecidableEq, Repr, Inhabited

/-- oracles: third-party / probabilistic components, supplied as data by the harness and as
    hypotheses-constrained parameters in the theorems (never axioms) -/
structure Env where
  /-- `localIblt.Subtract(peerIblt); Decode()` as a function of the local ref set and the peer's IBLT -/
  decode : List Ref → IbltV → DecodeRes
  /-- `sort.Slice(unsorted, clock <=)`: some clock-sorted permutation (unstable sort) -/
  order : List Tx → List Tx
  /-- ECIES decryption by key id -/
  dec : String → Nat → DecRes

/-- outgoing messages with their destination peer key -/
abbrev Out := List (Nat × Msg)

/-- handler result: new node state, messages handed to `Connection.Send`, error class returned by the Go handler -/
structure HR where
  node : Node
  out : Out := []
  ret : String := "ok"
  /-- private transactions added by this handler whose first (synchronous) payload-query attempt did not finish:
      the notifier re-attempts once immediately (dag/notifier.go `retry` → retry-go calls first, sleeps after) -/
  retry : List Tx := []

/-! ### pages -/

def pageOf (cfg : Cfg) (clock : Nat) : Nat := clock / cfg.pageSize
def pageStart (cfg : Cfg) (page : Nat) : Nat := page * cfg.pageSize

end Nuts.Proto
