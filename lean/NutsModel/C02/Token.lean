/-
  C02 — model of the OAuth2 token endpoint and token introspection of auth/api/iam.
  Core Lean only.

  Mirrors (check chains in CODE ORDER; the orders are pinned by regenerated facts, see Props/C02.lean):
    api.go            HandleTokenRequest, introspectAccessToken, IntrospectAccessToken(Extended),
                      accessTokenServerStore
    s2s_vptoken.go    handleS2SAccessTokenRequest, validateS2SPresentationMaxValidity,
                      validateS2SPresentationNonce, s2sNonceStore
    validation.go     validatePresentationSigner, validatePresentationAudience, presentationDefinitionForScope
    session.go        PEXConsumer.fulfill / next / isFulfilled
    access_token.go   createAccessToken
    openid4vp.go      handleAuthorizeResponseSubmission, validatePresentationNonce, handleAccessTokenRequest
    pkce_util.go      validatePKCEParams
    storage/session.go  Get / Put / Delete / GetAndDelete on the in-memory store (go-cache: an entry is
                      visible while now ≤ put time + ttl)
    generated.go      ExtendedTokenIntrospectionResponse.MarshalJSON (assignment order is a parameter)
    vcr/signature/proof/jsonld.go ProofOptions.ValidAt (only for the replay-window theorem)

  Modelling decisions:
  * a verifiable presentation is the record of what the handlers read from it: creation / expiry time,
    signer DID, subject DID of every contained credential, audience list, nonce, challenge, and the verdict
    of `Verifier.VerifyVP(vp, true, true, nil)` (supplied by the harness, never assumed).
  * PEX (`PresentationSubmission.Validate`) is a verdict per configured definition (`pex : key → Bool`),
    and the constraint-id map that `resolveInputDescriptorValues` produces is data (`claims`).
  * time is a number of ticks (the driver uses nanoseconds, `Cfg.second` ticks per second) supplied with every
    operation; durations are regenerated facts.
  * random identifiers (`crypto.GenerateNonce`) are consecutive numbers: `tok#n`, `code#n`.
  * SHA-256/base64 of the PKCE verifier is a parameter `sha : String → String` (the driver receives the
    real digests as data).
-/
import NutsModel.Base

namespace Nuts.C02

/-! ### session store (storage/session.go over go-cache) -/

structure Entry (α : Type) where
  key : String
  val : α
  exp : Nat

abbrev Store (α : Type) := List (Entry α)

namespace Store
variable {α : Type}

def find (s : Store α) (k : String) : Option (Entry α) :=
  match s with
  | [] => none
  | e :: rest => if e.key = k then some e else find rest k

/-- `Get`: go-cache returns an item while `now ≤ Expiration` -/
def get (s : Store α) (now : Nat) (k : String) : Option α :=
  match s.find k with
  | some e => if now ≤ e.exp then some e.val else none
  | none => none

def del (s : Store α) (k : String) : Store α := s.filter (fun e => e.key ≠ k)

/-- `Put`: a ttl ≤ 0 stores nothing; otherwise the entry replaces any older one and lives until now + ttl -/
def put (s : Store α) (now ttl : Nat) (k : String) (v : α) : Store α :=
  if ttl = 0 then s else ⟨k, v, now + ttl⟩ :: s.del k

/-- `GetAndDelete` = `Get`, and `Delete` only when `Get` succeeded -/
def getAndDelete (s : Store α) (now : Nat) (k : String) : Option α × Store α :=
  match s.get now k with
  | some v => (some v, s.del k)
  | none => (none, s)
end Store

/-! ### data -/

/-- a presentation definition as far as the token endpoint is concerned: its id and a global key that
    identifies its content (PEX verdicts and claim maps are given per key) -/
structure Def where
  id : String
  key : Nat
  deriving DecidableEq, Repr

structure VP where
  created : Option Nat
  expires : Option Nat
  signer : Option String
  subjects : List (Option String)
  aud : List String
  nonce : String
  challenge : String
  verifies : Bool
  /-- JSON-LD presentation (time window of the proof checked with skew by the verifier); `false` = JWT, whose
      nbf/exp window is part of the `verifies` verdict -/
  ld : Bool := true
  deriving DecidableEq, Repr

inductive DPoPIn where
  | absent
  | invalid
  | valid (kid jkt : String)
  deriving DecidableEq, Repr

structure DPoP where
  kid : String
  jkt : String
  deriving DecidableEq, Repr

abbrev Claims := List (String × String)

structure Cfg where
  maxValidity : Nat
  nonceTtl : Nat
  tokenValidity : Nat
  tokenTtl : Nat
  codeTtl : Nat
  oauthNonceTtl : Nat
  stateTtl : Nat
  verifierSkew : Nat
  /-- time units per second (`Unix()` truncates to seconds) -/
  second : Nat
  /-- does the credential-less branch of `validatePresentationSigner` compare the signer with the subject
      established by the preceding presentations? (regenerated fact) -/
  emptyVpChecked : Bool
  reserved : List String
  marshalOrder : List String
  publicURL : String
  subjects : List String
  policy : List (String × List (String × Def))

/-- `subjectToBaseURL`: PublicURL().JoinPath("oauth2", subject) -/
def Cfg.issuerURL (cfg : Cfg) (subject : String) : String := cfg.publicURL ++ "/oauth2/" ++ subject

def lookupPolicy : List (String × List (String × Def)) → String → Option (List (String × Def))
  | [], _ => none
  | (s, m) :: rest, scope => if s = scope then some m else lookupPolicy rest scope

/-- `policyBackend.PresentationDefinitions(scope)` (policy/local.go) -/
def Cfg.definitions (cfg : Cfg) (scope : String) : Option (List (String × Def)) := lookupPolicy cfg.policy scope

/-- the stored `AccessToken` -/
structure TokenRec where
  issuer : String
  clientId : String
  scope : String
  issuedAt : Nat
  expiration : Nat
  dpop : Option DPoP
  claims : Claims
  defs : List (String × Def)
  submissions : List String
  vps : Nat
  deriving DecidableEq, Repr

/-- `PEXConsumer` -/
structure Consumer where
  required : List (String × Def)
  fulfilled : List String
  claims : List Claims
  vps : Nat
  deriving DecidableEq, Repr

/-- `OAuthSession` (authorization-server side) -/
structure Session where
  clientId : String
  scope : String
  ownSubject : String
  challenge : String
  method : String
  clientState : String
  consumer : Consumer
  deriving DecidableEq, Repr

structure World where
  s2sNonces : Store Unit := []
  tokens : Store TokenRec := []
  nextTok : Nat := 0
  states : Store Session := []
  oauthNonces : Store String := []
  codes : Store Session := []
  nextCode : Nat := 0
  nextNonce : Nat := 0
  nextState : Nat := 0

structure TokenResponse where
  token : String
  tokenType : String
  dpopKid : Option String
  scope : String
  expiresIn : Nat
  deriving DecidableEq, Repr

def tokName (n : Nat) : String := "tok#" ++ toString n
def codeName (n : Nat) : String := "code#" ++ toString n
def nonceName (n : Nat) : String := "on#" ++ toString n
def stateName (n : Nat) : String := "st#" ++ toString n

/-! ### per-presentation checks (s2s_vptoken.go, validation.go) -/

/-- `validateS2SPresentationMaxValidity` -/
def checkValidity (cfg : Cfg) (vp : VP) : Res Unit :=
  match vp.created, vp.expires with
  | some c, some e =>
    if e > c + cfg.maxValidity then .err "invalid_request/vp-valid-too-long" else .ok ()
  | _, _ => .err "invalid_request/vp-missing-dates"

/-- `credential.ResolveSubjectDID`: the loop, with the running subject (`""` = empty DID) -/
def resolveSubject : List (Option String) → String → Res String
  | [], cur => .ok cur
  | none :: _, _ => .err "invalid_request/subject-unresolvable"
  | some s :: rest, cur =>
    if cur ≠ "" ∧ cur ≠ s then .err "invalid_request/vcs-mixed-subjects" else resolveSubject rest s

/-- `validatePresentationSigner(presentation, expected)`; `expected = ""` is the empty DID -/
def validateSigner (cfg : Cfg) (vp : VP) (expected : String) : Res String :=
  if vp.subjects = [] then
    match vp.signer with
    | some s =>
      if cfg.emptyVpChecked = true ∧ expected ≠ "" ∧ s ≠ expected then .err "invalid_request/vps-mixed-subjects"
      else .ok s
    | none => .err "invalid_request/signer-unresolvable"
  else
    match vp.signer with
    | none => .err "invalid_request/signer-unresolvable"
    | some sg =>
      match resolveSubject vp.subjects "" with
      | .ok sid =>
        if sid ≠ sg then .err "invalid_request/signer-not-subject"
        else if expected ≠ "" ∧ sg ≠ expected then .err "invalid_request/vps-mixed-subjects"
        else .ok sg
      | .err e => .err e
      | .panic p => .panic p

/-- `validatePresentationAudience` -/
def checkAudience (cfg : Cfg) (subject : String) (vp : VP) : Res Unit :=
  if cfg.issuerURL subject ∈ vp.aud then .ok () else .err "invalid_request/audience"

/-- first loop of `handleS2SAccessTokenRequest` -/
def s2sPre (cfg : Cfg) (subject : String) : List VP → String → Res String
  | [], cur => .ok cur
  | vp :: rest, cur =>
    match checkValidity cfg vp with
    | .ok _ =>
      match validateSigner cfg vp cur with
      | .ok s =>
        match checkAudience cfg subject vp with
        | .ok _ => s2sPre cfg subject rest s
        | .err e => .err e
        | .panic p => .panic p
      | .err e => .err e
      | .panic p => .panic p
    | .err e => .err e
    | .panic p => .panic p

/-- the loop of `handleAuthorizeResponseSubmission` (no validity check in this flow) -/
def codePre (cfg : Cfg) (subject : String) : List VP → String → Res String
  | [], cur => .ok cur
  | vp :: rest, cur =>
    match validateSigner cfg vp cur with
    | .ok s =>
      match checkAudience cfg subject vp with
      | .ok _ => codePre cfg subject rest s
      | .err e => .err e
      | .panic p => .panic p
    | .err e => .err e
    | .panic p => .panic p

def findDef : List (String × Def) → String → Option Def
  | [], _ => none
  | (_, d) :: rest, id => if d.id = id then some d else findDef rest id

/-- `PEXConsumer.fulfill` -/
def fulfill (c : Consumer) (defId : String) (pex : Nat → Bool) (claims : Nat → Claims) (nvps : Nat) : Res Consumer :=
  match findDef c.required defId with
  | none => .err "invalid_request/pd-not-required"
  | some d =>
    if defId ∈ c.fulfilled then .err "invalid_request/pd-already-fulfilled"
    else if pex d.key = false then .err "invalid_request/pd-not-conform"
    else .ok { c with fulfilled := defId :: c.fulfilled, claims := claims d.key :: c.claims, vps := c.vps + nvps }

/-- `PEXConsumer.next`: organization first, then user; `none` = everything fulfilled -/
def Consumer.pending (c : Consumer) (owner : String) : Bool :=
  match c.required.find? (fun p => p.1 = owner) with
  | some (_, d) => !(c.fulfilled.contains d.id)
  | none => false

def Consumer.next (c : Consumer) : Option String :=
  if c.pending "organization" = true then some "organization"
  else if c.pending "user" = true then some "user" else none

/-- second loop of the s2s handler: `validateS2SPresentationNonce` per presentation =
    `s2sNonceStore().PutIfAbsent(nonce, true)`: a nonce that is still remembered is refused (and left as it is),
    an unknown one is stored. -/
def s2sNonceLoop (cfg : Cfg) (now : Nat) : List VP → Store Unit → Store Unit × Res Unit
  | [], st => (st, .ok ())
  | vp :: rest, st =>
    if vp.nonce = "" then (st, .err "invalid_request/nonce-missing")
    else
      match st.get now vp.nonce with
      | some _ => (st, .err "invalid_request/nonce-reused")
      | none => s2sNonceLoop cfg now rest (st.put now cfg.nonceTtl vp.nonce ())

/-- the nonce check under a store fault: when the READ of the first nonce entry fails, `PutIfAbsent` returns the
    error and the handler answers "unable to store nonce" - nothing is stored, no token (fail closed) -/
def nonceCheck (cfg : Cfg) (now : Nat) (fault : Bool) (vps : List VP) (st : Store Unit) : Store Unit × Res Unit :=
  match fault, vps with
  | true, vp :: _ =>
    if vp.nonce = "" then (st, .err "invalid_request/nonce-missing") else (st, .err "nonce-store-error")
  | _, _ => s2sNonceLoop cfg now vps st

def parseDPoP : DPoPIn → Res (Option DPoP)
  | .absent => .ok none
  | .invalid => .err "invalid_dpop_proof/dpop"
  | .valid kid jkt => .ok (some ⟨kid, jkt⟩)

/-- JSON-LD proof time window: `ProofOptions.ValidAt(at, maxSkew)` (vcr/signature/proof/jsonld.go) -/
def ldValidAt (skew now created : Nat) (expires : Option Nat) : Bool :=
  if created > now + skew then false
  else match expires with
    | some e => if e + skew < now then false else true
    | none => true

/-- `Verifier.VerifyVP(vp, true, true, nil)`: the signature/credential verdict is data; the time window of the
    JSON-LD proof is evaluated at the current time with the verifier's maxSkew. An absent `created` is Go's zero
    time (earlier than everything). -/
def vpVerifies (cfg : Cfg) (now : Nat) (vp : VP) : Bool :=
  vp.verifies &&
    (if vp.ld then ldValidAt cfg.verifierSkew now (match vp.created with | some c => c | none => 0) vp.expires
     else true)

def verifyAll (cfg : Cfg) (now : Nat) : List VP → Res Unit
  | [] => .ok ()
  | vp :: rest => if vpVerifies cfg now vp = true then verifyAll cfg now rest else .err "invalid_request/vp-invalid"

/-- `resolveInputDescriptorValues`: union of the per-definition maps, a key occurring twice is an error -/
def mergeClaims : List Claims → Claims → Res Claims
  | [], acc => .ok acc
  | c :: rest, acc =>
    if c.any (fun p => acc.any (fun q => q.1 = p.1)) then .err "server_error/duplicate-claim"
    else mergeClaims rest (acc ++ c)

/-- `createAccessToken` -/
def createAccessToken (cfg : Cfg) (w : World) (now : Nat) (issuer clientId scope : String) (c : Consumer)
    (dpop : Option DPoP) : World × Res TokenResponse :=
  match mergeClaims c.claims [] with
  | .ok claims =>
    let name := tokName w.nextTok
    let rec_ : TokenRec := { issuer := issuer, clientId := clientId, scope := scope, issuedAt := now,
                             expiration := now + cfg.tokenValidity, dpop := dpop, claims := claims,
                             defs := c.required, submissions := c.fulfilled, vps := c.vps }
    ({ w with tokens := w.tokens.put now cfg.tokenTtl name rec_, nextTok := w.nextTok + 1 },
     .ok { token := name, tokenType := if dpop.isSome then "DPoP" else "Bearer", dpopKid := dpop.map (·.kid),
           scope := scope, expiresIn := cfg.tokenValidity / cfg.second })
  | .err e => (w, .err e)
  | .panic p => (w, .panic p)

/-! ### vp_token-bearer grant (RFC021 service-to-service) -/

structure S2SReq where
  subject : String
  paramsPresent : Bool
  clientId : String
  scope : String
  envelopeOK : Bool
  submissionOK : Bool
  vps : List VP
  subDefId : String
  pex : Nat → Bool
  claims : Nat → Claims
  dpop : DPoPIn
  /-- the session store fails the first read of a nonce entry during this request -/
  nonceFault : Bool := false

/-- `HandleTokenRequest` (vp_token-bearer case) + `handleS2SAccessTokenRequest`, in code order -/
def issueS2S (cfg : Cfg) (w : World) (now : Nat) (r : S2SReq) : World × Res TokenResponse :=
  if r.subject ∉ cfg.subjects then (w, .err "subject-not-found")
  else if r.paramsPresent = false then (w, .err "invalid_request/missing-params")
  else if r.envelopeOK = false then (w, .err "invalid_request/assertion-invalid")
  else if r.submissionOK = false then (w, .err "invalid_request/submission-invalid")
  else
    match s2sPre cfg r.subject r.vps "" with
    | .err e => (w, .err e)
    | .panic p => (w, .panic p)
    | .ok _ =>
      match cfg.definitions r.scope with
      | none => (w, .err "invalid_scope/unsupported-scope")
      | some defs =>
        match fulfill ⟨defs, [], [], 0⟩ r.subDefId r.pex r.claims r.vps.length with
        | .err e => (w, .err e)
        | .panic p => (w, .panic p)
        | .ok consumer =>
          let (nonces, nres) := nonceCheck cfg now r.nonceFault r.vps w.s2sNonces
          let w1 := { w with s2sNonces := nonces }
          match nres with
          | .err e => (w1, .err e)
          | .panic p => (w1, .panic p)
          | .ok _ =>
            match parseDPoP r.dpop with
            | .err e => (w1, .err e)
            | .panic p => (w1, .panic p)
            | .ok dpop =>
              match verifyAll cfg now r.vps with
              | .err e => (w1, .err e)
              | .panic p => (w1, .panic p)
              | .ok _ => createAccessToken cfg w1 now (cfg.issuerURL r.subject) r.clientId r.scope consumer dpop

/-! ### authorization-code grant (OpenID4VP verifier side) -/

/-- `extractChallenge` with the fallback to `extractNonce` of `validatePresentationNonce` -/
def vpChallenge (vp : VP) : String := if vp.challenge ≠ "" then vp.challenge else vp.nonce

def collectNonces : List VP → List String → List String
  | [], acc => acc
  | vp :: rest, acc =>
    let n := vpChallenge vp
    collectNonces rest (if n ≠ "" ∧ n ∉ acc then acc ++ [n] else acc)

def delAll (st : Store String) : List String → Store String
  | [] => st
  | n :: rest => delAll (st.del n) rest

/-- `validatePresentationNonce(presentations, state)` -/
def validatePresentationNonce (now : Nat) (vps : List VP) (state : String) (st : Store String) :
    Store String × Res Unit :=
  let nonces := collectNonces vps []
  let allPresent := vps.all (fun vp => vpChallenge vp ≠ "")
  if nonces.length > 1 ∨ allPresent = false then (delAll st nonces, .err "invalid_request/nonce-invalid")
  else
    match nonces with
    | [] => (st, .panic "validatePresentationNonce:nonces[0]")
    | n :: _ =>
      match st.getAndDelete now n with
      | (none, st') => (st', .err "invalid_request/invalid-session")
      | (some s, st') => if state ≠ s then (st', .err "invalid_request/nonce-state-mismatch") else (st', .ok ())

structure AuthResp where
  subject : String
  state : Option String
  vpToken : Bool
  envelopeOK : Bool
  vps : List VP
  submission : Bool
  submissionOK : Bool
  subDefId : String
  pex : Nat → Bool
  claims : Nat → Claims

inductive AuthOut where
  | code (name : String) (clientState : String)
  | next (owner : String) (nonce : String)
  deriving DecidableEq, Repr

/-- `handleAuthorizeResponseSubmission`, in code order -/
def authorizeResponse (cfg : Cfg) (w : World) (now : Nat) (r : AuthResp) : World × Res AuthOut :=
  match r.state with
  | none => (w, .err "invalid_request/missing-state")
  | some state =>
    if r.vpToken = false then (w, .err "invalid_request/missing-vp_token")
    else if r.envelopeOK = false ∨ r.vps = [] then (w, .err "invalid_request/invalid-vp_token")
    else
      match w.states.get now state with
      | none => (w, .err "invalid_request/invalid-session")
      | some session =>
        if r.subject ≠ session.ownSubject then (w, .err "invalid_request/incorrect-tenant")
        else
          let (on, nres) := validatePresentationNonce now r.vps state w.oauthNonces
          let w1 := { w with oauthNonces := on }
          match nres with
          | .err e => (w1, .err e)
          | .panic p => (w1, .panic p)
          | .ok _ =>
            if r.submission = false then (w1, .err "invalid_request/missing-submission")
            else if r.submissionOK = false then (w1, .err "invalid_request/submission-invalid")
            else
              match codePre cfg r.subject r.vps "" with
              | .err e => (w1, .err e)
              | .panic p => (w1, .panic p)
              | .ok _ =>
                match verifyAll cfg now r.vps with
                | .err e => (w1, .err e)
                | .panic p => (w1, .panic p)
                | .ok _ =>
                  match fulfill session.consumer r.subDefId r.pex r.claims r.vps.length with
                  | .err e => (w1, .err e)
                  | .panic p => (w1, .panic p)
                  | .ok consumer =>
                    let session' := { session with consumer := consumer }
                    let w2 := { w1 with states := w1.states.put now cfg.stateTtl state session' }
                    match consumer.next with
                    | some owner =>
                      -- `nextOpenID4VPFlow`: a fresh nonce for the next wallet, mapped to the same state
                      let n := nonceName w2.nextNonce
                      ({ w2 with oauthNonces := w2.oauthNonces.put now cfg.oauthNonceTtl n state,
                                 nextNonce := w2.nextNonce + 1 }, .ok (.next owner n))
                    | none =>
                      let name := codeName w2.nextCode
                      ({ w2 with codes := w2.codes.put now cfg.codeTtl name session', nextCode := w2.nextCode + 1 },
                       .ok (.code name session'.clientState))

/-- the parameters of an authorization request (after JAR parsing) that `handleAuthorizeRequestFromHolder` reads -/
structure AuthReq where
  subject : String
  redirectURI : String
  aud : String
  clientId : String
  scope : String
  clientState : String
  challenge : String
  method : String

structure AuthReqOut where
  state : String
  nonce : String
  owner : String
  deriving DecidableEq, Repr

/-- `handleAuthorizeRequestFromHolder` + `nextOpenID4VPFlow`, in code order: the authorization-server session
    (client id, scope, PKCE challenge, required definitions) is created HERE -/
def authorizeRequest (cfg : Cfg) (w : World) (now : Nat) (r : AuthReq) : World × Res AuthReqOut :=
  if r.redirectURI = "" then (w, .err "invalid_request/missing-redirect_uri")
  else if r.aud ≠ cfg.issuerURL r.subject then (w, .err "invalid_request/invalid-audience")
  else if r.challenge = "" then (w, .err "invalid_request/missing-code_challenge")
  else if r.method = "" ∨ r.method ≠ "S256" then (w, .err "invalid_request/invalid-code_challenge_method")
  else
    match cfg.definitions r.scope with
    | none => (w, .err "invalid_scope/unsupported-scope")
    | some defs =>
      let session : Session :=
        { clientId := r.clientId, scope := r.scope, ownSubject := r.subject, challenge := r.challenge,
          method := r.method, clientState := r.clientState, consumer := ⟨defs, [], [], 0⟩ }
      let state := stateName w.nextState
      let w1 := { w with states := w.states.put now cfg.stateTtl state session, nextState := w.nextState + 1 }
      match session.consumer.next with
      | none => (w1, .panic "nextOpenID4VPFlow:*walletOwnerType")
      | some owner =>
        let n := nonceName w1.nextNonce
        ({ w1 with oauthNonces := w1.oauthNonces.put now cfg.oauthNonceTtl n state, nextNonce := w1.nextNonce + 1 },
         .ok ⟨state, n, owner⟩)

structure CodeReq where
  subject : String
  code : Option String
  verifier : Option String
  clientId : Option String
  dpop : DPoPIn
  /-- every other form parameter of the token request (scope, assertion, presentation_submission, resource, …):
      `handleAccessTokenRequest` reads code, code_verifier and client_id only -/
  extra : List (String × String) := []

/-- `validatePKCEParams` with the stored challenge/method and the presented verifier -/
def pkceOK (sha : String → String) (s : Session) (verifier : String) : Bool :=
  if s.method = "S256" then decide (sha verifier = s.challenge) else false

/-- `HandleTokenRequest` (authorization_code case) + `handleAccessTokenRequest`, in code order.
    The deferred `Delete` runs on every path after the code parameter was seen. -/
def issueCode (cfg : Cfg) (sha : String → String) (w : World) (now : Nat) (r : CodeReq) : World × Res TokenResponse :=
  if r.subject ∉ cfg.subjects then (w, .err "subject-not-found")
  else
    match r.code with
    | none => (w, .err "invalid_request/missing-code")
    | some code =>
      let burn (x : World) : World := { x with codes := x.codes.del code }
      match r.verifier with
      | none => (burn w, .err "invalid_request/missing-code_verifier")
      | some verifier =>
        match r.clientId with
        | none => (burn w, .err "invalid_request/missing-client_id")
        | some clientId =>
          match w.codes.getAndDelete now code with
          | (none, cs) => (burn { w with codes := cs }, .err "invalid_grant/invalid-code")
          | (some session, cs) =>
            let w1 := burn { w with codes := cs }
            if session.clientId ≠ clientId then (w1, .err "invalid_request/client_id-mismatch")
            else if pkceOK sha session verifier = false then (w1, .err "invalid_grant/invalid-code_verifier")
            else
              match parseDPoP r.dpop with
              | .err e => (w1, .err e)
              | .panic p => (w1, .panic p)
              | .ok dpop =>
                match createAccessToken cfg w1 now (cfg.issuerURL session.ownSubject) session.clientId session.scope
                        session.consumer dpop with
                | (w2, .ok resp) => (w2, .ok resp)
                | (w2, .err e) => (w2, .err ("server_error/create-access-token:" ++ e))
                | (w2, .panic p) => (w2, .panic p)

/-! ### introspection (api.go) and the generated marshaller (generated.go) -/

/-- `ExtendedTokenIntrospectionResponse`: every standard member as optional raw JSON -/
structure Introspection where
  active : Bool
  aud : Option String := none
  clientId : Option String := none
  cnf : Option String := none
  exp : Option Nat := none
  iat : Option Nat := none
  iss : Option String := none
  pds : Option String := none
  pss : Option String := none
  scope : Option String := none
  vps : Option String := none
  additional : Claims := []
  deriving DecidableEq, Repr

def jstr (s : String) : String := "\"" ++ s ++ "\""

def renderDefs (l : List (String × Def)) : String :=
  "{" ++ String.intercalate "," (l.map fun p => p.1 ++ ":" ++ p.2.id) ++ "}"
/-- digest of `presentation_submissions` (a Go map keyed by definition id: rendered in key order) -/
def renderSubs (l : List String) : String :=
  "[" ++ String.intercalate "," (sortBy (fun a b => decide (a < b)) l) ++ "]"

def firstReserved : List String → Claims → Option String
  | [], _ => none
  | r :: rest, c => if c.any (fun p => p.1 = r) then some r else firstReserved rest c

/-- `introspectAccessToken(input)`: `ok none` is the inactive answer -/
def introspect (cfg : Cfg) (w : World) (now : Nat) (input : String) : Res (Option Introspection) :=
  if input = "" then .ok none
  else
    match w.tokens.get now input with
    | none => .ok none
    | some t =>
      if t.expiration < now then .ok none
      else
        match firstReserved cfg.reserved t.claims with
        | some r => .err ("reserved-claim:" ++ r)
        | none =>
          .ok (some { active := true, cnf := t.dpop.map (fun d => "{\"jkt\":" ++ jstr d.jkt ++ "}"),
                      iat := some (t.issuedAt / cfg.second), exp := some (t.expiration / cfg.second),
                      iss := some (jstr t.issuer), clientId := some (jstr t.clientId), scope := some (jstr t.scope),
                      vps := some (toString t.vps), pds := some (renderDefs t.defs),
                      pss := some (renderSubs t.submissions), additional := t.claims })

/-- value of the standard member with JSON name `k`, `none` when the Go pointer is nil (omitted) -/
def Introspection.std (r : Introspection) (k : String) : Option String :=
  if k = "active" then some (if r.active then "true" else "false")
  else if k = "aud" then r.aud
  else if k = "client_id" then r.clientId
  else if k = "cnf" then r.cnf
  else if k = "exp" then r.exp.map toString
  else if k = "iat" then r.iat.map toString
  else if k = "iss" then r.iss
  else if k = "presentation_definitions" then r.pds
  else if k = "presentation_submissions" then r.pss
  else if k = "scope" then r.scope
  else if k = "vps" then r.vps
  else none

abbrev Obj := List (String × String)

def objPut (o : Obj) (k v : String) : Obj := (k, v) :: o.filter (fun p => p.1 ≠ k)
def objGet (o : Obj) (k : String) : Option String :=
  match o with
  | [] => none
  | (k', v) :: rest => if k' = k then some v else objGet rest k

def putAll (o : Obj) : Claims → Obj
  | [] => o
  | (k, v) :: rest => putAll (objPut o k v) rest

/-- one assignment step of the generated `MarshalJSON`: `"*"` is the loop over AdditionalProperties -/
def marshalStep (r : Introspection) (o : Obj) (k : String) : Obj :=
  if k = "*" then putAll o r.additional
  else match r.std k with
    | some v => objPut o k v
    | none => o

/-- generated `MarshalJSON` of `ExtendedTokenIntrospectionResponse`: `object[...] = …` in `order` -/
def marshal (order : List String) (r : Introspection) : Obj := order.foldl (marshalStep r) []

/-- `IntrospectAccessToken` (RFC7662 endpoint): vps / definitions / submissions are cleared, the generated
    marshaller is used. -/
def introspectPlain (cfg : Cfg) (w : World) (now : Nat) (input : String) : Res Obj :=
  match introspect cfg w now input with
  | .ok none => .ok (marshal cfg.marshalOrder { active := false })
  | .ok (some r) => .ok (marshal cfg.marshalOrder { r with vps := none, pds := none, pss := none })
  | .err e => .err e
  | .panic p => .panic p

/-- `IntrospectAccessTokenExtended`: the response type has no `MarshalJSON` of its own, encoding/json writes
    the struct members only (AdditionalProperties is tagged `json:"-"`). -/
def introspectExtended (cfg : Cfg) (w : World) (now : Nat) (input : String) : Res Obj :=
  match introspect cfg w now input with
  | .ok none => .ok (marshal (cfg.marshalOrder.filter (· ≠ "*")) { active := false })
  | .ok (some r) => .ok (marshal (cfg.marshalOrder.filter (· ≠ "*")) r)
  | .err e => .err e
  | .panic p => .panic p

end Nuts.C02
