/-
  C02 — the authorization server as the OUTSIDE world sees it: only the three public endpoints, starting from empty
  stores (no seeding of sessions). Core Lean only.

    GET  /oauth2/{subject}/authorize   → `authorizeEndpoint`  (HandleAuthorizeRequest, jar.Parse, response_type switch)
    POST /oauth2/{subject}/response    → `authorizeResponse`  (HandleAuthorizeResponse)
    POST /oauth2/{subject}/token       → `tokenEndpoint`      (HandleTokenRequest, grant_type switch)

  Every request carries its own environment (what the remote parties and the key resolver answer at that moment).
-/
import NutsModel.C02.Jar

namespace Nuts.C02

inductive Req where
  | authz (enabled : Bool) (env : JarEnv) (r : AuthzHttp)
  | authresp (r : AuthResp)
  | token (subject grant : String) (s2s : S2SReq) (code : CodeReq)

/-- the state after serving one request at time `t` -/
def serve (cfg : Cfg) (n : GrantNames) (sha : String → String) (w : World) (t : Nat) : Req → World
  | .authz en env r => (authorizeEndpoint cfg en env w t r).1
  | .authresp r => (authorizeResponse cfg w t r).1
  | .token s g a c => (tokenEndpoint cfg n sha w t s g a c).1

/-- the state after a sequence of timed requests (oldest first) -/
def serveAll (cfg : Cfg) (n : GrantNames) (sha : String → String) : List (Nat × Req) → World → World
  | [], w => w
  | (t, q) :: rest, w => serveAll cfg n sha rest (serve cfg n sha w t q)

end Nuts.C02
