/-
  C02 — the key binding on the resource-server side: auth/api/iam/dpop.go `ValidateDPoPProof` (with
  crypto/dpop `DPoP.Match`) and the `nonceonce` store (`useNonceOnceStore`, TTL = accessTokenValidity).
  Core Lean only.

  A resource server that received a DPoP-bound access token asks the node whether the proof of possession belongs to the
  key the token was bound to at issuance (`cnf.jkt` of the introspection answer = `thumbprint` here), to this HTTP request
  (method, URL) and to this access token (`ath`), and whether it is used for the first time (`jti`).

  Contracts (data supplied by the harness, never assumed): `dpop.Parse` (signature under the embedded key, typ, alg,
  iat/htu/htm/jti present) = `proof : Option DPoPProof`; the JWK thumbprint; `strip` (url.Parse; scheme := https, port /
  query / fragment dropped) of the `htu` claim and of the given URL = `Option String` (none = url.Parse error);
  base64url(SHA-256(token)) = parameter `ath`.
-/
import NutsModel.C02.Token

namespace Nuts.C02

/-- the `ath` claim as `Token.Get` returns it (a Go `any`): only a string can equal the computed digest -/
inductive AthClaim where
  | absent
  | str (s : String)
  | other
  deriving DecidableEq, Repr

/-- what `ValidateDPoPProof` and `Match` read from a parsed proof -/
structure DPoPProof where
  jkt : String            -- base64url(SHA-256 thumbprint of the header's jwk)
  htm : String
  htu : Option String     -- strip(htu claim)
  ath : AthClaim
  jti : String
  deriving Repr

structure DPoPCheck where
  proof : Option DPoPProof   -- none: dpop.Parse failed
  thumbprint : String
  method : String
  url : Option String        -- strip(request.Body.Url)
  token : String
  fault : Bool := false      -- the session store fails PutIfAbsent
  deriving Repr

/-- crypto/dpop `DPoP.Match`: `none` = match, `some reason` = the first mismatch in code order -/
def dpopMatch (p : DPoPProof) (jkt method : String) (url : Option String) : Option String :=
  if p.jkt ≠ jkt then some "jkt mismatch"
  else if method ≠ p.htm then some "method mismatch"
  else match p.htu with
    | none => some "invalid htu claim"
    | some l =>
      match url with
      | none => some "invalid url"
      | some r => if l ≠ r then some "url mismatch" else none

inductive DPoPOut where
  | valid
  | invalid (reason : String)
  deriving DecidableEq, Repr

/-- `ValidateDPoPProof`: parse, match, ath, then `useNonceOnceStore().PutIfAbsent(jti)` LAST - an answer other than
    valid stores nothing; a store failure is an error (no verdict). -/
def validateDPoP (ath : String → String) (ttl now : Nat) (st : Store Unit) (c : DPoPCheck) : Store Unit × Res DPoPOut :=
  match c.proof with
  | none => (st, .ok (.invalid "failed to parse DPoP header"))
  | some p =>
    match dpopMatch p c.thumbprint c.method c.url with
    | some reason => (st, .ok (.invalid reason))
    | none =>
      match p.ath with
      | .absent => (st, .ok (.invalid "missing ath claim"))
      | .other => (st, .ok (.invalid "ath/token claim mismatch"))
      | .str a =>
        if a ≠ ath c.token then (st, .ok (.invalid "ath/token claim mismatch"))
        else if c.fault then (st, .err "jti-store-error")
        else
          match st.get now p.jti with
          | some _ => (st, .ok (.invalid "jti already used"))
          | none => (st.put now ttl p.jti (), .ok .valid)

/-- a history of validations at the resource-server endpoint -/
def runDPoP (ath : String → String) (ttl : Nat) : List (Nat × DPoPCheck) → Store Unit → Store Unit
  | [], st => st
  | (t, c) :: rest, st => runDPoP ath ttl rest (validateDPoP ath ttl t st c).1

end Nuts.C02
