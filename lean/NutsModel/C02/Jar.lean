/-
  C02 — the front door of the authorization-code flow: RFC 9101 request objects and the endpoint dispatchers.
  Core Lean only.

  Mirrors (control flow in CODE ORDER):
    params.go   oauthParameters.get                         → `pget`
    jar.go      jar.Parse (request / request_uri / request_uri_method), jar.validate, compareThumbprint
                                                            → `jarParse`, `jarValidate`
    api.go      HandleAuthorizeRequest, handleAuthorizeRequest (response_type switch)
                                                            → `authorizeEndpoint`, `authorizeDispatch`
    openid4vp.go handleAuthorizeRequestFromVerifier, first three parameter checks (wallet side; the rest of
                the wallet leg is outside the property)     → `fromVerifierPrefix`
    api.go      HandleTokenRequest (grant_type switch)      → `tokenEndpoint`

  Modelling decisions:
  * `crypto.ParseJWT(raw, ResolveKeyByID, WithValidate(true))` + `token.AsMap` is DATA: for a raw string either a
    failure or the view (kid handed to the key resolver, RFC 7638 thumbprint of the key the resolver returned, claim
    map). The harness produces the view from the real jwx parser on really signed tokens.
  * the remote calls of `IAMClient` (RequestObjectByGet / ByPost / OpenIDConfiguration) are functions of the
    environment; the model also returns the ORDERED LIST of calls it makes, which the harness compares with the calls
    the real code made on its (scripted) client.
  * a JWK set is the list of (kid, thumbprint) in set order (`LookupKeyID` returns the first key with the kid).
-/
import NutsModel.C02.Token

namespace Nuts.C02

/-- a claim value as `oauthParameters.get` distinguishes them -/
inductive PVal where
  | str (s : String)
  | strs (l : List String)
  /-- number, bool, object, `[]interface{}`, … -/
  | other
  deriving DecidableEq, Repr

abbrev Params := List (String × PVal)

/-- `oauthParameters.get`: a string, the single element of a one-element `[]string`, otherwise "" -/
def pget : Params → String → String
  | [], _ => ""
  | (k', v) :: rest, k =>
    if k' = k then
      match v with
      | .str s => s
      | .strs [s] => s
      | _ => ""
    else pget rest k

structure JwtView where
  kid : String
  keyThumb : String
  claims : Params
  deriving Repr

structure JarEnv where
  fetchGet : String → Option String
  fetchPost : String → Option String
  parse : String → Option JwtView
  /-- `OpenIDConfiguration(clientId)`: `none` = the call failed, otherwise the JWK set -/
  config : String → Option (List (String × String))

structure JarQuery where
  request : String
  requestURI : String
  requestURIMethod : String
  clientId : String
  deriving Repr

inductive JarCall where
  | get (uri : String)
  | post (uri : String)
  | config (client : String)
  deriving DecidableEq, Repr

/-- `jwk.Set.LookupKeyID` -/
def lookupKid : List (String × String) → String → Option String
  | [], _ => none
  | (k, t) :: rest, kid => if k = kid then some t else lookupKid rest kid

/-- `jar.validate`, in code order -/
def jarValidate (env : JarEnv) (raw clientId : String) : List JarCall × Res Params :=
  match env.parse raw with
  | none => ([], .err "invalid_request_object/signature")
  | some t =>
    if clientId ≠ pget t.claims "client_id" then ([], .err "invalid_request_object/client_id-claim")
    else
      match env.config clientId with
      | none => ([.config clientId], .err "server_error/openid-configuration")
      | some keys =>
        match lookupKid keys t.kid with
        | none => ([.config clientId], .err "invalid_request_object/client-does-not-own-key")
        | some thumb =>
          if thumb ≠ t.keyThumb then ([.config clientId], .err "invalid_request_object/key-mismatch")
          else ([.config clientId], .ok t.claims)

def withCall (c : JarCall) (r : List JarCall × Res Params) : List JarCall × Res Params := (c :: r.1, r.2)

/-- `jar.Parse`, in code order -/
def jarParse (env : JarEnv) (q : JarQuery) : List JarCall × Res Params :=
  if q.request ≠ "" then
    if q.requestURI ≠ "" then ([], .err "invalid_request/request-and-request_uri")
    else jarValidate env q.request q.clientId
  else if q.requestURI ≠ "" then
    if q.requestURIMethod = "" ∨ q.requestURIMethod = "get" then
      match env.fetchGet q.requestURI with
      | none => ([.get q.requestURI], .err "invalid_request_uri/fetch-failed")
      | some raw => withCall (.get q.requestURI) (jarValidate env raw q.clientId)
    else if q.requestURIMethod = "post" then
      match env.fetchPost q.requestURI with
      | none => ([.post q.requestURI], .err "invalid_request_uri/fetch-failed")
      | some raw => withCall (.post q.requestURI) (jarValidate env raw q.clientId)
    else ([], .err "invalid_request_uri_method/unsupported")
  else ([], .err "invalid_request/request-object-required")

/-- the parameters `handleAuthorizeRequestFromHolder` reads from the (signed) request object -/
def toAuthReq (subject : String) (p : Params) : AuthReq :=
  { subject := subject, redirectURI := pget p "redirect_uri", aud := pget p "aud", clientId := pget p "client_id",
    scope := pget p "scope", clientState := pget p "state", challenge := pget p "code_challenge",
    method := pget p "code_challenge_method" }

/-- `handleAuthorizeRequestFromVerifier`: the three parameter checks that precede every remote call. What follows
    (user session, client metadata, wallet) is the HOLDER side and not part of this property. -/
def fromVerifierPrefix (p : Params) : Res Unit :=
  if pget p "response_mode" ≠ "direct_post" then .err "invalid_request/invalid-response_mode"
  else if pget p "response_uri" = "" then .err "invalid_request/missing-response_uri"
  else if pget p "state" = "" then .err "invalid_request/missing-state"
  else .err "not-modelled/wallet-side"

/-- `handleAuthorizeRequest` after `jar.Parse`: the `response_type` switch -/
def authorizeDispatch (cfg : Cfg) (w : World) (now : Nat) (subject : String) (p : Params) : World × Res AuthReqOut :=
  if pget p "response_type" = "code" then authorizeRequest cfg w now (toAuthReq subject p)
  else if pget p "response_type" = "vp_token" then
    match fromVerifierPrefix p with
    | .ok _ => (w, .err "not-modelled/wallet-side")
    | .err e => (w, .err e)
    | .panic s => (w, .panic s)
  else (w, .err ("unsupported_response_type/redirect=" ++ pget p "redirect_uri"))

structure AuthzHttp where
  subject : String
  query : JarQuery
  deriving Repr

/-- `HandleAuthorizeRequest` + `handleAuthorizeRequest`, in code order -/
def authorizeEndpoint (cfg : Cfg) (enabled : Bool) (env : JarEnv) (w : World) (now : Nat) (r : AuthzHttp) :
    World × List JarCall × Res AuthReqOut :=
  if enabled = false then (w, [], .err "invalid_request/authorization-endpoint-disabled")
  else if r.subject ∉ cfg.subjects then (w, [], .err "subject-not-found")
  else
    match jarParse env r.query with
    | (calls, .err e) => (w, calls, .err e)
    | (calls, .panic s) => (w, calls, .panic s)
    | (calls, .ok p) =>
      let (w', res) := authorizeDispatch cfg w now r.subject p
      (w', calls, res)

/-! ### token endpoint: the grant_type switch of `HandleTokenRequest` -/

/-- which branch of the `grant_type` switch a request takes; the case constants are regenerated facts -/
inductive Grant where
  | authorizationCode
  | preAuthorizedCode
  | vpToken
  | other
  deriving DecidableEq, Repr

structure GrantNames where
  authorizationCode : String
  preAuthorizedCode : String
  vpToken : String

def classifyGrant (n : GrantNames) (g : String) : Grant :=
  if g = n.authorizationCode then .authorizationCode
  else if g = n.preAuthorizedCode then .preAuthorizedCode
  else if g = n.vpToken then .vpToken
  else .other

/-- `HandleTokenRequest`: subject check, then the switch. `s2s` / `code` are the request as the two handlers would see it
    (their own subject / parameter checks are inside `issueS2S` / `issueCode`). -/
def tokenEndpoint (cfg : Cfg) (n : GrantNames) (sha : String → String) (w : World) (now : Nat)
    (subject grantType : String) (s2s : S2SReq) (code : CodeReq) : World × Res TokenResponse :=
  if subject ∉ cfg.subjects then (w, .err "subject-not-found")
  else
    match classifyGrant n grantType with
    | .authorizationCode => issueCode cfg sha w now { code with subject := subject }
    | .preAuthorizedCode => (w, .err "unsupported_grant_type/not-implemented")
    | .vpToken => issueS2S cfg w now { s2s with subject := subject }
    | .other => (w, .err "unsupported_grant_type/not-supported")

end Nuts.C02
