/-
  C02 — the server's OWN request objects in the authorization-code flow: every OpenID4VP leg (`nextOpenID4VPFlow`)
  stores an unsigned request object (`createAuthorizationRequest` → `jar.Create` → `authzRequestObjectStore`) that carries
  the leg's fresh nonce and the state, and hands the wallet a `request_uri`; the wallet fetches it ONCE through
  `RequestJWTByGet` / `RequestJWTByPost` (api.go), where it is signed. Core Lean only.

  Modelling decisions:
  * the request-object store is a separate `Store JarReq` (it is touched by these functions only); the random
    request id is named after the leg's nonce (`roName`): both are created together, one per leg.
  * the claims are an association list with map semantics (`objPut` / `objGet` of Token.lean); URIs that only
    concatenate configuration (presentation_definition_uri, client_metadata_uri) are not modelled.
  * the signer DID (`subjectManager.ListDIDs(subject)[0]`) and signing itself are parameters / data.
-/
import NutsModel.C02.Token

namespace Nuts.C02

structure JarReq where
  client : String
  method : String
  claims : Obj
  deriving Repr

def roName (nonce : String) : String := "ro:" ++ nonce

def selfIssued : String := "https://self-issued.me/v2"

/-- `createJarRequest`: default claims, `aud` and method `get` only with an audience, then the caller's modifier -/
def createJarRequest (signer clientId audience : String) (modifier : List (String × String)) : JarReq :=
  let base : Obj := objPut (objPut [] "iss" signer) "client_id" clientId
  let withAud : Obj := if audience ≠ "" then objPut base "aud" audience else base
  { client := clientId, method := if audience ≠ "" then "get" else "post", claims := putAll withAud modifier }

/-- the modifier of `nextOpenID4VPFlow` (the parameters this model follows) -/
def vpFlowModifier (cfg : Cfg) (subject nonce state : String) : List (String × String) :=
  [("response_type", "vp_token"), ("client_id_scheme", "entity_id"),
   ("response_uri", cfg.issuerURL subject ++ "/response"), ("response_mode", "direct_post"),
   ("nonce", nonce), ("state", state)]

/-- `nextOpenID4VPFlow` → `createAuthorizationRequest`: a user wallet gets the static metadata (issuer self-issued: no
    audience, method post), an organization wallet the client's metadata (audience = its issuer, method get) -/
def nextFlowRO (cfg : Cfg) (signerOf : String → String) (ro : Store JarReq) (now : Nat)
    (subject clientIssuer owner nonce state : String) : Store JarReq :=
  let issuer := if owner = "user" then selfIssued else clientIssuer
  let audience := if issuer = selfIssued then "" else issuer
  ro.put now cfg.tokenValidity (roName nonce)
    (createJarRequest (signerOf subject) (cfg.issuerURL subject) audience (vpFlowModifier cfg subject nonce state))

/-- `ro.Claims[wallet_nonce] = *request.Body.WalletNonce` when the body carries one -/
def withWalletNonce (c : Obj) : Option String → Obj
  | some n => objPut c "wallet_nonce" n
  | none => c

/-- the wallet metadata of the POST body (default: the static self-issued metadata); its issuer becomes `aud` unless it
    is the self-issued one -/
def withWalletIssuer (c : Obj) : Option String → Obj
  | some i => if i ≠ selfIssued then objPut c "aud" i else c
  | none => c

/-- `RequestJWTByGet` (`post = false`) / `RequestJWTByPost` (`post = true`), in code order: the entry is taken out of the
    store FIRST (`GetAndDelete`), then tenant and method are checked. Returns the claims handed to `jar.Sign`. -/
def requestJWT (cfg : Cfg) (ro : Store JarReq) (now : Nat) (post : Bool) (id subject : String)
    (walletIssuer walletNonce : Option String) : Store JarReq × Res Obj :=
  match ro.getAndDelete now id with
  | (none, s) => (s, .err "invalid_request/request-object-not-found")
  | (some r, s) =>
    if r.client ≠ cfg.issuerURL subject then (s, .err "invalid_request/client_id-mismatch")
    else if post = false then
      if r.method ≠ "get" then (s, .err "invalid_request/get-on-post-request_uri") else (s, .ok r.claims)
    else if r.method ≠ "post" then (s, .err "invalid_request/post-on-get-request_uri")
    else
      (s, .ok (withWalletIssuer (withWalletNonce r.claims walletNonce) walletIssuer))

end Nuts.C02
