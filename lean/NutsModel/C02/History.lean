/-
  C02 — histories: sequences of timed operations on one authorization server (model of a node's life).
  Core Lean only.
-/
import NutsModel.C02.Token

namespace Nuts.C02

/-- the operations of the authorization server that touch the stores of this property. `authreq` is the authorization
    request (`handleAuthorizeRequestFromHolder`), where the server creates the session; `seed` puts an arbitrary
    session and nonce mapping into the stores (any state the server could be in, also ones no request produces). -/
inductive Op where
  | s2s (r : S2SReq)
  | auth (r : AuthResp)
  | code (r : CodeReq)
  | seed (state nonce : String) (session : Session)
  | authreq (r : AuthReq)

inductive Out where
  | token (r : Res TokenResponse)
  | auth (r : Res AuthOut)
  | seeded
  | authreq (r : Res AuthReqOut)
  deriving DecidableEq, Repr

def step (cfg : Cfg) (sha : String → String) (w : World) (t : Nat) : Op → World × Out
  | .s2s r => let (w', res) := issueS2S cfg w t r; (w', .token res)
  | .auth r => let (w', res) := authorizeResponse cfg w t r; (w', .auth res)
  | .code r => let (w', res) := issueCode cfg sha w t r; (w', .token res)
  | .seed state nonce session =>
    ({ w with states := w.states.put t cfg.stateTtl state session,
              oauthNonces := w.oauthNonces.put t cfg.oauthNonceTtl nonce state }, .seeded)
  | .authreq r => let (w', res) := authorizeRequest cfg w t r; (w', .authreq res)

/-- run a history (oldest operation first); the outputs are collected in the same order -/
def run (cfg : Cfg) (sha : String → String) : List (Nat × Op) → World → World × List Out
  | [], w => (w, [])
  | (t, op) :: rest, w =>
    let (w1, o) := step cfg sha w t op
    let (w2, os) := run cfg sha rest w1
    (w2, o :: os)

/-- two overlapping posts of the SAME authorization response. Every session-store method call is atomic (the
    nonce is checked and deleted by ONE `GetAndDelete`), so whatever the interleaving the outcome is that of the serial
    order in which the two `GetAndDelete` calls happen: `firstIsA` says whose comes first. Returns the outcomes of
    request A and request B. -/
def raceAuthorize (cfg : Cfg) (w : World) (t : Nat) (r : AuthResp) (firstIsA : Bool) :
    World × Res AuthOut × Res AuthOut :=
  let (w1, o1) := authorizeResponse cfg w t r
  let (w2, o2) := authorizeResponse cfg w1 t r
  if firstIsA then (w2, o1, o2) else (w2, o2, o1)

/-- the world after a history -/
def after (cfg : Cfg) (sha : String → String) (h : List (Nat × Op)) (w : World) : World := (run cfg sha h w).1

end Nuts.C02
