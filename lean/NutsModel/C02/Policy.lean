/-
  C02 — where `Cfg.policy` comes from: policy/local.go (`LocalPDP.Configure`, `loadFromDirectory`, `loadFromFile`,
  `PresentationDefinitions`). Core Lean only.

  Modelling decisions:
  * a directory is the list of its entries IN THE ORDER `Readdir(0)` returns them (an explicit argument: the order is
    unspecified); an entry is its name, whether it is a directory, and - for files - the result of
    `json.Unmarshal` into `map[string]validatingWalletOwnerMapping` (schema validation included): `none` = error,
    otherwise the scope ↦ (wallet owner ↦ definition) pairs (a Go map: the scopes of ONE file are distinct; the order
    in which `range` visits them is the list order, again an explicit argument).
  * `mapping` is the association list in insertion order; `lookupPolicy` is the map read of `PresentationDefinitions`.
-/
import NutsModel.C02.Token

namespace Nuts.C02

abbrev Policy := List (String × List (String × Def))

structure DirEntry where
  name : String
  isDir : Bool
  content : Option Policy

/-- `strings.HasSuffix(file.Name(), ".json")`: the last five characters are `.json` (an ASCII suffix: the same on bytes and on
    characters); written on the character list so that closed instances reduce -/
def isJsonName (n : String) : Bool := n.toList.reverse.take 5 == ['n', 'o', 's', 'j', '.']

/-- is the entry handed to `loadFromFile`? -/
def DirEntry.loaded (e : DirEntry) : Bool := !e.isDir && isJsonName e.name

/-- the `for scope, defs := range result` loop of `loadFromFile` -/
def addScopes : Policy → Policy → Res Policy
  | m, [] => .ok m
  | m, (scope, defs) :: rest =>
    match lookupPolicy m scope with
    | some _ => .err "duplicate-scope"
    | none => addScopes (m ++ [(scope, defs)]) rest

/-- `loadFromDirectory` (the loop over the entries) with `loadFromFile` inlined -/
def loadDir : Policy → List DirEntry → Res Policy
  | m, [] => .ok m
  | m, e :: rest =>
    if e.isDir then loadDir m rest
    else if isJsonName e.name = false then loadDir m rest
    else
      match e.content with
      | none => .err "unmarshal"
      | some scopes =>
        match addScopes m scopes with
        | .ok m' => loadDir m' rest
        | .err x => .err x
        | .panic p => .panic p

/-- what `os.Stat(config.Directory)` / the configuration says about the policy directory -/
inductive DirState where
  /-- `Directory == ""` -/
  | unset
  /-- the directory does not exist and the configured value is the default one -/
  | missingDefault
  /-- the directory does not exist (any other value), or `Stat` / `Open` / `Readdir` failed -/
  | unreadable
  | present (entries : List DirEntry)

/-- `LocalPDP.Configure` -/
def configurePolicy : DirState → Res Policy
  | .unset => .ok []
  | .missingDefault => .ok []
  | .unreadable => .err "directory"
  | .present entries => loadDir [] entries

end Nuts.C02
