/-
  C11 model, part 3: the WIRE layer of a status list entry.
    vcr/revocation/types.go                 StatusList2021Entry.Validate (check order)
    vcr/revocation/statuslist2021_issuer.go Entry: the returned literal (`strconv.Itoa(LastIssuedIndex)`, id = `<list>#<index>`),
                                            Revoke: `strconv.Atoi(entry.StatusListIndex)`
    vcr/revocation/statuslist2021_verifier.go Verify: `strconv.Atoi(slEntry.StatusListIndex)`
  `strconv.Atoi` / `strconv.Itoa` (64-bit `int`) are modelled on characters: optional sign, then only ASCII digits,
  at least one, value inside [-2^63, 2^63-1] (the fast path for short strings and `ParseInt` agree on this).
  `url.ParseRequestURI` is the standard library: its verdict is a parameter (`urlOk`).
  Core Lean only.
-/
import NutsModel.C11.Revocation
namespace Nuts.C11.Wire
open Nuts Nuts.C11

def isDigit (c : Char) : Bool := 48 ≤ c.toNat && c.toNat ≤ 57
def digitVal (c : Char) : Nat := c.toNat - 48

/-- the digit loop of `strconv.Atoi` / `ParseUint` base 10: `none` = syntax error (any byte that is not '0'..'9',
    so also '_' and non-ASCII digits) -/
def parseDigits : List Char → Nat → Option Nat
  | [], n => some n
  | c :: cs, n => if isDigit c then parseDigits cs (n * 10 + digitVal c) else none

/-- 2^63: `int` is 64 bit (`strconv.IntSize`, reported by the harness) -/
def intLimit : Nat := 9223372036854775808

/-- sign handling of `strconv.Atoi`: one leading '+' or '-' is consumed -/
def splitSign : List Char → Bool × List Char
  | '-' :: r => (true, r)
  | '+' :: r => (false, r)
  | r => (false, r)

/-- `strconv.Atoi(s)`; `none` = `*NumError` (syntax or range) -/
def atoiChars (cs : List Char) : Option Int :=
  let sd := splitSign cs
  if sd.2.isEmpty then none else
  match parseDigits sd.2 0 with
  | none => none
  | some n =>
    if sd.1 then (if n ≤ intLimit then some (-(n : Int)) else none)
    else (if n < intLimit then some (n : Int) else none)

def atoi (s : String) : Option Int := atoiChars s.toList

/-- decimal digits of a natural number, most significant first (`strconv.Itoa`/`FormatInt` base 10) -/
def natDigits (n : Nat) : List Char :=
  if h : n < 10 then [Char.ofNat (48 + n)] else natDigits (n / 10) ++ [Char.ofNat (48 + n % 10)]
termination_by n
decreasing_by omega

def itoaChars (i : Int) : List Char := if i < 0 then '-' :: natDigits i.natAbs else natDigits i.toNat

/-- `strconv.Itoa(i)` -/
def itoa (i : Int) : String := String.ofList (itoaChars i)

/-- the `StatusList2021Entry` JSON object as Go strings -/
structure WireEntry where
  id : String
  type : String
  purpose : String
  index : String
  list : String
  deriving DecidableEq, Repr

/-- the literal returned by `Entry()` for list URL `url` and `LastIssuedIndex = idx`
    (`fmt.Sprintf("%s#%d", SubjectID, LastIssuedIndex)` prints the same decimal as `Itoa`) -/
def issuedEntry (url : String) (idx : Nat) : WireEntry :=
  { id := url ++ "#" ++ itoa idx, type := "StatusList2021Entry", purpose := "revocation", index := itoa idx, list := url }

/-- the five checks of `StatusList2021Entry.Validate` -/
inductive Check where
  | idIsList      -- e.ID == e.StatusListCredential
  | type          -- e.Type != StatusList2021EntryType
  | purpose       -- e.StatusPurpose == ""
  | index         -- Atoi fails || n < 0
  | url           -- url.ParseRequestURI fails
  deriving DecidableEq, Repr

/-- does the check reject the entry? -/
def Check.fails (urlOk : String → Bool) (e : WireEntry) : Check → Bool
  | .idIsList => e.id == e.list
  | .type => e.type != "StatusList2021Entry"
  | .purpose => e.purpose == ""
  | .index => match atoi e.index with | none => true | some n => n < 0
  | .url => !urlOk e.list

def Check.name : Check → String
  | .idIsList => "id-is-list" | .type => "type" | .purpose => "purpose" | .index => "index" | .url => "url"

/-- `Validate` as a sequence of early returns: the first failing check names the error -/
def validateWith (checks : List Check) (urlOk : String → Bool) (e : WireEntry) : Res Unit :=
  match checks.find? (·.fails urlOk e) with
  | some c => .err c.name
  | none => .ok ()

/-- check order of the source (pinned against the regenerated statement list by `fact_entry_validate_order`) -/
def validateOrder : List Check := [.idIsList, .type, .purpose, .index, .url]

def validateEntry (urlOk : String → Bool) (e : WireEntry) : Res Unit := validateWith validateOrder urlOk e

/-- the source text of each `if` of `Validate` → the check it performs (used to interpret the regenerated list) -/
def checkOf (cond : String) : Option Check :=
  if cond == "e.ID == e.StatusListCredential" then some .idIsList else
  if cond == "e.Type != StatusList2021EntryType" then some .type else
  if cond == "e.StatusPurpose == \"\"" then some .purpose else
  if cond == "n,err := strconv.Atoi(e.StatusListIndex); err != nil || n < 0" then some .index else
  if cond == "_,err := url.ParseRequestURI(e.StatusListCredential); err != nil" then some .url else none

/-- the regenerated top-level statement chain of `Validate` (`if` … `if` … `return nil`) read as a check list;
    `none` when a statement is not one of the five known checks or the chain does not end in `return nil` -/
def checksOfChain (chain : List String) : Option (List Check) :=
  match chain.reverse with
  | "return nil" :: rest => rest.reverse.mapM checkOf
  | _ => none

/-- what `Revoke` and `(cs *StatusList2021) Verify` make of a wire entry: only `Atoi` — neither calls `Validate` -/
def WireEntry.toStatus (parseUrl : String → Url) (e : WireEntry) : StatusEntry :=
  { type := e.type, purpose := e.purpose, list := parseUrl e.list, idx := atoi e.index }

/-- `statusListURL`: `url.Parse(baseURL).JoinPath("statuslist", did, strconv.Itoa(page)).String()` for a base URL without
    trailing slash / query / fragment and a DID whose characters need no path escaping: plain concatenation -/
def renderSlChars (base issuer : String) (page : Nat) : List Char :=
  base.toList ++ "/statuslist/".toList ++ issuer.toList ++ '/' :: natDigits page

def renderSl (base issuer : String) (page : Nat) : String := String.ofList (renderSlChars base issuer page)

def renderUrl : Url → String
  | .sl base issuer page => renderSl base issuer page
  | .raw s => s

end Nuts.C11.Wire
