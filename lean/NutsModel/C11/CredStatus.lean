/-
  C11 model, part 5: the credentialStatus syntax check every verification runs first.
    vcr/credential/validator.go  defaultCredentialValidator.Validate → validateCredentialStatus (loop over the entries:
                                 id, type, per-type: StatusList2021 context, StatusList2021Entry.Validate)
    vcr/verifier/verifier.go     Verify: validator.Validate, then the revocation checks, then the validity period
  A credential arrives as WIRE entries (Go strings); only what passes the validator reaches `(cs *StatusList2021) Verify`,
  which parses the same strings again (`WireEntry.toStatus`). Core Lean only.
-/
import NutsModel.C11.Wire
import NutsModel.C11.ValidAt
namespace Nuts.C11.Wire
open Nuts Nuts.C11

/-- `validateCredentialStatus`: `hasCtx` = the credential lists the StatusList2021 context; an entry's `id`/`type` are ""
    when the JSON member is absent. Other credentialStatus types are not looked at. -/
def validateCredentialStatus (hasCtx : Bool) (urlOk : String → Bool) : List WireEntry → Res Unit
  | [] => .ok ()
  | e :: rest =>
    if e.id == "" then .err "status-id" else
    if e.type == "" then .err "status-type" else
    if e.type == "StatusList2021Entry" then
      if !hasCtx then .err "status-context" else
      match validateEntry urlOk e with
      | .ok _ => validateCredentialStatus hasCtx urlOk rest
      | .err x => .err x
      | .panic x => .panic x
    else validateCredentialStatus hasCtx urlOk rest

/-- the id rule that comes before the credentialStatus check: `validateNutsCredentialID` for the Nuts credential types,
    `credential.ID == nil` in the default validator -/
def idRuleOk (c : Cred) (nutsType : Bool) : Bool :=
  if nutsType then (match validateNutsId c with | .ok _ => true | _ => false) else c.id.isSome

/-- `verifier.Verify(cred, true, false, validAt)` on a credential given by its wire entries (`none`: no credentialStatus):
    validator (id rule, credentialStatus syntax), then the revocation checks on the re-parsed entries, then the validity period -/
def verifyWire (E : Env) (i : Bool) (w : World) (cid : Option String) (issuer : String) (hasCtx : Bool) (urlOk : String → Bool)
    (parse : String → Url) (sts : Option (List WireEntry)) (nutsType readFault : Bool)
    (validAt : Option Int) (now : Int) (period : Int → Bool) : Verdict × World :=
  let c : Cred := { id := cid, issuer := issuer, statuses := sts.map (·.map (·.toStatus parse)) }
  if !idRuleOk c nutsType then (.err "validation", w) else
  match validateCredentialStatus hasCtx urlOk (sts.getD []) with
  | .ok _ => verifyAt E i w c nutsType readFault validAt now period
  | .err _ => (.err "validation:status", w)
  | .panic x => (.err ("panic:" ++ x), w)

end Nuts.C11.Wire
