/-
  C11 model, part 9: the JSON typing of a credentialStatus entry. `validateCredentialStatus` decodes every StatusList2021Entry
  with `json.Unmarshal(credentialStatus.Raw(), &cs)` into a struct of Go strings: a JSON number / bool / object / array where a
  string is expected is an UnmarshalTypeError (the entry is refused), JSON null leaves the field "" (which `Validate` then
  refuses for the index). `(cs *StatusList2021) Verify` decodes the same bytes again ("cannot happen" branch). Core Lean only.
-/
import NutsModel.C11.CredStatus
namespace Nuts.C11.Wire
open Nuts Nuts.C11

/-- a JSON value where the Go struct has a `string` field -/
inductive JVal where
  | str (s : String)
  | null
  | other            -- number, bool, object, array
  deriving DecidableEq, Repr

/-- `json.Unmarshal` of one member into a Go string field -/
def unmarshalString : JVal → Res String
  | .str s => .ok s
  | .null => .ok ""
  | .other => .err "unmarshal"

/-- an entry as JSON: `id` / `type` were already decoded by `credential.CredentialStatuses()` ("" = absent) -/
structure JEntry where
  id : String
  type : String
  purpose : JVal
  index : JVal
  list : JVal
  deriving DecidableEq, Repr

def JEntry.ofWire (e : WireEntry) : JEntry :=
  { id := e.id, type := e.type, purpose := .str e.purpose, index := .str e.index, list := .str e.list }

/-- `json.Unmarshal(raw, &cs)`: an error when ANY member has the wrong JSON type (the decoder goes on and reports the first) -/
def JEntry.decode (e : JEntry) : Res WireEntry :=
  match unmarshalString e.purpose, unmarshalString e.index, unmarshalString e.list with
  | .ok p, .ok i, .ok l => .ok { id := e.id, type := e.type, purpose := p, index := i, list := l }
  | _, _, _ => .err "unmarshal"

/-- `validateCredentialStatus` over JSON-typed entries -/
def validateCredentialStatusJ (hasCtx : Bool) (urlOk : String → Bool) : List JEntry → Res Unit
  | [] => .ok ()
  | e :: rest =>
    if e.id == "" then .err "status-id" else
    if e.type == "" then .err "status-type" else
    if e.type == "StatusList2021Entry" then
      if !hasCtx then .err "status-context" else
      match e.decode with
      | .ok we =>
        (match validateEntry urlOk we with
         | .ok _ => validateCredentialStatusJ hasCtx urlOk rest
         | .err x => .err x
         | .panic x => .panic x)
      | .err x => .err x
      | .panic x => .panic x
    else validateCredentialStatusJ hasCtx urlOk rest

/-- what `(cs *StatusList2021) Verify` sees of an entry that was not validated as StatusList2021Entry (other types are skipped
    by their type, so the decoded strings do not matter) -/
def JEntry.toWire (e : JEntry) : WireEntry :=
  match e.decode with
  | .ok we => we
  | _ => { id := e.id, type := e.type, purpose := "", index := "", list := "" }

/-- `verifier.Verify` on a credential whose status entries are JSON-typed -/
def verifyWireJ (E : Env) (i : Bool) (w : World) (cid : Option String) (issuer : String) (hasCtx : Bool) (urlOk : String → Bool)
    (parse : String → Url) (sts : Option (List JEntry)) (nutsType readFault : Bool)
    (validAt : Option Int) (now : Int) (period : Int → Bool) : Verdict × World :=
  let c0 : Cred := { id := cid, issuer := issuer, statuses := none }
  if !idRuleOk c0 nutsType then (.err "validation", w) else
  match validateCredentialStatusJ hasCtx urlOk (sts.getD []) with
  | .ok _ => verifyWire E i w cid issuer hasCtx urlOk parse (sts.map (·.map JEntry.toWire)) nutsType readFault validAt now period
  | .err _ => (.err "validation:status", w)
  | .panic x => (.err ("panic:" ++ x), w)

end Nuts.C11.Wire
