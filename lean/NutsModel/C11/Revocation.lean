/-
  C11 model, part 2. Mirrors
    vcr/revocation/statuslist2021_issuer.go   Entry / Revoke / Credential / updateCredential / isManaged
    vcr/revocation/statuslist2021_verifier.go Verify / statusList / update / verify / validate
    vcr/verifier/verifier.go                  RegisterRevocation / IsRevoked / Verify (revocation part)
    vcr/credential/revocation.go              ValidateRevocation
    vcr/ambassador.go                         jsonLDRevocationCallback = RegisterRevocation, vcCallback = Verify + store
  Core Lean only. Signing, signature verification and key resolution are parameters (`Env`, `KeyEnv`).
  SQL: a transaction is an atomic unit; `Entry`'s transaction is split at its row lock (`SELECT .. FOR UPDATE`) into a
  read step and a write step so that the duplicate-key retry loop is inside the model (see `eRead`/`eWrite`).
  A status list URL `<base>/statuslist/<issuer>/<page>` is the constructor `Url.sl` (the rendering is injective; the
  driver parses it back); any other URL is `Url.raw`.
-/
import NutsModel.C11.Bitstring
namespace Nuts.C11

inductive Url where
  | sl (base issuer : String) (page : Nat)
  | raw (s : String)
  deriving DecidableEq, Repr, Inhabited

/-- `credentialSubject.encodedList` as the code sees it: empty string, not expandable, or the expanded bitstring -/
inductive Enc where
  | empty
  | bad
  | ok (bits : Bits)
  deriving DecidableEq

structure Subject where
  id : Url
  typeOk : Bool := true          -- credentialSubject.type == "StatusList2021"
  purpose : String
  enc : Enc
  deriving DecidableEq

/-- a StatusList2021Credential, as far as `validate`/`verify`/`update` look at it -/
structure VCBody where
  issuer : String
  ctxV1 : Bool := true
  ctxSL : Bool := true
  typeVC : Bool := true
  typeSL : Bool := true
  nTypes : Nat := 2
  hasId : Bool := true
  issued : Option Nat            -- none: zero issuanceDate
  expires : Option Nat           -- none: absent or zero expirationDate
  hasStatus : Bool := false      -- the list credential itself carries a credentialStatus
  subjects : List Subject
  deriving DecidableEq

structure VC where
  body : VCBody
  proof : Option String          -- none: JSON-LD credential without proof
  deriving DecidableEq

/-- constants (regenerated facts) and the injected functions `ResolveKey`, `Sign`, `VerifySignature` -/
structure Env where
  lenBytes : Nat                 -- defaultBitstringLengthInBytes
  maxIndex : Nat                 -- maxBitstringIndex
  validity : Nat                 -- statusListValidity (s)
  minLeft : Nat                  -- minTimeUntilExpired (s)
  maxAge : Nat                   -- maxAgeExternal (s)
  keyOf : String → Option String
  sign : String → VCBody → String
  verify : VC → Bool
  /-- the injected `Sign` returns an error (key store outage) although `ResolveKey` worked -/
  signFails : Bool := false
  /-- the status list endpoint of the node with this base URL cannot be reached (transport failure) -/
  down : String → Bool := fun _ => false

structure PageRow where          -- table status_list (credentialIssuerRecord); `lock` = row lock owner (thread id)
  id : Url
  issuer : String
  page : Nat
  last : Nat
  lock : Option Nat := none
  deriving DecidableEq, Repr

structure RevRow where           -- table status_list_entry, primary key (list, idx)
  list : Url
  idx : Nat
  credId : String
  deriving DecidableEq, Repr

structure CredRec where          -- table status_list_credential, primary key id
  id : Url
  purpose : String
  bits : Bits
  createdAt : Nat
  expires : Option Nat
  raw : VC
  deriving DecidableEq

/-- credential.Revocation as far as RegisterRevocation / ValidateRevocation look at it -/
structure RevProof where
  vm : String
  sig : String
  deriving DecidableEq, Repr

structure Revocation where
  subject : String
  issuer : String
  hasContext : Bool := true
  typeOk : Bool := true
  date : Option Nat              -- none: zero date
  proof : Option RevProof
  reason : String := ""
  deriving DecidableEq, Repr

structure Node where
  base : String
  dids : List String := []       -- table did (foreign key of status_list.issuer)
  pages : List PageRow := []
  revs : List RevRow := []
  creds : List CredRec := []
  netRevs : List Revocation := []   -- leia collection "revocations"
  deriving DecidableEq

/-! ## issuer side -/

def Node.url (n : Node) (issuer : String) (page : Nat) : Url := .sl n.base issuer page
def Node.page? (n : Node) (u : Url) : Option PageRow := n.pages.find? (fun r => r.id == u)
def Node.isManaged (n : Node) (u : Url) : Bool := (n.page? u).isSome
def Node.cred? (n : Node) (u : Url) : Option CredRec := n.creds.find? (fun c => c.id == u)
/-- the row an upsert leaves behind: gorm's `OnConflict{UpdateAll: true}` does not update `autoCreateTime` columns, so
    `created_at` keeps the value of the first insert -/
def Node.stored (n : Node) (rec : CredRec) : CredRec :=
  match n.cred? rec.id with
  | some old => { rec with createdAt := old.createdAt }
  | none => rec

/-- `tx.Clauses(clause.OnConflict{UpdateAll: true}).Create(credRecord)` -/
def Node.putCred (n : Node) (rec : CredRec) : Node :=
  { n with creds := n.stored rec :: n.creds.filter (fun c => !(c.id == rec.id)) }
/-- `Preload("Revocations")`: the revoked indexes of one list -/
def Node.revsOf (n : Node) (u : Url) : List Nat := (n.revs.filter (fun r => r.list == u)).map (·.idx)

/-- `for _, rev := range issuerRecord.Revocations { expanded.setBit(rev.StatusListIndex, true) }` -/
def setAll : Bits → List Nat → Res Bits
  | bs, [] => .ok bs
  | bs, i :: is =>
    match bs.setBit (i : Int) true with
    | .ok bs' => setAll bs' is
    | .err e => .err e
    | .panic s => .panic s

def listBody (E : Env) (now : Nat) (row : PageRow) (bits : Bits) : VCBody :=
  { issuer := row.issuer, issued := some now, expires := some (now + E.validity),
    subjects := [{ id := row.id, purpose := "revocation", enc := .ok bits }] }

/-- `updateCredential` + `buildAndSignVC`: bitstring from the revocations, credential valid for `statusListValidity`, signed -/
def updateCredential (E : Env) (now : Nat) (row : PageRow) (revIdxs : List Nat) (kid : String) : Res (VC × CredRec) :=
  match setAll (newBits E.lenBytes) revIdxs with
  | .ok bits =>
    if E.signFails then .err "sign" else   -- `cs.buildAndSignVC` error: returned to the caller, whose transaction rolls back
    let body := listBody E now row bits
    let vc : VC := { body := body, proof := some (E.sign kid body) }
    .ok (vc, { id := row.id, purpose := "revocation", bits := bits, createdAt := now,
               expires := some (now + E.validity), raw := vc })
  | .err e => .err e
  | .panic s => .panic s

/-- phases of one `Entry` call: before the `SELECT … FOR UPDATE` (with the primary key left in the re-used
    `credentialIssuer` struct by a failed attempt), between the select and the write, and finished -/
inductive EPhase where
  | start (pin : Option Url)
  | locked (row : Option PageRow)
  | done (list : Url) (idx : Nat)
  | failed (e : String)
  deriving DecidableEq, Repr

def Node.unlock (n : Node) (tid : Nat) : Node :=
  { n with pages := n.pages.map (fun r => if r.lock == some tid then { r with lock := none } else r) }

/-- what the write half of the `Entry` transaction (everything after the select) does -/
inductive WOut where
  | update (id : Url) (last : Nat)            -- `UpdateColumn("last_issued_index", …)`, commit
  | create (row : PageRow) (rec : CredRec)    -- new page + its empty signed list, commit
  | retry (pin : Url)                         -- gorm.ErrDuplicatedKey: rollback, loop again
  | fail (e : String)                         -- any other error: rollback, return it

/-- the selected row, or for a first-time issuer the literal
    `credentialIssuerRecord{Issuer: issuer, LastIssuedIndex: maxBitstringIndex, Page: 0}` -/
def entryCur (E : Env) (issuer : String) (row : Option PageRow) : PageRow :=
  match row with
  | some r => r
  | none => { id := .raw "", issuer := issuer, page := 0, last := E.maxIndex }

def entryDecide (E : Env) (now : Nat) (n : Node) (issuer kid : String) (row : Option PageRow) : WOut :=
  let cur := entryCur E issuer row
  let last := cur.last + 1
  if last > E.maxIndex then
    let page := cur.page + 1
    let id := n.url issuer page
    if n.isManaged id then .retry id
    else if !n.dids.contains issuer then .fail "fk"
    else
      let newRow : PageRow := { id := id, issuer := issuer, page := page, last := 0 }
      match updateCredential E now newRow [] kid with
      | .ok (_, rec) => if (n.cred? id).isSome then .retry id else .create newRow rec
      | .err e => .fail e
      | .panic s => .fail ("panic:" ++ s)
  else .update cur.id last

def Node.applyOut (n : Node) : WOut → Node × EPhase
  | .update id last =>
    ({ n with pages := n.pages.map (fun r => if r.id == id then { r with last := last } else r) }, .done id last)
  | .create row rec => ({ n with pages := row :: n.pages, creds := rec :: n.creds }, .done row.id 0)
  | .retry pin => (n, .start (some pin))
  | .fail e => (n, .failed e)

/-- the write half of the `Entry` transaction, ending in commit (`done`), rollback + retry (`start`, on
    gorm.ErrDuplicatedKey) or rollback + error (`failed`) -/
def entryWrite (E : Env) (now : Nat) (n : Node) (issuer kid : String) (row : Option PageRow) : Node × EPhase :=
  n.applyOut (entryDecide E now n issuer kid row)

structure EThread where
  issuer : String
  phase : EPhase := .start none
  deriving DecidableEq, Repr

/-- issuer node + the concurrently running `Entry` calls + the clock -/
structure EWorld where
  node : Node
  threads : List EThread := []
  now : Nat := 0

def EWorld.setPhase (w : EWorld) (tid : Nat) (p : EPhase) : EWorld :=
  { w with threads := w.threads.modify tid (fun t => { t with phase := p }) }

/-- read step of thread `tid`: `SELECT … WHERE issuer = ? [AND subject_id = pin] ORDER BY page DESC LIMIT 1 FOR UPDATE`.
    Which row the database hands out under its isolation level is the scheduler's choice `sel`: `none` (no row seen) or
    any row of that issuer that is not locked by another transaction; the row is locked until the write step ends.
    A choice that names no such row (absent, foreign, or locked = the statement blocks) leaves the world unchanged. -/
def eRead (E : Env) (w : EWorld) (tid : Nat) (sel : Option Url) : EWorld :=
  match w.threads[tid]? with
  | some th =>
    match th.phase with
    | .start _ =>
      match E.keyOf th.issuer with
      | none => w.setPhase tid (.failed "key")
      | some _ =>
        match sel with
        | none => w.setPhase tid (.locked none)
        | some u =>
          match w.node.pages.find? (fun r => r.id == u && r.issuer == th.issuer && r.lock.isNone) with
          | some r =>
            { w with node := { w.node with pages := w.node.pages.map (fun (x : PageRow) => if x.id == u then { x with lock := some tid } else x) } }.setPhase
              tid (.locked (some r))
          | none => w
    | _ => w
  | none => w

/-- write step of thread `tid` (rest of the transaction, then commit or rollback; row locks are released) -/
def eWrite (E : Env) (w : EWorld) (tid : Nat) : EWorld :=
  match w.threads[tid]? with
  | some th =>
    match th.phase with
    | .locked row =>
      match E.keyOf th.issuer with
      | none => w.setPhase tid (.failed "key")
      | some kid =>
        let (n', ph) := entryWrite E w.now (w.node.unlock tid) th.issuer kid row
        { w with node := n' }.setPhase tid ph
    | _ => w
  | none => w

/-- the row the select returns when nothing runs concurrently. gorm's `Order("page").Last(…)` appends the primary key
    descending to the given order (`ORDER BY page, subject_id DESC LIMIT 1`), so it is the issuer's LOWEST page; on a retry the
    primary key left in the re-used struct restricts the query to that page. (After the first roll-over an `Entry` call
    therefore always starts at page 1 and reaches the current page through duplicate-key retries.) -/
def detSel (n : Node) (issuer : String) (pin : Option Url) : Option Url :=
  let rows := n.pages.filter (fun r => r.issuer == issuer && (match pin with | none => true | some p => r.id == p))
  (rows.foldl (fun (best : Option PageRow) r =>
      match best with
      | none => some r
      | some b => if r.page < b.page then some r else some b) none).map (·.id)

/-- status entry of a credential (`StatusList2021Entry`); `idx = none` when `strconv.Atoi(statusListIndex)` fails -/
structure StatusEntry where
  type : String := "StatusList2021Entry"
  purpose : String := "revocation"
  list : Url
  idx : Option Int
  deriving DecidableEq, Repr

/-- `Revoke`: the checks before the transaction, then insert (primary key ⇒ errRevoked), range check, re-sign, upsert -/
def revoke (E : Env) (now : Nat) (n : Node) (credId : String) (e : StatusEntry) : Res Node :=
  match e.idx with
  | none => .err "atoi"
  | some i =>
    if e.purpose != "revocation" then .err "purpose" else
    match n.page? e.list with
    | none => .err "notfound"
    | some row =>
      match E.keyOf row.issuer with
      | none => .err "key"
      | some kid =>
        if n.revs.any (fun r => r.list == e.list && (r.idx : Int) == i) then .err "revoked" else
        if i < 0 ∨ i > (row.last : Int) then .err "index" else
        let n1 : Node := { n with revs := n.revs ++ [{ list := e.list, idx := i.toNat, credId := credId }] }
        match updateCredential E now row (n1.revsOf e.list) kid with
        | .ok (_, rec) => .ok (n1.putCred rec)
        | .err x => .err x
        | .panic s => .panic s

/-- `Credential` (what the node serves at `<base>/statuslist/<issuer>/<page>`).
    The reads before its transaction (`isManaged`, `loadCredential`, `ResolveKey`) only decide whether the stored list is
    served or a new one is issued; the revocations the new list is built from are read inside the transaction after the
    row lock (fact `credentialCalls`), so one atomic step describes it (a `Revoke` that commits in between is equivalent to
    one that commits before; the harness forces exactly that interleaving with its `serverace` operation). -/
def credential (E : Env) (now : Nat) (n : Node) (issuer : String) (page : Nat) : Res (VC × Node) :=
  let u := n.url issuer page
  match n.page? u with
  | none => .err "notfound"
  | some row =>
    let cached : Res (Option VC) :=
      match n.cred? u with
      | none => .ok none
      | some rec =>
        match rec.expires with
        | none => .panic "Credential:*credRecord.Expires nil"
        | some e => if now + E.minLeft < e then .ok (some rec.raw) else .ok none
    match cached with
    | .panic s => .panic s
    | .err e => .err e
    | .ok (some vc) => .ok (vc, n)
    | .ok none =>
      match E.keyOf issuer with
      | none => .err "key"
      | some kid =>
        match updateCredential E now row (n.revsOf u) kid with
        | .ok (vc, rec) => .ok (vc, n.putCred rec)
        | .err x => .err x
        | .panic s => .panic s

/-! ## schedules on the issuer node -/

/-- what can happen on an issuer node: a new `Entry` call starts, a running one takes its read or its write step,
    a `Revoke` / `Credential` transaction runs, time passes -/
inductive EAct where
  | spawn (issuer : String)
  | read (tid : Nat) (sel : Option Url)
  | write (tid : Nat)
  | revoke (credId : String) (e : StatusEntry)
  | serve (issuer : String) (page : Nat)
  | tick (d : Nat)
  /-- the node's public `url` setting changes (restart with another base URL): pages created earlier keep the subject id
      they were stored with; `statusListURL` renders new page URLs under the new base -/
  | rebase (base : String)

def eStep (E : Env) (w : EWorld) : EAct → EWorld
  | .spawn issuer => { w with threads := w.threads ++ [{ issuer := issuer }] }
  | .read tid sel => eRead E w tid sel
  | .write tid => eWrite E w tid
  | .revoke credId e =>
    match revoke E w.now w.node credId e with
    | .ok n => { w with node := n }
    | _ => w
  | .serve issuer page =>
    match credential E w.now w.node issuer page with
    | .ok (_, n) => { w with node := n }
    | _ => w
  | .tick d => { w with now := w.now + d }
  | .rebase base => { w with node := { w.node with base := base } }

def eRun (E : Env) (w : EWorld) (acts : List EAct) : EWorld := acts.foldl (eStep E) w

/-! ## verifier side -/

/-- outcome of `download`: transport / status / JSON failure, or a parsed credential -/
inductive Fetch where
  | fail
  | vc (v : VC)
  deriving DecidableEq

/-- `validate` (check order as in the source) -/
def validate (vc : VC) : Res Subject :=
  if !vc.body.ctxV1 then .err "validate:context-v1" else
  if !vc.body.ctxSL then .err "validate:context-sl" else
  if !vc.body.typeVC then .err "validate:type-vc" else
  if !vc.body.typeSL then .err "validate:type-sl" else
  if vc.body.nTypes > 2 then .err "validate:other-types" else
  if !vc.body.hasId then .err "validate:id" else
  if vc.body.issued.isNone then .err "validate:issuanceDate" else
  if vc.proof.isNone then .err "validate:proof" else
  if vc.body.hasStatus then .err "validate:credentialStatus" else
  match vc.body.subjects with
  | [s] =>
    if !s.typeOk then .err "validate:subject-type" else
    if s.purpose == "" then .err "validate:purpose" else
    if s.enc == .empty then .err "validate:encodedList" else
    .ok s
  | _ => .err "validate:single-subject"

/-- `verify`: validate, expand, VerifySignature -/
def verifyList (E : Env) (vc : VC) : Res (Subject × Bits) :=
  match validate vc with
  | .ok s =>
    match s.enc with
    | .ok bits => if E.verify vc then .ok (s, bits) else .err "signature"
    | _ => .err "encodedList"
  | .err e => .err e
  | .panic s => .panic s

/-- `update`: download (outcome `f`), verify, subject id must be the requested URL, store -/
def update (E : Env) (now : Nat) (n : Node) (u : Url) (f : Fetch) : Res (CredRec × Node) :=
  match f with
  | .fail => .err "download"
  | .vc v =>
    match verifyList E v with
    | .ok (s, bits) =>
      if u != s.id then .err "wrong-credential" else
      let cr : CredRec := { id := u, purpose := s.purpose, bits := bits, createdAt := now, expires := v.body.expires, raw := v }
      .ok (cr, n.putCred cr)
    | .err e => .err e
    | .panic s => .panic s

/-- the refresh condition of `statusList` as a decision over three facts about the cached record:
    `(cr.Expires != nil && expired) || olderThanMaxAge` — the age test is NOT under the `Expires != nil` guard -/
def refreshDecision (hasExpiry expired tooOld : Bool) : Bool := (hasExpiry && expired) || tooOld

def stale (E : Env) (now : Nat) (rec : CredRec) : Bool :=
  refreshDecision rec.expires.isSome (match rec.expires with | some e => e < now | none => false) (rec.createdAt + E.maxAge < now)

/-- does `statusList` call `download` for this URL in this state? -/
def needsFetch (E : Env) (now : Nat) (n : Node) (u : Url) : Bool :=
  match n.cred? u with
  | none => true
  | some rec => if n.isManaged u then false else stale E now rec

/-- `statusList`: the record used to judge entries of list `u` (`f` = outcome of the download, if one is made) -/
def statusList (E : Env) (now : Nat) (n : Node) (u : Url) (f : Fetch) : Res (CredRec × Node) :=
  match n.cred? u with
  | none => update E now n u f
  | some rec =>
    if n.isManaged u then .ok (rec, n) else
    if stale E now rec then
      match update E now n u f with
      | .ok r => .ok r
      | _ => .ok (rec, n)
    else .ok (rec, n)

inductive Verdict where
  | ok
  | revoked
  | err (e : String)
  deriving DecidableEq, Repr

/-- one iteration of the loop in `(cs *StatusList2021) Verify`; `none` = continue with the next status -/
def checkStatus (E : Env) (now : Nat) (n : Node) (st : StatusEntry) (f : Fetch) : Option Verdict × Node :=
  match statusList E now n st.list f with
  | .ok (rec, n') =>
    if rec.purpose != st.purpose then (some (.err "purpose-mismatch"), n') else
    match st.idx with
    | none => (some (.err "atoi"), n')
    | some i =>
      match rec.bits.bit i with
      | .ok true => (some .revoked, n')
      | .ok false => (none, n')
      | .err e => (some (.err e), n')
      | .panic s => (some (.err ("panic:" ++ s)), n')
  | .err _ => (some (.err "statuslist"), n)
  | .panic s => (some (.err ("panic:" ++ s)), n)

/-- is this status looked at? (type StatusList2021Entry and purpose "revocation") -/
def StatusEntry.relevant (st : StatusEntry) : Bool := st.type == "StatusList2021Entry" && st.purpose == "revocation"

/-! ## network revocations (vcr/verifier, vcr/credential/revocation.go) -/

/-- `strings.Split(s, "#")[0]` -/
def prefixOf (s : String) : String := String.ofList (s.toList.takeWhile (· != '#'))
/-- the URI fragment: what follows the first `#` -/
def fragmentOf (s : String) : String := String.ofList ((s.toList.dropWhile (· != '#')).drop 1)

structure KeyEnv where
  /-- `keyResolver.ResolveKeyByID(vm, {ResolveTime: date}, NutsSigningKeyType)` -/
  resolveKey : String → Option Nat → Option String
  /-- `ldProof.Verify(document without proof, JsonWebSignature2020, pk)` -/
  sigOK : String → Revocation → String → Bool

/-- `ValidateRevocation` -/
def validateRevocation (r : Revocation) : Res RevProof :=
  if r.subject == "" || fragmentOf r.subject == "" then .err "validation:subject" else
  if r.hasContext && !r.typeOk then .err "validation:type" else
  if r.issuer == "" then .err "validation:issuer" else
  if r.date.isNone then .err "validation:date" else
  match r.proof with
  | none => .err "validation:proof"
  | some p => .ok p

/-- `RegisterRevocation` (check order as in the source) -/
def registerRevocation (K : KeyEnv) (n : Node) (r : Revocation) : Res Node :=
  match validateRevocation r with
  | .ok p =>
    if prefixOf r.subject != r.issuer then .err "issuer-mismatch" else
    if prefixOf p.vm != r.issuer then .err "vm-not-of-issuer" else
    match K.resolveKey p.vm r.date with
    | none => .err "key"
    | some pk =>
      if !K.sigOK pk r p.sig then .err "signature" else
      .ok { n with netRevs := n.netRevs ++ [r] }
  | .err e => .err e
  | .panic s => .panic s

/-- `IsRevoked`: a stored revocation whose subject is the credential id -/
def Node.isRevoked (n : Node) (credId : String) : Bool := n.netRevs.any (fun r => r.subject == credId)

/-- a credential as far as the revocation checks look at it -/
structure Cred where
  id : Option String
  issuer : String
  statuses : Option (List StatusEntry)    -- none: `CredentialStatus == nil`
  deriving DecidableEq, Repr

/-- `if credentialToVerify.ID != nil { revoked, err := v.IsRevoked(*credentialToVerify.ID) … }` -/
def Node.credRevoked (n : Node) (c : Cred) : Bool :=
  match c.id with
  | some id => n.isRevoked id
  | none => false

/-! ## two nodes and foreign hosts -/

structure World where
  a : Node                       -- node 0
  b : Node                       -- node 1
  hosts : List (String × (Nat → Fetch)) := []   -- what other URLs serve (as a function of the time of the request)
  now : Nat := 0
  log : List Url := []           -- URLs requested by `download`, oldest first

def World.get (w : World) (i : Bool) : Node := if i then w.b else w.a
def World.set (w : World) (i : Bool) (n : Node) : World := if i then { w with b := n } else { w with a := n }

/-- `download`: a status list URL of one of the two nodes is answered by that node's `Credential` (HTTP handler);
    other URLs by whatever the host serves -/
def download (E : Env) (w0 : World) (u : Url) : Fetch × World :=
  let w : World := { w0 with log := w0.log ++ [u] }
  match u with
  | .sl base issuer page =>
    if E.down base then (.fail, w)
    else if base == w.a.base then
      match credential E w.now w.a issuer page with
      | .ok (vc, n) => (.vc vc, { w with a := n })
      | _ => (.fail, w)
    else if base == w.b.base then
      match credential E w.now w.b issuer page with
      | .ok (vc, n) => (.vc vc, { w with b := n })
      | _ => (.fail, w)
    else (.fail, w)
  | .raw s =>
    match alGet w.hosts s with
    | some f => (f w.now, w)
    | none => (.fail, w)

/-- the loop of `(cs *StatusList2021) Verify` on node `i` -/
def verifyStatuses (E : Env) (i : Bool) : World → List StatusEntry → Verdict × World
  | w, [] => (.ok, w)
  | w, st :: rest =>
    if !st.relevant then verifyStatuses E i w rest else
    let (f, w1) := if needsFetch E w.now (w.get i) st.list then download E w st.list else (Fetch.fail, w)
    let (o, n') := checkStatus E w1.now (w1.get i) st f
    let w2 := w1.set i n'
    match o with
    | some v => (v, w2)
    | none => verifyStatuses E i w2 rest

/-- `(cs *StatusList2021) Verify` -/
def statusVerify (E : Env) (i : Bool) (w : World) (c : Cred) : Verdict × World :=
  match c.statuses with
  | none => (.ok, w)
  | some sts => verifyStatuses E i w sts

/-- the revocation part of `verifier.Verify`: network revocation first, then the credential status with soft fail.
    `.ok` = not rejected as revoked (the remaining checks of Verify are outside this property) -/
def verify (E : Env) (i : Bool) (w : World) (c : Cred) : Verdict × World :=
  if (w.get i).credRevoked c then (.revoked, w) else
  match statusVerify E i w c with
  | (.revoked, w') => (.revoked, w')
  | (_, w') => (.ok, w')

/-- `validateNutsCredentialID`: the first check of the validators of NutsOrganizationCredential and NutsAuthorizationCredential
    (`credential.ID` must be present and `resolver.GetDIDFromURL(credential.ID.String())` must equal the issuer).
    The default validator (every other credential type) has no such rule. -/
def validateNutsId (c : Cred) : Res Unit :=
  match c.id with
  | none => .err "validation"
  | some id => if prefixOf id != c.issuer then .err "validation" else .ok ()

/-- `verifier.Verify` when the revocation store cannot be read: `IsRevoked` returns the store's error (anything but
    ErrNotFound) and `Verify` RETURNS it — the soft-fail block further down only wraps `credentialStatus.Verify` -/
def verifyWithStore (E : Env) (i : Bool) (w : World) (c : Cred) (readFault : Bool) : Verdict × World :=
  match c.id with
  | some _ => if readFault then (.err "store", w) else verify E i w c
  | none => verify E i w c

/-- `verifier.Verify` up to and including the revocation checks: the type-specific validator's id rule, then `verify` -/
def verifyFull (E : Env) (i : Bool) (w : World) (c : Cred) (nutsType : Bool) : Verdict × World :=
  if nutsType then
    match validateNutsId c with
    | .ok _ => verify E i w c
    | .err e => (.err e, w)
    | .panic s => (.err ("panic:" ++ s), w)
  else
    match c.id with
    | none => (.err "validation", w)
    | some _ => verify E i w c

/-- `verifyFull` with the outcome of the store read -/
def verifyFullF (E : Env) (i : Bool) (w : World) (c : Cred) (nutsType readFault : Bool) : Verdict × World :=
  if nutsType then
    match validateNutsId c with
    | .ok _ => verifyWithStore E i w c readFault
    | .err e => (.err e, w)
    | .panic s => (.err ("panic:" ++ s), w)
  else
    match c.id with
    | none => (.err "validation", w)
    | some _ => verifyWithStore E i w c readFault

/-! ## the network event that delivers a revocation (vcr/ambassador.go) -/

/-- what `store.StoreRevocation` does when the revocation has passed all checks: succeeds, fails with a context
    time-out / cancellation wrapped `wraps` times with `%w` (the leia/bbolt backup store wraps, RegisterRevocation wraps
    again), or fails with another storage error -/
inductive StoreFault where
  | none
  | transient (wraps : Nat)
  | other
  deriving DecidableEq, Repr

/-- `RegisterRevocation` with the outcome of the store call: "unable to store revocation: %w" -/
def registerRevocationF (K : KeyEnv) (n : Node) (r : Revocation) (fault : StoreFault) : Res Node :=
  match registerRevocation K n r with
  | .ok n' =>
    match fault with
    | .none => .ok n'
    | .transient _ => .err "store:context"     -- errors.Is(err, context.Canceled / DeadlineExceeded) holds through every %w
    | .other => .err "store:other"
  | .err e => .err e
  | .panic s => .panic s

/-- what the DAG notifier does with the event afterwards: done, retried later, or dropped for good (`dag.EventFatal`) -/
inductive EventOutcome where
  | done
  | retry
  | fatal
  deriving DecidableEq, Repr

/-- `handleNetworkRevocations` + `handleError`: context time-outs and cancellations (recognised with `errors.Is`, i.e. at
    any wrapping depth) are recoverable; every other error is fatal -/
def handleRevocationEvent (K : KeyEnv) (n : Node) (r : Revocation) (fault : StoreFault) : EventOutcome × Node :=
  match registerRevocationF K n r fault with
  | .ok n' => (.done, n')
  | .err e => if e == "store:context" then (.retry, n) else (.fatal, n)
  | .panic _ => (.fatal, n)

/-! ## the issuer's `Revoke` (vcr/issuer/issuer.go) -/

/-- the loop of `revokeStatusList`: the first credentialStatus of type StatusList2021Entry whose purpose is revocation
    (entries of that type with another purpose are skipped with `continue`, other types are not looked at) -/
def firstRevocationEntry : List StatusEntry → Option StatusEntry
  | [] => none
  | st :: rest =>
    if st.type == "StatusList2021Entry" then
      if st.purpose != "revocation" then firstRevocationEntry rest else some st
    else firstRevocationEntry rest

/-- `buildRevocation`: the revocation of credential `id` names the DID part of the id as issuer and is signed with that
    DID's assertion key `kid` (`sig` = the proof value the key store produced) -/
def buildRevocation (id kid sig : String) (date : Nat) : Revocation :=
  { subject := id, issuer := prefixOf id, date := some date, proof := some { vm := kid, sig := sig } }

/-- `issuer.Revoke`: did:nuts credentials (or ids that are no DID URL) are revoked by a published network revocation —
    refused with ErrRevoked when the issuer's own store already holds one —, all others through their status list entry -/
inductive RevokeRoute where
  | network (r : Revocation)
  | alreadyRevoked
  | statusList (e : StatusEntry)
  | statusNotFound
  deriving DecidableEq, Repr

def issuerRevokeRoute (nutsMethod alreadyRevoked : Bool) (c : Cred) (id kid sig : String) (date : Nat) : RevokeRoute :=
  if nutsMethod then
    if alreadyRevoked then .alreadyRevoked else .network (buildRevocation id kid sig date)
  else
    match c.statuses with
    | none => .statusNotFound              -- `CredentialStatuses()` of a credential without status: empty, the loop does not run
    | some sts =>
      match firstRevocationEntry sts with
      | some e => .statusList e
      | none => .statusNotFound

/-! ## histories on two nodes -/

/-- what can happen in the two-node world. `entryTx` is the write half of some `Entry` call with whatever row its select
    returned (an over-approximation that needs no thread bookkeeping; used for the theorems that are not about uniqueness).
    `verify` also stands for a credential received from the network (ambassador `vcCallback` verifies before storing);
    `register` is a revocation received from the network (ambassador `jsonLDRevocationCallback`). -/
inductive Act where
  | entryTx (i : Bool) (issuer : String) (row : Option PageRow)
  | revoke (i : Bool) (credId : String) (e : StatusEntry)
  | serve (i : Bool) (issuer : String) (page : Nat)
  | verify (i : Bool) (c : Cred)
  | register (i : Bool) (r : Revocation)
  | host (url : String) (f : Nat → Fetch)
  | tick (d : Nat)

def step (E : Env) (K : KeyEnv) (w : World) : Act → World
  | .entryTx i issuer row =>
    match E.keyOf issuer with
    | none => w
    | some kid => w.set i (entryWrite E w.now (w.get i) issuer kid row).1
  | .revoke i credId e =>
    match revoke E w.now (w.get i) credId e with
    | .ok n => w.set i n
    | _ => w
  | .serve i issuer page =>
    match credential E w.now (w.get i) issuer page with
    | .ok (_, n) => w.set i n
    | _ => w
  | .verify i c => (verify E i w c).2
  | .register i r =>
    match registerRevocation K (w.get i) r with
    | .ok n => w.set i n
    | _ => w
  | .host url f => { w with hosts := alPut w.hosts url f }
  | .tick d => { w with now := w.now + d }

def run (E : Env) (K : KeyEnv) (w : World) (acts : List Act) : World := acts.foldl (step E K) w

end Nuts.C11
