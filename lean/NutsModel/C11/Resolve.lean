/-
  C11 model, part 7: how a node answers for the credentials of its OWN credential store.
    vcr/vcr.go     Resolve(ID, resolveTime): find, `verifier.Verify(credential, false, false, resolveTime)`, then a `switch err`
                   (`==` comparison) that hands the credential back together with ErrRevoked / ErrUntrusted
    vcr/search.go  Search(terms, allowUntrusted, resolveTime): every found document goes through
                   `verifier.Verify(found, allowUntrusted, false, resolveTime)`; only those without an error are returned
    vcr/verifier/verifier.go  Verify: the trust check sits between the revocation checks and the validity period
  Core Lean only.
-/
import NutsModel.C11.ValidAt
namespace Nuts.C11

/-- `verifier.Verify(cred, allowUntrusted, checkSignature = false, validAt)`: validator + revocation checks (`verifyFullF`),
    then `if !allowUntrusted { … !v.trustConfig.IsTrusted(t, issuer) → ErrUntrusted }` (`trusted` = the verdict of the trust
    configuration for the credential's specific type, data), then the validity period. -/
def verifyTrustAt (E : Env) (i : Bool) (w : World) (c : Cred) (nutsType readFault allowUntrusted trusted : Bool)
    (validAt : Option Int) (now : Int) (period : Int → Bool) : Verdict × World :=
  match verifyFullF E i w c nutsType readFault with
  | (.ok, w') =>
    if !allowUntrusted && !trusted then (.err "untrusted", w') else
    if period (validAt.getD now) then (.ok, w') else (.err "not-valid-at-time", w')
  | r => r

/-- a document of the node's credential store: the credential, which validator it gets, whether the operator trusts its
    issuer for its type, and its validity period -/
structure Stored where
  cred : Cred
  nutsType : Bool := false
  trusted : Bool := false
  period : Int → Bool := fun _ => true

/-- the two results of `vcr.Resolve`: (credential or nil, error) -/
inductive ResolveOut where
  | notFound                 -- (nil, ErrNotFound)
  | cred                     -- (&credential, nil): the ONLY answer that presents the credential as valid
  | credAnd (e : String)     -- (&credential, types.ErrRevoked) / (&credential, types.ErrUntrusted)
  | err (e : String)         -- (nil, err)
  deriving DecidableEq, Repr

/-- the answer says "revoked" (`errors.Is(err, types.ErrRevoked)`), with or without the credential next to it -/
def ResolveOut.saysRevoked : ResolveOut → Bool
  | .credAnd e => e == "revoked"
  | .err e => e == "status list: revoked"
  | _ => false

/-- `switch err { case types.ErrRevoked: …; case types.ErrUntrusted: …; default: return nil, err }` — the switch compares with
    `==`: the revocation store's verdict is the bare `types.ErrRevoked`, the status list's verdict is the WRAPPED
    `fmt.Errorf("status list: %w", types.ErrRevoked)` and takes the default branch (`byStore` tells the two apart). -/
def classifyResolve (byStore : Bool) : Verdict → ResolveOut
  | .ok => .cred
  | .revoked => if byStore then .credAnd "revoked" else .err "status list: revoked"
  | .err e => if e == "untrusted" then .credAnd "untrusted" else .err e

/-- `c.find(ID)`: "there can be only one" — the first document with that id -/
def findStored (store : List Stored) (id : String) : Option Stored :=
  store.find? (fun s => s.cred.id == some id)

/-- `vcr.Resolve(ID, resolveTime)` on node `i` -/
def resolve (E : Env) (i : Bool) (w : World) (store : List Stored) (id : String) (readFault : Bool)
    (resolveTime : Option Int) (now : Int) : ResolveOut × World :=
  match findStored store id with
  | none => (.notFound, w)
  | some s =>
    let r := verifyTrustAt E i w s.cred s.nutsType readFault false s.trusted resolveTime now s.period
    (classifyResolve ((w.get i).credRevoked s.cred) r.1, r.2)

/-- the loop of `vcr.Search` over the documents the store's query returned (`docs`, in the store's order) -/
def search (E : Env) (i : Bool) (w : World) (docs : List Stored) (allowUntrusted readFault : Bool)
    (resolveTime : Option Int) (now : Int) : List Stored × World :=
  match docs with
  | [] => ([], w)
  | s :: rest =>
    let r := verifyTrustAt E i w s.cred s.nutsType readFault allowUntrusted s.trusted resolveTime now s.period
    let r2 := search E i r.2 rest allowUntrusted readFault resolveTime now
    (if r.1 = .ok then s :: r2.1 else r2.1, r2.2)

end Nuts.C11
