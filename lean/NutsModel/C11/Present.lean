/-
  C11 model, part 8: verification of a presentation (vcr/verifier/verifier.go VerifyVP → doVerifyVP).
  Presenter / holder rules, the presentation's own signature, then — when `verifyVCs` — `Verify(current, allowUntrustedVCs,
  checkSignature, validAt)` for every presented credential in order; the first error ends the verification and NO credential
  is returned. `checkSignature` is dropped only for a self-attested credential (holder == issuer) without a proof.
  Signature verdicts (crypto + proof time) are data. Core Lean only.
-/
import NutsModel.C11.Resolve
namespace Nuts.C11

structure VPCred where
  doc : Stored
  subject : String          -- credentialSubject.id
  hasProof : Bool := true   -- len(current.Proof) > 0
  sigOk : Bool := true      -- verdict of VerifySignature(current, validAt)

/-- `credential.ResolveSubjectDID`: all credentials must name the same subject; no credentials: the empty DID (`none`) -/
def subjectOf : Option String → List VPCred → Res (Option String)
  | cur, [] => .ok cur
  | cur, c :: rest =>
    match cur with
    | some s => if s != c.subject then .err "subjects-differ" else subjectOf (some c.subject) rest
    | none => subjectOf (some c.subject) rest

/-- `credential.PresenterIsCredentialSubject`: the signer's DID when it equals the common subject, nil otherwise -/
def presenterIsSubject (signer : String) (creds : List VPCred) : Res (Option String) :=
  match subjectOf none creds with
  | .ok sub => if sub == some signer then .ok (some signer) else .ok none
  | .err e => .err e
  | .panic s => .panic s

/-- `checkSignature := true; if Holder != nil && Holder == current.Issuer { checkSignature = len(current.Proof) > 0 }` -/
def checkSigOf (holder : Option String) (c : VPCred) : Bool :=
  if holder == some c.doc.cred.issuer then c.hasProof else true

/-- the loop over `presentation.VerifiableCredential` -/
def vpLoop (E : Env) (i : Bool) (w : World) (holder : Option String) (au : Bool) (validAt : Option Int) (now : Int) :
    List VPCred → Verdict × World
  | [] => (.ok, w)
  | c :: rest =>
    let r := verifyTrustAt E i w c.doc.cred c.doc.nutsType false au c.doc.trusted validAt now c.doc.period
    match r.1 with
    | .ok => if checkSigOf holder c && !c.sigOk then (.err "vc:signature", r.2) else vpLoop E i r.2 holder au validAt now rest
    | .revoked => (.revoked, r.2)
    | .err e => (.err ("vc:" ++ e), r.2)

/-- `subjectDID != nil && presentation.Holder != nil && presentation.Holder.String() != subjectDID.String()` -/
def holderMismatch : Option String → Option String → Bool
  | some s, some h => h != s
  | _, _ => false

/-- `doVerifyVP`; `.ok` = the presented credentials are returned -/
def doVerifyVP (E : Env) (i : Bool) (w : World) (signer : String) (holder : Option String) (vpSigOk verifyVCs au : Bool)
    (validAt : Option Int) (now : Int) (creds : List VPCred) : Verdict × World :=
  match presenterIsSubject signer creds with
  | .err _ => (.err "presenter", w)
  | .panic s => (.err ("panic:" ++ s), w)
  | .ok sub =>
    if sub.isNone && !creds.isEmpty then (.err "not-subject", w) else
    if holderMismatch sub holder then (.err "holder", w) else
    if !vpSigOk then (.err "vp-signature", w) else
    if verifyVCs then vpLoop E i w holder au validAt now creds else (.ok, w)

end Nuts.C11
