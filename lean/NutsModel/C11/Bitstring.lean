/-
  C11 model, part 1: vcr/revocation/bitstring.go — `bitstring`, `bit`, `setBit`, `isSet`, `newBitstring`.
  Bytes are `BitVec 8`; the MSB-first shift arithmetic of the Go code is kept literally.
  gzip/base64 (`compress`/`expand`) are a contract (round trip), exercised by the harness.
-/
import NutsModel.Base
namespace Nuts.C11

abbrev Byte := BitVec 8
/-- Go: `type bitstring []byte` -/
abbrev Bits := List Byte

/-- Go: `func isSet(b, r byte) bool { return b>>(7-r)&1 == 1 }` -/
def isSet (b : Byte) (r : Nat) : Bool := ((b >>> (7 - r)) &&& 1#8) == 1#8

/-- Go: `(*bs)[q] ^= 1 << (7 - r)` -/
def flipBit (b : Byte) (r : Nat) : Byte := b ^^^ (1#8 <<< (7 - r))

/-- Go: `if isSet((*bs)[q], r) != value { (*bs)[q] ^= 1 << (7 - r) }` -/
def putBit (b : Byte) (r : Nat) (value : Bool) : Byte := if isSet b r != value then flipBit b r else b

/-- Go: `newBitstring()`: `make([]byte, defaultBitstringLengthInBytes)` -/
def newBits (lenBytes : Nat) : Bits := List.replicate lenBytes 0#8

/-- Go: `(bs *bitstring) bit(statusListIndex int) (bool, error)`.
    `q, r := i/8, byte(i%8)` are computed first in Go but only used after the guard `i < 0 || q >= len`;
    for `i ≥ 0` truncated and floor division agree, so the guard is evaluated on `i.toNat`.
    The slice index after the guard is modelled as a partial lookup: `none` would be a Go index panic. -/
def Bits.bit (bs : Bits) (i : Int) : Res Bool :=
  if i < 0 then .err "index" else
  if i.toNat / 8 ≥ bs.length then .err "index" else
  match bs[i.toNat / 8]? with
  | some b => .ok (isSet b (i.toNat % 8))
  | none => .panic "bitstring.bit:index out of range"

/-- Go: `(bs *bitstring) setBit(statusListIndex int, value bool) error` (the receiver is updated in place) -/
def Bits.setBit (bs : Bits) (i : Int) (value : Bool) : Res Bits :=
  if i < 0 then .err "index" else
  if i.toNat / 8 ≥ bs.length then .err "index" else
  match bs[i.toNat / 8]? with
  | some b => .ok (bs.set (i.toNat / 8) (putBit b (i.toNat % 8) value))
  | none => .panic "bitstring.setBit:index out of range"

/-- indexes of all set bits (observation used by the driver; MSB-first numbering) -/
def byteSetBits (q : Nat) (b : Byte) : List Nat :=
  (List.range 8).filterMap fun r => if isSet b r then some (q * 8 + r) else none

def setBitsFrom : Nat → Bits → List Nat
  | _, [] => []
  | q, b :: bs => (if b == 0#8 then [] else byteSetBits q b) ++ setBitsFrom (q + 1) bs

def Bits.setBits (bs : Bits) : List Nat := setBitsFrom 0 bs

end Nuts.C11
