/-
  C11 model, part 6: the operator-triggered REPROCESS path of vcr/ambassador.go.
    handleReprocessEvent (after Ack + Unmarshal): `if len(twp.Payload) != 0 { getCallbackFn(payloadType)(tx, payload) }`
    getCallbackFn: switch on the content type → vcCallback | jsonLDRevocationCallback | a no-op
  A reprocessed revocation goes through the same `jsonLDRevocationCallback` = `RegisterRevocation` as a network event; its
  error is only logged (no retry, no fatal marking). Core Lean only.
-/
import NutsModel.C11.Revocation
namespace Nuts.C11

inductive CallbackRoute where
  | vc
  | revocation
  | ignore
  deriving DecidableEq, Repr

/-- `getCallbackFn(contentType)`; `vcType` / `revType` are the constants types.VcDocumentType / types.RevocationLDDocumentType -/
def callbackRoute (vcType revType contentType : String) : CallbackRoute :=
  if contentType == vcType then .vc else if contentType == revType then .revocation else .ignore

/-- the part of `handleReprocessEvent` after the message was acknowledged and parsed, for a payload that is a revocation
    document `r` (`hasPayload = false`: private transaction not meant for this node). Returns whether the callback failed. -/
def reprocess (K : KeyEnv) (n : Node) (r : Revocation) (fault : StoreFault) (route : CallbackRoute) (hasPayload : Bool) : Bool × Node :=
  if !hasPayload then (false, n) else
  match route with
  | .revocation =>
    match registerRevocationF K n r fault with
    | .ok n' => (false, n')
    | _ => (true, n)
  | _ => (false, n)

end Nuts.C11
