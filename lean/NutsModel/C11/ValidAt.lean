/-
  C11 model, part 4: the `validAt` argument of `verifier.Verify` (vcr/verifier/verifier.go).
  The revocation checks (`IsRevoked`, then `credentialStatus.Verify`) come BEFORE the validity-period check and do not
  receive `validAt`: a credential with a received revocation is refused as revoked whatever moment the caller asks about
  (vcr.Resolve / Search with a resolveTime, VerifyVP with validAt all end in this call).
  Core Lean only.
-/
import NutsModel.C11.Revocation
namespace Nuts.C11

/-- `verifier.Verify(cred, allowUntrusted = true, checkSignature = false, validAt)`:
    `verifyFullF` (validator, `IsRevoked` with the outcome of the store read, credential status), then
    `credentialToVerify.ValidAt(validAt or now, maxSkew)` — `period t` says whether the credential's validity period
    contains `t` (a fact about the credential's issuance/expiration dates, supplied as data). -/
def verifyAt (E : Env) (i : Bool) (w : World) (c : Cred) (nutsType readFault : Bool)
    (validAt : Option Int) (now : Int) (period : Int → Bool) : Verdict × World :=
  match verifyFullF E i w c nutsType readFault with
  | (.ok, w') => if period (validAt.getD now) then (.ok, w') else (.err "not-valid-at-time", w')
  | r => r

end Nuts.C11
