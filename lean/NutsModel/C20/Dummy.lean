/-
  C20 (deepening round 3) — auth/services/dummy/dummy.go: the test-only signing means as a state machine.
  Every entry point (VerifyVP, SigningSessionStatus, StartSigningSession) starts with `if d.InStrictMode { return errNotEnabled }`
  (guards = regenerated fact); otherwise a session goes created -> in-progress -> completed -> removed, one step per status call.
  Session ids (random in Go) are numbered in creation order.  Core Lean only.
-/
import NutsModel.C20.Strict

namespace Nuts.C20

structure DummyGuards where
  verify : Bool
  status : Bool
  start : Bool
  deriving Repr, DecidableEq, Inhabited

structure DummyMeans where
  strict : Bool                          -- Dummy.InStrictMode
  status : List (Nat × Nat) := []        -- Status map: session -> 0 created | 1 in-progress | 2 completed
  next : Nat := 0                        -- sessions started so far
  deriving Repr, DecidableEq, Inhabited

inductive DummyAct where
  | start
  | status (i : Nat)
  | verify
  deriving Repr, DecidableEq, Inhabited

def setStatus (i v : Nat) : List (Nat × Nat) → List (Nat × Nat)
  | [] => []
  | (k, x) :: r => if k = i then (k, v) :: r else (k, x) :: setStatus i v r

def dummyStep (g : DummyGuards) (d : DummyMeans) : DummyAct → DummyMeans × String
  | .verify => if g.verify && d.strict then (d, "not-enabled") else (d, "verifier-reached")
  | .start =>
    if g.start && d.strict then (d, "not-enabled")
    else ({ d with status := d.status ++ [(d.next, 0)], next := d.next + 1 }, "started")
  | .status i =>
    if g.status && d.strict then (d, "not-enabled") else
    match d.status.lookup i with
    | none => (d, "not-found")
    | some 0 => ({ d with status := setStatus i 1 d.status }, "created")
    | some 1 => ({ d with status := setStatus i 2 d.status }, "in-progress")
    | some 2 => ({ d with status := d.status.filter fun p => p.1 != i }, "completed")
    | some _ => (d, "other-state")           -- the Go switch has no case: state returned unchanged (unreachable)

def dummyRun (g : DummyGuards) : DummyMeans → List DummyAct → DummyMeans × List String
  | d, [] => (d, [])
  | d, a :: r =>
    let (d', o) := dummyStep g d a
    let (d'', os) := dummyRun g d' r
    (d'', o :: os)

end Nuts.C20
