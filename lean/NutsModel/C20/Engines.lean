/-
  C20 (deepening round) — two engine decisions one level closer to the code.
    crypto/crypto.go Configure : the switch on the configured back-end NAME (names regenerated from the case list and the
                                 StorageType constants of the back-end packages)
    core/server_config.go      : TLSConfig.Enabled (regenerated as a Lean definition) and TLSConfig.Load over the three
                                 tls.* file options; network.Configure loads certificate + trust store when Enabled,
                                 refuses "TLS off" in strict mode otherwise; vcr.Configure (before the network engine, via
                                 pki CreateTLSConfig) and golden_hammer.Configure (after auth) call TLS.Load
  `startFiles` is `start` with the network step working on the file options and the GoldenHammer step added; Props proves
  it refines `start` for complete / absent TLS settings.  Core Lean only.
-/
import NutsModel.C20.Strict

namespace Nuts.C20
open Nuts Nuts.C18

/-- `switch client.config.Storage`: the explicit back-ends first, then `""`, then `default` -/
def classifyStorage (backends : List Bytes) (v : Bytes) : CryptoStorage :=
  if backends.contains v then .explicit else if v = [] then .implicit else .invalid

/-- the tls.* file options (lengths of the configured paths) and whether the files they name are valid PEM material -/
structure TLSFiles where
  certLen : Nat
  keyLen : Nat
  trustLen : Nat
  valid : Bool := true
  deriving Repr, DecidableEq, Inhabited

/-- `TLSConfig.Load` / the load sequence of network.Configure: `LoadCertificate` (needs both paths), then
    `LoadTrustStore`; nothing is loaded when `Enabled()` is false -/
def tlsLoad (enabled : Nat → Nat → Nat → Bool) (f : TLSFiles) : Option String :=
  if !enabled f.certLen f.keyLen f.trustLen then none else
  if f.certLen = 0 || f.keyLen = 0 || !f.valid then some "tls-cert" else
  if f.trustLen = 0 then some "tls-truststore" else none

/-- network.Configure, TLS part -/
def networkConfigureFiles (enabled : Nat → Nat → Nat → Bool) (c : Config) (f : TLSFiles) : Option String :=
  if !c.nuts then none else
  if enabled f.certLen f.keyLen f.trustLen then tlsLoad enabled f else
  if c.strict then some "tls-off" else none

/-- `System.Load` + `System.Configure` with the TLS file options: as `start`; vcr (before network) and GoldenHammer (after auth) load TLS too -/
def startFiles (enabled : Nat → Nat → Nat → Bool) (tlds l2s : List Bytes) (c : Config) (f : TLSFiles) : Outcome :=
  match load c with
  | some (e, r) => .refuse e r
  | none =>
  match storageConfigure c with
  | some r => .refuse "storage" r
  | none =>
  match cryptoConfigure c with
  | some r => .refuse "crypto" r
  | none =>
  match vdrConfigure tlds l2s c with
  | some r => .refuse "vdr" r
  | none =>
  match tlsLoad enabled f with            -- vcr.Configure: pkiProvider.CreateTLSConfig(config.TLS) -> TLSConfig.Load
  | some r => .refuse "vcr" r
  | none =>
  match networkConfigureFiles enabled c f with
  | some r => .refuse "network" r
  | none =>
  match authConfigure c with
  | some r => .refuse "auth" r
  | none =>
  match tlsLoad enabled f with
  | some r => .refuse "goldenhammer" r
  | none => .ok { dummyMeans := c.dummy && !c.strict, unlistedRemoteContexts := !c.strict, clientStrict := c.strict }

/-- complete (all three files, valid) or absent (none of the three) -/
def TLSFiles.consistent (f : TLSFiles) : Bool :=
  (f.certLen > 0 && f.keyLen > 0 && f.trustLen > 0 && f.valid) || (f.certLen = 0 && f.keyLen = 0 && f.trustLen = 0)

end Nuts.C20
