/-
  C20 — model of nuts-node's strict-mode decisions.
  Mirrors core/url.go (ParsePublicURL, ParsePublicURLWithScheme, isReserved), core/server_config.go (Load: moved keys;
  ServerURL), core/config.go (loadFromFlagSet: secrets on the command line), crypto/crypto.go Configure,
  storage/engine.go initSQLDatabase, network/network.go Configure (TLS), auth/auth.go Configure (IRMA scheme),
  auth/services/notary Configure (dummy means), jsonld/jsonld.go Configure (remote contexts), http/engine.go
  (client.StrictMode), http/client (outbound requests; reuses the C18 model of StrictHTTPClient + net/http redirects)
  and cmd/root.go (engine order; core.System.Configure stops at the first refusing engine).
  The reserved lists are parameters; Props instantiates them with the regenerated facts.  Core Lean only.
-/
import NutsModel.C18.Resolve

namespace Nuts.C20
open Nuts Nuts.C18

/-! ### core.ParsePublicURL -/

def sHttpB : Bytes := [104, 116, 116, 112]
def sHttpsB : Bytes := [104, 116, 116, 112, 115]

/-- `isReserved`: last label in `reservedTLDs`, or last two labels in `reservedAddresses` (ASCII lower-casing: hosts
    with non-ASCII upper-case letters are outside the generated set) -/
def isReserved (tlds l2s : List Bytes) (host : Bytes) : Res Bool :=
  let parts := splitOn cDot (lower host)
  match parts.getLast? with
  | none => .panic "isReserved:parts[len-1]"      -- strings.Split never returns an empty slice
  | some tld =>
    if tlds.contains tld then .ok true else
    if parts.length > 1 then .ok (l2s.contains (joinWith cDot (parts.drop (parts.length - 2)))) else .ok false

/-- `ParsePublicURLWithScheme(input, allowReserved, schemes...)`: the URL's Host on success -/
def parsePublicURLWithScheme (tlds l2s : List Bytes) (input : Bytes) (allowReserved : Bool) (schemes : List Bytes) : Res Bytes :=
  match parseURL input with
  | .err _ => .err "parse"
  | .panic p => .panic p
  | .ok u =>
    if u.scheme = [] || hostname u.host = [] then .err "no-scheme-or-host" else
    if !schemes.isEmpty && !schemes.contains u.scheme then .err "scheme" else
    if isIP (hostname u.host) && !allowReserved then .err "ip" else
    if allowReserved then .ok u.host else
    match isReserved tlds l2s (hostname u.host) with
    | .ok true => .err "reserved"
    | .ok false => .ok u.host
    | .err e => .err e
    | .panic p => .panic p

/-- `ParsePublicURL(input, strictmode)` -/
def parsePublicURL (tlds l2s : List Bytes) (input : Bytes) (strict : Bool) : Res Bytes :=
  if !strict then parsePublicURLWithScheme tlds l2s input true [sHttpB, sHttpsB]
  else parsePublicURLWithScheme tlds l2s input false [sHttpsB]

/-- `ServerConfig.ServerURL()` -/
def serverURL (tlds l2s : List Bytes) (url : Bytes) (strict : Bool) : Res Bytes :=
  if url = [] then .err "url:missing" else
  match parsePublicURL tlds l2s url strict with
  | .ok h => .ok h
  | .err e => .err ("url:" ++ e)
  | .panic p => .panic p

/-! ### the security-relevant options -/

inductive CryptoStorage where
  | implicit          -- crypto.storage = ""
  | explicit          -- fs / vaultkv / azure-keyvault / external
  | invalid           -- anything else
  deriving Repr, DecidableEq, Inhabited

structure Config where
  strict : Bool
  url : Bytes
  tls : Bool                       -- tls.certfile / tls.certkeyfile configured (TLSConfig.Enabled)
  nuts : Bool                      -- didmethods contains "nuts" (the network engine is enabled)
  web : Bool                       -- didmethods contains "web"
  cryptoStorage : CryptoStorage
  sqlExplicit : Bool               -- storage.sql.connection set
  dummy : Bool                     -- auth.contractvalidators contains "dummy"
  irmaPbdf : Bool                  -- auth.irma.schememanager = "pbdf"
  movedKey : Bool                  -- one of network.{truststorefile,certkeyfile,certfile} set (file or environment)
  cliFlags : List Bytes := []      -- names of the flags given on the command line
  deriving Repr, DecidableEq, Inhabited

/-- what the node is like once it has started -/
structure Running where
  dummyMeans : Bool                -- the dummy signing means is registered
  unlistedRemoteContexts : Bool    -- a JSON-LD context outside the allow-list may be fetched
  clientStrict : Bool              -- http/client.StrictMode
  deriving Repr, DecidableEq, Inhabited

inductive Outcome where
  | ok (r : Running)
  | refuse (engine reason : String)
  deriving Repr, DecidableEq, Inhabited

/-- `loadFromFlagSet`: a flag whose name ends in `token` or `password` may not be set on the command line -/
def sToken : Bytes := [116, 111, 107, 101, 110]
def sPassword : Bytes := [112, 97, 115, 115, 119, 111, 114, 100]
def isSecretFlag (name : Bytes) : Bool := hasSuffix sToken name || hasSuffix sPassword name

/-- `ServerConfig.Load` (as far as it can refuse a configuration) -/
def load (c : Config) : Option (String × String) :=
  if c.cliFlags.any isSecretFlag then some ("load", "cli-secret") else
  if c.movedKey then some ("load", "moved-keys") else none

/-- each engine's `Configure` as a decision: `none` = accepts -/
def storageConfigure (c : Config) : Option String := if !c.sqlExplicit && c.strict then some "sql-implicit" else none
def cryptoConfigure (c : Config) : Option String :=
  match c.cryptoStorage with
  | .explicit => none
  | .implicit => if c.strict then some "crypto-implicit" else none
  | .invalid => some "crypto-invalid"
def vdrConfigure (tlds l2s : List Bytes) (c : Config) : Option String :=
  match serverURL tlds l2s c.url c.strict with
  | .ok _ => if !c.nuts && !c.web then some "didmethod" else none
  | .err e => some e
  | .panic p => some ("panic:" ++ p)
def networkConfigure (c : Config) : Option String :=
  if !c.nuts then none else            -- engine disabled
  if c.tls then none else if c.strict then some "tls-off" else none
def authConfigure (c : Config) : Option String := if c.strict && !c.irmaPbdf then some "irma-scheme" else none

/-- `System.Load` + `System.Configure`: engines in registration order, the first refusal wins -/
def start (tlds l2s : List Bytes) (c : Config) : Outcome :=
  match load c with
  | some (e, r) => .refuse e r
  | none =>
  match storageConfigure c with
  | some r => .refuse "storage" r
  | none =>
  match cryptoConfigure c with
  | some r => .refuse "crypto" r
  | none =>
  match vdrConfigure tlds l2s c with
  | some r => .refuse "vdr" r
  | none =>
  match networkConfigure c with
  | some r => .refuse "network" r
  | none =>
  match authConfigure c with
  | some r => .refuse "auth" r
  | none => .ok { dummyMeans := c.dummy && !c.strict, unlistedRemoteContexts := !c.strict, clientStrict := c.strict }

/-! ### per-action behaviour of a started node: clients built before strict mode was switched on; IAM endpoints -/

/-- A client that an engine built BEFORE the HTTP engine (configured last) set `client.StrictMode`: its redirect check
    reads the global at call time (`callTime` = regenerated fact), so it follows https -> http only on a lenient node.
    Were the flag captured at construction (`callTime = false`), the early client would never be strict. -/
def earlyClientFollowsHttp (callTime : Bool) (c : Config) : Bool := !(callTime && c.strict)

/-- strictness of the IAM client's endpoint checks: `auth.strictMode`, which equals the configured strict mode only if
    `Configure` assigns it (`assigned` = regenerated fact); Go's zero value otherwise -/
def iamStrict (assigned : Bool) (c : Config) : Bool := assigned && c.strict

/-- `IAMClient().ClientMetadata(endpoint)` on a started node: endpoint check, then the request through the strict client -/
def iamEndpoint (tlds l2s : List Bytes) (assigned : Bool) (c : Config) (endpoint : Bytes) : String :=
  match parsePublicURL tlds l2s endpoint (iamStrict assigned c) with
  | .ok _ =>
    match parseURL endpoint with
    | .ok u => if c.strict && u.scheme ≠ sHttpsB then "refused-client" else "sent"
    | _ => "refused-endpoint"
  | _ => "refused-endpoint"

/-- one outbound call of the IAM client on a started node. `checked` = the method (or the inner method it delegates to)
    validates its endpoint unconditionally (regenerated inventory); `needsSubject` = after the check the call stops for a
    reason unrelated to the endpoint (AccessToken with DPoP for an unknown subject) -/
def iamCall (tlds l2s : List Bytes) (assigned : Bool) (c : Config) (checked needsSubject : Bool) (endpoint : Bytes) : String :=
  let r := iamEndpoint tlds l2s (assigned && checked) c endpoint
  if needsSubject && r ≠ "refused-endpoint" then "nosend" else r

/-! ### remote JSON-LD contexts: `filteredDocumentLoader` (jsonld/ldutils.go), installed only in strict mode -/

/-- does a context URL get past the filter (and so may be fetched)? strict: only a URL that IS an entry of the allow-list
    (byte-for-byte equality — no prefix, case or normalisation rule); lenient: no filter -/
def contextPasses (strict : Bool) (allow : List Bytes) (u : Bytes) : Bool := !strict || allow.contains u

/-- the weaker comparison a prefix rule would give (for the witness only) -/
def contextPassesPrefix (allow : List Bytes) (u : Bytes) : Bool := allow.any fun a => a.isPrefixOf u

/-- notary: validator names are matched case-insensitively (`hasContractValidator` uses `strings.EqualFold`) -/
def hasValidator (name : Bytes) (validators : List Bytes) : Bool := validators.any fun v => lower v = lower name

/-! ### the documented insecure settings -/

inductive Insecure where
  | urlNotHttps | urlIP | urlReserved | tlsOff | cryptoImplicit | sqlImplicit | irmaNonProduction
  deriving Repr, DecidableEq, Inhabited

/-- when a configuration has the insecure setting `i` (decidable; the URL classes are defined through the parsed URL) -/
def hasInsecure (tlds l2s : List Bytes) (i : Insecure) (c : Config) : Bool :=
  match i with
  | .urlNotHttps => match parseURL c.url with | .ok u => u.scheme ≠ sHttpsB | _ => false
  | .urlIP => match parseURL c.url with | .ok u => isIP (hostname u.host) | _ => false
  | .urlReserved => match parseURL c.url with
      | .ok u => (match isReserved tlds l2s (hostname u.host) with | .ok b => b | _ => false)
      | _ => false
  | .tlsOff => c.nuts && !c.tls
  | .cryptoImplicit => c.cryptoStorage = .implicit
  | .sqlImplicit => !c.sqlExplicit
  | .irmaNonProduction => !c.irmaPbdf

/-- the reason with which each insecure setting is refused -/
def reasonOf : Insecure → String
  | .urlNotHttps => "url:scheme" | .urlIP => "url:ip" | .urlReserved => "url:reserved" | .tlsOff => "tls-off"
  | .cryptoImplicit => "crypto-implicit" | .sqlImplicit => "sql-implicit" | .irmaNonProduction => "irma-scheme"

def Outcome.isRefuse : Outcome → Bool | .refuse _ _ => true | .ok _ => false

/-- the redirect policy of a plain http/client client (no per-caller check) -/
def clientPolicy (strictHttps : Bool) (maxRedirects : Nat) : Policy :=
  { strictHttpsRedirect := strictHttps, sameOriginRedirect := false, maxRedirects := maxRedirects }

end Nuts.C20
