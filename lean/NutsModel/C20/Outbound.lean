/-
  C20 (deepening round) — byte-level model of `http/client.StrictHTTPClient.Do`: the response cap.
  Mirrors http/client/client.go `limitedReadAll` (io.ReadAll over io.LimitReader, then the size comparison) and the body
  pipeline of `Do` (the body of the FINAL response is read through `limitedReadAll` and replaced by the bytes read).
  The cap, the reader limit and the comparison are PARAMETERS: Props instantiates them with the definitions the
  extractor regenerates from the source (`Facts.C20.maxResponseSize / responseReadLimit / responseTooLarge`).
  `clientLoopB` is C18's `clientLoop` (net/http redirect loop) carrying the wire body of each response; Props proves it
  refines to the C18 loop.  Core Lean only.
-/
import NutsModel.C20.Strict

namespace Nuts.C20
open Nuts Nuts.C18

/-- `io.ReadAll(io.LimitReader(r, limit))`: at most `limit` bytes of what the server sends -/
def limitRead (limit : Nat) (wire : Bytes) : Bytes := wire.take limit

/-- `limitedReadAll(reader)` -/
def limitedReadAll (limit : Nat) (tooLarge : Nat → Bool) (wire : Bytes) : Res Bytes :=
  let result := limitRead limit wire
  if tooLarge result.length then .err "http:toolarge" else .ok result

/-- `http.Client.do` with wire bodies: identical control flow to `C18.clientLoop`, the server's answer is a response
    head plus the bytes of its body -/
def clientLoopB (pol : Policy) (strict : Bool) (srv : Nat → Req → Option (Resp × Bytes)) (first : Req) :
    Nat → List Req → Req → List Req × Res (Resp × Bytes)
  | 0, reqs, _ => (reqs, .err "unmodelled:fuel")
  | fuel + 1, reqs, cur =>
    let reqs' := reqs ++ [cur]
    match srv reqs.length cur with
    | none => (reqs', .err "http:transport")
    | some (resp, wire) =>
      if !isRedirect resp.status then (reqs', .ok (resp, wire)) else
      if resp.loc = [] then (reqs', .ok (resp, wire)) else
      match redirectTarget cur resp.loc with
      | .err e => (reqs', .err e)
      | .panic p => (reqs', .panic p)
      | .ok nxt =>
        match checkRedirect pol strict first nxt reqs'.length with
        | .err e => (reqs', .err e)
        | .panic p => (reqs', .panic p)
        | .ok () => clientLoopB pol strict srv first fuel reqs' nxt

/-- `StrictHTTPClient.Do` with wire bodies: scheme check, redirect loop, then the final body through `limitedReadAll` -/
def strictDoBytes (pol : Policy) (strict : Bool) (limit : Nat) (tooLarge : Nat → Bool)
    (srv : Nat → Req → Option (Resp × Bytes)) (req : Req) : List Req × Res (Resp × Bytes) :=
  if strict && req.scheme ≠ sHttps then ([], .err "http:strict") else
  match clientLoopB pol strict srv req (pol.maxRedirects + 2) [] req with
  | (reqs, .ok (resp, wire)) =>
    match limitedReadAll limit tooLarge wire with
    | .ok body => (reqs, .ok (resp, body))
    | .err e => (reqs, .err e)
    | .panic p => (reqs, .panic p)
  | r => r

/-- the abstraction to the C18 layer: a response whose wire body exceeds the cap is C18's `Body.big` -/
def absResp (cap : Nat) (rw : Resp × Bytes) : Resp :=
  { rw.1 with body := if rw.2.length > cap then .big else .empty }
def absSrv (cap : Nat) (srv : Nat → Req → Option (Resp × Bytes)) : Nat → Req → Option Resp :=
  fun hop r => (srv hop r).map (absResp cap)
def absRes (cap : Nat) : Res (Resp × Bytes) → Res Resp
  | .ok rw => .ok (absResp cap rw)
  | .err e => .err e
  | .panic p => .panic p

end Nuts.C20
