/-
  C20 (deepening round 3) — two decisions one level closer to the code.
    core/config.go loadFromFlagSet        : over ANY pflag set (server flags, the CLI-client flags of core.ClientConfigFlags,
                                            a command's own flags): VisitAll walks the flags in sorted order, a CHANGED flag
                                            whose name ends in one of the secret suffixes (regenerated) sets `err` — a later
                                            one overwrites it —, `err != nil` stops the load
    core/client_config.go                 : NewClientConfigForCommand = loadFromEnv, loadFromFlagSet (panic on error),
                                            loadConfigIntoStruct; the token the CLI client ends up with
    storage/engine.go initSQLDatabase     : connection string -> (strict? refuse : default SQLite string) -> dbType =
                                            strings.Split(conn, ":")[0] -> adapter switch (names regenerated), `default:`
                                            refuses.  The content of the data directory is NOT an input of the decision.
  Core Lean only.
-/
import NutsModel.C20.Strict

namespace Nuts.C20
open Nuts Nuts.C18

/-! ### loadFromFlagSet over an arbitrary flag set -/

/-- the secret rule with the regenerated suffix list: `strings.HasSuffix(flag.Name, s₁) || strings.HasSuffix(flag.Name, s₂) …` -/
def isSecretBy (suffixes : List Bytes) (name : Bytes) : Bool := suffixes.any fun s => hasSuffix s name

/-- a pflag.Flag as far as the loader looks at it -/
structure Flag where
  name : Bytes
  changed : Bool               -- set on the command line
  value : Bytes := []
  deriving Repr, DecidableEq, Inhabited

/-- body of the `VisitAll` callback: `err` is a captured variable, a later secret overwrites an earlier one -/
def visitStep (suffixes : List Bytes) (err : Option Bytes) (f : Flag) : Option Bytes :=
  if isSecretBy suffixes f.name then (if f.changed then some f.name else err) else err

/-- `loadFromFlagSet` as far as it can refuse: the name in the error (`none` = the flags are loaded). `flags` in the
    order VisitAll visits them (sorted by name — supplied by the harness from the real flag set) -/
def loadFromFlagSet (suffixes : List Bytes) (flags : List Flag) : Option Bytes := flags.foldl (visitStep suffixes) none

/-- value of key `k` after `posflag.Provider` was loaded over what the environment gave: a changed flag wins, an
    unchanged flag only supplies its default when the key is not there yet -/
def flagOverEnv (flags : List Flag) (env : Option Bytes) (k : Bytes) : Option Bytes :=
  match flags.find? (fun f => f.name = k) with
  | some f => if f.changed then some f.value else (match env with | some v => some v | none => some f.value)
  | none => env

/-- `NewClientConfigForCommand`: the token the CLI client will send (`panic` = the command stops) -/
def clientToken (suffixes : List Bytes) (flags : List Flag) (envToken : Option Bytes) : Res Bytes :=
  match loadFromFlagSet suffixes flags with
  | some _ => .panic "NewClientConfigForCommand:secret-flag"
  | none => .ok ((flagOverEnv flags envToken sToken).getD [])

/-! ### storage.initSQLDatabase -/

/-- `strings.Split(connectionString, ":")[0]` -/
def sqlDbType (conn : Bytes) : Res Bytes :=
  match splitOn cColon conn with
  | [] => .panic "initSQLDatabase:Split[0]"       -- strings.Split never returns an empty slice
  | t :: _ => .ok t

/-- `initSQLDatabase(strictmode)` as a decision: the adapter that gets opened. `dflt` = `sqliteConnectionString(datadir)`.
    Nothing else about the data directory (an `sqlite.db` left by an earlier run, …) is looked at. -/
def initSQL (adapters : List Bytes) (conn : Bytes) (strict : Bool) (dflt : Bytes) : Res Bytes :=
  let conn' : Res Bytes := if conn.length = 0 then (if strict then .err "sql-implicit" else .ok dflt) else .ok conn
  match conn' with
  | .err e => .err e
  | .panic p => .panic p
  | .ok cs =>
    match sqlDbType cs with
    | .ok t => if adapters.contains t then .ok t else .err "sql-unsupported"
    | .err e => .err e
    | .panic p => .panic p

/-- start-up with the storage step working on the connection STRING (instead of `sqlExplicit`) -/
def startConn (adapters tlds l2s : List Bytes) (c : Config) (conn dflt : Bytes) : Outcome :=
  let c' := { c with sqlExplicit := conn.length ≠ 0 }
  match load c' with
  | some (e, r) => .refuse e r
  | none =>
    match initSQL adapters conn c.strict dflt with
    | .err e => .refuse "storage" e
    | .panic p => .refuse "storage" ("panic:" ++ p)
    | .ok _ => start tlds l2s c'

end Nuts.C20
