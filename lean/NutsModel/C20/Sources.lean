/-
  C20 (deepening round) — where the security-relevant options COME FROM: model of core/config.go + the loading half of
  core/server_config.go.
    loadConfigMap : config file < environment < command line (posflag: a flag that was not given only fills a missing key)
    loadFromEnv   : only names starting with NUTS_; key = ToLower(TrimPrefix(name, "NUTS_")) with "_" -> ".";
                    value = splitWithEscaping(raw, ",", "\\") , each element TrimSpace'd, one element -> string, else list
    splitWithEscaping : ReplaceAll(esc+sep -> NUL), Split(sep), ReplaceAll(NUL -> sep) per token
    Load          : loadConfigMap (file error, env, cli-secret) -> unmarshal -> moved keys -> verbosity -> loggerformat
  The conversion of a loaded value to the Go field type is koanf/mapstructure (weakly typed; strconv.ParseBool table,
  string -> one-element slice): a small contract, tied by the correspondence.  Prefix, delimiters, separator, escape byte and the
  order of the sources / checks are PARAMETERS that Props instantiates with regenerated facts.  Core Lean only.
-/
import NutsModel.C20.Strict

namespace Nuts.C20
open Nuts Nuts.C18

/-! ### strings helpers -/

/-- `strings.TrimPrefix` -/
def trimPrefix (pre s : Bytes) : Bytes := if hasPrefix pre s then s.drop pre.length else s

/-- `strings.TrimSpace` (ASCII white space; the generated values contain no other) -/
def isSpaceB (c : Nat) : Bool := c = 32 || (9 ≤ c && c ≤ 13)
def trimSpace (s : Bytes) : Bytes := ((s.dropWhile isSpaceB).reverse.dropWhile isSpaceB).reverse

/-- `strings.ReplaceAll(s, esc+sep, "\x00")`: left to right, non-overlapping -/
def replaceEsc (esc sep : Nat) : Bytes → Bytes
  | a :: b :: rest => if a = esc ∧ b = sep then 0 :: replaceEsc esc sep rest else a :: replaceEsc esc sep (b :: rest)
  | l => l

/-- `splitWithEscaping(s, sep, esc)` for a one-byte separator and a one-byte escape -/
def splitWithEscaping (sep esc : Nat) (s : Bytes) : List Bytes :=
  (splitOn sep (replaceEsc esc sep s)).map fun tok => tok.map fun c => if c = 0 then sep else c

/-! ### loadFromEnv -/

/-- the key callback: `strings.Replace(strings.ToLower(strings.TrimPrefix(rawKey, prefix)), envDelim, delim, -1)` -/
def envKey (pre : Bytes) (envDelim delim : Nat) (raw : Bytes) : Bytes :=
  (lower (trimPrefix pre raw)).map fun c => if c = envDelim then delim else c

/-- a value as it sits in the koanf map -/
inductive Raw where
  | b (v : Bool)            -- YAML bool / bool flag
  | s (v : Bytes)           -- string
  | l (vs : List Bytes)     -- list of strings
  deriving Repr, DecidableEq, Inhabited

/-- the value callback: comma-separated (backslash-escaped) list, elements trimmed; one element stays a string -/
def envValue (sep esc : Nat) (raw : Bytes) : Raw :=
  match (splitWithEscaping sep esc raw).map trimSpace with
  | [v] => .s v
  | vs => .l vs

/-- the constants of core/server_config.go the loader works with -/
structure EnvRules where
  pre : Bytes       -- defaultEnvPrefix
  envDelim : Nat    -- defaultEnvDelimiter
  delim : Nat       -- defaultDelimiter
  sep : Nat         -- configValueListSeparator
  esc : Nat         -- the escape string passed to splitWithEscaping
  deriving Repr, DecidableEq

/-- the environment provider: variables whose NAME starts with the prefix (case-sensitive), later entries overwrite
    earlier ones that map to the same key -/
def envLookup (R : EnvRules) (key : Bytes) (env : List (Bytes × Bytes)) : Option Raw :=
  ((env.filter fun nv => hasPrefix R.pre nv.1 && envKey R.pre R.envDelim R.delim nv.1 = key).getLast?).map
    fun nv => envValue R.sep R.esc nv.2

/-! ### the three sources of one key -/

structure Sources where
  file : Option Raw := none                 -- the key's value in the config file
  env : List (Bytes × Bytes) := []          -- the process environment (name, raw value) in os.Environ order
  cli : Option Raw := none                  -- the flag as given on the command line (pflag `Changed`)
  deriving Repr, DecidableEq, Inhabited

inductive Source where | file | env | cli
  deriving Repr, DecidableEq, Inhabited

def sourceValue (R : EnvRules) (key : Bytes) (src : Sources) : Source → Option Raw
  | .file => src.file
  | .env => envLookup R key src.env
  | .cli => src.cli

/-- `loadConfigMap`: the sources are loaded in `order` (regenerated: file, env, cli), each overwriting the previous ones -/
def resolveRaw (R : EnvRules) (order : List Source) (key : Bytes) (src : Sources) : Option Raw :=
  order.foldl (fun acc s => match sourceValue R key src s with | some v => some v | none => acc) none

/-- the loader functions of core/config.go, as named in `loadConfigMap` -/
def sourceOfLoader : String → Option Source
  | "loadFromFile" => some .file
  | "loadFromEnv" => some .env
  | "loadFromFlagSet" => some .cli
  | _ => none
def sourceOrderOf (loaders : List String) : List Source := loaders.filterMap sourceOfLoader

/-! ### koanf/mapstructure conversion to the field type (weakly typed input) -/

/-- `strconv.ParseBool`: "1", "t", "T", "TRUE", "true", "True" / "0", "f", "F", "FALSE", "false", "False" -/
def parseBool (v : Bytes) : Option Bool :=
  if [[49], [116], [84], [84, 82, 85, 69], [116, 114, 117, 101], [84, 114, 117, 101]].contains v then some true else
  if [[48], [102], [70], [70, 65, 76, 83, 69], [102, 97, 108, 115, 101], [70, 97, 108, 115, 101]].contains v then some false else none

def toBool : Raw → Res Bool
  | .b v => .ok v
  | .s v => match parseBool v with
    | some b => .ok b
    | none => if v = [] then .ok false else .err "unmarshal"
  | .l _ => .err "unmarshal"

def toStr : Raw → Res Bytes
  | .s v => .ok v
  | .b v => .ok (if v then [49] else [48])
  | .l _ => .err "unmarshal"

/-- `[]string` field: a list stays; a non-empty string becomes a one-element list (weakly typed input; it is NOT split
    again, so an escaped comma survives), the empty string the empty list -/
def toList : Raw → Res (List Bytes)
  | .l vs => .ok vs
  | .s v => .ok (if v = [] then [] else [v])
  | .b _ => .err "unmarshal"

/-- effective strict mode -/
def resolveStrict (R : EnvRules) (order : List Source) (dflt : Bool) (src : Sources) : Res Bool :=
  match resolveRaw R order sStrictmodeKey src with
  | none => .ok dflt
  | some r => toBool r
where sStrictmodeKey : Bytes := [115, 116, 114, 105, 99, 116, 109, 111, 100, 101]

/-! ### ServerConfig.Load, complete check order -/

inductive LoadStep where
  | configFile      -- loadFromFile: unreadable / malformed config file
  | env             -- loadFromEnv (cannot fail)
  | cliSecret       -- loadFromFlagSet: secret flag given on the command line
  | unmarshal       -- loadConfigIntoStruct
  | movedKeys       -- LegacyTLS check
  | verbosity       -- logrus.ParseLevel
  | loggerFormat    -- switch ngc.LoggerFormat
  deriving Repr, DecidableEq, Inhabited

structure LoadIn where
  badConfigFile : Bool := false
  cliFlags : List Bytes := []
  unmarshalFails : Bool := false      -- e.g. strictmode resolved to a value that is no bool
  movedKey : Bool := false
  verbosityOk : Bool := true          -- logrus.ParseLevel verdict (library)
  loggerFormat : Bytes := [116, 101, 120, 116]
  deriving Repr, DecidableEq, Inhabited

def stepFails (formats : List Bytes) (i : LoadIn) : LoadStep → Option String
  | .configFile => if i.badConfigFile then some "config-file" else none
  | .env => none
  | .cliSecret => if i.cliFlags.any isSecretFlag then some "cli-secret" else none
  | .unmarshal => if i.unmarshalFails then some "unmarshal" else none
  | .movedKeys => if i.movedKey then some "moved-keys" else none
  | .verbosity => if i.verbosityOk then none else some "verbosity"
  | .loggerFormat => if formats.contains i.loggerFormat then none else some "loggerformat"

/-- the steps of `Load` as the extractor lists them (one entry per top-level statement that can return an error), with
    `loadConfigMap` expanded into the loaders it calls (in its order) -/
def loadStepsOf (loaders : List String) : List String → List LoadStep
  | [] => []
  | s :: rest =>
    (if s = "call:ngc.loadConfigMap" then
        loaders.filterMap fun l => if l = "loadFromFile" then some LoadStep.configFile else if l = "loadFromEnv" then some LoadStep.env
          else if l = "loadFromFlagSet" then some LoadStep.cliSecret else none
      else if s = "call:loadConfigIntoStruct" then [.unmarshal]
      else if s = "if:ngc.LegacyTLS.TrustStoreFile != \"\" || ngc.LegacyTLS.CertKeyFile != \"\" || ngc.LegacyTLS.CertFile != \"\"" then [.movedKeys]
      else if s = "call:logrus.ParseLevel" then [.verbosity]
      else if s = "switch:ngc.LoggerFormat" then [.loggerFormat]
      else []) ++ loadStepsOf loaders rest

/-- `Load`: the first failing step (in the regenerated order) is the error -/
def loadFull (order : List LoadStep) (formats : List Bytes) (i : LoadIn) : Option String :=
  order.findSome? (stepFails formats i)

end Nuts.C20
