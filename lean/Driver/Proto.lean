import Driver.Util
import NutsModel.C07.Net
import NutsModel.C07.Iblt
import Std.Data.HashMap
import NutsModel.Facts.C07
import NutsModel.C15.Authn
open Lean Nuts.Drv Nuts.Proto Nuts

/-! Line-protocol driver shared by nm_C07 and nm_C15: consumes the simulator's op stream. -/
namespace Nuts.Drv.Proto

def hexVal (s : String) : Nat :=
  s.foldl (fun acc c =>
    let d := if '0' ≤ c ∧ c ≤ '9' then c.toNat - '0'.toNat
             else if 'a' ≤ c ∧ c ≤ 'f' then c.toNat - 'a'.toNat + 10 else 0
    acc * 16 + d) 0

def hexDigit (n : Nat) : Char := if n < 10 then Char.ofNat (n + '0'.toNat) else Char.ofNat (n - 10 + 'a'.toNat)

def r16 (r : Nat) : String :=
  String.ofList ((List.range 16).map fun i => hexDigit ((r / 16 ^ (15 - i)) % 16))

def digest (refs : List Ref) : String := s!"#{refs.length}:{r16 (refs.foldl (· ^^^ ·) 0)}"

/-- the model instantiated with the constants the source has today -/
def baseCfg : Cfg :=
  { pageSize := Facts.C07.pageSize, maxQueue := Facts.C07.maxQueueSize, rangePages := Facts.C07.rangeLimitPages,
    msgOverhead := Facts.C07.transactionListMessageOverhead, txOverhead := Facts.C07.transactionListTXOverhead,
    maxMsg := Facts.C07.defaultMaxMessageSizeInBytes, validity := Facts.C07.maxValidity,
    blockState := Facts.C07.blockable.contains "Envelope_State",
    blockList := Facts.C07.blockable.contains "Envelope_TransactionListQuery",
    blockRange := Facts.C07.blockable.contains "Envelope_TransactionRangeQuery",
    nextOne := (Facts.C07.nextPageOffsets.getD 0 0, Facts.C07.nextPageOffsets.getD 1 0),
    nextTwo := (Facts.C07.nextPageOffsets.getD 2 0, Facts.C07.nextPageOffsets.getD 3 0) }

structure St where
  txs : Array (Option Tx) := #[]
  txPl : Array String := #[]                                  -- payload id of each universe transaction
  payloads : List (String × Payload) := []
  ciphers : Array (String × List (Option String)) := #[]     -- cipher id -> (kid able to decrypt, plaintext entries)
  cfg : Cfg := baseCfg
  w : World := { nodes := [] }

def cidStr (c : Cid) : String := s!"c{c.1}.{c.2}"

def payloadName : Option Payload → String
  | none => "-"
  | some p => if p.len == 0 then "-" else p.id

def renderMsg : Msg → String
  | .gossip x lc refs => s!"gossip(x={r16 x},lc={lc},refs={digest refs})"
  | .state c x lc => s!"state({cidStr c},x={r16 x},lc={lc})"
  | .txSet c req lc (.ofSet refs) => s!"set({cidStr c},req={req},lc={lc},iblt={digest refs})"
  | .txSet c req lc .garbage => s!"set({cidStr c},req={req},lc={lc},iblt=garbage)"
  | .listQuery c refs => s!"lq({cidStr c},refs={digest refs})"
  | .rangeQuery c a b => s!"rq({cidStr c},{a},{b})"
  | .txList c i t txs =>
    let refs := txs.filterMap (fun x => x.tx.map (·.ref))
    let npl := (txs.filter (fun x => !payloadEmpty x.payload)).length
    let sz := txs.foldl (fun a x => a + (match x.tx with | some t => t.size | none => 0) + (match x.payload with | some p => p.len | none => 0)) 0
    s!"tl({cidStr c},{i}/{t},{digest refs},pl={npl},sz={sz})"
  | .payloadQuery r => s!"pq({r16 r})"
  | .payload r d => s!"pl({r16 r},{payloadName d})"
  | .diagnostics => "diag"
  | .unsupported => "other"

def stLine (n : Node) : String := s!"st={r16 (xorOf n.dag)},{lcOf n.dag},{n.dag.length}"

def mkEnv (st : St) (j : Json) : Env × Bool :=
  let dres : DecodeRes := match jStr j "dec" with
    | "ok" => .ok ((jStrs j "missing").map hexVal)
    | "fail" => .fail
    | _ => .err
  let hasOrder := jHas j "order"
  let obs := (jStrs j "order").map hexVal
  let ciphers := st.ciphers
  ({ decode := fun _ _ => dres,
     order := fun l => if hasOrder then obs.filterMap (fun r => l.find? (fun t => t.ref == r)) else l,
     dec := fun kid c => match ciphers[c]? with
       | some (k, plain) => if k == kid && k != "" then .ok plain else .fail
       | none => .fail }, hasOrder)

/-- is `o` a clock-sorted rearrangement of `l` (what an unstable sort by clock may return)? -/
def orderOK (l o : List Tx) : Bool :=
  let rec sorted : List Tx → Bool
    | a :: b :: rest => a.clock ≤ b.clock && sorted (b :: rest)
    | _ => true
  let key (t : Tx) : Nat × Nat := (t.clock, t.ref)
  let lt (a b : Nat × Nat) : Bool := a.1 < b.1 || (a.1 == b.1 && a.2 < b.2)
  sorted o && o.length == l.length && (Nuts.sortBy lt (l.map key)) == (Nuts.sortBy lt (o.map key))

def rangeIdx (j : Json) (k : String) : List Nat :=
  (jArr j k).flatMap (fun r => match r with
    | .arr a => match a.toList.filterMap (fun x => x.getNat?.toOption) with
      | [lo, hi] => (List.range (hi - lo)).map (· + lo)
      | _ => []
    | _ => [])

def St.tx? (st : St) (i : Nat) : Option Tx := (st.txs[i]?).join

def St.refsOfRanges (st : St) (j : Json) (k : String) : List Ref :=
  (rangeIdx j k).filterMap (fun i => match st.txs[i]? with
    | some (some t) => some t.ref
    | _ => none)

def St.refOfIdx (st : St) (i : Int) : Ref :=
  if i < 0 then 0 else match st.txs[i.toNat]? with
    | some (some t) => t.ref
    | _ => 0

def parseCid (j : Json) : Cid :=
  match (jNats j "c") with
  | [a, b] => (a, b)
  | _ => (99, 99)

/-- a payload field that is present but empty; its hash is SHA-256 of the empty string -/
def presentEmpty : Payload := ⟨"", 0, hexVal "e3b0c44298fc1c14"⟩

def netTxOf (st : St) (t : Json) : NetTx :=
  { tx := st.tx? (jNat t "i"),
    payload := (if jBool t "empty" then some presentEmpty else Nuts.alGet st.payloads (jStr t "pl")) }

/-- garbage universe entries keep their ref in a side table: (idx → ref) is only needed for digests of forged
    messages, which are never printed; refs of garbage in ref lists are taken from `gref` -/
def parseMsg (st : St) (grefs : Array Ref) (m : Json) : Msg :=
  let refOf (i : Nat) : Ref := match st.txs[i]? with
    | some (some t) => t.ref
    | _ => grefs[i]?.getD 0
  let refs := (jNats m "refs").map refOf
  let xor := (st.refsOfRanges m "xset").foldl (· ^^^ ·) 0
  match jStr m "t" with
  | "gossip" => .gossip xor (jNat m "lc") refs
  | "state" => .state (parseCid m) xor (jNat m "lc")
  | "set" => .txSet (parseCid m) (jNat m "lcreq") (jNat m "lc") (if jBool m "igarbage" then .garbage else .ofSet (st.refsOfRanges m "iset"))
  | "lq" => .listQuery (parseCid m) refs
  | "rq" => .rangeQuery (parseCid m) (jNat m "a") (jNat m "b")
  | "tl" => .txList (parseCid m) (jNat m "num") (jNat m "total")
      ((jArr m "txs").map (netTxOf st))
  | "pq" => .payloadQuery (let i := jInt m "ref"; if i < 0 then 0 else refOf i.toNat)
  | "pl" => .payload (let i := jInt m "ref"; if i < 0 then 0 else refOf i.toNat) (Nuts.alGet st.payloads (jStr m "data"))
  | "diag" => .diagnostics
  | _ => .unsupported

def sentLine (w : World) (from_ : Nat) : String :=
  let news := (w.sent.drop from_).zipIdx from_
  "sent=[" ++ String.intercalate " " (news.map (fun (p, i) => s!"m{i}:{p.src}>{p.dst}:{renderMsg p.msg}")) ++ "]"

def strLt (a b : String) : Bool := a < b

/-- murmur3 on the harness's key universe, as data (op `ibltuni`) -/
structure IbU where
  hk : Array Nat := #[]
  c0 : Std.HashMap Nat Nat := {}
  chain : Std.HashMap Nat Nat := {}

def IbU.hash (u : IbU) : Iblt.Hash :=
  { hashKey := fun r => u.hk[r]?.getD 0, chain0 := fun h => (u.c0.get? h).getD 0, chain := fun x => (u.chain.get? x).getD 0 }

def ibltPar : Iblt.Par := ⟨Nuts.Facts.C07.ibltK, Nuts.Facts.C07.ibltMaxChain⟩

def ibltDigest (t : Iblt.Table) : Nat :=
  let p := 2 ^ 61 - 1
  t.foldl (fun acc b =>
    let a1 := (acc * 1000003 + (b.count % (2 ^ 32 : Int)).toNat % p) % p
    let a2 := (a1 * 1000003 + b.hashSum % p) % p
    (a2 * 1000003 + b.keySum % p) % p) 0

def natList (l : List Nat) : String := "[" ++ String.intercalate "," (l.map toString) ++ "]"

structure DSt where
  st : St := {}
  grefs : Array Ref := #[]
  ib : IbU := {}

def initNode (st : St) (env : Env) (id : Nat) (nj : Json) : Node × Nat :=
  let did := jStr nj "did"
  let n0 : Node := { id := id, did := did, resolvable := jBool nj "resolvable",
                     kaks := (jArr nj "kaks").map (fun k => { kid := jStr k "kid", held := jBool k "held" }),
                     hasReceiver := did != "" }
  let priv := jNats nj "priv"
  let nopl := jNats nj "nopayload"
  (rangeIdx nj "dag").foldl (fun (acc : Node × Nat) i =>
    match st.txs[i]? with
    | some (some t) =>
      let pl := if (t.pal.isEmpty && !nopl.contains i) || (!t.pal.isEmpty && priv.contains i)
                then Nuts.alGet st.payloads (st.txPl[i]?.getD "") else none
      match addTx st.cfg env acc.1 t pl with
      | (n1, _, .added) => (n1, acc.2)
      | (n1, _, .present) => (n1, acc.2)
      | (n1, _, _) => (n1, acc.2 + 1)
    | _ => (acc.1, acc.2 + 1)) (n0, 0)

def observe (st : St) : String :=
  let privIdx := (List.range st.txs.size).filter (fun i => match st.txs[i]? with
    | some (some t) => !t.pal.isEmpty
    | _ => false)
  let parts := st.w.nodes.map (fun n =>
    let priv := privIdx.filter (fun i => match st.txs[i]? with
      | some (some t) => present n.dag t.ref && (readPayload n t.payloadHash).isSome
      | _ => false)
    let ps := (priv.map toString).toArray.qsort strLt |>.toList
    s!"n{n.id}={digest (n.dag.map (·.ref))},x={r16 (xorOf n.dag)},lc={lcOf n.dag},convs={n.convs.length},priv=[{String.intercalate "," ps}]")
  "obs " ++ String.intercalate " " parts

/-- a transient "database busy" fault observed by the harness: the Add of transaction `idx` returned an error without any
    effect. For the model this is an Add with a failing verdict (no state change, the rest of the list is not looked at). -/
def faultOf (st : St) (j : Json) : Option Ref :=
  match j.getObjVal? "fault" with
  | .ok v => match v.getNat? with
    | .ok i => match st.txs[i]? with
      | some (some t) => some t.ref
      | _ => none
    | _ => none
  | _ => none

def failAdd (r : Ref) (nt : NetTx) : NetTx :=
  match nt.tx with
  | some t => if t.ref == r then { nt with tx := some { t with sigOK := false } } else nt
  | none => nt

def withFault (f : Option Ref) (m : Msg) : Msg :=
  match f, m with
  | some r, .txList cid num total txs => .txList cid num total (txs.map (failAdd r))
  | _, m => m

def recvLine (d : DSt) (j : Json) (src dst : Nat) (m0 : Msg) : DSt × List String :=
  let st := d.st
  let fault := faultOf st j
  let m := withFault fault m0
  let (env, hasOrder) := mkEnv st j
  let before := st.w.sent.length
  match st.w.nodes[dst]? with
  | none => (d, ["no-connection"])
  | some n =>
    match peerOf n src with
    | none => (d, ["no-connection"])
    | some _ =>
      let (w', r) := st.w.recv st.cfg src dst m env
      let ret := match r with | some r => r.ret | none => "?"
      let ret := if fault.isSome && ret == "err:add-sig" then (if jStr j "faultkind" == "cancel" then "err:ctx-cancelled" else "err:db-busy") else ret
      let viol := match m with
        | .listQuery _ refs =>
          if hasOrder && !refs.isEmpty then
            let l := refs.filterMap (getTx n.dag)
            if orderOK l (env.order l) then "" else " ORDER-VIOLATION"
          else ""
        | _ => ""
      let n' := (w'.nodes[dst]?).getD n
      ({ d with st := { st with w := w' } }, [s!"ret={ret} {sentLine w' before} {stLine n'}{viol}"])

def step (d : DSt) (j : Json) : DSt × List String :=
  let st := d.st
  match jStr j "op" with
  | "universe" => ({}, [s!"universe {jStr j "kind"}"])
  | "payload" =>
    let p : Payload := { id := jStr j "id", len := jNat j "len", sha := hexVal (jStr j "sha") }
    ({ d with st := { st with payloads := st.payloads ++ [(p.id, p)] } }, ["def"])
  | "cipher" =>
    let plain := (jArr j "plain").map (fun x => x.getStr?.toOption)
    ({ d with st := { st with ciphers := st.ciphers.push (jStr j "kid", plain) } }, ["def"])
  | "tx" =>
    let ref := hexVal (jStr j "ref")
    if jBool j "parse" then
      let t : Tx := { ref := ref, clock := jNat j "lc", prevs := (jStrs j "prevs").map hexVal, pal := jNats j "pal",
                      payloadHash := hexVal (jStr j "ph"), sigOK := jBool j "sig", size := jNat j "sz" }
      ({ st := { st with txs := st.txs.push (some t), txPl := st.txPl.push (jStr j "pl") }, grefs := d.grefs.push ref }, ["def"])
    else ({ st := { st with txs := st.txs.push none, txPl := st.txPl.push "" }, grefs := d.grefs.push ref }, ["def"])
  | "scenario" =>
    let sc := jObj j "sc"
    let cfg := { baseCfg with maxMsg := jNat sc "maxmsg", validity := jNat sc "validity" }
    let st := { st with cfg := cfg }
    let (env, _) := mkEnv st j
    let nodes := (jArr sc "nodes").zipIdx.map (fun (nj, i) => initNode st env i nj)
    let errs := nodes.foldl (fun a p => a + p.2) 0
    let ns := nodes.map (·.1)
    let ns := (jArr sc "conns").foldl (fun (ns : List Node) c =>
      match ns[jNat c "at"]? with
      | some n => ns.set (jNat c "at") (peerConnected n { key := jNat c "peer", authenticated := jBool c "auth", did := jStr c "did" })
      | none => ns) ns
    let parts := ns.map (fun n => s!"n{n.id}:{stLine n}")
    ({ d with st := { st with w := { nodes := ns } } }, [s!"scenario {jStr sc "name"} init-errors={errs} {String.intercalate " " parts}"])
  | "tick" =>
    let i := jNat j "n"; let peer := jNat j "peer"
    match st.w.nodes[i]? with
    | none => (d, ["no-queue"])
    | some n =>
      if (peerOf n peer).isNone || !(n.queues.any (fun q => q.peer == peer)) then (d, ["no-queue"])
      else
        let before := st.w.sent.length
        let w' := st.w.step st.cfg (.tick i peer)
        let n' := (w'.nodes[i]?).getD n
        let ql := ((n'.queues.find? (fun q => q.peer == peer)).map (·.queue.length)).getD 0
        ({ d with st := { st with w := w' } }, [s!"{sentLine w' before} {stLine n'} q={ql}"])
  | "deliver" =>
    match st.w.sent[jNat j "m"]? with
    | none => (d, ["no-message"])
    | some pk => recvLine d j pk.src pk.dst pk.msg
  | "inject" => recvLine d j (jNat j "from") (jNat j "to") (parseMsg st d.grefs (jObj j "msg"))
  | "advance" =>
    let w' := st.w.step st.cfg (.advance (jNat j "n") (jNat j "dt"))
    ({ d with st := { st with w := w' } }, [s!"convs={((w'.nodes[jNat j "n"]?).map (·.convs.length)).getD 0}"])
  | "conn" =>
    let i := jNat j "n"; let peer := jNat j "peer"
    match st.w.nodes[i]? with
    | none => (d, ["no-connection"])
    | some n =>
      if (peerOf n peer).isNone then (d, ["no-connection"])
      else
        let mode : ConnMode := match jStr j "mode" with
          | "down" => .down | "up" => .up | "disconnect" => .disconnect | _ => .connect
        let w' := st.w.step st.cfg (.conn i peer mode)
        let n' := (w'.nodes[i]?).getD n
        let c := ((peerOf n' peer).map (·.connected)).getD false
        ({ d with st := { st with w := w' } }, [s!"conn connected={c} queue={n'.queues.any (fun q => q.peer == peer)}"])
  | "fault" => (d, ["fault armed"])
  | "ibltuni" =>
    let hk := ((jArr j "hk").filterMap (fun x => x.getNat?.toOption)).toArray
    let c0s := (jArr j "c0").filterMap (fun x => x.getNat?.toOption)
    let c0 := (hk.toList.zip c0s).foldl (fun (m : Std.HashMap Nat Nat) (p : Nat × Nat) => m.insert p.1 p.2) {}
    let c0 := (jArr j "xh").foldl (fun (m : Std.HashMap Nat Nat) x => match x with
      | .arr a => match a.toList.filterMap (fun y => y.getNat?.toOption) with
        | [h, c] => m.insert h c
        | _ => m
      | _ => m) c0
    let pairs := (jArr j "chain").filterMap (fun x => match x with
      | .arr a => match a.toList.filterMap (fun y => y.getNat?.toOption) with
        | [a, b] => some (a, b)
        | _ => none
      | _ => none)
    let chain := pairs.foldl (fun (m : Std.HashMap Nat Nat) (p : Nat × Nat) => m.insert p.1 p.2) {}
    ({ d with ib := { hk := hk, c0 := c0, chain := chain } }, [s!"ibltuni keys={hk.size} chain={pairs.length}"])
  | "bidx" =>
    let H := d.ib.hash
    let kh := if jNat j "h" != 0 then jNat j "h" else H.hashKey (jNat j "v")
    (d, [s!"bidx {natList (Iblt.bucketIndices H ibltPar (jNat j "n") kh)}"])
  | "iblt" =>
    let H := d.ib.hash
    let loc := Iblt.encode H ibltPar (jNat j "n") (jNats j "loc")
    let peer0 := Iblt.encode H ibltPar (jNat j "pn") (jNats j "peer")
    let peer := (jArr j "tamper").foldl (fun (t : Iblt.Table) tj =>
      Iblt.modAt t (jNat tj "i") (fun b => ⟨b.count + jInt tj "dc", b.hashSum ^^^ jNat tj "hx", b.keySum ^^^ jNat tj "kx"⟩)) peer0
    let head := s!"iblt enc={ibltDigest loc} penc={ibltDigest peer}"
    match Iblt.subtract loc peer with
    | none => (d, [head ++ " sub=err"])
    | some t =>
      match Iblt.decode H ibltPar 100000 t with
      | .ok r m => (d, [s!"{head} sub=ok res=ok rem={natList r} mis={natList m}"])
      | .notPossible r m => (d, [s!"{head} sub=ok res=fail rem={natList r} mis={natList m}"])
      | .loop => (d, [head ++ " sub=ok res=loop rem=[] mis=[]"])
      | .fuel => (d, [head ++ " sub=ok res=fuel"])
  | "chunk" =>
    let cfg := { baseCfg with maxMsg := jNat j "maxmsg" }
    let txs : List NetTx := (jArr j "runs").flatMap (fun r => match r with
      | .arr a => match a.toList.filterMap (fun x => x.getNat?.toOption) with
        | [n, dsz, psz] => List.replicate n { tx := some { ref := 0, clock := 0, prevs := [], pal := [], payloadHash := 0, sigOK := true, size := dsz },
                                              payload := if psz == 0 then none else some ⟨"", psz, 0⟩ }
        | _ => []
      | _ => [])
    let lens := (chunkTransactionList cfg txs).map (fun c => toString c.length)
    (d, [s!"chunk lens=[{String.intercalate "," lens}] oversize=0"])
  | "restart" =>
    let i := jNat j "n"
    let w' := st.w.step st.cfg (.restart i)
    ({ d with st := { st with w := w' } }, [s!"restart {((w'.nodes[i]?).map stLine).getD "?"}"])
  | "evict" =>
    let w' := st.w.step st.cfg (.evict (jNat j "n"))
    ({ d with st := { st with w := w' } }, [s!"convs={((w'.nodes[jNat j "n"]?).map (·.convs.length)).getD 0}"])
  | "create" =>
    let i := jNat j "n"
    match st.w.nodes[i]?, st.txs[jNat j "tx"]? with
    | some n, some (some t) =>
      let (env, _) := mkEnv st j
      let pl := Nuts.alGet st.payloads (st.txPl[jNat j "tx"]?.getD "")
      let before := st.w.sent.length
      let (w', r) := st.w.stepR st.cfg (.create i t pl env)
      let n' := (w'.nodes[i]?).getD n
      ({ d with st := { st with w := w' } }, [s!"ret={(r.map (·.ret)).getD "?"} {sentLine w' before} {stLine n'}"])
    | some n, some none => (d, [s!"ret=err:parse sent=[] {stLine n}"])
    | _, _ => (d, ["bad-create"])
  | "observe" => (d, [observe st])
  | "configure" =>
    match Nuts.C15.configureAuthenticator (jBool j "tls") (jBool j "strict") with
    | .err _ => (d, ["configure err:tls-disabled-strict"])
    | .panic s => (d, ["configure panic:" ++ s])
    | .ok k =>
      -- a peer whose certificate covers attacker.example claims a DID whose NutsComm host is victim.example.org
      let e : Nuts.C15.AuthEnv := { parseHost := fun _ => some "victim.example.org", verifyHostname := fun dns h => dns.contains h }
      let (p, r) := Nuts.C15.authenticateWith k e "did:nuts:victim" { key := 0 }
        { cert := some ["attacker.example"], endpoint := some "grpc://victim.example.org:5555" }
      let kind := match k with | .tls => "tls" | .dummy => "dummy"
      (d, [s!"configure auth={kind} liar-refused={r != "ok"} liar-auth={p.authenticated}"])
  | "authn" =>
    let host := jStr j "host"
    let e : Nuts.C15.AuthEnv := { parseHost := fun _ => if jBool j "parsed" then some host else none,
                                  verifyHostname := fun _ _ => jBool j "covers" }
    let inp : Nuts.C15.AuthIn := { cert := if jBool j "cert" then some [] else none,
                                   endpoint := if jBool j "resolve" then some "" else none }
    let (p, r) := Nuts.C15.authenticate e (jStr j "claimed") { key := 0 } inp
    (d, [s!"authn {r} auth={p.authenticated} did={p.did}"])
  | o => (d, ["bad-op:" ++ o])

end Nuts.Drv.Proto
