import Driver.Util
import NutsModel.C08.State
import NutsModel.C08.Codec
import NutsModel.C08.Drop
import NutsModel.C08.Metric
import NutsModel.C08.Phases
import NutsModel.C08.RepairFault
import NutsModel.Facts.C08
open Lean Nuts.Drv Nuts.C08 Nuts

namespace Nuts.Drv.C08

def hexVal (s : String) : Nat :=
  s.foldl (fun acc c =>
    let d := if '0' ≤ c ∧ c ≤ '9' then c.toNat - '0'.toNat
             else if 'a' ≤ c ∧ c ≤ 'f' then c.toNat - 'a'.toNat + 10 else 0
    acc * 16 + d) 0

def hexDigit (n : Nat) : Char := if n < 10 then Char.ofNat (n + '0'.toNat) else Char.ofNat (n - 10 + 'a'.toNat)

/-- `digits` hex digits of `v` (most significant first) -/
def hexN (digits : Nat) (v : Nat) : String :=
  String.ofList ((List.range digits).map fun i => hexDigit ((v / 16 ^ (digits - 1 - i)) % 16))

/-- first 8 bytes of a 256-bit value -/
def short (r : BitVec 256) : String := hexN 16 (r.toNat >>> 192)

/-- all 32 bytes -/
def full (r : BitVec 256) : String :=
  let d := Nat.toDigits 16 r.toNat
  String.ofList (List.replicate (64 - d.length) '0' ++ d)

def dM : Nat := 2 ^ 61 - 1
def dP : Nat := 1000003
@[inline] def mix (h x : Nat) : Nat := (h * dP + x) % dM

def ibltDigest {n : Nat} (g : Iblt n) : Nat :=
  g.foldl (fun h b => mix (mix (mix h b.count.toNat) b.hashSum.toNat) b.keySum.toNat) 0

def listDigest (l : List Ref) : Nat := l.foldl (fun h r => mix h r.toNat) l.length

def NB : Nat := Nuts.Facts.C08.ibltNumBuckets
def cfg : Cfg := { pageSize := Nuts.Facts.C08.pageSize, loadEmptyResets := Nuts.Facts.C08.loadEmptyResets }

def parseRef (j : Json) (k : String) : Ref := BitVec.ofNat 256 (hexVal (jStr j k))

def parseTx (j : Json) : Tx :=
  { ref := parseRef j "ref", clock := jNat j "clock", prevs := (jStrs j "prevs").map fun s => BitVec.ofNat 256 (hexVal s),
    hk := BitVec.ofNat 64 (jNat j "hk"), idx := jNats j "idx" }

def parseIKey (j : Json) : IKey :=
  { ref := parseRef j "ref", hk := BitVec.ofNat 64 (jNat j "hk"), idx := jNats j "idx" }

structure St where
  s : State NB := State.init cfg
  metric : Nat := 0
  kind : String := "xor"
  tx : Tree (BitVec 256) := Tree.new xorOps 2
  shelfX : List (Nat × BitVec 256) := []
  tn : Nat := 6
  ti : Tree (Iblt tn) := Tree.new (ibltOps tn) 2
  shelfI : List (Nat × Iblt tn) := []

def resStr : Res Unit → String
  | .ok _ => "ok" | .err e => "err:" ++ e | .panic e => "panic:" ++ e

def sortNats (l : List Nat) : List Nat := (l.toArray.qsort (· < ·)).toList.eraseDups

/-- state-level observation; `j` holds the probes: xs (XOR clocks), is (IBLT clocks), ws (windows as flat pairs) -/
def observe (s : State NB) (j : Json) : String := Id.run do
  let mut out := s!"cnt={s.disk.count} lc={s.mem.lcHigh}/{s.disk.lcHigh} head="
  out := out ++ (match s.disk.head with | some h => short h | none => "-")
  if jBool j "dg" then
    let d := diagnostics s
    out := out ++ s!" diag={full d.1}/{d.2.1}/{d.2.2}"
  out := out ++ " |"
  for c in jNats j "xs" do
    let r := xorAt s c
    out := out ++ s!" X{c}={full r.1}@{r.2}"
  out := out ++ " |"
  for c in jNats j "is" do
    let r := ibltAt s c
    out := out ++ s!" I{c}={ibltDigest r.1}@{r.2}"
  out := out ++ " |"
  let ws := (jNats j "ws").toArray
  for i in [0:ws.size / 2] do
    let a := ws[2 * i]!
    let b := ws[2 * i + 1]!
    match listing s a b with
    | .ok l => out := out ++ s!" W{a}-{b}={l.length}:{listDigest l}"
    | .err e => out := out ++ s!" W{a}-{b}=err:{e}"
    | .panic e => out := out ++ s!" W{a}-{b}=panic:{e}"
  return out

def obsTree {R G : Type} (o : Ops R G) (dg : G → String) (t : Tree G) (j : Json) : String := Id.run do
  let mut out := s!"size={t.treeSize} ls={t.leafSize} leaves={t.root.leaves.length} root={dg (t.rootData o)} |"
  for c in jNats j "cs" do
    let r := t.zeroTo o c
    out := out ++ s!" Z{c}={dg r.1}@{r.2}"
  out := out ++ s!" | dirty={sortNats t.dirty}"
  return out

def putAll {G : Type} (t : Tree G) (shelf : List (Nat × G)) : List (Nat × G) :=
  t.updates.foldl (fun s kv => putSorted kv.1 kv.2 s) shelf

/-! ### byte layer (Codec) -/
open Nuts.C08.Codec in
def hexBytes (s : String) : Codec.Bytes :=
  let rec go : List Char → Codec.Bytes
    | a :: b :: rest => UInt8.ofNat (hexVal (String.ofList [a, b])) :: go rest
    | _ => []
  go s.toList

def bytesHex (b : Codec.Bytes) : String :=
  String.ofList (b.flatMap fun x => [hexDigit (x.toNat / 16), hexDigit (x.toNat % 16)])

def bucketsStr (l : List Bucket) : String :=
  " ".intercalate (l.map fun b => s!"{b.count.toNat}:{b.hashSum.toNat}:{full b.keySum}")

def bytesDigest (b : Codec.Bytes) : Nat := b.foldl (fun h x => mix h x.toNat) b.length

def insLex (x : Codec.Bytes × Codec.Bytes) : List (Codec.Bytes × Codec.Bytes) → List (Codec.Bytes × Codec.Bytes)
  | [] => [x]
  | y :: r => if Codec.lexLt x.1 y.1 then x :: y :: r else y :: insLex x r
def sortLex (l : List (Codec.Bytes × Codec.Bytes)) : List (Codec.Bytes × Codec.Bytes) := l.foldr insLex []

def resNat : Res Nat → String
  | .ok n => toString n | .err e => "err:" ++ e | .panic _ => "short"

def parseKv (j : Json) : List (Nat × Codec.Bytes) :=
  (jArr j "kv").foldl (fun l e => putSorted (jNat e "k") (hexBytes (jStr e "b")) l) []

def codecStep (st : St) (j : Json) : Option String :=
  let b := hexBytes (jStr j "b")
  match jStr j "op" with
  | "tcx" => some (match Codec.xorUnmarshal b with
      | .ok x => "tcx ok:" ++ bytesHex (Codec.xorMarshal x) | .err e => "tcx err:" ++ e | .panic s => "tcx panic:" ++ s)
  | "tci" => some (match Codec.ibltUnmarshal b with
      | .ok l => s!"tci ok:nb={l.length} [{bucketsStr l}] m={bytesHex (Codec.ibltMarshal l)}"
      | .err e => "tci err:" ++ e | .panic s => "tci panic:" ++ s)
  | "tcm" =>
    let l : List Bucket := (jArr j "bk").map fun e =>
      ⟨BitVec.ofNat 32 (jNat e "c"), BitVec.ofNat 64 (jNat e "h"), BitVec.ofNat 256 (hexVal (jStr e "k"))⟩
    some ("tcm " ++ bytesHex (Codec.ibltMarshal l))
  | "tca" => some (match Codec.ibltUnmarshal b with
      | .ok l1 => (match Codec.ibltUnmarshal (hexBytes (jStr j "b2")) with
        | .ok l2 => (match Codec.ibltAddDyn l1 l2 with
          | .ok l => s!"tca ok:[{bucketsStr l}]" | .err e => "tca err:" ++ e | .panic s => "tca panic:" ++ s)
        | .err e => "tca err2:" ++ e | .panic s => "tca panic:" ++ s)
      | .err e => "tca err1:" ++ e | .panic s => "tca panic:" ++ s)
  | "tnb" =>
    let n := Codec.newIbltBuckets Nuts.Facts.C08.ibltK (jNat j "nb")
    some s!"tnb {n} {Codec.newIbltBuckets Nuts.Facts.C08.ibltK n}"
  -- dag level
  | "mget" =>
    let g : Codec.GetRes := match jStr j "mode" with
      | "notfound" => .notFound | "wrapped-notfound" => .notFound | "failed" => .failed | _ => .value (hexBytes (jStr j "val"))
    let head := match Codec.getHead g with | .ok r => full r | .err _ => "err" | .panic _ => "short"
    some s!"mget lc={resNat (Codec.getHighestClockValue g)} cnt={resNat (Codec.getNumberOfTransactions g)} head={head}"
  | "ckey" =>
    let c := jNat j "clock"
    some s!"ckey le={bytesHex (Codec.clockToKey c)} be={bytesHex (Codec.uint32Key c)} rt={resNat (Codec.keyToClock (Codec.clockToKey c))},{resNat (Codec.bytesToClock (Codec.uint32Key c))}"
  | "kclk" =>
    let v := hexBytes (jStr j "val")
    some s!"kclk le={resNat (Codec.keyToClock v)} be={resNat (Codec.bytesToClock v)} cnt={resNat (Codec.bytesToCount v)}"
  | "phl" =>
    let v := hexBytes (jStr j "val")
    let l := Codec.parseHashList v
    some s!"phl n={l.length} [{",".intercalate (l.map full)}] app={bytesHex (Codec.appendHashList v (parseRef j "ref"))}"
  | "raw" =>
    let d := st.s.disk
    let clk : String := match getSorted (jNat j "clock") d.clocks with
      | some refs => bytesHex (Codec.encodeHashList refs) | none => "-"
    let xs := sortLex (Codec.encodeXorShelf d.xorLeaves)
    let is := sortLex (Codec.encodeIbltShelf d.ibltLeaves)
    let mt := if d.count == 0 then "-" else s!"{bytesHex (Codec.uint32Key d.lcHigh)}/{bytesHex (Codec.countBytes d.count)}"
    some s!"raw clk={clk} meta={mt} x=[{",".intercalate (xs.map fun kv => bytesHex kv.1 ++ "=" ++ bytesHex kv.2)}] i=[{",".intercalate (is.map fun kv => bytesHex kv.1 ++ "=" ++ toString (bytesDigest kv.2))}] metric={st.metric}"
  | _ => none

/-- the forced schedule of the harness: outer caller's read transaction; the inner caller's whole Add; the outer
    caller's write transaction (if its read transaction let it go on) -/
def runBetween (st : St) (tx tx2 : Tx) (optOuter optInner : AddOpts) : Conc NB × Res Unit × Res Unit :=
  let c0 : Conc NB := { m := { s := st.s, metric := st.metric }, pending := [] }
  let (c1, r1) := c0.enter tx
  let (c2, r2) := c1.enter tx2
  let (c3, rin) : Conc NB × Res Unit := match r2 with
    | some r => (c2, r)
    | none => let f := c2.finish cfg (c2.pending.length - 1) optInner; (f.1, f.2.getD (.panic "no-pending-call"))
  let (c4, rout) : Conc NB × Res Unit := match r1 with
    | some r => (c3, r)
    | none => let f := c3.finish cfg 0 optOuter; (f.1, f.2.getD (.panic "no-pending-call"))
  (c4, rin, rout)

def step (st : St) (j : Json) : St × List String :=
  match codecStep st j with
  | some line => (st, [line])
  | none =>
  match jStr j "op" with
  -- ---------------- state level
  | "new" => let st := { st with s := State.init cfg, metric := 0 }; (st, ["new | " ++ observe st.s j])
  | "mstart" =>
    let st := { st with metric := metricAfterStart st.metric st.s.disk.count }
    (st, [s!"mstart metric={st.metric}"])
  | "dupadd" =>
    -- a second call adds the same transaction between the first call's read and write transaction: run as that very
    -- schedule of the two-transaction model (NutsModel/C08/Phases.lean): outer enter, inner enter + finish, outer finish
    let tx := parseTx (jObj j "tx")
    let payload := match jStr j "payload" with | "ok" => some true | "bad" => some false | _ => none
    let (c, rin, rout) := runBetween st tx tx { payload := payload } { payload := payload }
    let tag := if resStr rin == resStr rout then resStr rout else "dup:" ++ resStr rin ++ "/" ++ resStr rout
    ({ st with s := c.m.s, metric := c.m.metric },
     [if jBool j "quiet" then tag else tag ++ " | " ++ observe c.m.s j])
  | "between" =>
    -- a whole Add of `tx2` between the read transaction and the write transaction of the Add of `tx`
    let tx := parseTx (jObj j "tx")
    let tx2 := parseTx (jObj j "tx2")
    let payload := match jStr j "payload" with | "ok" => some true | "bad" => some false | _ => none
    let (c, rin, rout) := runBetween st tx tx2
      { payload := payload, commitFails := jStr j "fail" != "none" && jStr j "fail" != "" } {}
    let tag := s!"between {resStr rin}/{resStr rout}"
    ({ st with s := c.m.s, metric := c.m.metric },
     [if jBool j "quiet" then tag else tag ++ " | " ++ observe c.m.s j])
  | "add" =>
    let tx := parseTx (jObj j "tx")
    let payload := match jStr j "payload" with | "ok" => some true | "bad" => some false | _ => none
    let r := add cfg st.s tx { payload := payload, commitFails := jStr j "fail" != "none" && jStr j "fail" != "",
                               savePayloadEventFails := jStr j "save" == "payload", saveTxEventFails := jStr j "save" == "tx",
                               putFails := if jNat j "put" > 0 then some (jNat j "put") else none }
    ({ st with s := r.1, metric := metricAfterAdd st.metric (st.s.disk.isPresent tx.ref) r.2 },
     [if jBool j "quiet" then resStr r.2 else resStr r.2 ++ " | " ++ observe r.1 j])
  | "batch" => (st, ["batch"])
  | "race" => (st, ["race"])
  | "obs" => (st, ["obs | " ++ observe st.s j])
  | "restart" => let s := restart cfg st.s; ({ st with s := s, metric := 0 }, ["restart | " ++ observe s j])
  | "corruptDisk" =>
    let s := corruptDisk st.s (jNat j "key") (parseRef j "val"); ({ st with s := s }, ["corruptDisk | " ++ observe s j])
  | "corruptMem" =>
    let s := corruptMem st.s (jNat j "clock") (parseRef j "val"); ({ st with s := s }, ["corruptMem | " ++ observe s j])
  | "signal" => let s := signalIncorrect st.s; ({ st with s := s }, ["signal | " ++ observe s j])
  | "signalOK" => let s := signalCorrect st.s; ({ st with s := s }, ["signalOK | " ++ observe s j])
  | "liveRepair" =>
    -- the background loop: two signals, then checkPage until every page was visited (further runs are idle)
    let s0 := signalIncorrect (signalIncorrect st.s)
    let k := 2 * (s0.mem.lcHigh / cfg.pageSize + 1) + 2
    let s := (List.range k).foldl (fun s _ => checkPage cfg s) s0
    ({ st with s := s, metric := metricAfterStart st.metric st.s.disk.count }, ["liveRepair | " ++ observe s j])
  | "checkRace" =>
    -- an Add that commits after checkPage read the atomic clock and before its write transaction
    let tx := parseTx (jObj j "tx")
    let payload := match jStr j "payload" with | "ok" => some true | "bad" => some false | _ => none
    let lcSeen := st.s.mem.lcHigh
    let r := add cfg st.s tx { payload := payload }
    let s := checkPageWith cfg lcSeen r.1
    ({ st with s := s, metric := metricAfterAdd st.metric (st.s.disk.isPresent tx.ref) r.2 }, [s!"checkRace {resStr r.2} page={s.mem.repairPage} | " ++ observe s j])
  | "checkFail" =>
    let s := checkPageFail cfg st.s; ({ st with s := s }, [s!"checkFail page={s.mem.repairPage} | " ++ observe s j])
  | "check" =>
    let s := checkPage cfg st.s; ({ st with s := s }, [s!"check page={s.mem.repairPage} | " ++ observe s j])
  -- ---------------- tree level
  | "tnew" =>
    let ls := jNat j "ls"
    if jStr j "kind" == "iblt" then
      let nb := jNat j "nb"
      let st : St := { st with kind := "iblt", tn := nb, ti := Tree.new (ibltOps nb) ls, shelfI := [] }
      (st, ["tnew | " ++ obsTree (ibltOps st.tn) (fun g => toString (ibltDigest g)) st.ti j])
    else
      let st : St := { st with kind := "xor", tx := Tree.new xorOps ls, shelfX := [] }
      (st, ["tnew | " ++ obsTree xorOps full st.tx j])
  | op =>
    if st.kind == "iblt" then
      let o := ibltOps st.tn
      let fin (st : St) (tag : String) : St × List String :=
        (st, [tag ++ " | " ++ obsTree (ibltOps st.tn) (fun g => toString (ibltDigest g)) st.ti j])
      match op with
      | "tins" => fin { st with ti := st.ti.insert o (parseIKey j) (jNat j "clock") } "tins"
      | "tdel" => fin { st with ti := st.ti.delete o (parseIKey j) (jNat j "clock") } "tdel"
      | "tobs" => fin st "tobs"
      | "tpersist" => fin { st with shelfI := (persistFull st.ti st.shelfI).2, ti := st.ti.resetUpdates } "tpersist"
      | "tdrop" => (match st.ti.dropLeaves with
        | .ok t => fin { st with ti := t } s!"tdrop orph={sortNats t.orphaned}"
        | .err e => (st, ["tdrop err:" ++ e]) | .panic p => (st, ["panic:" ++ p]))
      | "tload" => fin { st with ti := Tree.load o cfg.loadEmptyResets (Tree.new o (jNat j "ls")) st.shelfI } "tload"
      | "tlb" =>
        let r := Codec.loadIbltBytes st.tn cfg.loadEmptyResets st.ti (parseKv j)
        fin { st with ti := r.1 } ("tlb " ++ resStr r.2)
      | "trepl" =>
        let d := (jArr j "refs").foldl (fun g r => o.ins g (parseIKey r)) o.zero
        fin { st with ti := st.ti.replace o (jNat j "clock") d } "trepl"
      | _ => (st, ["bad-op:" ++ op])
    else
      let o := xorOps
      let fin (st : St) (tag : String) : St × List String := (st, [tag ++ " | " ++ obsTree xorOps full st.tx j])
      match op with
      | "tins" => fin { st with tx := st.tx.insert o (parseRef j "ref") (jNat j "clock") } "tins"
      | "tdel" => fin { st with tx := st.tx.delete o (parseRef j "ref") (jNat j "clock") } "tdel"
      | "tobs" => fin st "tobs"
      | "tpersist" => fin { st with shelfX := (persistFull st.tx st.shelfX).2, tx := st.tx.resetUpdates } "tpersist"
      | "tdrop" => (match st.tx.dropLeaves with
        | .ok t => fin { st with tx := t } s!"tdrop orph={sortNats t.orphaned}"
        | .err e => (st, ["tdrop err:" ++ e]) | .panic p => (st, ["panic:" ++ p]))
      | "tload" => fin { st with tx := Tree.load o cfg.loadEmptyResets (Tree.new o (jNat j "ls")) st.shelfX } "tload"
      | "tlb" =>
        let r := Codec.loadXorBytes cfg.loadEmptyResets st.tx (parseKv j)
        fin { st with tx := r.1 } ("tlb " ++ resStr r.2)
      | "trepl" =>
        let d := (jArr j "refs").foldl (fun g r => o.ins g (parseRef r "ref")) o.zero
        fin { st with tx := st.tx.replace o (jNat j "clock") d } "trepl"
      | _ => (st, ["bad-op:" ++ op])

end Nuts.Drv.C08

def main : IO Unit := do
  Nuts.Drv.loop (← IO.getStdin) (← IO.getStdout) Nuts.Drv.C08.step ({} : Nuts.Drv.C08.St)
