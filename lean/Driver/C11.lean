import Driver.Util
import NutsModel.C11.Revocation
import NutsModel.C11.Wire
import NutsModel.C11.ValidAt
import NutsModel.C11.CredStatus
import NutsModel.C11.CredStatusJson
import NutsModel.C11.Reprocess
import NutsModel.C11.Resolve
import NutsModel.C11.Present
import NutsModel.Facts.C11
open Lean Nuts.Drv Nuts.C11 Nuts

namespace Nuts.Drv.C11

def bases : List String := ["https://n0.example", "https://n1.example/iam"]

def hasSub (s sub : String) : Bool := (s.splitOn sub).length > 1

/-- digest of a credential body for the ideal signature of the driver -/
def encDigest : Enc → String
  | .empty => "empty"
  | .bad => "bad"
  | .ok bits => s!"{bits.length}:{bits.setBits}"

def urlName (u : Url) : String :=
  match u with
  | .sl base issuer page =>
    match bases.findIdx? (· == base) with
    | some i => s!"n{i}/{issuer}/{page}"
    | none => s!"?{base}/{issuer}/{page}"
  | .raw s => "raw:" ++ s

def bodyDigest (b : VCBody) : String :=
  let subj := b.subjects.map fun s => s!"{urlName s.id}|{s.typeOk}|{s.purpose}|{encDigest s.enc}"
  s!"{b.issuer}|{b.ctxV1}{b.ctxSL}{b.typeVC}{b.typeSL}{b.nTypes}{b.hasId}|{b.issued}|{b.expires}|{b.hasStatus}|{subj}"

def sign (kid : String) (b : VCBody) : String := s!"sig|{kid}|{bodyDigest b}"

/-- the model instantiated with the regenerated constants and an ideal signature (the harness uses an HMAC) -/
def env : Env :=
  { lenBytes := Nuts.Facts.C11.defaultBitstringLengthInBytes
    maxIndex := Nuts.Facts.C11.maxBitstringIndex
    validity := Nuts.Facts.C11.statusListValidity
    minLeft := Nuts.Facts.C11.minTimeUntilExpired
    maxAge := Nuts.Facts.C11.maxAgeExternal
    keyOf := fun issuer => if hasSub issuer "nokey" then none else some (issuer ++ "#k1")
    sign := sign
    verify := fun vc => vc.proof == some (sign (vc.body.issuer ++ "#k1") vc.body) }

def parseUrl (j : Json) : Url :=
  let node := jInt j "node"
  if node < 0 then .raw (jStr j "raw") else
  match bases[node.toNat]? with
  | some b => .sl b (jStr j "issuer") (jNat j "page")
  | none => .raw (jStr j "raw")

/-- strconv.Atoi: the wire model (NutsModel.C11.Wire) -/
def atoi (s : String) : Option Int := Wire.atoi s

/-- `wire` op: `Validate` run over the REGENERATED statement chain of the source (Facts.entryValidateChain), Atoi, Itoa -/
def wireOp (j : Json) : String :=
  let e : Wire.WireEntry := { id := jStr j "id", type := jStr j "type", purpose := jStr j "purpose", index := jStr j "idx", list := jStr j "raw" }
  let urlOk := jBool j "urlok"
  let v := match Wire.checksOfChain Nuts.Facts.C11.entryValidateChain with
    | some cs => (match Wire.validateWith cs (fun _ => urlOk) e with
        | .ok _ => "ok" | .err x => "err:" ++ x | .panic x => "panic:" ++ x)
    | none => "unknown-check-in-source"
  let av := match Wire.atoi e.index with | some i => toString i | none => "err"
  let n := jInt j "n"
  let it := Wire.itoa n
  let rt := if Wire.atoi it == some n then "ok" else "DIFF"
  s!"wire validate={v} atoi={av} itoa={it} rt={rt} intsize=64"


def minutes (s : Int) : Int := if s ≥ 0 then (s + 30) / 60 else -((-s + 30) / 60)

def bitsStr (l : List Nat) : String := "[" ++ String.intercalate "," (l.map toString) ++ "]"

def describeVC (now : Nat) (vc : VC) : String :=
  match vc.body.subjects with
  | [s] =>
    match s.enc with
    | .ok bits =>
      let ttl := match vc.body.expires with
        | some e => toString (minutes ((e : Int) - now))
        | none => "none"
      let age := match vc.body.issued with
        | some i => toString (minutes ((now : Int) - i))
        | none => "?"
      let sig := if env.verify vc then "ok" else "BAD"
      s!"issuer={vc.body.issuer} subj={urlName s.id} purpose={s.purpose} len={bits.length} bits={bitsStr bits.setBits} age={age} ttl={ttl} sig={sig}"
    | _ => "malformed-list"
  | _ => "malformed-subject"

def phaseLine (p : EPhase) : String :=
  match p with
  | .done l i => s!"{urlName l} {i} wf=true"
  | .failed e => "err:" ++ e
  | .start _ => "loop"
  | .locked _ => "loop"

/-- one `Entry` call with nothing running concurrently: read (deterministic row) / write until it ends -/
def soloFrom (fuel : Nat) (w : EWorld) (tid : Nat) (env : Env := env) : EWorld :=
  match fuel with
  | 0 => w
  | fuel + 1 =>
    match w.threads[tid]? with
    | some th =>
      match th.phase with
      | .start pin => soloFrom fuel (eWrite env (eRead env w tid (detSel w.node th.issuer pin)) tid) tid env
      | .locked _ => soloFrom fuel (eWrite env w tid) tid env
      | _ => w
    | none => w

def entrySolo (now : Nat) (n : Node) (issuer purpose : String) (env : Env := env) : Node × String :=
  if purpose != "revocation" then (n, "err:purpose") else
  let w : EWorld := { node := n, threads := [{ issuer := issuer }], now := now }
  let w' := soloFrom 40 w 0 env
  (w'.node, match w'.threads[0]? with | some th => phaseLine th.phase | none => "?")

/-- `rebase` op: the node's base URL is `alt` for the duration of the op; `k` sequential `Entry` calls of `issuer`, then a
    `Revoke` of every entry handed out; the base URL is restored afterwards -/
def rebaseOp (now : Nat) (n : Node) (issuer alt : String) (k : Nat) (env : Env) : Node × String :=
  let n0 : Node := { n with base := alt }
  let (n1, lines, ents) := (List.range k).foldl (fun (acc : Node × List String × List (Url × Nat)) _ =>
      let w : EWorld := { node := acc.1, threads := [{ issuer := issuer }], now := now }
      let w' := soloFrom 40 w 0 env
      match w'.threads[0]? with
      | some th =>
        (w'.node, acc.2.1 ++ [phaseLine th.phase], match th.phase with | .done l i => acc.2.2 ++ [(l, i)] | _ => acc.2.2)
      | none => (w'.node, acc.2.1 ++ ["?"], acc.2.2)) (n0, [], [])
  let (n2, rs) := ents.foldl (fun (acc : Node × List String) (e : Url × Nat) =>
      match revoke env now acc.1 ("did:web:example.com#" ++ toString e.2) { list := e.1, idx := some (e.2 : Int) } with
      | .ok n' => (n', acc.2 ++ ["ok"])
      | .err "revoked" => (acc.1, acc.2 ++ ["revoked"])
      | .err x => (acc.1, acc.2 ++ ["err:" ++ x])
      | .panic x => (acc.1, acc.2 ++ ["panic:" ++ x])) (n1, [])
  ({ n2 with base := n.base }, s!"rebase entries=[{String.intercalate " ; " lines}] revokes=[{String.intercalate " " rs}]")

/-- one whole transaction of thread `tid` with nothing interleaved: select (deterministic row), then the write half -/
def oneTx (w : EWorld) (tid : Nat) : EWorld :=
  match w.threads[tid]? with
  | some th =>
    match th.phase with
    | .start pin => eWrite env (eRead env w tid (detSel w.node th.issuer pin)) tid
    | .locked _ => eWrite env w tid
    | _ => w
  | none => w

def finished (w : EWorld) (tid : Nat) : Bool :=
  match w.threads[tid]? with
  | some th => match th.phase with | .done _ _ => true | .failed _ => true | _ => false
  | none => true

/-- strict alternation of whole transactions (SQLite with one connection hands the connection to the waiting goroutine) -/
def alternate (fuel : Nat) (w : EWorld) (first second : Nat) : EWorld :=
  match fuel with
  | 0 => w
  | fuel + 1 =>
    if finished w first && finished w second then w
    else if finished w first then alternate fuel (oneTx w second) first second
    else alternate fuel (oneTx w first) second first

/-- the schedule the harness forces with its race injection (see the harness). The victim's first transaction ends in a
    duplicate key when it tries to create a page; a competing `Entry` of the same issuer is then waiting for the
    connection, and from there the two calls alternate transaction by transaction. If the victim's page does not exist
    yet, the duplicate key is the one the competitor's create causes: in the model the competitor's creating transaction
    is scheduled first and the victim's select returns the row (or none) from before it. -/
def entryRace (now : Nat) (n : Node) (issuer : String) : Node × String :=
  match env.keyOf issuer with
  | none => (n, "victim=err:key competitor=none")
  | some _ =>
    let sel0 := detSel n issuer none
    let creates := match sel0.bind n.page? with
      | some r => r.last + 1 > env.maxIndex
      | none => true
    if !creates then
      let (n', l) := entrySolo now n issuer "revocation"
      (n', s!"victim={l} competitor=none")
    else
      let w : EWorld := { node := n, threads := [{ issuer := issuer }, { issuer := issuer }], now := now }
      let v1 := eWrite env (eRead env w 0 sel0) 0
      let natural := match v1.threads[0]? with
        | some th => (match th.phase with | .start _ => true | _ => false)
        | none => false
      let wEnd :=
        if natural then alternate 40 v1 1 0
        else
          let c1 := oneTx w 1
          let v2 := eWrite env (eRead env c1 0 sel0) 0
          alternate 40 v2 1 0
      let line (t : Nat) := match wEnd.threads[t]? with | some th => phaseLine th.phase | none => "?"
      (wEnd.node, s!"victim={line 0} competitor={line 1}")

def hostFetch (j : Json) : Nat → Fetch :=
  let kind := jStr j "kind"
  let url := jStr j "url"
  let len := if jNat j "len" == 0 then env.lenBytes else jNat j "len"
  let bitsIdx := jNats j "bits"
  let signer := jStr j "signer"
  let expIn := jNat j "expin"
  fun now =>
    if kind == "fail" || kind == "garbage" then .fail else
    let bits := bitsIdx.foldl (fun (bs : Bits) (i : Nat) => match bs.setBit (i : Int) true with | .ok b => b | _ => bs) (newBits len)
    let subj : Subject :=
      { id := if kind == "wrongsubject" then parseUrl (jObj j "subject") else .raw url
        typeOk := kind != "subjtype"
        purpose := if kind == "suspension" then "suspension" else "revocation"
        enc := if kind == "emptylist" then .empty else if kind == "badlist" then .bad else .ok bits }
    let body : VCBody :=
      { issuer := signer, issued := some now, expires := if kind == "noexp" then none else some (now + expIn)
        nTypes := if kind == "types3" then 3 else 2, ctxSL := kind != "noctx", hasStatus := kind == "status"
        subjects := if kind == "twosubjects" then [subj, subj] else [subj] }
    let proof := if kind == "noproof" then none else if kind == "badsig" then some "bad" else some (sign (signer ++ "#k1") body)
    .vc { body := body, proof := proof }

def parseCred (j : Json) : Cred :=
  let sts := (jArr j "statuses").map fun s =>
    ({ type := jStr s "type", purpose := jStr s "purpose", list := parseUrl (jObj s "list"), idx := atoi (jStr s "idx") } : StatusEntry)
  { id := if jStr j "id" == "" then none else some (jStr j "id"), issuer := jStr j "issuer"
    statuses := if jBool j "nostatus" then none else some sts }

def verdictStr : Verdict → String
  | .ok => "ok"
  | .revoked => "revoked"
  | .err e => "err:" ++ e

def resErr {α} : Res α → String
  | .ok _ => "ok"
  | .err "revoked" => "revoked"
  | .err e => "err:" ++ e
  | .panic s => "panic:" ++ s

def insertStr (x : String) : List String → List String
  | [] => [x]
  | y :: ys => if x < y then x :: y :: ys else y :: insertStr x ys

def bitsOp (j : Json) : String :=
  let n := jNat j "len"
  let (bs, outs) := (jArr j "sets").foldl (fun (acc : Bits × String) s =>
      match acc.1.setBit (jInt s "i") (jBool s "v") with
      | .ok b => (b, acc.2 ++ ".")
      | .err _ => (acc.1, acc.2 ++ "e")
      | .panic _ => (acc.1, acc.2 ++ "P")) (newBits n, "")
  let gets := (jArr j "gets").foldl (fun (acc : String) g =>
      match g.getInt? with
      | .ok i =>
        match bs.bit i with
        | .ok true => acc ++ "1"
        | .ok false => acc ++ "0"
        | .err _ => acc ++ "e"
        | .panic _ => acc ++ "P"
      | _ => acc ++ "?") ""
  s!"bits set={outs} get={gets} all={bitsStr bs.setBits} rt=ok"

def vKids : List String :=
  ["did:nuts:AAAAAAAAAAAAAAAAAAAAAAAAAAAAAAAAAAAAAAAAAAAA#k1", "did:nuts:BBBBBBBBBBBBBBBBBBBBBBBBBBBBBBBBBBBBBBBBBBBB#k1",
   "did:nuts:CCCCCCCCCCCCCCCCCCCCCCCCCCCCCCCCCCCCCCCCCCCC#k1", "did:web:example.com:iam:alice#k1",
   "did:nuts:AAAAAAAAAAAAAAAAAAAAAAAAAAAAAAAAAAAAAAAAAAA#k1", "did:nuts:BBBBBBBBBBBBBBBBBBBBBBBBBBBBBBBBBBBBBBBBBBB#k1",
   "did:web:example.com#k1", "did:web:example.co#k1"]
def vIssuer : String := "did:nuts:CCCCCCCCCCCCCCCCCCCCCCCCCCCCCCCCCCCCCCCCCCCC"

/-- key resolution and signature verdicts of the verifier harness as data: the three known key ids resolve (to themselves);
    a proof verifies iff the document was not changed after signing and the key that signed is the resolved one -/
def keyEnv : KeyEnv :=
  { resolveKey := fun vm _ => if vKids.contains vm then some vm else none
    sigOK := fun pk _ sig => sig == "sig:" ++ pk }

def emptyWorld : World := { a := { base := bases[0]! }, b := { base := bases[1]! } }

def step (w : World) (j : Json) : World × List String :=
  let node := jNat j "node" == 1
  let n := w.get node
  -- the harness makes `Sign` fail during this operation
  let env : Env := if jBool j "signfail" then { env with signFails := true } else env
  -- … and these nodes' status list endpoints unreachable
  let downBases := (jNats j "down").filterMap (fun i => bases[i]?)
  let env : Env := if downBases.isEmpty then env else { env with down := fun b => downBases.contains b }
  match jStr j "op" with
  | "reset" =>
    let dids := (jStrs j "dids").filter (fun d => !hasSub d "unknown")
    ({ a := { base := bases[0]!, dids := dids }, b := { base := bases[1]!, dids := dids } }, ["reset"])
  | "entry" =>
    let (n', l) := entrySolo w.now n (jStr j "issuer") (jStr j "purpose") env
    (w.set node n', ["entry " ++ l])
  | "race" =>
    let (n', l) := entryRace w.now n (jStr j "issuer")
    (w.set node n', ["race " ++ l])
  | "par" =>
    let (n', ls) := (jStrs j "issuers").foldl (fun (acc : Node × List String) is =>
        let (n2, l) := entrySolo w.now acc.1 is "revocation"
        (n2, insertStr l acc.2)) (n, [])
    (w.set node n', ["par " ++ String.intercalate " ; " ls])
  | "mix" =>
    -- the harness runs these concurrently; any serial order gives the same sorted answers (see the harness)
    let revs := (jArr j "revokes").map fun s => (parseUrl (jObj s "list"), jStr s "idx")
    let lists := (revs.map (·.1)).eraseDups
    let serveBits (n : Node) (u : Url) : Node × String :=
      match u with
      | .sl _ issuer page =>
        match credential env w.now n issuer page with
        | .ok (vc, n') =>
          (n', match vc.body.subjects with
               | [s] => (match s.enc with | .ok bits => bitsStr bits.setBits | _ => "malformed")
               | _ => "malformed")
        | _ => (n, "none")
      | .raw _ => (n, "none")
    let n0 := lists.foldl (fun (acc : Node) u => (serveBits acc u).1) n
    let (n1, es) := (jStrs j "issuers").foldl (fun (acc : Node × List String) is =>
        let (n2, l) := entrySolo w.now acc.1 is "revocation"
        (n2, insertStr l acc.2)) (n0, [])
    let (n2, rs) := revs.foldl (fun (acc : Node × List String) (r : Url × String) =>
        let e : StatusEntry := { list := r.1, idx := atoi r.2 }
        match revoke env w.now acc.1 ("did:web:example.com#" ++ r.2) e with
        | .ok n' => (n', insertStr s!"{urlName r.1}#{r.2}:ok" acc.2)
        | res => (acc.1, insertStr s!"{urlName r.1}#{r.2}:{resErr res}" acc.2)) (n1, [])
    let (n3, afters) := ((lists.map fun u => (urlName u, u)).foldl (fun (acc : List (String × Url)) x =>
          let rec ins : List (String × Url) → List (String × Url)
            | [] => [x]
            | y :: ys => if x.1 < y.1 then x :: y :: ys else y :: ins ys
          ins acc) []).foldl (fun (acc : Node × List String) (x : String × Url) =>
        let (n', b) := serveBits acc.1 x.2
        (n', acc.2 ++ [s!"{x.1}={b}"])) (n2, [])
    (w.set node n3, [s!"mix entries=[{String.intercalate " ; " es}] revokes=[{String.intercalate " " rs}] after=[{String.intercalate " " afters}] mid=ok"])
  | "bump" =>
    let u := parseUrl (jObj j "list")
    let to := jNat j "to"
    match n.page? u with
    | some r =>
      if r.last ≤ to then
        (w.set node { n with pages := n.pages.map (fun x => if x.id == u then { x with last := to } else x) }, ["bump 1"])
      else (w, ["bump 0"])
    | none => (w, ["bump 0"])
  | "revoke" =>
    let e : StatusEntry := { purpose := jStr j "purpose", list := parseUrl (jObj j "list"), idx := atoi (jStr j "idx") }
    match revoke env w.now n ("did:web:example.com#" ++ jStr j "idx") e with
    | .ok n' => (w.set node n', ["revoke ok"])
    | r => (w, ["revoke " ++ resErr r])
  | "serve" =>
    match credential env w.now n (jStr j "issuer") (jNat j "page") with
    | .ok (vc, n') => (w.set node n', ["serve " ++ describeVC w.now vc])
    | r => (w, ["serve " ++ resErr r])
  | "serverace" =>
    -- the harness lets a Revoke() commit inside Credential(), after its reads and before its transaction. That point is
    -- only reached when Credential() re-issues; an equivalent serial order is: the Revoke transaction, then Credential.
    let issuer := jStr j "issuer"
    let page := jNat j "page"
    let u := n.url issuer page
    let reissue := n.isManaged u && (match n.cred? u with
      | some r => (match r.expires with | some e => !(w.now + env.minLeft < e) | none => true)
      | none => true)
    let (n1, rv) :=
      if reissue then
        match revoke env w.now n ("did:web:example.com#" ++ jStr j "idx") { list := u, idx := atoi (jStr j "idx") } with
        | .ok n' => (n', "ok")
        | res => (n, resErr res)
      else (n, "none")
    match credential env w.now n1 issuer page with
    | .ok (vc, n') => (w.set node n', [s!"serverace revoke={rv} " ++ describeVC w.now vc])
    | r => (w.set node n1, [s!"serverace revoke={rv} " ++ resErr r])
  | "record" =>
    match n.cred? (parseUrl (jObj j "list")) with
    | none => (w, ["record none"])
    | some r =>
      let ttl := match r.expires with
        | some e => toString (minutes ((e : Int) - w.now))
        | none => "none"
      (w, [s!"record purpose={r.purpose} bits={bitsStr r.bits.setBits} age={minutes ((w.now : Int) - r.createdAt)} ttl={ttl}"])
  | "tick" => ({ w with now := w.now + jNat j "secs" }, ["tick"])
  | "host" =>
    let h := jObj j "host"
    ({ w with hosts := alPut w.hosts (jStr h "url") (hostFetch h) }, ["host"])
  | "verify" =>
    let c := parseCred (jObj j "cred")
    let (v, w') := statusVerify env node { w with log := [] } c
    (w', [s!"verify {verdictStr v} dl=[{String.intercalate "," (w'.log.map urlName)}]"])
  | "rebase" =>
    let (n', l) := rebaseOp w.now n (jStr j "issuer") (jStr j "raw") (jNat j "to") env
    (w.set node n', [l])
  | "bits" => (w, [bitsOp j])
  | "wire" => (w, [wireOp j])
  | "url" => (w, ["url " ++ Wire.renderSl (jStr j "raw") (jStr j "issuer") (jNat j "page")])
  -- second harness (vcr/verifier): node 1 is the verifier
  | "vreset" => ({ a := { base := bases[0]! }, b := { base := "https://verifier.example" } }, ["vreset"])
  | "vregister" =>
    let tamper := jStr j "tamper"
    let drop := jStr j "drop"
    let r : Revocation :=
      { subject := if tamper == "subject" then jStr j "subject" ++ "x" else jStr j "subject"
        issuer := jStr j "issuer"
        typeOk := drop != "type"
        date := if drop == "date" then none else some 1
        proof := if drop == "proof" then none else some { vm := jStr j "vm", -- `reason` is not defined in the JSON-LD context of CredentialRevocation, so it is not part of the canonical form
                                                                  -- that is signed: changing it does not invalidate the proof (observed on the implementation)
                                                                  sig := if tamper != "" && tamper != "reason" then "bad" else "sig:" ++ jStr j "signer" } }
    match registerRevocation keyEnv w.b r with
    | .ok n' => ({ w with b := n' }, ["vregister ok"])
    | res => (w, ["vregister " ++ resErr res])
  | "visrevoked" => (w, [s!"visrevoked {w.b.isRevoked (jStr j "id")}"])
  | "vverify" =>
    -- the credential's status entries as wire strings (what the harness puts into the JSON), `mal` = how one is malformed
    let wires : List Wire.JEntry := (jArr j "statuses").zipIdx.map fun (s, k) =>
      let mal := jStr s "mal"
      let url := if mal == "badurl" then "lists.example/not-a-request-uri" else jStr s "url"
      { id := if mal == "noid" then "" else if mal == "idislist" then url else s!"{url}#{jStr s "idx"}-{k}"
        type := if mal == "notype" then "" else if mal == "othertype" then "OtherStatus" else "StatusList2021Entry"
        purpose := if mal == "nopurpose" then .str "" else if mal == "suspension" then .str "suspension"
                   else if mal == "numpurpose" then .other else .str "revocation"
        -- numidx / boolidx / objidx: the JSON member is the number (bool, object) instead of a string; nullidx: JSON null
        index := if mal == "numidx" || mal == "boolidx" || mal == "objidx" then .other else if mal == "nullidx" then .null
                 else .str (jStr s "idx")
        list := .str url }
    let cid := if jStr j "id" == "" then none else some (jStr j "id")
    -- validAt = now + `at` minutes (absent: nil); the harness credential is issued one hour ago and never expires
    let atMin := jInt j "at"
    let (v, w') := Wire.verifyWireJ env true w cid (jStr j "issuer") (!jBool j "noslctx") (fun u => u.startsWith "https://") Url.raw
      (if wires.isEmpty then none else some wires) (jStr j "kind" == "nutsorg") (jBool j "storefault")
      (if atMin == 0 then none else some atMin) 0 (fun t => decide (-60 ≤ t))
    (w', ["vverify " ++ verdictStr v])
  -- third harness (vcr, ambassador): a revocation event delivered by the network, with injected store faults
  | "areset" => ({ a := { base := bases[0]! }, b := { base := "https://verifier.example" } }, ["areset"])
  | "adeliver" =>
    let issuer := jStr j "issuer"
    let r : Revocation := { subject := jStr j "subject", issuer := issuer, date := some 1
                            proof := some { vm := issuer ++ "#k1", sig := "sig:" ++ issuer ++ "#k1" } }
    let fault : StoreFault := match jStr j "fault" with
      | "" => .none
      | "other" => .other
      | _ => .transient (jNat j "wraps" + 1)      -- RegisterRevocation wraps once more
    let (o, n') := handleRevocationEvent keyEnv w.b r fault
    ({ w with b := n' }, ["adeliver " ++ (match o with | .done => "done" | .retry => "retry" | .fatal => "fatal")])
  | "areprocess" =>
    let issuer := jStr j "issuer"
    let r : Revocation := { subject := jStr j "subject", issuer := issuer, date := some 1
                            proof := some { vm := issuer ++ "#k1", sig := "sig:" ++ issuer ++ "#k1" } }
    let fault : StoreFault := match jStr j "fault" with
      | "" => .none
      | "other" => .other
      | _ => .transient (jNat j "wraps" + 1)
    let route := callbackRoute Nuts.Facts.C11.const_VcDocumentType Nuts.Facts.C11.const_RevocationLDDocumentType (jStr j "ct")
    let (failed, n') := reprocess keyEnv w.b r fault route (!jBool j "nopayload")
    ({ w with b := n' }, [s!"areprocess failed={failed}"])
  -- the ambassador's wiring (Configure): only payload events of revocation transactions reach RegisterRevocation
  | "awire" => (w, ["awire vcr_revocations:[rev=stored vc=- txevent=-] vcr_vcs:[rev=- vc=- txevent=-]"])
  | "averify" =>
    let id := jStr j "id"
    let c : Cred := { id := some id, issuer := prefixOf id, statuses := none }
    let (v, w') := verifyFull env true w c false
    (w', ["averify " ++ verdictStr v])
  | "vvp" =>
    -- a presentation signed by `presenter` (proof created at virtual minute -50) with NutsOrganizationCredentials issued, and
    -- signed where they carry a proof, at minute -60; signature verdicts = signer is the named key and the proof time fits
    let holder := if jStr j "holder" == "" then none else some (jStr j "holder")
    let atMin := jInt j "at"
    let creds : List VPCred := (jArr j "creds").map fun c =>
      let pr := jStr c "proof"
      { doc := { cred := { id := some (jStr c "id"), issuer := jStr c "issuer", statuses := none }, nutsType := true, trusted := false
                 period := fun t => decide (-60 ≤ t) }
        subject := jStr c "subject", hasProof := pr != "", sigOk := pr == "good" && decide (-60 ≤ atMin) }
    let (v, w') := doVerifyVP env true w (jStr j "presenter") holder (jStr j "vpsig" != "bad" && decide (-50 ≤ atMin))
      (!jBool j "noverifyvcs") true (if atMin == 0 then none else some atMin) 0 creds
    let line := match v with
      | .ok => s!"ok n={creds.length}"
      | .revoked => "revoked"
      | .err e => "err:" ++ e
    (w', ["vvp " ++ line])
  | "vhost" =>
    let url := jStr j "url"
    let kind := jStr j "hostkind"
    let bitsIdx := jNats j "bits"
    let f : Nat → Fetch := fun now =>
      if kind == "fail" then .fail else
      let bits := bitsIdx.foldl (fun (bs : Bits) (i : Nat) => match bs.setBit (i : Int) true with | .ok b => b | _ => bs) (newBits env.lenBytes)
      let body : VCBody := { issuer := vIssuer, issued := some now, expires := some (now + 3600)
                             subjects := [{ id := .raw url, purpose := "revocation", enc := .ok bits }] }
      .vc { body := body, proof := if kind == "ok" then some (sign (vIssuer ++ "#k1") body) else some "bad" }
    ({ w with hosts := alPut w.hosts url f }, ["vhost"])
  | o => (w, ["bad-op:" ++ o])

/-- driver state: the world plus, for the issuer harness, the credentials issued in this scenario and which of them the
    issuer's own store already holds a network revocation for -/
structure St where
  w : World := emptyWorld
  issued : Array (String × String × Option (List StatusEntry)) := #[]   -- (id, issuer, status entry)
  netRevoked : List Nat := []
  acreds : List (String × String × Bool) := []     -- a harness: the node's credential store (id, issuer, expires in one hour)
  atrusted : List String := []                      -- a harness: issuers the operator trusts for TestCredential

def iDids : List String :=
  ["did:nuts:AAAAAAAAAAAAAAAAAAAAAAAAAAAAAAAAAAAAAAAAAAAA", "did:nuts:BBBBBBBBBBBBBBBBBBBBBBBBBBBBBBBBBBBBBBBBBBBB",
   "did:web:example.com:iam:alice", "did:web:example.com:iam:bob"]

def keyEnvI : KeyEnv :=
  { resolveKey := fun vm _ => if (iDids.map (· ++ "#k1")).contains vm then some vm else none
    sigOK := fun pk _ sig => sig == "sig:" ++ pk }

/-- the a harness's credential store as `Stored` documents: TestCredential issued one hour ago (virtual minute -60), optionally
    expiring in one hour; trust as configured at the moment of the call -/
def aStore (creds : List (String × String × Bool)) (trusted : List String) : List Stored :=
  creds.map fun (id, issuer, exp) =>
    { cred := { id := some id, issuer := issuer, statuses := none }, nutsType := false, trusted := trusted.contains issuer
      period := fun t => decide (-60 ≤ t) && (!exp || decide (t ≤ 60)) }

/-- fourth harness (vcr/issuer): issuer and verifier of one node (node 0) -/
def stepSt (st : St) (j : Json) : St × List String :=
  match jStr j "op" with
  | "areset" =>
    let (w', ls) := step st.w j
    ({ st with w := w', acreds := [], atrusted := [] }, ls)
  | "astore" =>
    let id := jStr j "id"
    if st.acreds.any (fun c => c.1 == id) then (st, ["astore exists"]) else
    let issuer := if jStr j "issuer" == "" then prefixOf id else jStr j "issuer"
    ({ st with acreds := st.acreds ++ [(id, issuer, jBool j "exp")] }, ["astore ok"])
  | "atrust" => ({ st with atrusted := jStr j "issuer" :: st.atrusted }, ["atrust ok"])
  | "aresolve" =>
    let atMin := jInt j "at"
    let (o, w') := resolve env true st.w (aStore st.acreds st.atrusted) (jStr j "id") false (if atMin == 0 then none else some atMin) 0
    let line := match o with
      | .notFound => "cred=false notfound"
      | .cred => "cred=true ok"
      | .credAnd e => s!"cred=true {e}"
      | .err e => "cred=false " ++ (if e == "status list: revoked" then "revoked" else "err:" ++ e)
    ({ st with w := w' }, ["aresolve " ++ line])
  | "asearch" =>
    let atMin := jInt j "at"
    let docs := (aStore st.acreds st.atrusted).filter (fun s => hasSub s.cred.issuer "did:nuts:")
    let (res, w') := search env true st.w docs (jBool j "untrusted") false (if atMin == 0 then none else some atMin) 0
    let ids := (res.map (fun s => s.cred.id.getD "")).mergeSort (fun a b => !(b < a))
    ({ st with w := w' }, ["asearch [" ++ String.intercalate " " ids ++ "]"])
  | "ireset" => ({ w := { a := { base := "https://node.example", dids := iDids }, b := { base := bases[1]! } } }, ["ireset"])
  | "iissue" =>
    let issuer := jStr j "issuer"
    let k := st.issued.size
    let id := s!"{issuer}#{k}"
    if jBool j "statuslist" then
      let ew : EWorld := { node := st.w.a, threads := [{ issuer := issuer }], now := st.w.now }
      let ew' := soloFrom 40 ew 0
      match (ew'.threads[0]?.map (·.phase) : Option EPhase) with
      | some (EPhase.done l i) =>
        let page := match l with | .sl _ _ p => p | .raw _ => 0
        ({ st with w := { st.w with a := ew'.node }, issued := st.issued.push (id, issuer, some [{ list := l, idx := some (i : Int) }]) },
         [s!"iissue ok k={k} idprefix=true status=StatusList2021Entry/revocation#{issuer}/{page}#{i}"])
      | _ => (st, ["iissue err"])
    else
      ({ st with issued := st.issued.push (id, issuer, none) }, [s!"iissue ok k={k} idprefix=true status=none"])
  | "iplant" =>
    -- two sequential Entry calls of the issuer; the stored credential carries both entries, the first one changed by `shape`
    let issuer := jStr j "issuer"
    let shape := jStr j "shape"
    let k := st.issued.size
    let id := s!"{issuer}#{k}"
    let (n1, es) := (List.range 2).foldl (fun (acc : Node × List StatusEntry) _ =>
        let ew : EWorld := { node := acc.1, threads := [{ issuer := issuer }], now := st.w.now }
        let ew' := soloFrom 40 ew 0
        match (ew'.threads[0]?.map (·.phase) : Option EPhase) with
        | some (EPhase.done l i) => (ew'.node, acc.2 ++ [{ list := l, idx := some (i : Int) }])
        | _ => (ew'.node, acc.2)) (st.w.a, [])
    match es with
    | [e1, e2] =>
      let sts : List StatusEntry :=
        if shape == "susp-first" then [{ e1 with purpose := "suspension" }, e2]
        else if shape == "other-first" then [{ e1 with type := "OtherStatus" }, e2]
        else if shape == "susp-only" then [{ e1 with purpose := "suspension" }]
        else if shape == "other-only" then [{ e1 with type := "OtherStatus" }]
        else [e1, e2]
      let show1 (e : StatusEntry) : String :=
        let page := match e.list with | .sl _ _ p => p | .raw _ => 0
        s!"{e.type}/{e.purpose}#{issuer}/{page}#{match e.idx with | some i => toString i | none => "?"}"
      ({ st with w := { st.w with a := n1 }, issued := st.issued.push (id, issuer, some sts) },
       [s!"iplant ok k={k} status={String.intercalate "," (sts.map show1)}"])
    | _ => ({ st with w := { st.w with a := n1 } }, ["iplant err"])
  | "irevoke" =>
    let k := jNat j "k"
    match st.issued[k]? with
    | none => (st, ["irevoke none"])
    | some (id, issuer, status) =>
      let c : Cred := { id := some id, issuer := issuer, statuses := status }
      let kid := issuer ++ "#k1"
      match issuerRevokeRoute (hasSub issuer "did:nuts:") (st.netRevoked.contains k) c id kid ("sig:" ++ kid) 1 with
      | .alreadyRevoked => (st, ["irevoke revoked"])
      | .network r =>
        let st1 := { st with netRevoked := k :: st.netRevoked }
        let line := s!"irevoke ok net subject={r.subject == id} issuer={r.issuer == issuer} published=1"
        if jBool j "deliver" then
          match registerRevocation keyEnvI st1.w.a r with
          | .ok n' => ({ st1 with w := { st1.w with a := n' } }, [line ++ " register=ok"])
          | res => (st1, [line ++ " register=" ++ resErr res])
        else (st1, [line])
      | .statusList e =>
        match revoke env st.w.now st.w.a id e with
        | .ok n' => ({ st with w := { st.w with a := n' } }, ["irevoke ok statuslist"])
        | res => (st, ["irevoke " ++ resErr res])
      | .statusNotFound => (st, ["irevoke err:status-not-found"])
  | "iverify" =>
    match st.issued[jNat j "k"]? with
    | none => (st, ["iverify none"])
    | some (id, issuer, status) =>
      let c : Cred := { id := some id, issuer := issuer, statuses := status }
      let (v, w') := verifyFull env false st.w c false
      ({ st with w := w' }, ["iverify " ++ verdictStr v])
  | _ =>
    let (w', ls) := step st.w j
    ({ st with w := w' }, ls)

end Nuts.Drv.C11

def main : IO Unit := do
  Nuts.Drv.loop (← IO.getStdin) (← IO.getStdout) Nuts.Drv.C11.stepSt ({} : Nuts.Drv.C11.St)
