import Driver.Util
import NutsModel.C16.Discovery
import NutsModel.C16.Node
import NutsModel.C16.Client
import NutsModel.Facts.C16
open Lean Nuts.Drv Nuts.C16 Nuts

namespace Nuts.Drv.C16

def optStr (j : Json) (k : String) : Option String :=
  match j.getObjVal? k with
  | .ok (.str s) => some s
  | _ => none

def optNat (j : Json) (k : String) : Option Nat :=
  match j.getObjVal? k with
  | .ok v => v.getNat?.toOption
  | _ => none

def parseVP (j : Json) : VP :=
  let signer := match jStrs j "signer" with
    | [d, m] => some (d, m)
    | _ => none
  let ids := (jArr j "credIds").map (fun b => b.getBool?.toOption.getD true)
  let creds := ((jArr j "creds").zipIdx).map (fun (c, i) => ({ exp := c.getNat?.toOption, hasId := ids.getD i true } : Cred))
  let pexI := jInt j "pex"
  { jwt := jBool j "jwt", id := optStr j "id", aud := jStrs j "aud", exp := optNat j "exp", signer := signer,
    retraction := jBool j "retraction", creds := creds,
    pex := if pexI < 0 then .err else .matched pexI.toNat,
    retractJti := optStr j "retractJti", verifyS := jBool j "verifyS", verifyC := jBool j "verifyC" }

/-- the model instantiated with what the source says today -/
def cfg : Cfg := { serviceFirst := Nuts.Facts.C16.getServiceFirst, restartOnWipe := Nuts.Facts.C16.restartAfterWipe }

structure St where
  w : World := {}
  d : Def := { id := "", maxValidity := 0, didMethods := [] }
  t0 : Nat := 0
  seeds : Array Nat := #[]
  -- node leg (NutsModel/C16/Node.lean)
  nw : NWorld := {}
  nids : List String := []
  nt0 : Nat := 0
  -- round 3: the client node mirroring every list of the configuration (NutsModel/C16/Client.lean)
  cn : Node := {}
  cctr : Nat := 0

def nameSeed (st : St) (s : Nat) : St × String :=
  if s = 0 then (st, "-") else
  match st.seeds.findIdx? (· == s) with
  | some i => (st, s!"S{i+1}")
  | none => ({ st with seeds := st.seeds.push s }, s!"S{st.seeds.size+1}")

def rel (t0 e : Nat) : Int := (e : Int) - (t0 : Int)

def showRow (s : Store) (t0 : Nat) (withTs : Bool) (r : Row) : String :=
  (if withTs then s!"{r.ts}:" else "") ++ s!"{r.subject}:{r.id}:{rel t0 r.exp}:" ++ (if r.vp.retraction then "R" else "P") ++ (if s.isValidated r then ":v" else ":u")

def rowLt (a b : Row) : Bool := a.subject < b.subject || (a.subject == b.subject && a.id < b.id)

def observe (st : St) (cls : String) : St × String :=
  let w := st.w
  let (st, sS) := nameSeed st w.S.seed
  let (st, sC) := nameSeed st w.C.seed
  let srows := (w.S.rows.toArray.qsort (fun a b => a.ts < b.ts || (a.ts == b.ts && rowLt a b))).toList
  let crows := (w.C.rows.toArray.qsort rowLt).toList
  let q := ((w.C.search w.t).toArray.qsort rowLt).toList
  (st, s!"{cls} | S seed={sS} ts={w.S.lastTs} [{String.intercalate " " (srows.map (showRow w.S st.t0 true))}] | C seed={sC} ts={w.C.lastTs} [{String.intercalate " " (crows.map (showRow w.C st.t0 false))}] | Q [{String.intercalate " " (q.map fun r => r.subject ++ ":" ++ r.id)}]")

def tickTo (st : St) (now : Nat) : St :=
  if now > st.w.t then { st with w := { st.w with t := now } } else st

def apply (st : St) (e : Ev) : St × String :=
  let (w', r) := step cfg st.d st.w e
  observe { st with w := w' } r.cls

/-- the Go map iteration order observed on the implementation: the presentations it stored, in that order; the ones it
    skipped are no-ops wherever they come and are put first -/
def vpKey (vp : VP) : String :=
  (match vp.signer with | some (s, _) => s | none => "") ++ "|" ++ (match vp.id with | some i => i | none => "")

def permOf (order : List String) (l : List VP) : List VP :=
  (l.filter (fun vp => !(order.contains (vpKey vp)))) ++ order.filterMap (fun k => l.find? (fun vp => vpKey vp == k))

/-! node leg -/

def sortStrs (l : List String) : List String := (l.toArray.qsort (· < ·)).toList

def parseService (j : Json) : Service :=
  { d := { id := jStr j "id", maxValidity := jNat j "maxValidity", didMethods := jStrs j "didMethods" },
    endpoint := jStr j "endpoint", endpointHost := optStr j "endpointHost" }

def parseEntry (j : Json) : DirEntry :=
  { name := jStr j "name", isDir := jBool j "isDir", readOk := jBool j "readOk",
    parsed := match j.getObjVal? "parsed" with
      | .ok (.obj o) => some (parseService (.obj o))
      | _ => none }

def parseCredIx (j : Json) : CredIx :=
  { id := jStr j "id", issuer := jStr j "issuer", type := optStr j "type", subjectId := jStr j "subjectId",
    props := (jArr j "props").map fun p => (jStr p "p", jStr p "v") }

def parseFwd (j : Json) : Fwd := { header := optStr j "header", headerHost := optStr j "host" }

def kindStr : Option ErrKind → String
  | none => "---"
  | some k => (if k.invalid then "i" else "-") ++ (if k.didMethods then "d" else "-") ++ (if k.notFound then "n" else "-")

def ntick (st : St) (j : Json) : St :=
  if jHas j "now" && jNat j "now" > st.nw.t then { st with nw := { st.nw with t := jNat j "now" } } else st

def nlists (st : St) : String :=
  String.join (st.nids.map fun id =>
    let s := st.nw.n.stores id
    let rows := (s.rows.toArray.qsort (fun a b => a.ts < b.ts)).toList
    s!" | {id} seed={if s.seed = 0 then "-" else "+"} ts={s.lastTs} [{String.intercalate " " (rows.map (showRow s st.nt0 true))}]")

def step' (st : St) (j : Json) : St × List String :=
  let st := if jHas j "now" then tickTo st (jNat j "now") else st
  match jStr j "op" with
  | "init" =>
    let dj := jObj j "def"
    let st : St := { d := { id := jStr dj "id", maxValidity := jNat dj "maxValidity", didMethods := jStrs dj "didMethods" },
                     t0 := jNat j "t0", w := { t := jNat j "t0" } }
    (st, ["init"])
  | "register" => let (s, l) := apply st (.register (parseVP (jObj j "vp"))); (s, [l])
  | "reset" => let (s, l) := apply st .reset; (s, [l])
  | "pollA" => let (s, l) := apply st .pollA; (s, [l])
  | "pollB" => let (s, l) := apply st (.pollB (permOf (jStrs j "order"))); (s, [l])
  | "poll" =>
    let (w1, _) := step cfg st.d st.w .pollA
    let (s, l) := apply { st with w := w1 } (.pollB (permOf (jStrs j "order"))); (s, [l])
  | "validate" => let (s, l) := apply st .validate; (s, [l])
  -- operations on ANOTHER list of the same nodes: for this list only the cross-service prune of `sqlStore.add` shows
  | "noise" =>
    let st := if jNat j "added" > 0 then { st with w := { st.w with S := st.w.S.prune st.w.t } } else st
    let (s, l) := observe st "ok"; (s, [l])
  | "cnoise" =>
    let st := if jNat j "added" > 0 then { st with w := { st.w with C := st.w.C.prune st.w.t } } else st
    let (s, l) := observe st "ok"; (s, [l])
  -- `clientUpdater.update`: this list is polled as usual; the unreachable third service only shows in the joined error
  | "pollall" =>
    let st := if jNat j "added" > 0 then { st with w := { st.w with C := st.w.C.prune st.w.t } } else st
    let (w1, _) := step cfg st.d st.w .pollA
    let (w2, r) := step cfg st.d w1 (.pollB (permOf (jStrs j "order")))
    let (s, l) := observe { st with w := w2 } (if r.isOk then "err:other-service-down" else r.cls); (s, [l])
  -- `removeRevoked`: nothing is revoked; verification failures are not revocations
  -- a quiescent poll whose response holds one extra presentation (stored last: everything the server really lists is held already)
  | "pollinject" =>
    let w := st.w
    let resp := (w.S.rowsAfter w.C.lastTs).map (·.vp) ++ [parseVP (jObj j "vp")]
    let (c', ctr', r) := clientApply cfg st.d w.C w.t w.ctr w.S.seed w.S.lastTs resp
    let (s, l) := observe { st with w := { w with C := c', ctr := ctr', pending := none } } r.cls; (s, [l])
  | "restartS" => let (s, l) := apply st .restartServer; (s, [l])
  | "restartC" => let (s, l) := apply st .restartClient; (s, [l])
  | "dstart" => let (s, l) := apply st .dpollStart; (s, [l])
  | "dfinish" => let (s, l) := apply st (.dpollFinish (jNat j "k") (permOf (jStrs j "order"))); (s, [l])
  | "purge" => let (s, l) := observe st "ok"; (s, [l])
  | "verifier" => let (s, l) := apply st (.clientVerifier (jBool j "up")); (s, [l])
  | "observe" => let (s, l) := observe st "ok"; (s, [l])
  | "sleep" => let (s, l) := observe st "ok"; (s, [l])
  | "get" =>
    let after := jNat j "after"
    let (st, sS) := nameSeed st st.w.S.seed
    let rows := ((st.w.S.rowsAfter after).toArray.qsort (fun a b => a.ts < b.ts)).toList
    (st, [s!"get after={after} seed={sS} ts={st.w.S.lastTs} [{String.intercalate " " (rows.map fun r => s!"{r.ts}:{r.id}")}]"])
  | "nconf" =>
    let entries := (jArr j "entries").map parseEntry
    let stat := match jStr j "stat" with
      | "present" => DirStat.present
      | "absent" => DirStat.absent
      | _ => DirStat.otherError
    let r := configure (fun n => n.endsWith Nuts.Facts.C16.definitionSuffix) Nuts.Facts.C16.defaultDefinitionsDir
      { dir := jStr j "dir", serverIds := jStrs j "serverIds" } stat (jBool j "readDirOk") entries
    match r with
    | .ok defs =>
      let all := sortStrs (defs.all.map fun (k, s) => s!"{k}={s.d.id}:{s.d.maxValidity}:{if s.d.didMethods.isEmpty then "-" else String.intercalate "," s.d.didMethods}")
      let srv := sortStrs (defs.server.map fun (k, s) => s!"{k}={s.d.id}")
      let t0 := jNat j "t0"
      ({ st with nw := { n := { defs := defs }, t := t0 }, nids := sortStrs (defs.all.map (·.1)), nt0 := t0,
                 cn := { defs := { all := defs.all, server := [] } }, cctr := 0 },
       [s!"nconf ok all=[{String.intercalate " " all}] server=[{String.intercalate " " srv}]"])
    | o => ({ st with nw := {}, nids := [] }, ["nconf " ++ o.cls])
  | "nregister" =>
    let st := ntick st j
    let (w', o) := nstep st.nw (.register (jStr j "sid") (parseFwd (jObj j "fwd")) (parseVP (jObj j "vp")))
    let st := { st with nw := w' }
    let out := match o with
      | .done r => r.cls
      | .forwarded ep => "fwd:register " ++ ep
      | .notFound => "not-found"
      | .cycle => "cycle"
      | .inconsistent => "inconsistent"
    (st, [s!"nreg {out} k={kindStr (o.kind Nuts.Facts.C16.verifyReturns Nuts.Facts.C16.registerExistsJoined)}{nlists st}"])
  | "nsearchq" =>
    let st := ntick st j
    let index := (jArr j "index").map fun e => (jStr e "pid", (jArr e "creds").map parseCredIx)
    let ix : Row → List CredIx := fun r => match index.find? (fun p => p.1 == r.id) with
      | some p => p.2
      | none => []
    let q := (jArr j "query").map fun t => (jStr t "k", jStr t "v")
    let line := match st.nw.n.searchQ (jStr j "sid") st.nw.t ix Nuts.Facts.C16.queryColumns (jBool j "ci") q with
      | none => "not-found"
      | some rows => "[" ++ String.intercalate " " (sortStrs (rows.map (·.id))) ++ "]"
    (st, ["nsearchq " ++ line])
  -- `clientUpdater.update` of the second node: every list of the configuration, answered by the first node's `Get` where it
  -- serves the list (no forwarding header) and failing otherwise
  | "nupdate" =>
    let st := ntick st j
    let srv := st.nw.n
    let ans : String → Nat → Answer := fun sid after =>
      if (srv.defs.server.get sid).isSome then
        match srv.get sid { header := none, headerHost := none } (after : Int) with
        | .rows rows seed ts => .resp (rows.map (·.vp)) seed ts
        | _ => .fail
      else .fail
    let ((cn', ctr'), failed) := st.cn.updateAllServices cfg st.nw.t st.cctr st.nids ans
    let st := { st with cn := cn', cctr := ctr' }
    let lists := String.join (st.nids.map fun id =>
      let s := st.cn.stores id
      s!" | {id} seed={if s.seed = 0 then "-" else "+"} ts={s.lastTs} [{String.intercalate " " (sortStrs (s.rows.map (showRow s st.nt0 true)))}]")
    (st, [s!"nupdate ok failed=[{String.intercalate "," (sortStrs failed)}]{lists}"])
  | "nrestart" =>
    let st := ntick st j
    let (w', _) := nstep st.nw .restart
    let st := { st with nw := w' }
    (st, [s!"nrestart ok{nlists st}"])
  | "nget" =>
    let st := ntick st j
    let ts : Option Int := match (j.getObjVal? "ts") with
      | .ok v => v.getInt?.toOption
      | _ => none
    let line := match apiGet st.nw.n (jStr j "sid") (parseFwd (jObj j "fwd")) ts with
      | .rows rows seed last => s!"rows seed={if seed = 0 then "-" else "+"} ts={last} [{String.intercalate " " (rows.map fun r => s!"{r.ts}:{r.id}")}] k=---"
      | .forwarded ep a => s!"fwd:get {ep} {a} k=---"
      | .notFound => "not-found k=--n"
      | .cycle => "cycle k=---"
    (st, ["nget " ++ line])
  | "nsearch" =>
    let st := ntick st j
    let line := match st.nw.n.search (jStr j "sid") st.nw.t with
      | none => "not-found"
      | some rows => "[" ++ String.intercalate " " (sortStrs (rows.map (·.id))) ++ "]"
    (st, ["nsearch " ++ line])
  -- wire leg: the status `ResolveStatusCode` picks for an error in which errors.Is finds these sentinels; the
  -- timestamp `GetPresentations` hands to the server
  | "nstatus" =>
    let k := jStr j "kind"
    let has (c : Char) : Bool := k.toList.contains c
    (st, [s!"nstatus {resolveStatus Nuts.Facts.C16.statusTable Nuts.Facts.C16.statusDefault { invalid := has 'i', didMethods := has 'd', notFound := has 'n' }}"])
  | "napits" =>
    let ts : Option Int := match (j.getObjVal? "asked") with
      | .ok v => v.getInt?.toOption
      | _ => none
    (st, [s!"napits {apiTimestamp ts}"])
  | o => (st, ["bad-op:" ++ o])

end Nuts.Drv.C16

def main : IO Unit := do
  Nuts.Drv.loop (← IO.getStdin) (← IO.getStdout) Nuts.Drv.C16.step' ({} : Nuts.Drv.C16.St)
