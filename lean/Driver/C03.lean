import Driver.Util
import NutsModel.C03.Kid
import NutsModel.C03.KeyStore
import NutsModel.C03.Jws
import NutsModel.C03.Api
import NutsModel.C03.FsList
import NutsModel.C03.External
import NutsModel.C03.Configure
import NutsModel.C03.Export
import NutsModel.C03.Pem
import NutsModel.Facts.C03
open Lean Nuts.Drv Nuts.C03 Nuts

namespace Nuts.Drv.C03

def hexDigitVal (c : Char) : Nat :=
  if '0' ≤ c ∧ c ≤ '9' then c.toNat - '0'.toNat
  else if 'a' ≤ c ∧ c ≤ 'f' then c.toNat - 'a'.toNat + 10
  else if 'A' ≤ c ∧ c ≤ 'F' then c.toNat - 'A'.toNat + 10 else 0

def unhex (s : String) : Bytes :=
  let rec go : List Char → List Nat
    | a :: b :: rest => (hexDigitVal a * 16 + hexDigitVal b) :: go rest
    | _ => []
  go s.toList

def hexDigit (n : Nat) : Char := if n < 10 then Char.ofNat (n + '0'.toNat) else Char.ofNat (n - 10 + 'a'.toNat)

def hex (b : Bytes) : String := String.ofList (b.flatMap fun x => [hexDigit (x / 16), hexDigit (x % 16)])

def ascii (s : String) : Bytes := s.toUTF8.toList.map (·.toNat)

/-- `validateKID` as the source configures it today (pattern tree + literal refusals from the regenerated facts) -/
def validB (s : Bytes) : Option Bool := validName? Nuts.Facts.C03.kidPatternRx Nuts.Facts.C03.validateKIDRefusedNames s

def validStr (s : String) : Bool := (validB (ascii s)).getD false

def bit (b : Option Bool) : Char := match b with | some true => '1' | some false => '0' | none => '?'

/-- 256 accept bits for prefix ++ [b], b = 0..255, rendered as 64 hex digits -/
def kidMap (pfx : Bytes) : String :=
  let bits := (List.range 256).map fun b => (validB (pfx ++ [b])).getD false
  let rec nibbles : List Bool → List Char
    | a :: b :: c :: d :: rest =>
      hexDigit ((if a then 8 else 0) + (if b then 4 else 0) + (if c then 2 else 0) + (if d then 1 else 0)) :: nibbles rest
    | _ => []
  if (validB []).isNone then "model-not-applicable" else String.ofList (nibbles bits)

def entryType : Bytes := (Nuts.Facts.C03.fsEntryTypes.head?).getD []

/-! key store -/

structure St where
  store : Store := {}
  nonEC : List Nat := []     -- key pairs that are not ECDSA keys (planted RSA / Ed25519 keys)

def kres {α} (r : KRes α) (f : α → String) : String :=
  match r with
  | .ok a => "ok" ++ f a
  | .error e => "err:" ++ e.name

/-- outcome + the engine-worded error text -/
def kresT {α} (s : Store) (q : Req) (r : KRes α) (f : α → String) : String :=
  match r with
  | .ok a => "ok" ++ f a
  | .error e => "err:" ++ e.name ++ (match errText "$KEYDIR" s q e with | some t => " err=\"" ++ t ++ "\"" | none => "")

def showAudit (l : List (String × String)) : String :=
  " audit=[" ++ String.intercalate ";" (l.map fun p => p.1 ++ ":" ++ p.2) ++ "]"

def sortStrs (l : List String) : List String := (l.toArray.qsort (· < ·)).toList

/-! headers -/

def parseHVal (j : Json) : HVal :=
  match jStr j "k" with
  | "str" => .str (jStr j "v")
  | "strlist" => .strList
  | "jwk" => .jwk (jStr j "raw") (jStr j "id")
  | _ => .other (jStr j "ty")

def parseHeaders (j : Json) : Headers := (jArr j "headers").map fun e => (jStr e "n", parseHVal e)

/-- raw key types whose JWK carries secret members (`d` / `k`) -/
def secretTypes : List String := signerTypes ++ ["x25519.PrivateKey", "[]uint8"]

def showHdr (r : Except JErr Headers) : String :=
  match r with
  | .error e => "err:" ++ e.name
  | .ok out =>
    let kid := match hget out "kid" with | some (.str s) => s | some _ => "?" | none => "-"
    let (jwk, secret) := match hget out "jwk" with
      | some (.jwk rt id) => (id, if secretTypes.contains rt then "1" else "0")
      | some _ => ("?", "0") | none => ("-", "0")
    let names := sortStrs ((out.map (·.1)).eraseDups)
    s!"ok kid={kid} jwk={jwk} secret={secret} names=[{String.intercalate "," names}]"


/-! REST wrapper (deepening round) -/

def apiCfg : ApiCfg := ApiCfg.ofFacts Nuts.Facts.C03.apiValidate Nuts.Facts.C03.apiStatusMap Nuts.Facts.C03.apiInvalidInputStatus

def parseFld (s : String) : Fld :=
  match s with
  | "null" => .null | "empty" => .empty | "present" => .present | _ => .absent

def parseApiReq (j : Json) : ApiReq :=
  { flds := (jArr j "flds").map fun e => (jStr e "n", parseFld (jStr e "f")),
    kid := jStr j "kid", headers := parseHeaders j, parseOk := jBool j "parseOk" }

def showApi (r : ApiResp) : String :=
  match r with
  | .token k out =>
    let kid := match hget out "kid" with | some (.str s) => s | some _ => "?" | none => "-"
    let jwk := match hget out "jwk" with | some _ => "present" | none => "-"
    let names := sortStrs ((out.map (·.1)).eraseDups)
    s!"200 key=K{k} kid={kid} jwk={jwk} names=[{String.intercalate "," names}]"
  | .plain k => s!"200 key=K{k}"
  | .problem st d => s!"{st} detail=\"{d}\""
  | .notApplicable w => "model-not-applicable:" ++ w

def step (st : St) (j : Json) : St × List String :=
  let s := st.store
  match jStr j "op" with
  | "kidmap" =>
    let p := unhex (jStr j "prefix")
    (st, [s!"kidmap {hex p} {kidMap p}"])
  | "kids" =>
    let bits := (jStrs j "names").map fun n => bit (validB (unhex n))
    (st, ["kids " ++ String.ofList bits])
  | "entrypath" =>
    (st, ["entrypath " ++ hex (fsEntryPath (unhex (jStr j "dir")) (unhex (jStr j "kid")) entryType)])
  | "save" =>
    let kid := unhex (jStr j "kid")
    match validB kid with
    | some true => (st, [s!"save ok file=keys/{hex (fsEntryFileName kid entryType)}"])
    | some false => (st, ["save err:invalid-key-id"])
    | none => (st, ["save model-not-applicable"])
  | "vaultpath" =>
    let kid := unhex (jStr j "kid")
    (st, [s!"vaultpath acc={bit (validB kid)} {hex (vaultKeyPath (unhex (jStr j "prefix")) Nuts.Facts.C03.vaultKeyPathName kid)}"])
  | "vaultuse" =>
    -- wrapper + vaultKVStorage: Save (write), Exists (read), Get (read), Delete — all on privateKeyPath(prefix, name)
    let kid := unhex (jStr j "kid")
    match validB kid with
    | some true =>
      let p := hex (vaultKeyPath (unhex (jStr j "prefix")) Nuts.Facts.C03.vaultKeyPathName kid)
      (st, [s!"vaultuse res=ok,ok/true,ok/true,ok paths=[{p},{p},{p},{p}] left=0"])
    | some false => (st, ["vaultuse res=invalid-key-id,invalid-key-id/false,invalid-key-id/false,invalid-key-id paths=[] left=0"])
    | none => (st, ["vaultuse model-not-applicable"])
  -- key store state machine
  | "reset" => ({ store := {}, nonEC := [] }, ["reset"])
  | "new" =>
    let naming := if jHas j "kid" && (j.getObjVal? "kid").toOption != some Json.null then some (jStr j "kid") else none
    let (s', r) := new s (jStr j "keyName") naming
    ({ st with store := s' }, ["new " ++ (match r with
      | .ok (kid, ref, k) => s!"ok kid={kid} name={ref.keyName} ver={ref.version} key=K{k}"
      | .error e => s!"err:{e.name} key=K{s.nextKey}") ++ showAudit (auditOf validStr s (.op (.new (jStr j "keyName") naming)))])
  | "link" =>
    let (s', r) := link s (jStr j "kid") (jStr j "keyName") (jStr j "version")
    ({ st with store := s' }, ["link " ++ kresT s (.op (.link (jStr j "kid") (jStr j "keyName") (jStr j "version"))) r (fun _ => "") ++ showAudit []])
  | "delete" =>
    let (s', r) := delete validStr s (jStr j "kid")
    ({ st with store := s' }, ["delete " ++ kresT s (.op (.delete (jStr j "kid"))) r (fun _ => "") ++ showAudit (auditOf validStr s (.op (.delete (jStr j "kid"))))])
  | "migrate" => ({ st with store := migrate s }, ["migrate ok" ++ showAudit []])
  | "plant" =>
    match wSave validStr s (jStr j "keyName") with
    | .ok (s', k) => ({ store := s', nonEC := if jStr j "ktype" == "ec" || jStr j "ktype" == "" then st.nonEC else k :: st.nonEC },
        [s!"plant ok key=K{k}"])
    | .error e => (st, ["plant " ++ kresT s (.op (.save (jStr j "keyName"))) (.error e : KRes Unit) (fun _ => "")])
  | "sign" => (st, [s!"sign {jStr j "how"} " ++ kresT s (.sign (jStr j "how") (jStr j "kid") "" "") (signKey validStr s (jStr j "kid")) (fun k => s!" verifies=[K{k}]")
      ++ showAudit (auditOf validStr s (.sign (jStr j "how") (jStr j "kid") (jStr j "iss") (jStr j "sub")))])
  | "resolve" => (st, ["resolve " ++ kresT s (.resolve (jStr j "kid")) (resolve validStr s (jStr j "kid")) (fun k => s!" key=K{k}") ++ showAudit []])
  | "exists" => (st, [s!"exists {keyExists s (jStr j "kid")}"])
  | "list" => (st, [s!"list [{String.intercalate "," (sortStrs (list s))}]"])
  | "files" => (st, [s!"files [{String.intercalate "," (sortStrs (s.backend.map (·.1)))}]"])
  | "decrypt" => (st, ["decrypt " ++ kresT s (.decrypt (jStr j "kid") (jNat j "encFor"))
      (decrypt validStr s (jStr j "kid") (jNat j "encFor") (fun k => !st.nonEC.contains k)) (fun _ => "") ++ showAudit []])
  | "decryptjwe" => (st, ["decryptjwe " ++ kresT s (.decryptJWE (jStr j "kid") (jNat j "encFor")) (decryptJWE validStr s (jStr j "kid") (jNat j "encFor")) (fun _ => "")
      ++ showAudit (auditOf validStr s (.decryptJWE (jStr j "kid") (jNat j "encFor")))])
  -- headers
  | "signjws" =>
    let h := parseHeaders j
    -- in-memory signer with a stated key id: ITS guard decides (memHolds); else the harness says whether the key exists
    let found := if jStr j "via" == "memory" && jHas j "memKeyId" then memHolds (jStr j "memKeyId") (jStr j "kid") else jBool j "found"
    let r := match jStr j "via" with
      | "pkg" => signJWSHeaders (dedup h)
      | _ => storeSignJWSHeaders found h (jStr j "kid")
    let au := match jStr j "via" with
      | "pkg" => signAudit false "" "" (dedup h)
      | _ => storeSignAudit false "" "" found h (jStr j "kid")
    let vk := match r with | .ok _ => (if jHas j "memKeyId" then " vk=own" else "") | _ => ""
    (st, [s!"signjws {jStr j "via"} " ++ showHdr r ++ vk ++ (match au with | some a => showAudit a | none => "")])
  | "signjwt" =>
    let h := parseHeaders j
    let found := if jStr j "via" == "memory" && jHas j "memKeyId" then memHolds (jStr j "memKeyId") (jStr j "kid") else jBool j "found"
    let r := match jStr j "via" with
      | "pkg" => signJWTHeaders (dedup h)
      | _ => storeSignJWTHeaders found h (jStr j "kid")
    let au := match jStr j "via" with
      | "pkg" => signAudit true "me" "%!s(<nil>)" (dedup h)
      | _ => storeSignAudit true "me" "%!s(<nil>)" found h (jStr j "kid")
    let vk := match r with | .ok _ => (if jHas j "memKeyId" then " vk=own" else "") | _ => ""
    (st, [s!"signjwt {jStr j "via"} " ++ showHdr r ++ vk ++ (match au with | some a => showAudit a | none => "")])
  | "jwkclass" =>
    let rt := jStr j "raw"
    (st, [s!"jwkclass {jStr j "id"} dpop-private={dpopJwkIsPrivate rt} didjwk={didJwkOutcome rt}"])
  -- REST wrapper over the key store state
  | "apikey" =>
    let (s', r) := new s (jStr j "keyName") (some (jStr j "kid"))
    ({ st with store := s' }, ["apikey " ++ (match r with
      | .ok (kid, _, k) => s!"ok kid={kid} key=K{k}"
      | .error e => s!"err:{e.name}")])
  | "apilink" =>
    let (s', r) := link s (jStr j "kid") (jStr j "keyName") (jStr j "version")
    ({ st with store := s' }, ["apilink " ++ kres r (fun _ => "")])
  | "apisignjwt" => (st, ["apisignjwt " ++ showApi (apiSignJwt validStr apiCfg "$KEYDIR" s (parseApiReq j))])
  | "apisignjws" => (st, ["apisignjws " ++ showApi (apiSignJws validStr apiCfg "$KEYDIR" s (parseApiReq j))])
  | "apidecrypt" =>
    let m := if jStr j "msg" == "jwe" then JweMsg.jwe (jStr j "hkid") (jNat j "encFor") else JweMsg.garbage
    (st, ["apidecrypt " ++ showApi (apiDecryptJwe validStr apiCfg "$KEYDIR" s (parseApiReq j) m)])
  | "extpath" =>
    -- the external secret-store backend behind the wrapper: Exists (GET), Get (GET), Save (POST), Delete (DELETE); the
    -- recording server answers 404 to everything
    let kid := unhex (jStr j "kid")
    match validB kid with
    | some true =>
      let t := hex (externalTarget (ascii (jStr j "base")) kid)
      (st, [s!"extpath res=ok,not-found,not-found,not-found reqs=[GET:{t},GET:{t},POST:{t},DELETE:{t}]"])
    | some false => (st, ["extpath res=invalid-key-id,invalid-key-id,invalid-key-id,invalid-key-id reqs=[]"])
    | none => (st, ["extpath model-not-applicable"])
  | "listnames" =>
    -- fs.ListPrivateKeys over a tree of regular files (relative paths): the key names, sorted
    let names := fsListNames ((jStrs j "files").map unhex) entryType
    (st, ["listnames [" ++ String.intercalate "," (sortStrs (names.map fun n => "n:" ++ hex n)) ++ "]"])
  | "dpopseq" =>
    -- the same dpop.DPoP signed for several kids; `preset` = a jwk header the caller put on the token before
    let h0 : Headers := if jStr j "preset" == "" then [("typ", .str "dpop+jwt")] else [("typ", .str "dpop+jwt"), ("jwk", .jwk (jStr j "presetRaw") (jStr j "preset"))]
    let rs := signDPoPSeq validStr s h0 (jStrs j "kids")
    let showOne (p : String × KRes (Nat × Headers)) : String :=
      kresT s (.sign "dpop" p.1 "" "") p.2 (fun (k, hdr) =>
        let jwk := match hget hdr "jwk" with
          | some (.jwk "public" id) => id ++ " secret=0"
          | some (.jwk rt id) => "preset:" ++ id ++ (if secretTypes.contains rt then " secret=1" else " secret=0")
          | _ => "- secret=0"
        s!" verifies=[K{k}] jwk={jwk}")
    (st, ["dpopseq " ++ String.intercalate " | " (rs.map showOne) ++ showAudit []])   -- SignDPoP writes no audit record
  | "apiencval" => (st, ["apiencval " ++ showApi (apiEncryptValidate apiCfg (parseApiReq j))])
  | "configure" =>
    -- (*Crypto).Configure on a new engine: which backend is installed, is it the validating wrapper, where do names go
    let opt (k : String) : Option String := if jStr j k == "" then none else some (jStr j k)
    let lk : Lookup := match jStr j "vLookup" with
      | "data" => .data | "empty" => .emptyData | "nil" => .nilSecret | _ => .err (jStr j "vLookupErr")
    let ctorRes (c : String) : Ctor :=
      if c == "fs.NewFileSystemBackend" then (match opt "fsErr" with | some e => .err e | none => .ok)
      else if c == "external.NewAPIClient" then externalNew (opt "extErr")
      else if c == "azure.New" then azureNew Nuts.Facts.C03.azureCredentialTypes (jStr j "azUrl") (jStr j "azCred") (opt "azSdkErr") none
      else if c == "vault.NewVaultKVStorage" then vaultNew (opt "vClientErr") lk
      else .err ("unknown constructor " ++ c)
    let (be, err) := configureSt Nuts.Facts.C03.configureSwitch Nuts.Facts.C03.setupFns none (jStr j "storage") (jBool j "strict") ctorRes
    let innerT (c : String) : String :=
      if c == "fs.NewFileSystemBackend" then "*fs.fileSystemBackend" else if c == "external.NewAPIClient" then "*external.APIClient"
      else if c == "azure.New" then "*azure.Keyvault" else if c == "vault.NewVaultKVStorage" then "vault.vaultKVStorage" else c
    let res := match err with | none => "ok" | some t => "err:" ++ t
    let b := match be with
      | none => "backend=nil"
      | some b =>
        let name := jStr j "probe"
        let fw := forwarded validStr b name
        let remote := b.ctor == "external.NewAPIClient" || b.ctor == "vault.NewVaultKVStorage"
        let probe := if jStr j "probe" == "" && !jHas j "probe" then "probe=skip"
          else if !fw then "probe=refused reqs=0"
          else if b.ctor == "fs.NewFileSystemBackend" then s!"probe=forwarded reqs=0 file={Nuts.Facts.C03.fsBackendSubdir}/{name}_{(Nuts.Facts.C03.fsEntryTypesStr.head?).getD "?"}"
          else s!"probe=forwarded reqs={if remote then 1 else 0}"
        s!"backend=wrapped:{backendValidates b} inner={innerT b.ctor} {probe}"
    (st, [s!"configure res={res} {b}"])
  | "pemclass" =>
    -- util.PemToPrivateKey / PemToPublicKey: block type + what the parser of that block type answered
    let block : Option String := if jStr j "der" == "nopem" || jStr j "block" == "" then none else some (jStr j "block")
    let parsed (k : String) : Parsed := let v := jStr j k; if v.startsWith "ok:" then .ok (v.drop 3).toString else .err
    let show_ : PemOut → String
      | .key ty => "key:" ++ ty | .nilNil => "nil-nil" | .wrongKey => "wrong-key" | .parseErr => "parse-err"
    (st, ["pemclass priv=" ++ show_ (pemToPrivateKey Nuts.Facts.C03.pemPrivateCases Nuts.Facts.C03.pemPrivateKeyTypes block (parsed "privParsed"))
          ++ " pub=" ++ show_ (pemToPublicKey Nuts.Facts.C03.pemPublicCases block (parsed "pubParsed"))])
  | "fsexport" | "fs2vault" =>
    -- crypto/cmd fsToOtherStorage: directory tree (regular files, walk order) -> wrapped recording target.
    -- cnames/ckinds: what the top-level key files decode to ("bad" = no PEM block, else key number); pre = names already in
    -- the target (keys 100+i); faults = names for which the backend behind the wrapper fails with "boom"
    let astr (b : Bytes) : String := String.ofList (b.map Char.ofNat)
    let paths := (jStrs j "files").map unhex
    let cn := (jStrs j "cnames").map unhex
    let ck := jStrs j "ckinds"
    let content (n : Bytes) : SrcGet :=
      match (cn.zip ck).find? (fun p => p.1 == n) with
      | some (_, "bad") => .err "failed to decode PEM block containing private key"
      | some (_, k) => .key k.toNat!
      | none => .err "no content given"
    let missing (n : Bytes) : String := "could not open entry " ++ astr n ++ " with filename $DIR/" ++ astr (fsEntryFileName n entryType) ++ ": entry not found"
    let faults := (jStrs j "faults").map unhex
    let fault (n : Bytes) : Option String := if faults.contains n then some "boom" else none
    let pre : Tgt := (((jStrs j "pre").map unhex).zipIdx).map fun (n, i) => (n, 100 + i)
    match (List.range 256).map (fun b => validB [b]) |>.all Option.isSome with
    | false => (st, ["fsexport model-not-applicable"])
    | true =>
      let vld := fun n => (validB n).getD false
      let r := fs2target Nuts.Facts.C03.exportGetErr Nuts.Facts.C03.exportSaveErr astr paths entryType content missing
        (if jStr j "op" == "fs2vault" then wrappedPut vld astr fault else wrappedSave vld astr fault) pre
      let err := match r.error with | none => "-" | some e => "\"" ++ e ++ "\""
      if jStr j "op" == "fs2vault" then
        -- the real command against the Vault stub: every stored entry is one PUT of key material to its Vault path
        (st, ["fs2vault keys=[" ++ String.intercalate "," (r.exported.map hex) ++ "] err=" ++ err ++ " puts=["
            ++ String.intercalate "," (r.target.map fun e => "PUT:" ++ hex (ascii "/v1/" ++ vaultKeyPath (ascii "kv") Nuts.Facts.C03.vaultKeyPathName e.1)) ++ "]"])
      else
      (st, ["fsexport keys=[" ++ String.intercalate "," (r.exported.map hex) ++ "] err=" ++ err ++ " target=["
            ++ String.intercalate "," (r.target.map fun e => hex e.1 ++ ":K" ++ toString e.2) ++ "]"])
  | o => (st, ["bad-op:" ++ o])

end Nuts.Drv.C03

def main : IO Unit := do
  Nuts.Drv.loop (← IO.getStdin) (← IO.getStdout) Nuts.Drv.C03.step ({} : Nuts.Drv.C03.St)
