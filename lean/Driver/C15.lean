import Driver.Proto
import NutsModel.Facts.C15
import NutsModel.C15.Streams
import NutsModel.C15.Outbound
open Lean Nuts.Drv

/-- C15 adds the op that depends on C15's regenerated facts (the TLS server's ClientAuth mode) -/
def step15 (d : Nuts.Drv.Proto.DSt) (j : Json) : Nuts.Drv.Proto.DSt × List String :=
  match jStr j "op" with
  | "tlsclient" =>
    let src := ((Nuts.Facts.C15.serverTLSConfig.find? (fun x => x.startsWith "ClientAuth=")).getD "ClientAuth=?").drop 11
    let mode := Nuts.C15.ClientAuthMode.ofSource src.toString
    (d, [s!"tlsclient accepted={Nuts.C15.serverAcceptsClient mode (jBool j "presented") (jBool j "chains")}"])
  | "offload" =>
    let vals : List Nuts.C15.HeaderVal := (jStrs j "values").map (fun x => match x with
      | "victim" => .cert "victim.example.org" | "proxy" => .cert "attacker.example" | "two-in-one" => .many | _ => .garbage)
    match Nuts.C15.offloadedCertificate vals with
    | some o => (d, [s!"offload cert={o}"])
    | none => (d, ["offload refused"])
  | "offloadseq" =>
    let hv : String → Nuts.C15.HeaderVal := fun x => match x with
      | "victim" => .cert "victim.example.org" | "proxy" => .cert "attacker.example" | "third" => .cert "third.example" | "two-in-one" => .many | _ => .garbage
    let streams : List (List Nuts.C15.HeaderVal) := (jArr j "streams").map (fun a => match a with
      | .arr xs => xs.toList.map (fun x => hv (x.getStr?.toOption.getD ""))
      | _ => [])
    let pre : Option String := if jStr j "pre" == "victim" then some "victim.example.org" else none
    let seen := (Nuts.C15.interceptStreams pre streams).map (fun o => o.getD "refused")
    (d, [s!"offloadseq [{String.intercalate " " seen}]"])
  | "inbound" =>
    -- a history of inbound streams (handleInboundStream) and stream ends on one connection manager
    let tab (k : String) (x : String) : Option String :=
      (jArr j k).findSome? (fun p => match p with
        | .arr a => if (a[0]?.bind (fun v => v.getStr?.toOption)) == some x then a[1]?.bind (fun v => v.getStr?.toOption) else none
        | _ => none)
    let E : Nuts.C15.InEnv := {
      kind := if jStr j "kind" == "dummy" then .dummy else .tls,
      auth := { parseHost := fun ep => some ep, verifyHostname := fun dns h => dns.contains h },
      parseDID := tab "didtab", resolve := tab "endpoints" }
    let plus (l : List String) : String := String.intercalate "+" l
    let showConn (c : Nuts.C15.Conn) : String :=
      let dns := plus (c.cert.getD ["-"])
      let sids := plus (c.streams.map (fun s => toString s.sid))
      s!"{c.id}~{c.peer.did}~{c.peer.authenticated}~{dns}~{sids}"
    let snap (cs : List Nuts.C15.Conn) : String := String.intercalate "," (cs.map showConn)
    let (_, outs) := (jArr j "events").foldl (fun (acc : List Nuts.C15.Conn × List String) ev =>
      let (cs, outs) := acc
      if jStr ev "e" == "close" then
        let cs' := Nuts.C15.closeStream cs (jNat ev "sid")
        (cs', outs ++ [s!"closed|{snap cs'}"])
      else
        let crt : Option (List String) := if jBool ev "hascert" then some (jStrs ev "cert") else none
        let s : Nuts.C15.StreamIn := ⟨jNat ev "sid", jStrs ev "pids", jStrs ev "dids", crt, jStr ev "proto"⟩
        let (cs', r) := Nuts.C15.handleInbound E cs s
        let rs := match r with
          | .errMetadata => "meta" | .errAuth => "auth" | .alreadyConnected => "already" | .joined i => s!"joined{i}"
        (cs', outs ++ [s!"{rs}|{snap cs'}"])) (([] : List Nuts.C15.Conn), ([] : List String))
    let body := String.intercalate " ; " outs
    (d, [s!"inbound {body}"])
  | "outbound" =>
    -- one outbound connection: the contact's expected DID, then per protocol what the scripted server answers
    let tab (k : String) (x : String) : Option String :=
      (jArr j k).findSome? (fun p => match p with
        | .arr a => if (a[0]?.bind (fun v => v.getStr?.toOption)) == some x then a[1]?.bind (fun v => v.getStr?.toOption) else none
        | _ => none)
    let E : Nuts.C15.InEnv := {
      kind := if jStr j "kind" == "dummy" then .dummy else .tls,
      auth := { parseHost := fun ep => some ep, verifyHostname := fun dns h => dns.contains h },
      parseDID := tab "didtab", resolve := tab "endpoints" }
    let plus (l : List String) : String := String.intercalate "+" l
    let showConn (c : Nuts.C15.Conn) : String :=
      let dns := plus (c.cert.getD ["-"])
      let sids := plus (c.streams.map (fun s => toString s.sid))
      s!"{c.id}~{c.peer.did}~{c.peer.authenticated}~{dns}~{sids}"
    let ss : List Nuts.C15.OutStream := (jArr j "streams").map (fun ev =>
      let crt : Option (List String) := if jBool ev "hascert" then some (jStrs ev "cert") else none
      ⟨jNat ev "sid", jStr ev "proto", jBool ev "createfails", jBool ev "headerfails", jStrs ev "pids", jStrs ev "dids", jBool ev "other", crt⟩)
    let x := jStr j "expected"
    -- the connection as each protocol's CreateClientStream finds it (none after a fatal error)
    let (_, _, trace) := ss.foldl (fun (acc : Nuts.C15.Conn × Bool × List String) s =>
      let (c, dead, tr) := acc
      if dead then acc
      else
        let r := Nuts.C15.openOutboundStream E c s
        (r.1, (match r.2 with | .fatal _ => true | _ => false), tr ++ [showConn c])) (Nuts.C15.dialled x, false, ([] : List String))
    let fin := Nuts.C15.openOutboundStreams E (Nuts.C15.dialled x) ss 0
    let con := Nuts.C15.connectOutbound E x ss
    let res := match fin.2 with
      | .blocked => "blocked" | .noProtocol => "noproto"
      | .fatal w => if w == "maintenance" || w == "auth" then "authfailed" else w
    -- `connect` disconnects at once unless streams are live; a live connection is disconnected when a stream ends
    let after := match con.2 with | .blocked => Nuts.C15.disconnect con.1 | _ => con.1
    (d, [s!"outbound {res} [{String.intercalate " " trace}] end={showConn fin.1} after={showConn after} listed=0"])
  | "mixed" =>
    -- inbound streams and dialled connections interleaved on ONE connection list
    let tab (k : String) (x : String) : Option String :=
      (jArr j k).findSome? (fun p => match p with
        | .arr a => if (a[0]?.bind (fun v => v.getStr?.toOption)) == some x then a[1]?.bind (fun v => v.getStr?.toOption) else none
        | _ => none)
    let E : Nuts.C15.InEnv := {
      kind := if jStr j "kind" == "dummy" then .dummy else .tls,
      auth := { parseHost := fun ep => some ep, verifyHostname := fun dns h => dns.contains h },
      parseDID := tab "didtab", resolve := tab "endpoints" }
    let plus (l : List String) : String := String.intercalate "+" l
    let showConn (c : Nuts.C15.Conn) : String :=
      let dns := plus (c.cert.getD ["-"])
      let sids := plus (c.streams.map (fun s => toString s.sid))
      s!"{c.id}~{c.peer.did}~{c.peer.authenticated}~{dns}~{sids}"
    let snap (cs : List Nuts.C15.Conn) : String := String.intercalate "," (cs.map showConn)
    let (_, outs) := (jArr j "events").foldl (fun (acc : List Nuts.C15.Conn × List String) ev =>
      let (cs, outs) := acc
      let crt : Option (List String) := if jBool ev "hascert" then some (jStrs ev "cert") else none
      let (mev, rs) : Nuts.C15.MEv × String := match jStr ev "e" with
        | "close" => (.close (jNat ev "sid"), "closed")
        | "dial" => (.dial (jStr ev "addr") (jStr ev "x"), if (Nuts.C15.dialOut cs (jStr ev "addr") (jStr ev "x")).2 then "dialled" else "exists")
        | "outend" => (.outEnd (jNat ev "i"), if jNat ev "i" < cs.length then "ended" else "noconn")
        | "outstream" =>
          let s : Nuts.C15.OutStream := ⟨jNat ev "sid", jStr ev "proto", jBool ev "createfails", jBool ev "headerfails", jStrs ev "pids", jStrs ev "dids", jBool ev "other", crt⟩
          (.outStream (jNat ev "i") s, match cs[jNat ev "i"]? with
            | none => "noconn"
            | some c => match (Nuts.C15.openOutboundStream E c s).2 with
              | .opened => "opened" | .skipped => "skipped"
              | .fatal w => if w == "maintenance" || w == "auth" then "authfailed" else w)
        | _ =>
          let s : Nuts.C15.StreamIn := ⟨jNat ev "sid", jStrs ev "pids", jStrs ev "dids", crt, jStr ev "proto"⟩
          (.inOpen s, match (Nuts.C15.handleInbound E cs s).2 with
            | .errMetadata => "meta" | .errAuth => "auth" | .alreadyConnected => "already" | .joined i => s!"joined{i}")
      let cs' := Nuts.C15.stepM E cs mev
      (cs', outs ++ [s!"{rs}|{snap cs'}"])) (([] : List Nuts.C15.Conn), ([] : List String))
    let body := String.intercalate " ; " outs
    (d, [s!"mixed {body}"])
  | "createtx" =>
    let parts : List Nuts.C15.KeyRes := (jStrs j "parts").map (fun x => match x with
      | "ok" => .ok | "deactivated" => .deactivated | "badkey" => .badKey | _ => .notFound)
    match Nuts.C15.createPalCount (jBool j "nodedid") parts with
    | .ok k => (d, [s!"createtx ok pal={k}"])
    | _ => (d, ["createtx err"])
  | "cmauth" =>
    -- the certificate handed to the authenticator is the leaf; `leaf_covers` is x509's verdict on it (data)
    let e : Nuts.C15.AuthEnv := { parseHost := fun _ => some "victim.example.org", verifyHostname := fun _ _ => jBool j "leaf_covers" }
    let inp : Nuts.C15.AuthIn := { cert := if jBool j "cert" then some [] else none, endpoint := some "grpc://victim.example.org:5555" }
    let (p, err) := Nuts.C15.cmAuthenticate .tls e (jStr j "claimed") { key := 0 } inp
    (d, [s!"cmauth err={err} auth={p.authenticated} did={p.did}"])
  | _ => Nuts.Drv.Proto.step d j

def main : IO Unit := do
  Nuts.Drv.loop (← IO.getStdin) (← IO.getStdout) step15 ({} : Nuts.Drv.Proto.DSt)
