import Driver.Proto
import NutsModel.Facts.C15
open Lean Nuts.Drv

/-- C15 adds the op that depends on C15's regenerated facts (the TLS server's ClientAuth mode) -/
def step15 (d : Nuts.Drv.Proto.DSt) (j : Json) : Nuts.Drv.Proto.DSt × List String :=
  match jStr j "op" with
  | "tlsclient" =>
    let src := ((Nuts.Facts.C15.serverTLSConfig.find? (fun x => x.startsWith "ClientAuth=")).getD "ClientAuth=?").drop 11
    let mode := Nuts.C15.ClientAuthMode.ofSource src.toString
    (d, [s!"tlsclient accepted={Nuts.C15.serverAcceptsClient mode (jBool j "presented") (jBool j "chains")}"])
  | _ => Nuts.Drv.Proto.step d j

def main : IO Unit := do
  Nuts.Drv.loop (← IO.getStdin) (← IO.getStdout) step15 ({} : Nuts.Drv.Proto.DSt)
