import Driver.Proto
import NutsModel.Facts.C15
open Lean Nuts.Drv

/-- C15 adds the op that depends on C15's regenerated facts (the TLS server's ClientAuth mode) -/
def step15 (d : Nuts.Drv.Proto.DSt) (j : Json) : Nuts.Drv.Proto.DSt × List String :=
  match jStr j "op" with
  | "tlsclient" =>
    let src := ((Nuts.Facts.C15.serverTLSConfig.find? (fun x => x.startsWith "ClientAuth=")).getD "ClientAuth=?").drop 11
    let mode := Nuts.C15.ClientAuthMode.ofSource src.toString
    (d, [s!"tlsclient accepted={Nuts.C15.serverAcceptsClient mode (jBool j "presented") (jBool j "chains")}"])
  | "offload" =>
    let vals : List Nuts.C15.HeaderVal := (jStrs j "values").map (fun x => match x with
      | "victim" => .cert "victim.example.org" | "proxy" => .cert "attacker.example" | "two-in-one" => .many | _ => .garbage)
    match Nuts.C15.offloadedCertificate vals with
    | some o => (d, [s!"offload cert={o}"])
    | none => (d, ["offload refused"])
  | "offloadseq" =>
    let hv : String → Nuts.C15.HeaderVal := fun x => match x with
      | "victim" => .cert "victim.example.org" | "proxy" => .cert "attacker.example" | "third" => .cert "third.example" | "two-in-one" => .many | _ => .garbage
    let streams : List (List Nuts.C15.HeaderVal) := (jArr j "streams").map (fun a => match a with
      | .arr xs => xs.toList.map (fun x => hv (x.getStr?.toOption.getD ""))
      | _ => [])
    let pre : Option String := if jStr j "pre" == "victim" then some "victim.example.org" else none
    let seen := (Nuts.C15.interceptStreams pre streams).map (fun o => o.getD "refused")
    (d, [s!"offloadseq [{String.intercalate " " seen}]"])
  | "createtx" =>
    let parts : List Nuts.C15.KeyRes := (jStrs j "parts").map (fun x => match x with
      | "ok" => .ok | "deactivated" => .deactivated | "badkey" => .badKey | _ => .notFound)
    match Nuts.C15.createPalCount (jBool j "nodedid") parts with
    | .ok k => (d, [s!"createtx ok pal={k}"])
    | _ => (d, ["createtx err"])
  | "cmauth" =>
    -- the certificate handed to the authenticator is the leaf; `leaf_covers` is x509's verdict on it (data)
    let e : Nuts.C15.AuthEnv := { parseHost := fun _ => some "victim.example.org", verifyHostname := fun _ _ => jBool j "leaf_covers" }
    let inp : Nuts.C15.AuthIn := { cert := if jBool j "cert" then some [] else none, endpoint := some "grpc://victim.example.org:5555" }
    let (p, err) := Nuts.C15.cmAuthenticate .tls e (jStr j "claimed") { key := 0 } inp
    (d, [s!"cmauth err={err} auth={p.authenticated} did={p.did}"])
  | _ => Nuts.Drv.Proto.step d j

def main : IO Unit := do
  Nuts.Drv.loop (← IO.getStdin) (← IO.getStdout) step15 ({} : Nuts.Drv.Proto.DSt)
