import Driver.Util
import NutsModel.C02.Token
import NutsModel.C02.History
import NutsModel.C02.Jar
import NutsModel.C02.Policy
import NutsModel.C02.ReqObj
import NutsModel.C02.DPoP
import NutsModel.Facts.C02
open Lean Nuts.Drv Nuts.C02 Nuts

namespace Nuts.Drv.C02

def optNat (j : Json) (k : String) : Option Nat := (j.getObjValAs? Nat k).toOption
def optStr (j : Json) (k : String) : Option String := (j.getObjValAs? String k).toOption

def parseVP (j : Json) : VP :=
  { created := optNat j "created", expires := optNat j "expires", signer := optStr j "signer",
    subjects := (jArr j "subjects").map (fun x => x.getStr?.toOption),
    aud := jStrs j "aud", nonce := jStr j "nonce", challenge := jStr j "challenge", verifies := jBool j "verifies", ld := !(jBool j "untimed") }

def parseDPoP (j : Json) : DPoPIn :=
  match jStr j "kind" with
  | "valid" => .valid (jStr j "kid") (jStr j "jkt")
  | "invalid" => .invalid
  | _ => .absent

def parseClaims (j : Json) (k : String) : Nat → Claims :=
  let tbl : List (Nat × Claims) := (jArr j k).map fun e =>
    (jNat e "key", (jArr e "claims").filterMap fun p =>
      match p with
      | .arr a => match a.toList with
        | [n, v] => some (n.getStr?.toOption.getD "", v.getStr?.toOption.getD "")
        | _ => none
      | _ => none)
  fun key => ((tbl.find? (·.1 == key)).map (·.2)).getD []

def parsePex (j : Json) (k : String) : Nat → Bool :=
  let ok := jNats j k
  fun key => ok.contains key

def parseDefs (j : Json) (k : String) : List (String × Def) :=
  (jArr j k).map fun d => (jStr d "owner", { id := jStr d "id", key := jNat d "key" })

/-- durations (ms in the facts, ns on the wire), reserved list and marshal order come from the regenerated facts -/
def msToNs (ms : Nat) : Nat := ms * 1000000

def cfgOf (j : Json) : Cfg :=
  { maxValidity := msToNs Facts.C02.s2sMaxValidityMs, nonceTtl := msToNs Facts.C02.s2sNonceTtlMs,
    tokenValidity := msToNs Facts.C02.accessTokenValidityMs, tokenTtl := msToNs Facts.C02.accessTokenStoreTtlMs,
    codeTtl := msToNs Facts.C02.oauthCodeStoreTtlMs, oauthNonceTtl := msToNs Facts.C02.oauthNonceStoreTtlMs,
    stateTtl := msToNs Facts.C02.oauthClientStateStoreTtlMs, verifierSkew := msToNs Facts.C02.verifierMaxSkewMs,
    second := 1000000000,
    emptyVpChecked := Facts.C02.emptyVpBranchComparesExpected,
    reserved := Facts.C02.reservedClaims,
    marshalOrder := Facts.C02.marshalAssignOrder,
    publicURL := jStr j "publicURL", subjects := jStrs j "subjects",
    policy := (jArr j "policy").map fun p => (jStr p "scope", parseDefs p "defs") }

structure St where
  cfg : Cfg := cfgOf Json.null
  w : World := {}
  sha : List (String × String) := []
  /-- the request-object store (`authzRequestObjectStore`): one entry per OpenID4VP leg -/
  ro : Store JarReq := []
  /-- the `nonceonce` store of ValidateDPoPProof (jti of every accepted proof) -/
  jti : Store Unit := []

/-- `subjectManager.ListDIDs(subject)[0]` of the harness world -/
def signerOf (subject : String) : String := "did:web:as.example:iam:" ++ subject

/-- the request object of the leg an authorization request opened -/
def roAfterAuthReq (st : St) (t : Nat) (subject clientId : String) : Res AuthReqOut → Store JarReq
  | .ok o => nextFlowRO st.cfg signerOf st.ro t subject clientId o.owner o.nonce o.state
  | _ => st.ro

/-- the request object of the NEXT leg an accepted authorization response opened (`200 next=…`): tenant and client of the session -/
def roAfterAuthResp (st : St) (wBefore : World) (t : Nat) (state : Option String) (ro : Store JarReq) : Res AuthOut → Store JarReq
  | .ok (.next owner n) =>
    match state with
    | some s =>
      match wBefore.states.get t s with
      | some session => nextFlowRO st.cfg signerOf ro t session.ownSubject session.clientId owner n s
      | none => ro
    | none => ro
  | _ => ro

/-- over HTTP the OAuth2 error writer turns any other error into a bare `server_error` -/
def overHTTP (http : Bool) (line : String) : String :=
  if http && line == "err:subject-not-found" then "err:server_error/other:" else line

def showResp : Res TokenResponse → String
  | .ok r => s!"200 token={r.token} type={r.tokenType} kid={r.dpopKid.getD "-"} scope={r.scope} expires_in={r.expiresIn}"
  | .err e => "err:" ++ e
  | .panic p => "panic:" ++ p

def showAuthOut : Res AuthOut → String
  | .ok (.code name cs) => s!"200 code={name} state={cs}"
  | .ok (.next owner n) => s!"200 next={owner} nonce={n}"
  | .err e => "err:" ++ e
  | .panic p => "panic:" ++ p

def showObj : Res Obj → String
  | .ok o =>
    let sorted := (o.toArray.qsort (fun a b => a.1 < b.1)).toList
    "ok " ++ String.intercalate " " (sorted.map fun p => p.1 ++ "=" ++ p.2)
  | .err e => "err:" ++ e
  | .panic p => "panic:" ++ p

def parseSession (j : Json) : Session :=
  { clientId := jStr j "client_id", scope := jStr j "scope", ownSubject := jStr j "own_subject",
    challenge := jStr j "challenge", method := jStr j "method", clientState := jStr j "client_state",
    consumer := ⟨parseDefs j "required", [], [], 0⟩ }


/-! #### request objects (jar.go) and the endpoint dispatchers -/

def parsePVal (j : Json) : PVal :=
  match jStr j "kind" with
  | "str" => .str (jStr j "v")
  | "strs" => .strs (jStrs j "l")
  | _ => .other

def parseParams (j : Json) (k : String) : Params := (jArr j k).map fun c => (jStr c "k", parsePVal c)

def fetchTable (j : Json) (k : String) : String → Option String :=
  let tbl := (jArr j k).map fun e => (jStr e "in", if jBool e "ok" then some (jStr e "out") else none)
  fun u => ((tbl.find? (·.1 == u)).map (·.2)).getD none

def parseEnv (j : Json) : JarEnv :=
  let toks := (jArr j "tokens").map fun e =>
    (jStr e "raw", if jBool e "ok" then some ({ kid := jStr e "kid", keyThumb := jStr e "thumb", claims := parseParams e "claims" } : JwtView) else none)
  let cfgs := (jArr j "configs").map fun e =>
    (jStr e "client", if jBool e "ok" then some ((jArr e "keys").map fun k => (jStr k "kid", jStr k "thumb")) else none)
  { fetchGet := fetchTable j "get", fetchPost := fetchTable j "post",
    parse := fun raw => ((toks.find? (·.1 == raw)).map (·.2)).getD none,
    config := fun c => ((cfgs.find? (·.1 == c)).map (·.2)).getD none }

def showCall : JarCall → String
  | .get u => "get(" ++ u ++ ")"
  | .post u => "post(" ++ u ++ ")"
  | .config c => "config(" ++ c ++ ")"

def grantNames : GrantNames :=
  { authorizationCode := Facts.C02.grantAuthorizationCode, preAuthorizedCode := Facts.C02.grantPreAuthorizedCode,
    vpToken := Facts.C02.grantVpToken }

def parseExtra (j : Json) : List (String × String) :=
  (jArr j "extra_form").filterMap fun p => match p with
    | .arr a => match a.toList with
      | [k, v] => some (k.getStr?.toOption.getD "", v.getStr?.toOption.getD "")
      | _ => none
    | _ => none

def parseS2S (j : Json) : S2SReq :=
  { subject := jStr j "subject", paramsPresent := jBool j "params", clientId := jStr j "client_id",
    scope := jStr j "scope", envelopeOK := jBool j "envelope_ok", submissionOK := jBool j "submission_ok",
    vps := (jArr j "vps").map parseVP, subDefId := jStr j "def_id", pex := parsePex j "pex",
    claims := parseClaims j "claims", dpop := parseDPoP (jObj j "dpop"),
    nonceFault := jStr j "fault" == "nonce-get" }

def parseCode (j : Json) : CodeReq :=
  { subject := jStr j "subject", code := optStr j "code", verifier := optStr j "verifier",
    clientId := optStr j "client_id", dpop := parseDPoP (jObj j "dpop"), extra := parseExtra j }

def shaOf (j : Json) : String → String :=
  let tbl := (jArr j "sha").map fun p => (jStr p "in", jStr p "out")
  fun v => ((tbl.find? (·.1 == v)).map (·.2)).getD ("unknown-digest:" ++ v)

def present {α} (o : Option α) : String := if o.isSome then "present" else "absent"

def step (st : St) (j : Json) : St × List String :=
  let t := jNat j "t"
  match jStr j "op" with
  | "cfg" => ({ cfg := cfgOf j, w := {}, sha := (jArr j "sha").map fun p => (jStr p "in", jStr p "out") }, ["cfg"])
  | "s2s" =>
    let r := parseS2S j
    -- `grant_type` present: the request goes through the grant_type switch of HandleTokenRequest with that value
    let (w', res) := match optStr j "grant_type" with
      | some g => tokenEndpoint st.cfg grantNames (shaOf j) st.w t r.subject g r (parseCode j)
      | none => issueS2S st.cfg st.w t r
    ({ st with w := w' }, [overHTTP (jBool j "http") (showResp res)])
  | "seed" =>
    -- the authorization-request leg: client-state session and nonce ↦ state mapping, as
    -- handleAuthorizeRequestFromHolder / nextOpenID4VPFlow store them
    let s := parseSession (jObj j "session")
    let w := st.w
    let w' := { w with states := w.states.put t st.cfg.stateTtl (jStr j "state") s,
                       oauthNonces := w.oauthNonces.put t st.cfg.oauthNonceTtl (jStr j "nonce") (jStr j "state") }
    ({ st with w := w' }, ["seeded"])
  | "authreq" =>
    let r : AuthReq := { subject := jStr j "subject", redirectURI := jStr j "redirect_uri", aud := jStr j "aud",
                         clientId := jStr j "client_id", scope := jStr j "scope", clientState := jStr j "client_state",
                         challenge := jStr j "challenge", method := jStr j "method" }
    let (w', res) := authorizeRequest st.cfg st.w t r
    let out := match res with
      | .ok o => s!"302 state={o.state} nonce={o.nonce} owner={o.owner}"
      | .err e => "err:" ++ e
      | .panic p => "panic:" ++ p
    ({ st with w := w', ro := roAfterAuthReq st t r.subject r.clientId res }, [out])
  | "authresp" =>
    let r : AuthResp :=
      { subject := jStr j "subject", state := optStr j "state", vpToken := jBool j "vp_token",
        envelopeOK := jBool j "envelope_ok", vps := (jArr j "vps").map parseVP, submission := jBool j "submission",
        submissionOK := jBool j "submission_ok", subDefId := jStr j "def_id", pex := parsePex j "pex",
        claims := parseClaims j "claims" }
    let (w', res) := authorizeResponse st.cfg st.w t r
    let out := match res with
      | .ok (.code name cs) => s!"200 code={name} state={cs}"
      | .ok (.next owner n) => s!"200 next={owner} nonce={n}"
      | .err e => "err:" ++ e
      | .panic p => "panic:" ++ p
    ({ st with w := w', ro := roAfterAuthResp st st.w t r.state st.ro res }, [out])
  | "race" =>
    let r : AuthResp :=
      { subject := jStr j "subject", state := optStr j "state", vpToken := jBool j "vp_token",
        envelopeOK := jBool j "envelope_ok", vps := (jArr j "vps").map parseVP, submission := jBool j "submission",
        submissionOK := jBool j "submission_ok", subDefId := jStr j "def_id", pex := parsePex j "pex",
        claims := parseClaims j "claims" }
    -- the serial order is the order in which the threads take their (single, atomic) step on the nonce entry
    let firstIsA := match jNats j "schedule" with | 1 :: _ => false | _ => true
    let (w', oa, ob) := raceAuthorize st.cfg st.w t r firstIsA
    let ro1 := roAfterAuthResp st st.w t r.state st.ro oa
    ({ st with w := w', ro := roAfterAuthResp st st.w t r.state ro1 ob }, [s!"race A[{showAuthOut oa}] B[{showAuthOut ob}]"])
  | "code" =>
    let r := parseCode j
    let (w', res) := match optStr j "grant_type" with
      | some g => tokenEndpoint st.cfg grantNames (shaOf j) st.w t r.subject g (parseS2S j) r
      | none => issueCode st.cfg (shaOf j) st.w t r
    ({ st with w := w' }, [overHTTP (jBool j "http") (showResp res)])
  | "authz" =>
    let q := jObj j "q"
    let query : JarQuery := ⟨jStr q "request", jStr q "request_uri", jStr q "request_uri_method", jStr q "client_id"⟩
    let r : AuthzHttp := ⟨jStr j "subject", query⟩
    let (w', calls, res) := authorizeEndpoint st.cfg (jBool j "enabled") (parseEnv j) st.w t r
    let out := match res with
      | .ok o => s!"302 state={o.state} nonce={o.nonce} owner={o.owner}"
      | .err e => "err:" ++ e
      | .panic p => "panic:" ++ p
    let cs := String.intercalate " " (calls.map showCall)
    ({ st with w := w', ro := roAfterAuthReq st t r.subject query.clientId res },
     ["calls=[" ++ cs ++ "] " ++ overHTTP (jBool j "http") out])
  | "introspect" =>
    let res := if jBool j "extended" then introspectExtended st.cfg st.w t (jStr j "token")
               else introspectPlain st.cfg st.w t (jStr j "token")
    (st, [showObj res])
  | "probe" =>
    let k := jStr j "key"
    let out := match jStr j "store" with
      | "s2snonce" => present (st.w.s2sNonces.get t k)
      | "oauthnonce" => present (st.w.oauthNonces.get t k)
      | "code" => present (st.w.codes.get t k)
      | "state" => present (st.w.states.get t k)
      | "token" => present (st.w.tokens.get t k)
      | o => "bad-store:" ++ o
    (st, [out])
  | "reqobj" =>
    -- RequestJWTByGet / RequestJWTByPost: the claims handed to the signer (the members this model follows)
    let (ro', res) := requestJWT st.cfg st.ro t (jStr j "method" == "post") (jStr j "id") (jStr j "subject")
      (optStr j "wallet_issuer") (optStr j "wallet_nonce")
    let out := match res with
      | .ok claims =>
        let keys := ["aud", "client_id", "iss", "nonce", "response_mode", "response_type", "state", "wallet_nonce"]
        "ok " ++ String.intercalate " " (keys.map fun k => k ++ "=" ++ ((objGet claims k).getD "-"))
      | .err e => "err:" ++ e
      | .panic p => "panic:" ++ p
    ({ st with ro := ro' }, [out])
  | "dpopval" =>
    -- dpop.go ValidateDPoPProof: what dpop.Parse read is data; the jti store is the model's
    let d := jObj j "dpv"
    let ath : AthClaim := match jStr d "p_ath" with
      | "absent" => .absent
      | "str" => .str (jStr d "p_ath_v")
      | _ => .other
    let proof : Option DPoPProof :=
      if jBool d "parsed" then some ⟨jStr d "p_jkt", jStr d "htm", optStr d "p_htu", ath, jStr d "jti"⟩ else none
    -- `thumb_from`: the resource server takes cnf.jkt from the (plain) introspection answer for that token, "" without one
    let thumb := match optStr d "thumb_from" with
      | some tk => match introspectPlain st.cfg st.w t tk with
        | .ok obj => String.ofList ((((objGet obj "cnf").getD "{\"jkt\":\"\"}").toList.drop 8).reverse.drop 2).reverse
        | _ => ""
      | none => jStr d "thumb"
    let c : DPoPCheck := { proof := proof, thumbprint := thumb, method := jStr d "method", url := optStr d "s_url",
                           token := jStr d "token", fault := jStr j "fault" == "jti-get" }
    let (jti', res) := validateDPoP (fun tk => "ath:" ++ tk) st.cfg.tokenValidity t st.jti c
    let out := match res with
      | .ok .valid => "valid"
      | .ok (.invalid r) => "invalid:" ++ r
      | .err e => "err:" ++ e
      | .panic p => "panic:" ++ p
    ({ st with jti := jti' }, [out])
  | "polload" =>
    -- policy/local.go: Configure on a generated directory, then PresentationDefinitions for the probe scopes
    let entries : List DirEntry := (jArr j "entries").map fun e =>
      { name := jStr e "name", isDir := jBool e "is_dir",
        content := if jBool e "ok" then some ((jArr e "scopes").map fun sc => (jStr sc "scope", parseDefs sc "defs")) else none }
    let dir : DirState := match jStr j "dir" with
      | "unset" => .unset
      | "missing-default" => .missingDefault
      | "present" => .present entries
      | _ => .unreadable
    let out := match configurePolicy dir with
      | .ok pol =>
        let show1 := fun (scope : String) => match lookupPolicy pol scope with
          | none => scope ++ "=-"
          | some defs =>
            let sorted := (defs.toArray.qsort (fun a b => a.1 < b.1)).toList
            scope ++ "=" ++ String.intercalate "," (sorted.map fun d => d.1 ++ ":" ++ d.2.id)
        "ok " ++ String.intercalate " " ((jStrs j "probes").map show1)
      | .err e => "err:" ++ e
      | .panic p => "panic:" ++ p
    (st, [out])
  | "tokskew" =>
    -- harness fixture: the stored record's Expiration moved to `ms` before now, entry re-put (full TTL): record expired, entry alive
    let name := jStr j "token"
    match st.w.tokens.get t name with
    | some rec =>
      let rec' := { rec with expiration := t - jNat j "ms" * 1000000 }
      ({ st with w := { st.w with tokens := st.w.tokens.put t st.cfg.tokenTtl name rec' } }, ["skewed"])
    | none => (st, ["absent"])
  | "onceonly" => (st, ["once-only max-fresh=1"])   -- PutIfAbsent is one atomic step of the model's store
  | "advance" => (st, ["advanced"])   -- time is carried by every operation
  | o => (st, ["bad-op:" ++ o])

end Nuts.Drv.C02

def main : IO Unit := do
  Nuts.Drv.loop (← IO.getStdin) (← IO.getStdout) Nuts.Drv.C02.step ({} : Nuts.Drv.C02.St)
