import Driver.Util
import NutsModel.C01.Verifier
import NutsModel.C01.Subject
import NutsModel.C01.CaseVariant
import NutsModel.C01.RevStore
import NutsModel.C01.Iam
import NutsModel.Facts.C01
open Lean Nuts.Drv Nuts.C01 Nuts

namespace Nuts.Drv.C01

/-- the model instantiated with what the source says today -/
def cfg : Cfg := { maxSkew := Nuts.Facts.C01.maxSkewMs, supportedAlgs := Nuts.Facts.C01.supportedAlgs }

structure Ver where
  frm : Int
  deact : Bool
  assertion : List (String × Key)
  base : Option String := none

structure St where
  hist : List (String × List Ver) := []
  asOf : Int := 0
  revoked : List String := []
  trust : TrustStore := []
  lists : List (String × String × List Nat) := []
  kinds : List (String × String) := []

def optInt (j : Json) (k : String) : Option Int :=
  match j.getObjVal? k with
  | .ok v => v.getInt?.toOption
  | _ => none

def optStr (j : Json) (k : String) : Option String :=
  match j.getObjVal? k with
  | .ok (.str s) => some s
  | _ => none

def parseProof (j : Json) : ProofShape :=
  match jStr j "shape" with
  | "absent" => .absent
  | "one" => .one { typ := jStr j "typ", vm := jStr j "vm", purpose := jStr j "purpose", created := jInt j "created",
                    expires := optInt j "expires", domain := optStr j "domain", challenge := optStr j "challenge",
                    nonce := optStr j "nonce", jws := jStr j "jws" }
  | _ => .malformed

def parseJwt (j : Json) : Option JwtInfo :=
  match j.getObjVal? "jwt" with
  | .ok jj => some { kid := jStr jj "kid", alg := jStr jj "alg", nbf := optInt jj "nbf", exp := optInt jj "exp", iat := optInt jj "iat", sig := jStr jj "sig" }
  | _ => none

def parseFormat (s : String) : Nuts.C01.Format :=
  if s == "ldp_vc" || s == "ldp_vp" then .ld else if s == "jwt_vc" || s == "jwt_vp" then .jwt else .other

def parseStatus (j : Json) : Status :=
  let s : Status := { id := jStr j "id", typ := jStr j "typ", purpose := jStr j "purpose", listCred := jStr j "listCred",
                      indexText := (if jHas j "indexText" then jStr j "indexText" else match optInt j "index" with | some i => toString i | none => "x"), entryValid := jBool j "entryValid" }
  -- since the deepening round the verdict of StatusList2021Entry.Validate is COMPUTED by the model for StatusList2021Entry statuses
  if jHas j "urlOK" && s.typ == statusListEntryType then { s with entryValid := entryValidOf (jBool j "unmarshals") (jBool j "urlOK") { s with id := jStr j "entryId" } } else s

def parseCred (j : Json) : Cred :=
  { format := parseFormat (jStr j "fmt")
    ctx := jStrs j "ctx", id := optStr j "id", types := jStrs j "types", issuer := jStr j "issuer"
    issued := jInt j "issued", expires := optInt j "expires"
    subjects := match j.getObjVal? "subjects" with
      | .ok (.arr a) => some (a.toList.map (fun x => match x with | .str "" => SubjId.empty | .str s => .did s | _ => .empty))
      | _ => none
    statuses := match j.getObjVal? "statuses" with
      | .ok (.arr a) => some (a.toList.map parseStatus)
      | _ => none
    proof := if jHas j "proof" then parseProof (jObj j "proof") else .absent
    nProofs := jNat j "nProofs", shapeOK := jBool j "shapeOK", jwt := parseJwt j
    raw := jStr j "raw", cd := jStr j "cd", caseVariant := jBool j "caseVariant" }

def parsePres (j : Json) : Pres :=
  { format := parseFormat (jStr j "fmt"), holder := optStr j "holder", vcs := (jArr j "vcs").map parseCred
    nProofs := jNat j "nProofs", proofDecodes := if jHas j "proofDecodes" then jBool j "proofDecodes" else true
    signerVM := jStr j "signerVM"
    proof := if jHas j "proof" then parseProof (jObj j "proof") else .absent
    jwt := parseJwt j, jwtParses := if jHas j "jwtParses" then jBool j "jwtParses" else true
    raw := jStr j "raw", cd := jStr j "cd", caseVariant := jBool j "caseVariant" }

/-- measured signature facts of one document: (key, message, signature) triples for which the real check passed,
    and the measured canonical digest of its proof options -/
def sigFacts (j : Json) : List (Key × Bytes × Sig) × List (Proof × String) :=
  let keys := jStrs j "sigKeys"
  match parseFormat (jStr j "fmt") with
  | .jwt =>
    let sg := match parseJwt j with | some x => x.sig | none => ""
    (keys.map (fun k => (k, "jwt:" ++ jStr j "raw", sg)), [])
  | _ =>
    match (if jHas j "proof" then parseProof (jObj j "proof") else .absent) with
    | .one p => (keys.map (fun k => (k, jStr j "cp" ++ "|" ++ jStr j "cd", p.jws)), [(p.options, jStr j "cp" ++ "|")])
    | _ => ([], [])

def lookupTable (j : Json) (k : String) (s : String) : Option String :=
  match (jObj j k).getObjVal? s with
  | .ok (.str d) => some d
  | _ => none

def resolveAt (st : St) (at_ : Option Time) (d : String) : Option DidDoc :=
  match st.hist.find? (fun p => p.1 == d) with
  | none => none
  | some (_, vs) =>
    let t := at_.getD st.asOf
    match (vs.filter (fun v => v.frm ≤ t)).getLast? with
    | none => none
    | some v => if v.deact then none else some { assertion := v.assertion, base := v.base }

def envOf (st : St) (op : Json) : Env :=
  { now := jInt op "now"
    resolve := resolveAt st
    storeFails := jBool op "storeFails"
    revoked := fun id => st.revoked.contains id
    statusList := fun url => match st.lists.find? (fun x => x.1 == url) with
      | some (_, purpose, revoked) => some { purpose := purpose, bit := fun i => some (revoked.contains i) }
      | none => none
    trusted := isTrusted st.trust
    parseDID := lookupTable op "dids"
    didOfURL := lookupTable op "urls" }

def cryptoOfK (kinds : List (String × String)) (facts : List (Key × Bytes × Sig)) (cps : List (Proof × String)) : Crypto :=
  { keyKind := fun k => match kinds.find? (fun p => p.1 == k) with | some p => p.2 | none => "P-256"
    canon := fun c => c.cd
    canonVP := fun vp => vp.cd
    canonProof := fun p => match cps.find? (fun q => q.1 == p) with | some q => q.2 | none => "?|"
    digest := id
    jwtInput := fun raw => "jwt:" ++ raw
    sigOK := fun k m s => facts.contains (k, m, s) }

def optBool (j : Json) (k : String) : Option Bool :=
  match j.getObjVal? k with
  | .ok (.bool b) => some b
  | _ => none

def showRes (r : Res Unit) : String :=
  match r with
  | .ok _ => "ok"
  | .err e => "err:" ++ e
  | .panic _ => "panic"

/-! deepening round: subject validators and util.go helpers -/

def parseResource (j : Json) : Resource := { path := jStr j "path", operations := jStrs j "operations" }

def parseSubjOrg (j : Json) : SubjectView :=
  { n := jNat j "n", id := jStr j "id", orgNil := if jHas j "orgNil" then jBool j "orgNil" else true,
    orgName := optStr j "orgName", orgCity := optStr j "orgCity" }

def parseSubjAuth (j : Json) : SubjectView :=
  { n := jNat j "n", id := jStr j "id", purposeOfUse := jStr j "purposeOfUse", resources := (jArr j "resources").map parseResource }

def validOps : List String := Nuts.Facts.C01.validOperationTypes

/-- the credential with `shapeOK` COMPUTED by the model from the decoded subject -/
def credWithSubject (E : Env) (d : Json) : Cred :=
  let c := parseCred d
  let sv := match findValidator c.types with
    | .auth => parseSubjAuth (jObj d "subjAuth")
    | _ => parseSubjOrg (jObj d "subjOrg")
  c.withSubject validOps E sv

/-- documents of the main harness carry the decoded subjects since the deepening round (older corpus files do not: `shapeOK` as measured) -/
def parseCredE (E : Env) (j : Json) : Cred := if jHas j "subjAuth" then credWithSubject E j else parseCred j

def parsePresE (E : Env) (j : Json) : Pres := { parsePres j with vcs := (jArr j "vcs").map (parseCredE E) }

/-- the harness' encoding of a decoded JSON value: null = leaf, {"o": [[foldedName, child], …]} = object, {"a": [child, …]} = array
    (fuel = nesting depth; the generator stays far below) -/
def parseTree : Nat → Json → JTree
  | 0, _ => .leaf
  | n + 1, j =>
    match j.getObjVal? "o" with
    | .ok (.arr ms) => .obj (ms.toList.map (fun m => match m with
        | Json.arr #[Json.str name, child] => (name, parseTree n child)
        | _ => ("", .leaf)))
    | _ =>
      match j.getObjVal? "a" with
      | .ok (.arr xs) => .arr (xs.toList.map (parseTree n))
      | _ => .leaf

def showOptTime (t : Option Time) : String := match t with | none => "nil" | some x => toString x

def showDate (r : Res (Option Time)) : String :=
  match r with | .ok t => showOptTime t | .err e => "err:" ++ e | .panic _ => "PANIC"

def parseMethodView (j : Json) : MethodView :=
  { issuerMethod := optStr j "issuerMethod"
    subjects := match j.getObjVal? "subjects" with
      | .ok (.arr a) => some (a.toList.map (fun x => match x with
          | Json.arr #[Json.str id, Json.str m] => (id, some m)
          | Json.arr #[Json.str id, _] => (id, none)
          | _ => ("", none)))
      | _ => none }

def parseSelfAttested (j : Json) : SelfAttested :=
  { nProofs := jNat j "nProofs", id := optStr j "id", issuer := jStr j "issuer", issued := jInt j "issued",
    nSubjects := (optInt j "nSubjects").map Int.toNat, subject0HasId := jBool j "subject0HasId", subject0Id := optStr j "subject0Id" }

def showBool (b : Bool) : String := if b then "true" else "false"

def step (st : St) (j : Json) : St × List String :=
  match jStr j "op" with
  | "case-variant" =>
    let top := (jArr j "top").map (fun p => match p with
      | Json.arr #[Json.str m, Json.arr fs] => (m, fs.toList.filterMap (fun (x : Json) => x.getStr?.toOption))
      | _ => ("", []))
    (st, [if caseVariantMember top (parseTree 64 (jObj j "tree")) then "variant" else "clean"])
  | "regrev" =>
    let v := jObj j "rev"
    let E := envOf st j
    let r : Rev := { subject := jStr v "subject", fragment := jStr v "fragment", hasContext := jBool v "hasContext", typeOK := jBool v "typeOK",
                     issuer := jStr v "issuer", date := jInt v "date", hasProof := jBool v "hasProof", vm := jStr v "vm", proofDecodes := jBool v "proofDecodes" }
    let keys := jStrs v "sigKeys"
    let (line, store) := match registerRevocation E (fun k _ => keys.contains k) true [] r with
      | .ok s => ("ok", s) | .err e => ("rejected:" ++ e, []) | .panic _ => ("panic", [])
    (st, [line ++ " revoked=" ++ (match isRevoked (getRevocations (findIn store r.subject)) with | .yes => "true" | .no => "false" | .error => "false+error")])
  | "s2s-vp" =>
    match j.getObjVal? "doc" with
    | .ok .null => (st, ["unparseable"])
    | .ok d =>
      let E := envOf st j
      let vp := parsePresE E d
      let validity := match validateS2SMaxValidity Nuts.Facts.C01.s2sMaxValidityMs vp with
        | .ok _ => "ok" | .err e => e | .panic _ => "panic"
      let signer := match validatePresentationSigner E vp (jStr j "expected") with
        | .ok s => s | .err e => "err:" ++ e | .panic _ => "panic"
      (st, ["validity=" ++ validity ++ " signer=" ++ signer])
    | _ => (st, ["unparseable"])
  | "revstore" =>
    let f : FindOut := if jBool j "fault" then .error else
      .docs ((jArr j "docs").map (fun x => match x with | Json.bool b => b | _ => false))
    let g := getRevocations f
    let one := match getRevocation g with | .ok _ => "ok" | .err _ => "err" | .panic _ => "panic"
    (st, ["get=" ++ g.show ++ " revoked=" ++ (isRevoked g).show ++ " one=" ++ one])
  | "rune-tables" =>
    let sp := (List.range 0x3100).filter (fun n => isGoSpace (Char.ofNat n))
    let lo := ((List.range 0x3100).filter (fun n => n ≥ 0x80 && (lowerRune (Char.ofNat n)).toNat < 0x80)).map
      (fun n => toString n ++ ">" ++ String.singleton (lowerRune (Char.ofNat n)))
    (st, ["space=" ++ String.intercalate "," (sp.map toString) ++ ";lower=" ++ String.intercalate "," lo])
  | "validate" =>
    match j.getObjVal? "doc" with
    | .ok .null => (st, ["unparseable"])
    | .ok d =>
      let E := envOf st j
      (st, [match validate E (credWithSubject E d) with | .pass => "ok" | .fail _ => "invalid" | .panic _ => "panic"])
    | _ => (st, ["unparseable"])
  | "pres-dates" =>
    match j.getObjVal? "doc" with
    | .ok .null => (st, ["unparseable"])
    | .ok d =>
      let vp := parsePres d
      (st, ["iss=" ++ showDate (presentationIssuanceDate vp) ++ " exp=" ++ showDate (presentationExpirationDate vp)])
    | _ => (st, ["unparseable"])
  | "filter-method" =>
    match j.getObjVal? "creds" with
    | .ok (.arr a) =>
      let views := a.toList.map parseMethodView
      let idx := filterOnDIDMethod (fun (p : Nat × MethodView) => p.2) ((List.range views.length).zip views) (jStrs j "methods")
      (st, ["keep=" ++ String.intercalate "," (idx.map (fun p => toString p.1))])
    | _ => (st, ["unparseable"])
  | "autocorrect" =>
    match j.getObjVal? "c" with
    | .ok .null => (st, ["unparseable"])
    | .ok cj =>
      let c := parseSelfAttested cj
      let r := autoCorrect c (jStr j "requester") "NEW" 1000
      let idS := match r.id with | none => "nil" | some x => if c.id.isNone then "NEW" else x
      let issued := if r.issued != c.issued then "NOW" else toString r.issued
      let nS := match r.nSubjects with | none => "null" | some n => toString n
      (st, [s!"proofs={r.nProofs} id={idS} issuer={r.issuer} issued={issued} n={nS} has={showBool r.subject0HasId} s0={r.subject0Id.getD "nil"}"])
    | _ => (st, ["unparseable"])
  | "world" =>
    let hist := match j.getObjVal? "hist" with
      | .ok (.obj kvs) => kvs.toList.map (fun (d, vs) =>
          (d, (match vs with | Json.arr a => a.toList | _ => []).map (fun v =>
            ({ frm := jInt v "from", deact := jBool v "deact", base := (optStr v "base").filter (· != ""),
               assertion := (jArr v "assertion").map (fun p => match p with
                 | Json.arr #[Json.str a, Json.str b] => (a, b) | _ => ("", "")) } : Ver))))
      | _ => []
    let kinds := match j.getObjVal? "keyKinds" with
      | .ok (.obj kvs) => kvs.toList.filterMap (fun (k, v) => match v with | Json.str s => some (k, s) | _ => none)
      | _ => st.kinds
    ({ st with hist := hist, asOf := jInt j "asOf", kinds := kinds }, ["world"])
  | "reset" => ({}, ["reset"])
  | "statuslist" =>
    let ls := st.lists.filter (fun x => x.1 != jStr j "url")
    ({ st with lists := if jBool j "available" then (jStr j "url", jStr j "purpose", jNats j "revoked") :: ls else ls }, ["statuslist"])
  | "trust" =>
    let tr := if jBool j "add" then addTrust st.trust (jStr j "type") (jStr j "issuer") else removeTrust st.trust (jStr j "type") (jStr j "issuer")
    ({ st with trust := tr }, ["trust"])
  | "trustfile" =>
    -- a (hand-edited) trust file loaded into a fresh config
    let file : TrustStore := match j.getObjVal? "content" with
      | .ok (.obj kvs) => kvs.toList.map (fun (t, l) => (t, (match l with | Json.arr a => a.toList | _ => []).filterMap (fun (x : Json) => x.getStr?.toOption)))
      | _ => []
    ({ st with trust := loadTrust [] file }, ["trustfile"])
  | "restart" =>
    -- the verifier node restarts: its trust store is what the file (written by every Add/RemoveTrust) holds
    ({ st with trust := loadTrust [] st.trust }, ["restart"])
  | "revoke" =>
    -- the revocation's own verification is C11's subject; here the registered outcome is an input
    if jBool j "registered" then ({ st with revoked := jStr j "id" :: st.revoked }, ["revocation:ok"])
    else (st, ["revocation:" ++ "rejected"])
  | "expect" =>
    -- legs judged by an implementation-side oracle only: the op carries what the property demands
    (st, [jStr j "expect"])
  | "wallet-list" =>
    -- sqlWallet.List on the issuer node: its own revocation store / managed status lists come with the op
    let docs := jArr j "creds"
    let all := docs.map sigFacts
    let P := cryptoOfK st.kinds (all.foldr (fun x acc => x.1 ++ acc) []) (all.foldr (fun x acc => x.2 ++ acc) [])
    let E : Env := { envOf st j with
      revoked := fun id => (jStrs j "revoked").contains id
      statusList := fun url => match (jArr j "lists").find? (fun l => jStr l "url" == url) with
        | some l => some { purpose := jStr l "purpose", bit := fun i => some ((jNats l "revoked").contains i) }
        | none => none }
    let listed := walletList cfg P E (docs.map (parseCredE E))
    (st, ["wallet:" ++ String.intercalate "," ((listed.filterMap (·.id)).toArray.qsort (· < ·)).toList])
  | "wallet-present" =>
    let docs := jArr j "creds"
    let all := docs.map sigFacts
    let P := cryptoOfK st.kinds (all.foldr (fun x acc => x.1 ++ acc) []) (all.foldr (fun x acc => x.2 ++ acc) [])
    let r := walletValidate cfg P (envOf st j) (jInt j "created") (docs.map (parseCredE (envOf st j)))
    (st, [match r with | .ok _ => "ok" | .err _ => "err:invalid-credential" | .panic _ => "panic"])
  | "issue" =>
    -- the real issuer.Issue vs the model's `issue` (signing is a toy function here: only the outcome class is compared)
    match j.getObjVal? "template" with
    | .ok .null => (st, ["bad-op:issue-template"])
    | .ok tj =>
      let u := parseCredE (envOf { st with asOf := jInt j "asOf" } j) tj
      let t : Template := { ctx := jStrs j "templateCtx", types := jStrs j "templateTypes", issuer := u.issuer, expires := u.expires,
                            subjects := u.subjects, shapeOK := u.shapeOK, claims := u.claims }
      let st' := { st with asOf := jInt j "asOf" }
      let E := envOf st' j
      let P := cryptoOfK st.kinds [] []
      let r := issue P E (fun _ _ => "sig") (fun _ => jBool j "allDefined") (fun _ => "raw") (parseFormat (jStr j "fmt")) t "u" (jInt j "now")
      (st, [match r with | .ok _ => "ok" | .err e => "err:" ++ e | .panic _ => "panic"])
    | _ => (st, ["bad-op:issue"])
  | "vc" =>
    match j.getObjVal? "doc" with
    | .ok .null => (st, ["unparseable"])
    | .ok d =>
      let c := parseCredE (envOf st j) d
      let (facts, cps) := sigFacts d
      let r := if jStr j "via" == "api" then apiVerifyVC cfg (cryptoOfK st.kinds facts cps) (envOf st j) (optBool j "option") c
               else if jStr j "via" == "sig" then runChecks (signatureChecks cfg (cryptoOfK st.kinds facts cps) (envOf st j) (optInt j "at") c) c
               else verify cfg (cryptoOfK st.kinds facts cps) (envOf st j) (jBool j "allowUntrusted") (jBool j "checkSig") (optInt j "at") c
      (st, [showRes r])
    | _ => (st, ["unparseable"])
  | "vp" =>
    match j.getObjVal? "doc" with
    | .ok .null => (st, ["unparseable"])
    | .ok d =>
      let vp := parsePresE (envOf st j) d
      let all := (sigFacts d) :: (jArr d "vcs").map sigFacts
      let facts := all.foldr (fun x acc => x.1 ++ acc) []
      let cps := all.foldr (fun x acc => x.2 ++ acc) []
      let r := if jStr j "via" == "api" then apiVerifyVP cfg (cryptoOfK st.kinds facts cps) (envOf st j) (optBool j "option") (optInt j "at") vp
               else verifyVP cfg (cryptoOfK st.kinds facts cps) (envOf st j) (jBool j "checkSig") (jBool j "allowUntrusted") (optInt j "at") vp
      (st, [match r with | .ok _ => s!"ok n={vp.vcs.length}" | _ => showRes r])
    | _ => (st, ["unparseable"])
  | o => (st, ["bad-op:" ++ o])

end Nuts.Drv.C01

def main : IO Unit := do
  Nuts.Drv.loop (← IO.getStdin) (← IO.getStdout) Nuts.Drv.C01.step ({} : Nuts.Drv.C01.St)
