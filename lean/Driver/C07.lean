import Driver.Proto

def main : IO Unit := do
  Nuts.Drv.loop (← IO.getStdin) (← IO.getStdout) Nuts.Drv.Proto.step ({} : Nuts.Drv.Proto.DSt)
