import Driver.Proto
import NutsModel.C07.Dispatch
import NutsModel.C07.Addr
import NutsModel.C07.ConvLock
import NutsModel.Facts.C07
open Lean Nuts.Drv Nuts.Proto Nuts.Proto.Disp

/-! C07 adds the dispatcher op `disp` (NutsModel/C07/Dispatch.lean run with the REGENERATED switch table, channel capacity
    and `allowedErrors`); every other op is the shared protocol driver's. -/

namespace Nuts.Drv.C07Disp

def params : Params :=
  { cfg := Nuts.Drv.Proto.baseCfg, env := { decode := fun _ _ => .fail, order := id, dec := fun _ _ => .fail },
    rt := routeOf Nuts.Facts.C07.dispatchTable, cap := Nuts.Facts.C07.outboxHardLimit, allowed := Nuts.Facts.C07.allowedErrors }

def retName : Option HErr → String
  | none => "nil"
  | some .notSupported => "notsup"
  | some .internal => "internal"
  | some .canceled => "canceled"
  | some (.other _) => "other"

def ranges (ids : List Nat) : String :=
  match ids with
  | [] => "-"
  | a :: r =>
    let fl := fun (s p : Nat) => if s == p then toString s else s!"{s}..{p}"
    let (parts, s, p) := r.foldl (fun (acc : List String × Nat × Nat) x =>
      let (parts, s, p) := acc
      if x == p + 1 then (parts, s, x) else (parts ++ [fl s p], x, x)) ([], a, a)
    ",".intercalate (parts ++ [fl s p])

def retStr (rs : List String) : String :=
  let ks := ["nil", "notsup", "internal", "canceled", "other"].filterMap (fun c =>
    let k := (rs.filter (· == c)).length
    if k > 0 then some s!"{c}*{k}" else none)
  if ks.isEmpty then "-" else "|".intercalate ks

def peer : Peer := { key := 1 }

def msgId : Msg → Nat
  | .txList cid _ _ _ => cid.2
  | _ => 0

/-- k arrivals of the messages `mk i`; returns the new state and the results of `Handle` -/
def arriveN (d : DNode) (ms : List Msg) : DNode × List String :=
  ms.foldl (fun (acc : DNode × List String) m =>
    let r := Handle params.allowed params.rt params.cap acc.1 peer m
    (r.1, acc.2 ++ [retName r.2])) (d, [])

def group (st : DNode × Nat × List String) (g : Json) : DNode × Nat × List String :=
  let (d, next, out) := st
  let gi := out.length
  let code := match g.getArrVal? 0 with | .ok (Json.str s) => s | _ => "?"
  let k := match g.getArrVal? 1 with | .ok j => (j.getNat?.toOption.getD 0) | _ => 0
  match code with
  | "L" =>
    let (d', rs) := arriveN d ((List.range k).map (fun i => Msg.txList (0, next + i) 1 1 []))
    (d', next + k, out ++ [s!"g{gi}=L{k}:{retStr rs}:chan={d'.chan.length}"])
  | "U" =>
    let (d', rs) := arriveN d (List.replicate k Msg.unsupported)
    (d', next, out ++ [s!"g{gi}=U{k}:{retStr rs}:chan={d'.chan.length}"])
  | "D" =>
    -- every arrival starts a goroutine, the harness waits for it: arrive, then asyncRun 0
    let (d', rs, ran) := (List.range k).foldl (fun (acc : DNode × List String × Nat) _ =>
      let r := Handle params.allowed params.rt params.cap acc.1 peer Msg.diagnostics
      let s := stepEv params r.1 (.asyncRun 0)
      (s.1, acc.2.1 ++ [retName r.2], acc.2.2 + s.2.length)) (d, [], 0)
    (d', next, out ++ [s!"g{gi}=D{k}:{retStr rs}:ran={ran}"])
  | "R" =>
    let r := run params d (List.replicate d.chan.length .listRun)
    (r.1, next, out ++ [s!"g{gi}=R:drained:{ranges (r.2.map (fun x => msgId x.2))}:chan={r.1.chan.length}"])
  | _ => (d, next, out ++ [s!"g{gi}=?"])

def stepDisp (j : Json) : String :=
  let (_, _, out) := (jArr j "evs").foldl group (({ node := { id := 0 } } : DNode), 0, [])
  " ".intercalate ([s!"disp cap={params.cap}"] ++ out)

end Nuts.Drv.C07Disp

namespace Nuts.Drv.C07Addr
open Nuts.Proto.Addr

/-! op `addr`: `(*protocol).sendGossip` on a generated connection list, with the REGENERATED query
    (Facts.C07.sendGossipQuery read by `queryOfSrc`; an argument the model cannot read prints `unmapped`). -/

def peerOf (j : Json) : TPeer := { id := jStr j "id", did := jStr j "did", addr := jStr j "addr" }

def connOf (j : Json) : Conn :=
  { peer := peerOf j, connected := jBool j "conn", authenticated := jBool j "auth", sendOK := jBool j "ok" }

def stepAddr (j : Json) : String :=
  let p := peerOf (jObj j "peer")
  let l := (jArr j "conns").map connOf
  match queryOfSrc p Nuts.Facts.C07.sendGossipQuery with
  | none => "addr unmapped"
  | some q =>
    let r := sendGossipWith q l
    let tk := match r.target with
      | some i => (match l[i]? with | some c => s!"{i}:{c.peer.key}" | none => s!"{i}:?")
      | none => "none"
    let owners := (List.range l.length).filter (fun i => match l[i]? with
      | some c => c.connected && c.peer.key == p.key | none => false)
    s!"addr pk={p.key} target={tk} cleared={r.cleared} owners=[{",".intercalate (owners.map toString)}]"

end Nuts.Drv.C07Addr

namespace Nuts.Drv.C07ConvLock
open Nuts.Proto Nuts.Proto.ConvLock

/-! op `convlock`: the conversation functions of the model (Dag.lean) called directly; the lock token of a method comes from
    the REGENERATED event list (Facts.C07.convLockEvents) through `methodOK`. -/

def lockTok (method : String) : String :=
  match Nuts.Facts.C07.convLockEvents.find? (fun m => m.1 == method) with
  | some m => if methodOK m.2 then "free" else "held"
  | none => "nomethod"

structure St where
  n : Node := { id := 0 }
  started : List Cid := []
  out : List String := []

def call (cfg0 : Cfg) (s : St) (c : Json) : St :=
  let name0 := match c.getArrVal? 0 with | .ok (Json.str x) => x | _ => "?"
  -- a leading "x": the call runs with validity 0 (what it creates / resets is expired at once)
  let expired := name0.startsWith "x"
  let name : String := if expired then String.ofList (name0.toList.drop 1) else name0
  let cfg : Cfg := if expired then { cfg0 with validity := 0 } else cfg0
  let k := match c.getArrVal? 1 with | .ok j => (j.getNat?.toOption.getD 0) | _ => 0
  let pick : Option Cid := if s.started.isEmpty then none else s.started[k % s.started.length]?
  let fin := fun (n : Node) (started : List Cid) (tok method : String) =>
    { s with n := n, started := started, out := s.out ++ [s!"{if expired then "x" else ""}{tok}:{lockTok method}:n={n.convs.length}"] }
  let start := fun (data : ConvData) =>
    match startConversation cfg s.n k data with
    | none => fin s.n s.started s!"{name}:p{k}:refused" "startConversation"
    | some (n', cid) => fin n' (s.started ++ [cid]) s!"{name}:p{k}:ok" "startConversation"
  match name with
  | "startR" => start (.rangeQuery 0 0)
  | "startL" => start (.listQuery [])
  | "startS" => start (.state 0)
  | "done" =>
    match pick with
    | some cid => fin (convDone s.n cid) s.started s!"done:{k % s.started.length}" "done"
    | none => fin s.n s.started "done:skip" "done"
  | "reset" =>
    match pick with
    | some cid => fin (resetTimeout cfg s.n cid) s.started s!"reset:{k % s.started.length}" "resetTimeout"
    | none => fin s.n s.started "reset:skip" "resetTimeout"
  | "evict" => fin (evict s.n) s.started "evict" "evict"
  | "check" => fin s.n s.started "check:unknown" "check"
  | _ => fin s.n s.started s!"{name}:?" "?"

def stepConvLock (j : Json) : String :=
  let cfg : Cfg := { Nuts.Drv.Proto.baseCfg with validity := if jBool j "valid" then Nuts.Drv.Proto.baseCfg.validity else 0 }
  let s := (jArr j "calls").foldl (call cfg) {}
  " ".intercalate (["convlock"] ++ s.out)

end Nuts.Drv.C07ConvLock

def step07 (d : Nuts.Drv.Proto.DSt) (j : Json) : Nuts.Drv.Proto.DSt × List String :=
  match jStr j "op" with
  | "disp" => (d, [Nuts.Drv.C07Disp.stepDisp j])
  | "addr" => (d, [Nuts.Drv.C07Addr.stepAddr j])
  | "convlock" => (d, [Nuts.Drv.C07ConvLock.stepConvLock j])
  | _ => Nuts.Drv.Proto.step d j

def main : IO Unit := do
  Nuts.Drv.loop (← IO.getStdin) (← IO.getStdout) step07 ({} : Nuts.Drv.Proto.DSt)
