import Driver.C10

def main (args : List String) : IO UInt32 := do
  let inp ← IO.getStdin
  let out ← IO.getStdout
  match args with
  | ["C10"] => Nuts.Drv.C10.main inp out; return 0
  | _ => IO.eprintln "usage: nutsmodel <area>"; return 2
