import Driver.Util
import NutsModel.C06.Admit
import NutsModel.C06.Cfg
import NutsModel.C06.Framing
import NutsModel.C06.Shelf
import NutsModel.C06.Create
open Lean Nuts.Drv Nuts.C06 Nuts

namespace Nuts.Drv.C06

def hexNat (s : String) : Nat := ((parseHex s).getD 0)

def hexDigitC (n : Nat) : Char := if n < 10 then Char.ofNat (n + '0'.toNat) else Char.ofNat (n - 10 + 'a'.toNat)

/-- first 8 hex digits of the 64-digit rendering -/
def short (r : Nat) : String :=
  let top := r / 16 ^ 56
  String.ofList ((List.range 8).map fun i => hexDigitC ((top / 16 ^ (7 - i)) % 16))

def quote (s : String) : String :=
  "\"" ++ String.join (s.toList.map fun c => if c = '"' then "\\\"" else if c = '\\' then "\\\\" else c.toString) ++ "\""

def parseEl (j : Json) : El :=
  match j.getObjVal? "s" with
  | .ok (.str s) => .str s
  | _ => if jHas j "n" then .null else .other

def parseJ (j : Json) : J :=
  match jStr j "t" with
  | "null" => .null
  | "bool" => .bool (jBool j "v")
  | "num" => .num (jInt j "m") (jInt j "e")
  | "str" => .str (jStr j "v")
  | "arr" => .arr ((jArr j "v").map parseEl)
  | _ => .obj

def parseMembers (j : Json) : List (String × J) :=
  (jArr j "members").filterMap fun m =>
    match m with
    | .arr a => match a.toList with
      | [Json.str k, v] => some (k, parseJ v)
      | _ => none
    | _ => none

def b64StdVal (c : Char) : Option Nat :=
  let n := c.toNat
  if 65 ≤ n && n ≤ 90 then some (n - 65) else if 97 ≤ n && n ≤ 122 then some (n - 71) else if 48 ≤ n && n ≤ 57 then some (n + 4)
  else if c = '+' then some 62 else if c = '/' then some 63 else none

def b64StdGo : List Nat → List Nat → List Nat
  | a :: b :: c :: d :: r, acc => let v := ((a * 64 + b) * 64 + c) * 64 + d; b64StdGo r (v % 256 :: v / 256 % 256 :: v / 65536 :: acc)
  | [a, b, c], acc => let v := ((a * 64 + b) * 64 + c) * 64; (v / 256 % 256 :: v / 65536 :: acc)
  | [a, b], acc => (((a * 64 + b) * 4096) / 65536 :: acc)
  | _, acc => acc

/-- the raw input bytes of a call (transport encoding of the ops file: standard base64) -/
def bytesOfB64 (s : String) : List Nat := (b64StdGo (s.toList.filterMap b64StdVal) []).reverse

def hexBytes (b : List Nat) : String := String.join (b.map fun x => String.ofList [hexDigitC (x / 16), hexDigitC (x % 16)])

/-- digest of a byte string as the harness prints it: length, first bytes, rolling sum -/
def dig (b : List Nat) : String := s!"{b.length}:{hexBytes (b.take 4)}:{b.foldl (fun a c => (a * 31 + c) % 1000003) 0}"

/-- the header as jwx presents it, or the parse class when jwx refuses the input.  The framing verdict is COMPUTED by the model
    from the raw bytes (`Framing.isJWSSerialization`) whenever the call carries them. -/
def hdrOf (j : Json) (inB64 : Option String := none) : Res Hdr :=
  if jStr j "framing" == "bad" then .err "parse" else
  hdrOfMembers (jNat j "nsigs") (parseMembers j) (jBool j "jwkOK") (jBool j "jwkPrivate") (jStr j "payload") (hexNat (jStr j "ref"))
    (match inB64 with
     | some b => Framing.isJWSSerialization (bytesOfB64 b)
     | none => if jHas j "strict" then jBool j "strict" else true)

def b64Of (j : Json) : String → Bool := fun s => (jStrs j "b64ok").contains s

def parseOf (j : Json) (inB64 : Option String := none) : Res Tx :=
  match hdrOf j inB64 with
  | .ok h => parse srcCfg (b64Of j) h
  | .err e => .err e
  | .panic p => .panic p

def txLine (t : Tx) : String :=
  s!"ok ref={short t.ref} alg={t.alg} ph={short t.payloadHash} cty={quote t.cty} jwk={t.jwk} kid={quote t.kid} sigt={t.sigt} ver={t.ver} prevs=[{String.intercalate "," (t.prevs.map short)}] pal={t.pal.length} lc={t.clock}"

def resCls (r : Res Unit) : String :=
  match r with | .ok _ => "ok" | .err e => "err:" ++ e | .panic p => "panic:" ++ p

structure DSt where
  st : St := {}
  subs : List Sub := []
  docs : List ((String × Nat) × DocRes) := []
  shas : List (Nat × Nat) := []          -- payload id ↦ sha
  refs : List Nat := []
  phs : List Nat := []
  led : Nat := 0
  lite : Bool := false     -- legs in other packages observe without job shelves / ledger

structure CallD where
  tx : Res Tx
  payload : Option Nat
  sigJwk : Bool
  sigKeys : List Nat
  kid : String
  kidDid : Option String
  jwkShape : KeyShape := .other
  keyShapes : List KeyShape := []

/-- key shape as the harness names it: "<Go type>:<curve | length | nil>" -/
def shapeOf (sh : String) : KeyShape :=
  match sh.splitOn ":" with
  | [ty, arg] =>
    if ty == "*ecdsa.PublicKey" || ty == "ecdsa.PublicKey" || ty == "*ecdsa.PrivateKey" || ty == "jwk.ECDSAPublicKey" || ty == "jwk.ECDSAPrivateKey" then .ec arg
    else if ty == "ed25519.PublicKey" then .ed arg.toNat!
    else if ty == "*ed25519.PublicKey" then (if arg == "nil" then .edNil else .ed arg.toNat!)
    else if ty == "jwk.OKPPublicKey" then .okp "Ed25519" arg.toNat!
    else .other
  | _ => .other

def parseSub (j : Json) : Sub :=
  { name := jStr j "name", persistent := jBool j "persistent", wantTx := jBool j "wantTx", wantPayload := jBool j "wantPayload",
    palOnly := jBool j "palOnly", outcome := if jStr j "outcome" == "fatal" then .fatal else .finished }

def parseDocRes (j : Json) : DocRes :=
  match jStr j "res" with
  | "doc" => .doc ((jArr j "vms").filterMap fun v =>
      match v with
      | .arr a => match a.toList with
        | [Json.str id, k] => some (id, (k.getNat?.toOption.getD 0))
        | _ => none
      | _ => none)
  | _ => .otherErr

def addUnique (l : List Nat) (x : Nat) : List Nat := if l.contains x then l else l ++ [x]

/-- absorb a call's probe refs / payload hashes / sha table entries -/
def absorb (d : DSt) (c : Json) : DSt :=
  let jws := jObj c "jws"
  let d := { d with refs := addUnique d.refs (hexNat (jStr jws "ref")) }
  let d := { d with phs := (jStrs c "phs").foldl (fun l p => addUnique l (hexNat p)) d.phs }
  match (c.getObjValAs? Nat "pid").toOption with
  | some pid => { d with shas := (pid, hexNat (jStr c "sha")) :: d.shas }
  | none => d

def callOf (c : Json) : CallD :=
  let jws := jObj c "jws"
  let tx := parseOf jws (c.getObjValAs? String "in").toOption
  -- `jws.Verify` is a parameter: the harness hands over the family-only verdicts (digest by the header algorithm on whatever
  -- curve the key has) and the curve of every key; the model applies AlgorithmFitsKey itself. Ops recorded before that
  -- (corpus) only carry the RFC 7518 verdicts: every key there is P-256.
  let lax := !(jStrs c "keyCrvs").isEmpty   -- (re-marshalled corpus ops carry the new members as null / empty)
  let crv := jStr c "jwkCrv"
  { tx := tx, payload := (c.getObjValAs? Nat "pid").toOption,
    sigJwk := if lax then jBool c "laxJwk" else jBool c "sigJwk", sigKeys := if lax then jNats c "laxKeys" else jNats c "sigKeys",
    kid := (match tx with | .ok t => t.kid | _ => ""), kidDid := (c.getObjValAs? String "kidDid").toOption,
    jwkShape := if crv == "" then .other else .ec crv,
    keyShapes := (jStrs c "keyCrvs").map KeyShape.ec }

def envOf (d : DSt) (cs : List CallD) : Env :=
  let verdict (t : Tx) : Option CallD := cs.find? (fun c => match c.tx with | .ok t' => t'.ref == t.ref | _ => false)
  { sha := fun p => (alGet d.shas p).getD 0
    sigJwk := fun t => match verdict t with | some c => c.sigJwk | none => false
    sigKey := fun t k => match verdict t with | some c => c.sigKeys.contains k | none => false
    jwkShape := fun t => match verdict t with | some c => c.jwkShape | none => .other
    keyShape := fun k => match cs.findSome? (fun c => c.keyShapes[k]?) with | some sh => sh | none => .ec "P-256"
    kidDid := fun kid => match cs.find? (fun c => c.kid == kid) with | some c => c.kidDid | none => none
    resolve := fun did src => match d.docs.find? (fun e => e.1.1 == did && e.1.2 == src) with | some e => e.2 | none => .notFound }

def sortStrs (l : List String) : List String := (l.toArray.qsort (· < ·)).toList

def observe (d : DSt) : DSt × String :=
  let s := d.st
  let p := String.ofList (d.refs.map fun r => if s.present r then '1' else '0')
  let txs := (s.txs.toArray.qsort (fun a b => a.clock < b.clock || (a.clock == b.clock && a.ref < b.ref))).toList
  let lc := String.intercalate "," (txs.map fun t => s!"{t.clock}:{short t.ref}")
  let pl := String.intercalate "," (d.phs.map fun h => match s.payloads.find? (fun q => q.1 == h) with | some q => toString q.2 | none => "-")
  let head := if s.head == 0 then "-" else short s.head
  let jobs := sortStrs (s.jobs.map fun j => s!"{j.sub}:{short j.ref}:{match j.typ with | .tx => "t" | .payload => "p"}:{if j.failed then "f" else "-"}")
  let newEv := s.ledger.drop d.led
  let names := sortStrs ((newEv.map (·.sub)).eraseDups)
  let ev := names.flatMap fun n => (newEv.filter (·.sub == n)).map fun e => s!"{e.sub}:{match e.typ with | .tx => "t" | .payload => "p"}:{short e.ref}"
  if d.lite then ({ d with led := s.ledger.length },
    s!"P={p} | LC={lc} | PL={pl} | n={s.count} lch={s.lcHigh} lca={s.lcAtomic} head={head} xor={short s.xor}") else
  ({ d with led := s.ledger.length },
   s!"P={p} | LC={lc} | PL={pl} | n={s.count} lch={s.lcHigh} lca={s.lcAtomic} head={head} xor={short s.xor} | J={String.intercalate "," jobs} | E={String.intercalate "," ev}")

def step (d : DSt) (j : Json) : DSt × List String :=
  match jStr j "op" with
  | "parse" =>
    let jws := jObj (jObj j "call") "jws"
    if jStr jws "framing" == "unmodelled" then (d, ["unmodelled"]) else
    match parseOf jws ((jObj j "call").getObjValAs? String "in").toOption with
    | .ok t => (d, [txLine t])
    | .err e => (d, ["err:" ++ e])
    | .panic p => (d, ["panic:" ++ p])
  | "framing" =>
    let input := bytesOfB64 (jStr (jObj j "call") "in")
    let fr := Framing.isJWSSerialization input
    let segs := Framing.splitOn 46 input
    let ds := (segs.take 4).map fun sg => match Framing.b64Decode sg with
      | none => "e"
      | some b => s!"{b.length}:{String.join ((b.take 4).map fun x => String.ofList [hexDigitC (x / 16), hexDigitC (x % 16)])}:{b.foldl (fun a c => (a * 31 + c) % 1000003) 0}"
    (d, [s!"fr={fr} segs={segs.length} dec={String.intercalate "," ds}"])
  | "newtx" =>
    let prevs := (jStrs j "prevs").map hexNat
    let pal : Option (List String) := match (j.getObjValAs? Nat "paln").toOption with
      | none => none
      | some n => some ((List.range n).map fun i => s!"pal{i}")
    let lc := jNat j "lc"
    let sigt := jInt j "sigt"
    let kid := jStr j "kid"
    let key : Create.KeyRef := if jBool j "embed" then .jwk else .kid kid
    match Create.newTransaction (hexNat (jStr j "ph")) (jStr j "cty") prevs pal lc with
    | .err e => (d, ["err:" ++ e])
    | .panic p => (d, ["panic:" ++ p])
    | .ok u =>
      let pre := s!"new prevs=[{String.intercalate "," (u.prevs.map short)}] nilprevs={u.prevs.isEmpty} ver={u.version} lc={u.clock} zero={resCls (Create.signPrecheck true false)}"
      match Create.signPrecheck (sigt == 0) false with
      | .err e => (d, [s!"{pre} | sign=err:{e}"])
      | .panic p => (d, [s!"{pre} | sign=panic:{p}"])
      | .ok _ =>
        let h := Create.signHdr u sigt "ES256" key 0 true
        match parse srcCfg (fun _ => true) h with
        | .err e => (d, [s!"{pre} | sign=err:{e}"])
        | .panic p => (d, [s!"{pre} | sign=panic:{p}"])
        | .ok t =>
          let names := sortStrs (["alg", "crit", "cty", (if h.hasJwk then "jwk" else "kid")] ++ h.priv.map (·.1))
          (d, [s!"{pre} | sign=ok alg={t.alg} ph={short t.payloadHash} cty={quote t.cty} jwk={t.jwk} kid={quote t.kid} sigt={t.sigt} ver={t.ver} prevs=[{String.intercalate "," (t.prevs.map short)}] pal={t.pal.length} lc={t.clock} names={String.intercalate "," names} crit={String.intercalate "," Create.critHeaders} again={resCls (Create.signPrecheck false true)}"])
  | "algfit" => (d, [s!"fits={algorithmFitsKey (jStr j "alg") (shapeOf (jStr j "shape"))}"])
  | "hashlist" =>
    let input := bytesOfB64 (jStr (jObj j "call") "in")
    let parsed := Shelf.parseHashList input
    let one := (List.range 32).map (· + 1)
    let app := Shelf.appendHashList input one
    let back := Shelf.parseHashList app
    let clk := if input.length ≥ 4 then s!" clk={Shelf.ofBe (input.take 4)}" else ""
    let cnt := if input.length ≥ 8 then s!" cnt={Shelf.ofBe (input.take 8)}" else ""
    (d, [s!"n={parsed.length} nil={!Shelf.parseHashListNonNil input} refs={String.intercalate "," (parsed.map dig)} app={dig app} back={back.length}{clk}{cnt}"])
  | "shelf" =>
    let st := Shelf.buildStore d.st.txs
    let h8 (b : List Nat) : String := hexBytes (b.take 4)
    let keys := (st.clocks.map (·.1)).toArray.qsort (· < ·) |>.toList
    let cl := keys.map fun k =>
      let v := (Shelf.get st.clocks k).getD []
      s!"{hexBytes (Shelf.be 4 k)}:{String.intercalate "," ((Shelf.parseHashList v).map h8)}{if v.length % 32 != 0 then s!"+{v.length % 32}" else ""}"
    let doc := sortStrs (st.docs.map h8)
    let md := [Shelf.numberOfTransactionsKey, Shelf.highestClockValue, Shelf.headRefKey].map fun k =>
      match Shelf.get st.md k with
      | none => k ++ ":-"
      | some v => k ++ ":" ++ (if k == Shelf.headRefKey && v.length == 32 then h8 v else hexBytes v)
    let rng := (jArr j "ranges").map fun r =>
      let (a, b) := match r with
        | .arr x => ((x[0]!.getNat?.toOption.getD 0), (x[1]!.getNat?.toOption.getD 0))
        | _ => (0, 0)
      let refs := Shelf.visitBetweenLC st.clocks a b
      let show1 (h : List Nat) : String :=
        match d.st.txs.find? (fun t => Shelf.hashBytes t.ref == h) with
        | some t => s!"{t.clock}/{h8 h}"
        | none => s!"?/{h8 h}"
      s!"{a}-{b}:{String.intercalate "," (refs.map show1)}"
    (d, [s!"CL={String.intercalate ";" cl} | DOC={String.intercalate "," doc} | MD={String.intercalate "," md} | roots={Shelf.rootsNonNil st.clocks} | RNG={String.intercalate ";" rng}"])
  | "new" =>
    let d : DSt := { subs := (jArr j "subs").map parseSub, lite := jBool j "lite" }
    let (d, o) := observe d
    (d, ["new " ++ o])
  | "doc" =>
    let key := (jStr j "did", hexNat (jStr j "src"))
    ({ d with docs := (key, parseDocRes (jObj j "doc")) :: d.docs }, ["doc"])
  | "add" =>
    let c := jObj j "call"
    let d := absorb d c
    let cd := callOf c
    match cd.tx with
    | .ok t =>
      let r := if jBool j "cancel" then addCancelled (envOf d [cd]) d.subs d.st t cd.payload
               else add (envOf d [cd]) d.subs d.st t cd.payload
      let (d, o) := observe { d with st := r.1 }
      (d, [s!"r={resCls r.2} | {o}"])
    | .err e => let (d, o) := observe d; (d, [s!"r=err:{e} | {o}"])
    | .panic p => let (d, o) := observe d; (d, [s!"r=panic:{p} | {o}"])
  | "list" =>
    let cs := jArr j "calls"
    let d := cs.foldl absorb d
    let cds := cs.map callOf
    match cds.findSome? (fun c => match c.tx with | .ok _ => none | .err e => some ("err:" ++ e) | .panic p => some ("panic:" ++ p)) with
    | some e => let (d, o) := observe d; (d, [s!"r={e} | {o}"])
    | none =>
      let items : List Item := cds.filterMap fun c => match c.tx with | .ok t => some { tx := t, payload := c.payload } | _ => none
      let r := handleList (envOf d cds) d.subs d.st items
      let (d, o) := observe { d with st := r.1 }
      (d, [s!"r={r.2} | {o}"])
  | "payload" =>
    let pid := jNat j "pid"
    let d := { d with shas := (pid, hexNat (jStr j "sha")) :: d.shas,
                      phs := (jStrs j "phs").foldl (fun l p => addUnique l (hexNat p)) d.phs }
    let r := latePayload (envOf d []) d.subs d.st (hexNat (jStr j "ref")) pid
    let (d, o) := observe { d with st := r.1 }
    (d, [s!"r={r.2} | {o}"])
  | "create" =>
    let additional := (jStrs j "additional").map hexNat
    if jStr j "createErr" != "" || !jHas j "call" then
      -- the implementation refused to create: the model must refuse as well
      let expect := if !additionalOK d.st additional then "err:create:additional-prev"
                    else match createPrevsClock d.st additional with | .ok _ => "ok-expected" | .err e => "err:create:" ++ e | .panic p => "panic:" ++ p
      let (d, o) := observe d
      (d, [s!"r={expect} | {o}"])
    else
    let c := jObj j "call"
    let d := absorb d c
    let cd := callOf c
    match cd.tx, (if additionalOK d.st additional then createPrevsClock d.st additional else .err "additional-prev") with
    | .ok t, .ok (prevs, clock) =>
      let m := if t.prevs == prevs && t.clock == clock then "match" else s!"MISMATCH(model prevs={prevs.map short} clock={clock})"
      let r := add (envOf d [cd]) d.subs d.st t cd.payload
      let (d, o) := observe { d with st := r.1 }
      (d, [s!"r={resCls r.2} created={m} | {o}"])
    | .ok _, .err e => let (d, o) := observe d; (d, [s!"r=err:create:{e} | {o}"])
    | _, _ => let (d, o) := observe d; (d, [s!"r=err:create:unparseable | {o}"])
  | "rbwin" =>
    let cs := jArr j "calls"
    let d := cs.foldl absorb d
    let cds := cs.map callOf
    let env := envOf d cds
    match cds with
    | [a, b] =>
      -- A: rolled back by a store fault after its write function (model: the cancelled Add, the error is the fault);
      -- B: runs after A's critical section (the reload included)
      let (sA, rA) := match a.tx with
        | .ok t => let r := addCancelled env d.subs d.st t a.payload
                   (r.1, match r.2 with | .err "cancelled" => "err:fault" | x => resCls x)
        | .err e => (d.st, "err:" ++ e)
        | .panic p => (d.st, "panic:" ++ p)
      let (sB, rB) := match b.tx with
        | .ok t => let r := add env d.subs sA t b.payload; (r.1, resCls r.2)
        | .err e => (sA, "err:" ++ e)
        | .panic p => (sA, "panic:" ++ p)
      let (d, o) := observe { d with st := sB }
      (d, [s!"resA={rA} resB={rB} | {o}"])
    | _ => (d, ["bad-op:rbwin"])
  | "reopen" =>
    let (d, o) := observe d
    (d, ["reopen " ++ o])
  | "sched" =>
    let cs := jArr j "calls"
    let d := cs.foldl absorb d
    let cds := cs.map callOf
    let env := envOf d cds
    -- threads whose input does not parse never reach the store: they are done at once
    let dummy : Tx := { ref := 0, alg := "", payloadHash := 0, cty := "", jwk := false, kid := "", sigt := 0, ver := 0, prevs := [], pal := [], clock := 0 }
    let calls : List Call := cds.map fun c => { tx := (match c.tx with | .ok t => t | _ => dummy), payload := c.payload }
    let pcs : List PC := cds.map fun c => match c.tx with | .ok _ => PC.start | .err e => .done (.err e) | .panic p => .done (.panic p)
    let w0 : World := { st := d.st, pcs := pcs }
    -- step by step, observing after every step when asked to
    let (w, d, mids) := (jNats j "sched").foldl (fun (acc : World × DSt × List String) i =>
      let (w, d, mids) := acc
      let w' := stepThread env d.subs calls w i
      if jBool j "obs" then
        let (d', o) := observe { d with st := w'.st }
        (w', d', mids ++ [o])
      else (w', d, mids)) (w0, d, [])
    -- complete unfinished threads in thread order (the harness does the same)
    let n := calls.length
    let w := run env d.subs calls ((List.range n).flatMap fun i => [i, i]) w
    let res := w.pcs.map fun pc => match pc with | .done r => resCls r | .start => "start" | .verified => "verified"
    let (d, o) := observe { d with st := w.st }
    let pre := if jBool j "obs" then "mid=" ++ String.intercalate " ;; " mids ++ " || " else ""
    (d, [s!"{pre}res={String.intercalate "," res} | {o}"])
  | o => (d, ["bad-op:" ++ o])

end Nuts.Drv.C06

def main : IO Unit := do
  Nuts.Drv.loop (← IO.getStdin) (← IO.getStdout) Nuts.Drv.C06.step ({} : Nuts.Drv.C06.DSt)
