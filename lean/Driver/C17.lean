import Driver.Util
import NutsModel.C17.TokenPolicy
import NutsModel.C17.Framing
import NutsModel.C17.Fold
import NutsModel.C17.Kid
import NutsModel.C17.LdBytes
import NutsModel.C17.Jwk
import NutsModel.C17.JarSet
import NutsModel.C17.CaseVar
import NutsModel.Facts.C17
open Lean Nuts.Drv Nuts.C17 Nuts

namespace Nuts.Drv.C17

def optInt (j : Json) (k : String) : Option Int := (j.getObjValAs? Int k).toOption
def optStr (j : Json) (k : String) : Option String := (j.getObjValAs? String k).toOption
def optBool (j : Json) (k : String) : Option Bool := (j.getObjValAs? Bool k).toOption
def jBools (j : Json) (k : String) : List Bool := (jArr j k).filterMap (fun x => x.getBool?.toOption)

def parseJwkKind : String → JwkKind
  | "pub" => .pub | "priv" => .priv | "sym" => .sym | _ => .absent

def parseSig (s : Json) : Sig :=
  { alg := jStr s "alg", kid := jStr s "kid", jwk := parseJwkKind (jStr s "jwk"), hdrs := jStrs s "hdrs", typ := jStr s "typ" }

def parseJws (j : Json) : Jws :=
  { parses := jBool j "parses", sigs := (jArr j "sigs").map parseSig, splitOK := jBool j "split" }

def parseClaims (j : Json) : C04.Claims :=
  { jti := optBool j "jti", iat := optInt j "iat", nbf := optInt j "nbf", exp := optInt j "exp",
    aud := match j.getObjVal? "aud" with
      | .ok (.arr a) => some (a.toList.filterMap (fun x => x.getStr?.toOption))
      | _ => none
    iss := optStr j "iss", sub := optStr j "sub" }

def nth (l : List Bool) (i : Nat) : Bool := (l[i]?).getD false

/-- the embedded JWK object of a `dpopj` / `dagtxj` op: what decides the jwx key type -/
def jwkObj (v : Json) : Option Jwk.JwkObj :=
  if jHas v "jkty" then some { kty := jStr v "jkty", crv := jStr v "jcrv", hasD := jBool v "jhasd" } else none

def showOutcome : Outcome → String
  | .accept _ => "accept"
  | .reject => "reject"

def hexVal (c : Char) : Nat :=
  if '0' ≤ c ∧ c ≤ '9' then c.toNat - 48 else if 'a' ≤ c ∧ c ≤ 'f' then c.toNat - 87 else 0

def hexBytes : List Char → List Nat
  | a :: b :: r => (hexVal a * 16 + hexVal b) :: hexBytes r
  | _ => []

def hexDigit (n : Nat) : Char := if n < 10 then Char.ofNat (48 + n) else Char.ofNat (87 + n)
def toHex (b : List Nat) : String := String.ofList (b.flatMap (fun x => [hexDigit (x / 16), hexDigit (x % 16)]))

/-- the deepening-round ops on BYTES (hex): base64 decode, canonical, isJWSSerialization, ParseTransaction's first exits; and
    crypto.SignatureAlgorithm on a key kind -/
def stepBytes (j : Json) : Option (List String) :=
  let bytes := hexBytes (jStr j "hex").toList
  match jStr j "op" with
  | "b64" =>
    let d := match Framing.decode bytes with | none => "err" | some x => "ok:" ++ toHex x
    some [d ++ " canonical=" ++ toString (Framing.canonical bytes)]
  | "framing" => some [toString (Framing.isJWSSerialization bytes)]
  | "framingtx" =>
    some [match Framing.parseTxFraming Facts.C17.dagStrictFraming (jBool j "parses") bytes with
      | .errParse => "err:parse" | .errFraming => "err:framing" | .pass => "pass"]
  | "sigalg" =>
    let kind : Framing.KeyKind := match jStr j "kind" with
      | "nil" => .nil | "rsa" => .rsa | "ecdsa" => .ecdsa (jNat j "bits") | "ed25519" => .ed25519 | _ => .other
    some [(Framing.signatureAlgorithm Facts.C17.ecAlgBitsTable Facts.C17.sigAlgRsa Facts.C17.sigAlgEd kind).getD "error"]
  | _ => none

/-- a parsed JSON document as the tree the guard walks (member order: the parser's; the guard's verdict does not depend on it) -/
instance : Inhabited Fold.JVal := ⟨.leaf⟩

partial def toJVal : Json → Fold.JVal
  | .arr a => .arr (a.toList.foldr (fun x r => .cons (toJVal x) r) .nil)
  | .obj kvs => .obj (kvs.foldl (fun r k v => .cons k (toJVal v) r) .nil)
  | _ => .leaf

def modelFold : String → String := Fold.foldName (Fold.simpleFold id)

def step (st : Unit) (j : Json) : Unit × List String :=
  if jStr j "op" == "xph" then
    (st, [match Kid.extractProtectedHeaders (jBool j "tokempty") (parseJws (jObj j "info")) with
      | .err => "err"
      | .headers none => "headers:,"
      | .headers (some s) => "headers:" ++ s.alg ++ "," ++ s.kid])
  else
  if jStr j "op" == "resolvekid" then
    (st, [Kid.normKidS (jStr j "kid") (jStr j "issuer")])
  else
  if jStr j "op" == "casevar" then
    -- caseVariantMember(document, decodedInto): the reflect loop over the struct's json tags, then ambiguousMember; separator / skipped names regenerated
    let t := jObj j "ty"
    let base : CaseVar.GoType := match jStr t "kind" with
      | "struct" => .struct (jStrs t "tags") | "nil" => .nil | _ => .other
    let ty := (List.range (jNat t "ptr")).foldl (fun g _ => CaseVar.GoType.ptr g) base
    let doc : Fold.JMembers := match toJVal (jObj j "doc") with | .obj m => m | _ => .nil
    let sep : Char := (Facts.C17.caseVariantCutSep.toList.head?).getD ','
    (st, [match CaseVar.caseVariantMember sep Facts.C17.caseVariantSkipNames modelFold ty doc with | some _ => "found" | none => "clean"])
  else
  if jStr j "op" == "ambig" then
    (st, [match Fold.ambVal modelFold (toJVal (jObj j "doc")) with | some _ => "ambiguous" | none => "clean"])
  else
  if jStr j "c" == "jarset" || (jStr j "c" == "jar" && jHas (jObj j "v") "set") then
    -- jar.validate with the client's key set as a list: a key's identity is its thumbprint (harness data); lookup + comparison are the model's
    let info := parseJws (jObj j "info")
    let v := jObj j "v"
    let stp := jStr v "signertp"
    let E : Env := { fits := fun _ _ => jBool v "fits", resolve := fun _ => if jBool v "keyfound" then some stp else none, embeddedKey := fun _ => none,
                     verifies := fun _ _ _ => jBool v "verified", verifiesSplit := fun _ _ _ => false }
    let J : JarSet.SetEnv := { clientIdMatches := jBool v "clientid", configOK := jBool v "configok",
                               keys := (jArr v "set").map (fun e => { kid := jStr e "kid", tp := if jStr e "tp" == "" then none else some (jStr e "tp") }),
                               tpOf := fun k => if k == "" then none else some k }
    let r := JarSet.validateExit Facts.C17.supportedAlgs E J info
    if jStr j "c" == "jar" then (st, [showOutcome r.2]) else
    (st, [match r.2 with | .accept _ => "accept" | .reject => "reject:" ++ r.1.show])
  else
  match stepBytes j with
  | some r => (st, r)
  | none =>
  if jStr j "op" == "algfits" then
    let sh := jObj j "shape"
    let shape : KeyShape := match jStr sh "kind" with
      | "ecdsa" => .ecdsa (jStr sh "curve") | "ed25519" => .ed25519 (jNat sh "len") | _ => .other
    (st, [toString (algorithmFitsKey (jStr j "alg") shape)])
  else
  if jStr j "op" != "consume" then (st, ["bad-op:" ++ jStr j "op"]) else
  let info := parseJws (jObj j "info")
  let v := jObj j "v"
  let out : Outcome :=
    match jStr j "c" with
    | "parsejwt" =>
      let E : Env := { fits := fun _ _ => jBool v "fits", resolve := fun _ => if jBool v "keyfound" then some "K" else none, embeddedKey := fun _ => none,
                       verifies := fun _ _ _ => jBool v "verified", verifiesSplit := fun _ _ _ => false }
      parseJWT Facts.C17.supportedAlgs E info
    | "jar" =>
      let E : Env := { fits := fun _ _ => jBool v "fits", resolve := fun _ => if jBool v "keyfound" then some "K" else none, embeddedKey := fun _ => none,
                       verifies := fun _ _ _ => jBool v "verified", verifiesSplit := fun _ _ _ => false }
      let J : JarEnv := { clientIdMatches := jBool v "clientid", configOK := jBool v "configok",
                          clientKey := fun _ => if jBool v "clientkey" then some "K" else none }
      jarValidate Facts.C17.supportedAlgs E J info
    | "vcjwt" =>
      -- the harness resolved (kid, or the issuer when kid is absent): `keyfound` is about that lookup
      let E : Env := { fits := fun _ _ => jBool v "fits", resolve := fun _ => if jBool v "keyfound" then some "K" else none, embeddedKey := fun _ => none,
                       verifies := fun _ _ _ => jBool v "verified", verifiesSplit := fun _ _ _ => false }
      Kid.vcJwtSignatureK Facts.C17.supportedAlgs E (jStr j "issuer") info
    | "authzv1" =>
      let E : Env := { fits := fun _ _ => jBool v "fits", resolve := fun _ => if jBool v "keyfound" then some "K" else none, embeddedKey := fun _ => none,
                       verifies := fun _ _ _ => jBool v "verified", verifiesSplit := fun _ _ _ => false }
      let didOf := Kid.didPartS
      authzV1 Facts.C17.supportedAlgs Facts.C17.authzV1ChecksKidIssuer E (jStr j "issuer") (jBool v "issparses") didOf info
    | "introspect" =>
      let E : Env := { fits := fun _ _ => jBool v "fits", resolve := fun _ => if jBool v "keyfound" && jBool v "ownkey" && !jBool v "storefault" then some "K" else none, embeddedKey := fun _ => none,
                       verifies := fun _ _ _ => jBool v "verified", verifiesSplit := fun _ _ _ => false }
      parseJWT Facts.C17.supportedAlgs E info
    | "ldproof" =>
      let L : LdEnv := { keyAlg := fun _ => if jStr v "keyalg" == "" then none else some (jStr v "keyalg"),
                         verifiesDetached := fun _ _ => jBool v "verified",
                         fits := fun _ _ => jBool v "fits" }
      if jHas v "jwshex" then
        -- parts, signature decoding and the derived algorithm are COMPUTED by the model from the jws bytes and the key kind
        let kind : Framing.KeyKind := match jStr v "keykind" with
          | "nil" => .nil | "rsa" => .rsa | "ecdsa" => .ecdsa (jNat v "keybits") | "ed25519" => .ed25519 | _ => .other
        LdBytes.ldProofVerifyBytes Facts.C17.ecAlgBitsTable Facts.C17.sigAlgRsa Facts.C17.sigAlgEd kind L "K" (jBool v "canon") (hexBytes (jStr v "jwshex").toList)
      else
      ldProofVerify L "K" (jBool v "canon") (jNat v "parts") (jBool v "sigdecodes")
    | "vcld" =>
      let E : Env := { resolve := fun _ => if jBool v "keyfound" then some "K" else none, embeddedKey := fun _ => none,
                       verifies := fun _ _ _ => false, verifiesSplit := fun _ _ _ => false }
      let L : LdEnv := { keyAlg := fun _ => if jStr v "keyalg" == "" then none else some (jStr v "keyalg"),
                         verifiesDetached := fun _ _ => jBool v "verified",
                         fits := fun _ _ => jBool v "fits" }
      let didOf := Kid.didPartS
      vcJsonLdProof E L (jBool v "proofobj") (jStr j "issuer") (jStr v "vm") didOf (jBool v "validat") (jBool v "canon") (jNat v "parts") (jBool v "sigdecodes")
    | "vcldfold" =>
      let E : Env := { resolve := fun _ => if jBool v "keyfound" then some "K" else none, embeddedKey := fun _ => none,
                       verifies := fun _ _ _ => false, verifiesSplit := fun _ _ _ => false }
      let L : LdEnv := { keyAlg := fun _ => if jStr v "keyalg" == "" then none else some (jStr v "keyalg"),
                         verifiesDetached := fun _ _ => jBool v "verified",
                         fits := fun _ _ => jBool v "fits" }
      let didOf := Kid.didPartS
      Fold.vcJsonLdDoc modelFold (jBool v "docok") (jBool v "structvariant") (toJVal (jObj j "doc"))
        (vcJsonLdProof E L (jBool v "proofobj") (jStr j "issuer") (jStr v "vm") didOf (jBool v "validat") (jBool v "canon") (jNat v "parts") (jBool v "sigdecodes"))
    | "parsejws" =>
      let found := jBools v "keyfound"
      let ver := jBools v "verified"
      -- the key source answers per signature (by its kid): signature i's key is "K<i>" when found
      let kids := info.sigs.map (·.kid)
      let E : Env := { fits := fun _ _ => jBool v "fits", resolve := fun kid => match kids.idxOf? kid with
                                   | some i => if nth found i then some s!"K{i}" else none
                                   | none => none
                       embeddedKey := fun _ => none
                       verifies := fun _ _ i => i == 0 && jBool v "verifiedlib"
                       verifiesSplit := fun _ _ i => nth ver i }
      parseJWS Facts.C17.supportedAlgs Facts.C17.parseJWSCountRule Facts.C17.parseJWSVerifyMode E info
    | "dpopj" =>
      let E : Env := { fits := fun _ _ => jBool v "fits", resolve := fun _ => none, embeddedKey := fun _ => some "E",
                       verifies := fun _ _ _ => jBool v "verified", verifiesSplit := fun _ _ _ => false }
      Jwk.dpopParseJ Facts.C17.supportedAlgs Facts.C17.dpopTyp Facts.C17.dpopPrivateProbes Facts.C17.dpopPrivateProbeDefault E (jBool v "claimsok") info (jwkObj v)
    | "dagtxj" =>
      let kf := jBool v "keyfound"
      let E : Env := { resolve := fun _ => if kf then some "K" else none, embeddedKey := fun _ => if kf then some "E" else none,
                       verifies := fun _ _ _ => jBool v "verified", verifiesSplit := fun _ _ _ => false,
                       fits := fun _ _ => jBool v "fits" }
      Jwk.dagTxJ Facts.C17.dagAllowedAlgs Facts.C17.parseSignatureParamsRejectedKeyTypes Facts.C17.dagStrictFraming E (jBool v "otherok") (jBool v "framing") info (jwkObj v)
    | "dpop" =>
      -- when dpop.Parse itself tests jwx.AlgorithmFitsKey (regenerated fact) the fit is part of "verified"
      let E : Env := { fits := fun _ _ => jBool v "fits", resolve := fun _ => none, embeddedKey := fun _ => some "E",
                       verifies := fun _ _ _ => jBool v "verified", verifiesSplit := fun _ _ _ => false }
      dpopParse Facts.C17.supportedAlgs Facts.C17.dpopTyp E (jBool v "claimsok") info
    | "dagtx" =>
      let kf := jBool v "keyfound"
      let E : Env := { resolve := fun _ => if kf then some "K" else none, embeddedKey := fun _ => if kf then some "E" else none,
                       verifies := fun _ _ _ => jBool v "verified", verifiesSplit := fun _ _ _ => false,
                       fits := fun _ _ => jBool v "fits" }
      dagTx Facts.C17.dagAllowedAlgs Facts.C17.dagRejectsPrivateJwk Facts.C17.dagStrictFraming E (jBool v "otherok") (jBool v "framing") info
    | "apitoken" =>
      let nf := jNat v "nfields"
      let hdr : C04.Str :=
        if nf == 2 then "Bearer ".toList ++ List.replicate (jNat v "credlen") 'x'
        else (List.replicate nf ['f', ' ']).flatten
      let a : C04.Analysis :=
        { parses := info.parses, sigs := info.sigs.map (fun s => { alg := s.alg, hdrs := s.hdrs }),
          verifies := jBools v "verifies", claims := parseClaims (jObj v "claims") }
      apiToken Facts.C17.apiPolicy (jStr v "aud") ((jStrs v "keys").map (fun c => { comment := c })) (jInt v "now") hdr a
    | _ => .reject
  let c := jStr j "c"
  if c == "dpopj" || c == "dagtxj" then
    let test := match jwkObj v with
      | none => "absent"
      | some o => match Jwk.typeOf o with
        | none => "noparse"
        | some t =>
          let priv := if c == "dpopj" then Jwk.jwkIsPrivateKey Facts.C17.dpopPrivateProbes Facts.C17.dpopPrivateProbeDefault t o.crv
                      else Jwk.dagRefusesJwk Facts.C17.parseSignatureParamsRejectedKeyTypes t
          if priv then "refused" else "passed"
    (st, [test ++ " " ++ showOutcome out])
  else
  (st, [showOutcome out])

end Nuts.Drv.C17

def main : IO Unit := do
  Nuts.Drv.loop (← IO.getStdin) (← IO.getStdout) Nuts.Drv.C17.step ()
