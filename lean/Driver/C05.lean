import Driver.Util
import NutsModel.C05.OneTime
import NutsModel.C05.Today
import NutsModel.C05.Forms
import NutsModel.C05.Vci
import NutsModel.C05.Threads
import NutsModel.Facts.C05
open Lean Nuts.Drv Nuts.C05 Nuts

namespace Nuts.Drv.C05

def kindOf (s : String) : Option Kind := Kind.all.find? (fun k => k.name == s)

def keyStr (k : Key) : String := String.intercalate "/" (todayPrefix k.ns ++ [k.id])

def parseReq (j : Json) : Option Req := do
  let k ← kindOf (jStr j "kind")
  match k with
  | .burn b => pure (.burn { kind := b, id := jStr j "id", want := jStr j "want", pre := jBool j "pre", post := jBool j "post",
                              failGet := jStr j "fail" == "get", failDel := jStr j "fail" == "del" })
  | .mark m => pure (.mark { kind := m, id := jStr j "id", failGet := jStr j "fail" == "get", failSet := jStr j "fail" == "set" })

/-- configuration for one op line: today's source facts + the back-end the harness ran on + optional TTL override -/
def cfgFor (j : Json) : Cfg :=
  let redis := jStr j "backend" == "redis" || jStr j "backend" == "engine-redis"
  let base := if jStr j "backend" == "redis-multinode" then todayRedisMultiNode else today (jBool j "strict") (!redis)
  -- the real iam handlers call a collaborator between accepting the secret and returning (the harness parks them there):
  -- RequestJWTByGet/Post the signer, the token endpoint the access-token store
  let base := if jStr j "level" == "iam" then { base with ext := fun b => b == .reqObj || b == .code } else base
  if jHas j "ttl" then
    let t := jObj j "ttl"
    { base with ttl := fun k => if jHas t k.name then jNat t k.name else base.ttl k }
  else base

def pcAfter (cfg : Cfg) (t : Thread) : String :=
  let k := keyStr t.key
  match t with
  | .burn _ pc _ =>
    (match pc with
     | .start => "new"
     | .wantLock => "blocked"
     | .atCall => (if cfg.gad = .singleCall then "@getdel " else "@get ") ++ k
     | .atDel _ => "@del " ++ k
     | .atExt _ => "@ext handler"
     | .atBurn _ => "@del " ++ k
     | .done o => "done:" ++ o.name)
  | .mark r pc _ =>
    (match pc with
     | .start => "new"
     | .wantLock => "blocked"
     | .atCall => (if cfg.mark r.kind = .putIfAbsent then "@putabsent " else "@get ") ++ k
     | .atPut _ => "@set " ++ k
     | .done o => "done:" ++ o.name)

def hitMiss (cfg : Cfg) (w : World) (k : Key) : String :=
  if (stGet cfg.expInclusive w.store w.now k).isSome then ":hit" else ":miss"

def delRes (cfg : Cfg) (w : World) (k : Key) : String :=
  if cfg.strictDelete && (stGet cfg.expInclusive w.store w.now k).isNone then "del:err" else "del:ok"

def didOp (cfg : Cfg) (w : World) (t : Thread) : String :=
  match t with
  | .burn r pc _ =>
    (match pc with
     | .atCall => (if cfg.gad = .singleCall then "getdel" else "get") ++ (if r.failGet then ":fail" else hitMiss cfg w t.key)
     | .atDel _ => if r.failDel then "del:fail" else delRes cfg w t.key
     | .atBurn _ => if r.failDel then "del:fail" else delRes cfg w t.key
     | .atExt _ => "ext:ok"
     | _ => "")
  | .mark r pc _ =>
    (match pc with
     | .atCall => (if cfg.mark r.kind = .putIfAbsent then "putabsent" else "get") ++ (if r.failGet then ":fail" else hitMiss cfg w t.key)
     | .atPut _ => if r.failSet then "set:fail" else "set:ok"
     | _ => "")

def traceStep (cfg : Cfg) (w : World) (i : Nat) : World × String :=
  match w.ths[i]? with
  | none => (w, s!"{i}:noop")
  | some t =>
    if !enabled w i then (w, s!"{i}:noop") else
    let w' := stepW cfg w i
    match w'.ths[i]? with
    | none => (w', s!"{i}:noop")
    | some t' => (w', s!"{i}:{didOp cfg w t}>{pcAfter cfg t'}")

def visibleKeys (cfg : Cfg) (w : World) : List String :=
  let ks := w.store.filterMap (fun (k, e) => if alive cfg.expInclusive w.now e.exp then some (keyStr k) else none)
  (ks.toArray.qsort (· < ·)).toList

def runLine (j : Json) : String := Id.run do
  let cfg := cfgFor j
  let reqs := (jArr j "threads").filterMap parseReq
  let mut st : Store := []
  for ij in jArr j "init" do
    match kindOf (jStr ij "kind") with
    | some k => st := stPut st ⟨k, jStr ij "id"⟩ ⟨jStr ij "val", cfg.ttl k⟩
    | none => pure ()
  let mut w := init st reqs
  let mut tr : Array String := #[]
  for s in (jArr j "sched") do
    match s.getInt? with
    | .ok n =>
      if n < 0 then
        w := applyEv cfg w (.tick n.natAbs)
        tr := tr.push s!"tick{n.natAbs}"
      else
        let (w', l) := traceStep cfg w n.toNat
        w := w'
        tr := tr.push l
    | .error _ => tr := tr.push "bad-sched-entry"
  let outs := w.ths.map (fun t => match t.outcome with | some o => o.name | none => "stuck:" ++ pcAfter cfg t)
  let succ := (w.ths.filter (·.won)).length
  return s!"succ={succ} out={String.intercalate "," outs} store=[{String.intercalate "," (visibleKeys cfg w)}] trace={String.intercalate " | " tr.toList}"

/-- nonce memory vs. acceptance window: presentation created at `skew`, expires at `skew + validity` (origin 0),
    presented at `first` and `replay`; the nonce store is the Redis back-end (forgotten once ttl has passed) -/
def windowLine (j : Json) : String :=
  let validity := jNat j "validity"
  let skew := jNat j "skew"
  let first := jNat j "first"
  let replay := jNat j "replay"
  let created := skew
  let expires := skew + validity
  let accept (t : Nat) : Bool := decide (created ≤ t + skew) && decide (t ≤ expires + skew)
  let maxv := if validity ≤ Nuts.Facts.C05.s2sMaxPresentationValidity then "ok" else "refused"
  let ttl := (today false false).ttl (.mark .s2s)
  let n2 := if first + ttl ≤ replay then "ok" else "used"
  s!"window maxvalidity={maxv} accept1={accept first} accept2={accept replay} nonce1=ok nonce2={n2}"

/-! the model's own schedule tree, with the explorer's notion of a choice: a thread that is not finished and not
    waiting for the mutex; when the mutex is released the longest-waiting thread obtains it (Go's sync.Mutex hands
    over in arrival order when nobody else competes) -/

structure ESt where
  w : World
  q : List Nat   -- threads waiting for the mutex, in arrival order

def waiting (w : World) (i : Nat) : Bool :=
  match w.ths[i]? with
  | some (.burn _ .wantLock _) => true
  | some (.mark _ .wantLock _) => true
  | _ => false

def choices (w : World) : List Nat :=
  (List.range w.ths.length).filter fun i =>
    match w.ths[i]? with
    | some t => t.outcome.isNone && !waiting w i
    | none => false

def handoff (cfg : Cfg) : Nat → ESt → ESt
  | 0, s => s
  | f + 1, s =>
    if s.w.lock.isNone then
      match s.q with
      | j :: rest => handoff cfg f { w := stepW cfg s.w j, q := rest }
      | [] => s
    else s

def choose (cfg : Cfg) (s : ESt) (i : Nat) : ESt :=
  let w' := stepW cfg s.w i
  let q' := if waiting w' i && !waiting s.w i then s.q ++ [i] else s.q
  handoff cfg 8 { w := w', q := q' }

def countLeaves (cfg : Cfg) : Nat → ESt → Nat
  | 0, _ => 1
  | f + 1, s =>
    match choices s.w with
    | [] => 1
    | cs => cs.foldl (fun acc i => acc + countLeaves cfg f (choose cfg s i)) 0

def countLine (j : Json) : String :=
  let cfg := cfgFor j
  let reqs := (jArr j "threads").filterMap parseReq
  let st : Store := (jArr j "init").foldl (fun st ij =>
    match kindOf (jStr ij "kind") with
    | some k => stPut st ⟨k, jStr ij "id"⟩ ⟨jStr ij "val", cfg.ttl k⟩
    | none => st) []
  let n := if jBool j "truncated" then jNat j "n" else countLeaves cfg 64 { w := init st reqs, q := [] }
  s!"count scenario={jStr j "scn"} threads={reqs.length} schedules={n} truncated={jBool j "truncated"}"

/-- first use, a hostile OpenID4VP response that deletes keys of its own choosing in the oauth/nonce store (no effect on
    any other store: `keyspace_disjoint`; it never names the live nonce of the scenario), then the replay -/
def crossLine (j : Json) : String :=
  let cfg := today false true
  let reqs := (jArr j "threads").filterMap parseReq
  let st : Store := (jArr j "init").foldl (fun st ij =>
    match kindOf (jStr ij "kind") with
    | some k => stPut st ⟨k, jStr ij "id"⟩ ⟨jStr ij "val", cfg.ttl k⟩
    | none => st) []
  let sched : List Ev := (List.replicate 8 (Ev.step 0)) ++ (List.replicate 8 (Ev.step 1))
  let w := run cfg sched (init st reqs)
  let outs := w.ths.map (fun t => match t.outcome with | some o => o.name | none => "stuck")
  s!"cross kind={jStr j "kind"} first={outs.getD 0 "?"} hostile=done replay={outs.getD 1 "?"}"

/-! request-level layer (Forms.lean): a sequence of token requests / authorization responses served one after the other -/

def optStr (j : Json) (k : String) : Option String := if jHas j k then some (jStr j k) else none

def parsePres (j : Json) : Pres :=
  { fmt := (match jStr j "fmt" with | "jwt" => .jwt | "ld" => .ld | _ => .other),
    jwtNonce := jStr j "jwt", ldErr := jBool j "lderr", challenge := jStr j "challenge", nonce := jStr j "nonce" }

def parseForm (j : Json) : Form :=
  if jStr j "t" == "reqobj" then .reqObj { id := jStr j "id", subject := jStr j "subject", post := jBool j "post" }
  else if jStr j "t" == "landing" then .landing (jStr j "token")
  else if jStr j "t" == "dpop" then
    .dpop { parses := !jBool j "badParse", matchOk := !jBool j "badMatch", athPresent := !jBool j "noAth", athOk := !jBool j "badAth", jti := jStr j "jti" }
  else if jStr j "t" == "response" then
    .response { state := optStr j "state", vpToken := (if jHas j "vp" then some ((jArr j "vp").map parsePres) else none),
                stateKnown := !jBool j "unknownState", tenantOk := !jBool j "wrongTenant" }
  else
    .token { grantType := jStr j "grant", code := optStr j "code", codeVerifier := optStr j "verifier", clientId := optStr j "client",
             assertion := (if jHas j "assertion" then some (jStrs j "assertion") else none),
             submission := jBool j "submission", scope := jBool j "scope",
             dpop := (match jStr j "dpop" with | "bad" => .bad | "good" => .good | _ => .absent) }

/-- descriptions are compared up to their first format verb / colon / quote (the implementation prints them formatted) -/
def descHead (s : String) : String :=
  ((s.takeWhile (fun ch => ch != '%' && ch != ':' && ch != '\'')).trimAscii).toString

def ansStr : Ans → String
  | .ok => "200"
  | .err c w => c ++ "|" ++ descHead w
  | .panic site => "panic:" ++ site

def formsLine (j : Json) : String :=
  let redis := jStr j "backend" == "redis"
  let cfg := today false (!redis)
  let pkj := jObj j "pkce"
  let good := jStr pkj "good"
  let pk : Pkce := { method := jStr pkj "method", accepts := fun v => v == good }
  let st : Store := (jArr j "init").foldl (fun st ij =>
    match kindOf (jStr ij "kind") with
    | some k => stPut st ⟨k, jStr ij "id"⟩ ⟨jStr ij "val", cfg.ttl k⟩
    | none => st) []
  let reqs := (jArr j "reqs").map (fun rj => (jNat rj "dt", parseForm rj))
  let r := runForms cfg.expInclusive cfg.ttl pk 0 st reqs
  let live := r.2.1.filterMap (fun (k, e) => if alive cfg.expInclusive r.2.2 e.exp then some (k.ns.name ++ "/" ++ k.id) else none)
  let calls := (runFormCalls cfg pk 0 st reqs).map (String.intercalate ",")
  s!"forms ans={String.intercalate ";" (r.1.map ansStr)} live=[{String.intercalate "," (live.toArray.qsort (· < ·)).toList}] calls=[{String.intercalate ";" calls}]"

/-! OpenID4VCI request level (Vci.lean): flows and pre-authorized codes issued through the real store functions, token
    requests at the real handler, served one after the other -/

def parseVForm (i : Nat) (j : Json) : VForm :=
  if jStr j "t" == "flow" then .flow (jStr j "id") (jStr j "issuer")
  else if jStr j "t" == "ref" then .ref (jStr j "flow") (jStr j "code")
  else .token (jStr j "at") (jStr j "code") s!"tok{i}" s!"cn{i}"

def vresStr (r : VRes) : String :=
  match r.ans with
  | .ok => if r.flow == "" then "ok" else "200:" ++ r.flow
  | a => ansStr a

def sortedStrs (l : List String) : String := String.intercalate "," (l.toArray.qsort (· < ·)).toList

def smLive (incl : Bool) (now : Nat) (m : SMap) : List (String × String) :=
  let rec go : SMap → List String → List (String × String)
    | [], _ => []
    | (k, e) :: rest, seen =>
      if seen.contains k then go rest seen
      else if alive incl now e.exp then (k, e.val) :: go rest (k :: seen) else go rest (k :: seen)
  go m []

def vformsLine (j : Json) : String :=
  let redis := jStr j "backend" == "redis"
  let cfg := today false (!redis)
  let reqs := (jArr j "reqs").zipIdx.map (fun (rj, i) => (jNat rj "dt", parseVForm i rj))
  let r := runVForms cfg.expInclusive cfg.ttl 0 ⟨[], [], [], []⟩ reqs
  let s := r.2.1
  let now := r.2.2
  let codes := s.codes.filterMap (fun (k, e) => if alive cfg.expInclusive now e.exp then some ("code/" ++ k.id ++ "=" ++ e.val) else none)
  let flows := (smLive cfg.expInclusive now s.flows).map (fun (k, v) => "flow/" ++ k ++ "=" ++ v)
  let ats := (smLive cfg.expInclusive now s.access).map (·.2)
  let cn := (smLive cfg.expInclusive now s.cnonce).map (·.2)
  let calls := (runVFormCalls cfg 0 ⟨[], [], [], []⟩ reqs).map (String.intercalate ",")
  s!"vforms ans={String.intercalate ";" (r.1.map vresStr)} live=[{sortedStrs (codes ++ flows)}] at=[{sortedStrs ats}] cn=[{sortedStrs cn}] calls=[{String.intercalate ";" calls}]"

def step (u : Unit) (j : Json) : Unit × List String :=
  match jStr j "op" with
  | "vforms" => (u, [vformsLine j])
  | "forms" => (u, [formsLine j])
  | "run" => (u, [runLine j])
  | "window" => (u, [windowLine j])
  | "count" => (u, [countLine j])
  | "cross" => (u, [crossLine j])
  | "note" => (u, ["note " ++ jStr j "text"])
  | o => (u, ["bad-op:" ++ o])

def evInt : Ev → Int
  | .step i => i
  | .tick dt => -(dt : Int)

def reqJson : Req → Json
  | .burn r => Json.mkObj [("kind", (Kind.burn r.kind).name), ("id", r.id), ("want", r.want), ("pre", r.pre), ("post", r.post)]
  | .mark r => Json.mkObj [("kind", (Kind.mark r.kind).name), ("id", r.id), ("want", ""), ("pre", true), ("post", true)]

/-- the Lean witness schedules as op lines, to be replayed on the implementation: several nodes on one Redis
    (where they are expected to show two successes) and on one node (where they must not) -/
def witnessLines : List String := Id.run do
  let ttl := Json.mkObj (Kind.all.map fun k => (k.name, Json.num (todayTTL k)))
  let mut out : List String := []
  for level in ["storage", "iam"] do
    for backend in ["redis-multinode", "redis", "mem"] do
      for (name, st, reqs, sched) in
          [("lean-witness-code", witnessStore, [witnessCodeReq, witnessCodeReq], witnessSched),
           ("lean-witness-s2s", ([] : Store), witnessMarkReqs .s2s, witnessMarkSched),
           ("lean-witness-jti", ([] : Store), witnessMarkReqs .jti, witnessMarkSched)] do
        let initJ := st.map fun (k, e) => Json.mkObj [("kind", k.ns.name), ("id", k.id), ("val", e.val)]
        let base : List (String × Json) :=
          [("op", "run"), ("scn", name), ("level", level), ("backend", backend), ("strict", false),
           ("init", Json.arr initJ.toArray), ("threads", Json.arr (reqs.map reqJson).toArray),
           ("sched", Json.arr ((sched.map fun e => Json.num (evInt e)).toArray))]
        let fields := if level == "storage" then base ++ [("ttl", ttl)] else base
        out := out ++ [(Json.mkObj fields).compress]
  return out

end Nuts.Drv.C05

def main (args : List String) : IO Unit := do
  if args.contains "witnesses" then
    for l in Nuts.Drv.C05.witnessLines do IO.println l
  else
    Nuts.Drv.loop (← IO.getStdin) (← IO.getStdout) Nuts.Drv.C05.step ()
