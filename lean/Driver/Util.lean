import Lean.Data.Json
open Lean

namespace Nuts.Drv

def jStr (j : Json) (k : String) : String := (j.getObjValAs? String k).toOption.getD ""
def jNat (j : Json) (k : String) : Nat := (j.getObjValAs? Nat k).toOption.getD 0
def jInt (j : Json) (k : String) : Int := (j.getObjValAs? Int k).toOption.getD 0
def jBool (j : Json) (k : String) : Bool := (j.getObjValAs? Bool k).toOption.getD false
def jArr (j : Json) (k : String) : List Json :=
  match j.getObjVal? k with
  | .ok (.arr a) => a.toList
  | _ => []
def jStrs (j : Json) (k : String) : List String :=
  (jArr j k).filterMap (fun x => x.getStr?.toOption)
def jNats (j : Json) (k : String) : List Nat :=
  (jArr j k).filterMap (fun x => x.getNat?.toOption)
def jObj (j : Json) (k : String) : Json := (j.getObjVal? k).toOption.getD Json.null
def jHas (j : Json) (k : String) : Bool := (j.getObjVal? k).toOption.isSome

/-- de-duplicating probe table: each distinct result gets an index in order of first appearance -/
structure Probes where
  line : Array String := #[]
  table : Array String := #[]

def Probes.lit (p : Probes) (s : String) : Probes := { p with line := p.line.push s }
def Probes.probe (p : Probes) (label res : String) : Probes :=
  match p.table.findIdx? (· == res) with
  | some i => { p with line := p.line.push s!"{label}#{i}" }
  | none => { line := p.line.push s!"{label}#{p.table.size}", table := p.table.push res }
def Probes.render (p : Probes) : String := Id.run do
  let mut out := String.intercalate " | " p.line.toList
  for h : i in [0:p.table.size] do
    out := out ++ s!" || #{i}={p.table[i]}"
  return out

/-- generic line loop: `step` maps (state, parsed JSON op) to (state, output lines) -/
partial def loop {σ} (h : IO.FS.Stream) (out : IO.FS.Stream) (step : σ → Json → σ × List String) (s : σ) : IO Unit := do
  let line ← h.getLine
  if line.isEmpty then return ()
  let t := line.trimAscii.toString
  if t.isEmpty then loop h out step s else
  match Json.parse t with
  | .error e =>
    out.putStrLn s!"bad-op:{e}"
    loop h out step s
  | .ok j =>
    let (s', ls) := step s j
    for l in ls do out.putStrLn l
    loop h out step s'

end Nuts.Drv
