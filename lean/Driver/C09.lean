import Driver.Util
import NutsModel.C09.Ambassador
import NutsModel.C09.Entry
import NutsModel.C09.Manager
import NutsModel.C09.Commit
import NutsModel.C09.Maintain
import NutsModel.Facts.C09
import NutsModel.Facts.C10
open Lean Nuts.Drv Nuts.C10 Nuts.C09 Nuts

namespace Nuts.Drv.C09

def short (h : String) : String := (h.take 10).toString

def hexVal (s : String) : Nat :=
  s.foldl (fun acc c =>
    let d := if '0' ≤ c ∧ c ≤ '9' then c.toNat - '0'.toNat
             else if 'a' ≤ c ∧ c ≤ 'f' then c.toNat - 'a'.toNat + 10 else 0
    acc * 16 + d) 0

def hexDigit (n : Nat) : Char := if n < 10 then Char.ofNat (n + '0'.toNat) else Char.ofNat (n - 10 + 'a'.toNat)

def shortRef (r : Nat) : String :=
  let top := r / 16 ^ 54
  String.ofList ((List.range 10).map fun i => hexDigit ((top / 16 ^ (9 - i)) % 16))

def parseVM (j : Json) : NVM :=
  { id := jStr j "id", pfx := jStr j "pfx", frag := jStr j "frag", idEmpty := jBool j "idEmpty",
    typeBlank := jBool j "typeBlank", ctrlEmpty := jBool j "ctrlEmpty", pkUnsupported := jBool j "pkUnsupported", key := KeyInfo.ofBody (jStr j "key") }

def parseSvc (j : Json) : NSvc :=
  { id := jStr j "id", pfx := jStr j "pfx", frag := jStr j "frag", type := jStr j "type", idBlank := jBool j "idBlank",
    typeBlank := jBool j "typeBlank", endpointBad := jBool j "endpointBad", body := jStr j "body" }

def parseDoc (j : Json) : NDoc :=
  { id := jStr j "id", idID := jStr j "idID", idEmpty := jBool j "idEmpty", hasDidCtx := jBool j "hasDidCtx",
    contexts := jStrs j "contexts", controllers := jStrs j "controllers", ctrlEmptyAny := jBool j "ctrlEmptyAny", vmNull := jBool j "vmNull", relNull := jBool j "relNull",
    vms := (jArr j "vms").map parseVM, auth := (jArr j "auth").map parseVM, assertion := (jArr j "assertion").map parseVM,
    keyAgr := (jArr j "keyAgr").map parseVM, capInv := (jArr j "capInv").map parseVM, capDel := (jArr j "capDel").map parseVM,
    services := (jArr j "services").map parseSvc }

def parseTx (j : Json) : Tx × String :=
  let emb : Option Key := match j.getObjVal? "embedded" with
    | .ok (.str s) => some s
    | _ => none
  ({ ref := hexVal (jStr j "ref"), clock := jNat j "clock", sigTime := jNat j "time", prevs := (jStrs j "prevs").map hexVal,
     payloadHash := jStr j "payloadHash", payloadHashEmpty := jBool j "payloadHashEmpty", sigTimeZero := jBool j "sigTimeZero",
     typeOK := jBool j "typeOK", embedded := emb,
     kid := { parseOK := jBool j "kidOK", holder := jStr j "kidHolder", id := jStr j "kidID" },
     signer := jStr j "signer" }, jStr j "embeddedDid")

/-- the model instantiated with what the source says today -/
def cfgFor (emb : Option Key) (embDid : String) : Nuts.C09.Cfg :=
  { thumb := fun k => k
    didThumb := fun k => if some k = emb then embDid else "?" ++ k
    maxDepth := Nuts.Facts.C09.maxControllerDepth
    validators := Nuts.Facts.C09.networkValidators
    vmNilJwkErr := Nuts.Facts.C09.verifyThumbprintGuardsNilJwk
    findKeyNilJwkErr := Nuts.Facts.C09.findKeyGuardsNilJwk
    store := cfgOf (fun _ l => l) Nuts.Facts.C10.mergeSortedFields }

/-- the entry configuration as the source has it today (regenerated constants) -/
def entryCfg : EntryCfg :=
  { payloadEventType := Nuts.Facts.C09.payloadEventType, didDocumentType := Nuts.Facts.C09.didDocumentType }

/-- the harness's fault names: "db" | "other" (Add) | "lookup-db:<k>" | "lookup-other:<k>" | "lookup-db:all" | "lookup-other:all" -/
def parseFault (s : String) (nPrevs : Nat) : Option AddFault :=
  match s.splitOn ":" with
  | ["db"] => some { name := "db", isDb := true }
  | ["other"] => some { name := "other", isDb := false }
  | [kind, k] =>
    let db := kind == "lookup-db"
    if kind == "lookup-db" || kind == "lookup-other" then
      let nm := if db then "db" else "other"
      if k == "all" then some { name := nm, isDb := db, site := .lookup (List.range nPrevs) true }
      else some { name := nm, isDb := db, site := .lookup [k.toNat!] false }
    else none
  | _ => none

structure St where
  store : Store := {}
  verify : Bool := true
  dids : List String := []
  refs : List String := []
  times : List Nat := []
  kids : List (String × Kid) := []
  known : List String := []
  lastObs : String := ""
  seen : List (Nat × Tx × Option NDoc × String) := []   -- deliveries that reached the callback (index, tx, document, did thumbprint)

def hashName (known : List String) (h : String) : String :=
  if known.contains h then short h else "M"

def showResolve (known : List String) (r : Res (Doc × Meta)) : String :=
  match r with
  | .err e => "err:" ++ e
  | .panic s => "panic:" ++ s
  | .ok (d, m) =>
    let prev := match m.prevHash with | some h => hashName known h | none => "-"
    s!"ok doc={d.render} created={m.created} updated={m.updated} hash={hashName known m.hash} prev={prev} src=[{String.intercalate "," (m.sourceTx.map shortRef)}] deact={m.deactivated}"

def cls (r : Res Doc) : String :=
  match r with
  | .ok _ => "ok" | .err e => "err:" ++ e | .panic s => "panic:" ++ s

def parseKidProbe (j : Json) : String × Kid :=
  (jStr j "k", { parseOK := jBool j "ok", holder := jStr j "holder", id := jStr j "id" })

def keyClass (r : Res Key) : String :=
  match r with
  | .ok k => "key:" ++ k | .err e => "err:" ++ e | .panic s => "panic:" ++ s

def observe (st : St) : String := Id.run do
  let s := st.store
  let md := Nuts.Facts.C09.maxControllerDepth
  let mut p : Probes := {}
  p := p.lit s!"cc={s.conflictedCount} dc={s.documentCount}"
  for d in st.dids do
    p := p.lit ("DID " ++ d)
    p := p.probe "nil:" (showResolve st.known (resolve s d none))
    p := p.probe "ad:" (showResolve st.known (resolve s d (some { allowDeactivated := true })))
    p := p.probe "R:" (cls (resolverResolve md s none d))
    for t in st.times do
      p := p.probe s!"t{t}:" (showResolve st.known (resolve s d (some { time := some t })))
      p := p.probe s!"Rt{t}:" (cls (resolverResolve md s (some { time := some t }) d))
    let mut i := 0
    for r in st.refs do
      let rv := hexVal r
      p := p.probe s!"s{i}:" (showResolve st.known (resolve s d (some { sourceTx := some rv, allowDeactivated := true })))
      p := p.probe s!"Rs{i}:" (cls (resolverResolve md s (some { sourceTx := some rv }) d))
      i := i + 1
    i := 0
    for h in st.known do
      p := p.probe s!"h{i}:" (showResolve st.known (resolve s d (some { hash := some h, allowDeactivated := true })))
      i := i + 1
    p := p.lit s!"conflicted={(s.get d).conflicted}"
  for (k, kid) in st.kids do
    let mut ans : Array String := #[]
    let mut i := 0
    for r in st.refs do
      let a := keyClass (resolvePublicKey md s kid [hexVal r])
      if a != "err:not-found" then ans := ans.push s!"{i}={a}"
      i := i + 1
    p := p.lit ("KID " ++ k ++ " " ++ String.intercalate "," ans.toList)
  return p.render

def step (st : St) (j : Json) : St × List String :=
  match jStr j "op" with
  | "hist" =>
    let pj := jObj j "probes"
    let st' : St := { store := {}, verify := !(jBool j "noVerify"), dids := jStrs pj "dids", refs := jStrs pj "refs",
                      times := jNats pj "times", kids := (jArr pj "kids").map parseKidProbe, known := jStrs pj "known" }
    let o := observe st'
    ({ st' with lastObs := o }, [s!"hist {jInt j "h"} {o}"])
  | "pair" =>
    let (tx, embDid) := parseTx (jObj j "tx")
    let pd : Option NDoc := if (jObj j "doc").isNull then none else some (parseDoc (jObj j "doc"))
    let c := cfgFor tx.embedded embDid
    let cbOnly := if jHas j "cb" then jBool j "cb" else !st.verify
    let hdr := s!"pair {jInt j "h"}.{jNat j "i"}"
    if jHas j "ev" then
      -- entry layer: the event goes through the subscription `ambassador.Start` makes (selection filter, then
      -- handleNetworkEvent), possibly against a DID store whose Add fails
      let evj := jObj j "ev"
      let ev : DagEvent := { evType := jStr evj "type", payloadType := jStr evj "ptype", tx := tx, payload := pd }
      let f : Option AddFault := parseFault (jStr evj "fault") tx.prevs.length
      let (s', ack) := notify entryCfg Nuts.Facts.C09.networkEventFatalUnlessDatabaseError c st.store ev f
      -- filtered or not, the transaction is on the DAG: a later REPROCESS hands it to `callback`
      let st := { st with seen := st.seen ++ [(jNat j "i", tx, pd, embDid)] }
      -- was the failing store call executed? (Add: the delivery got as far as didStore.Add)
      let hit : Bool := match ack, f with
        | some _, some ft =>
          (match ft.site with
           | .add => (match callback c st.store tx pd with | .ok _ => true | .err e => isStoreErr e | .panic _ => false)
           | .lookup _ _ => faultHit c st.store tx pd f)
        | _, _ => false
      let flag := if hit then " FAULT-HIT" else ""
      match ack with
      | none => (st, [s!"{hdr} filtered [db-same] ="])
      | some .finished =>
        let dup := match pd with
          | some d => contains (st.store.get d.id).events (eventOf tx d)
          | none => false
        let st' := { st with store := s' }
        let o := observe st'
        let shown := if o == st.lastObs then "=" else o
        ({ st' with lastObs := o }, [s!"{hdr} ok [{if dup then "db-same" else "db-changed"}] {shown}"])
      | some a => (st, [s!"{hdr} {a.render} [db-same{flag}] ="])
    else
    let r := if cbOnly then callback c st.store tx pd else deliver c st.store tx pd
    let st := { st with seen := st.seen ++ [(jNat j "i", tx, pd, embDid)] }
    match r with
    | .ok s' =>
      let dup := match pd with
        | some d => contains (st.store.get d.id).events (eventOf tx d)
        | none => false
      let st' := { st with store := s' }
      let o := observe st'
      let shown := if o == st.lastObs then "=" else o
      ({ st' with lastObs := o }, [s!"{hdr} ok [{if dup then "db-same" else "db-changed"}] {shown}"])
    | .err e => (st, [s!"{hdr} err:{e} [db-same] ="])
    | .panic x => (st, [s!"{hdr} panic:{x} [db-same] ="])
  | "mgr" =>
    -- the node's own publishing path: Manager.Update on the store of this moment, key store = the listed key ids
    let hdr := s!"mgr {jInt j "h"}.{jNat j "i"}.{jNat j "j"}"
    -- round 3: `own` = the transaction CreateTransaction answered; Manager.Update then writes it to the store itself
    let ownAdd := fun (st : St) (c : C09.Cfg) (p : Published) (line : String) =>
      if (jObj j "own").isNull then (st, [line])
      else
        let (tx, _) := parseTx (jObj j "own")
        match managerOwnAdd c st.store tx p with
        | .ok s' =>
          let st' := { st with store := s' }
          let o := observe st'
          let shown := if o == st.lastObs then "=" else o
          ({ st' with lastObs := o }, [line ++ " own-add=ok OBS " ++ shown])
        | .err e => (st, [line ++ " own-add=err:" ++ e])
        | .panic x => (st, [line ++ " own-add=panic:" ++ x])
    let via := jStr j "via"
    let has := jStrs j "has"
    let hasF := fun (k : String) => has.contains k
    let nextO : Option NDoc := if (jObj j "doc").isNull then none else some (parseDoc (jObj j "doc"))
    let showT := fun (r : Res Template) =>
      match r with
      | .ok (.update p) => s!"{hdr} ok kid={p.kid} prevs=[{String.intercalate "," (p.prevs.map shortRef)}]"
      | .ok (.create kid k _) => s!"{hdr} ok kid={kid} prevs=[] key={k}"
      | .ok .nothing => s!"{hdr} ok nothing"
      | .err e => s!"{hdr} err:{e}"
      | .panic x => s!"{hdr} panic:{x}"
    if via == "" then
      match nextO with
      | none => (st, [s!"{hdr} err:mgr:unparseable"])
      | some next =>
        let c := cfgFor none ""
        match managerUpdate c st.store hasF (jBool j "svcOk") (jStr j "id") next with
        | .ok p => ownAdd st c p s!"{hdr} ok kid={p.kid} prevs=[{String.intercalate "," (p.prevs.map shortRef)}]"
        | .err e => (st, [s!"{hdr} err:{e}"])
        | .panic x => (st, [s!"{hdr} panic:{x}"])
    else if via == "rmvm" then
      -- Manager.RemoveVerificationMethod: `doc` = view of the resolved latest version (null when the lookup failed)
      let c := cfgFor none ""
      let cur : NDoc := match nextO with | some d => d | none => { id := "", idID := "" }
      match managerRemoveVM c st.store hasF (jBool j "svcOk") (jStr j "id") cur (jStr j "rm") with
      | .ok (some p) =>
        let shape := s!"doc=vm[{String.intercalate "," (p.doc.vms.map (·.id))}]ci[{String.intercalate "," (p.doc.capInv.map (·.id))}]"
        ownAdd st c p s!"{hdr} ok kid={p.kid} prevs=[{String.intercalate "," (p.prevs.map shortRef)}] {shape}"
      | .ok none => (st, [s!"{hdr} ok nothing"])
      | .err e => (st, [s!"{hdr} err:{e}"])
      | .panic x => (st, [s!"{hdr} panic:{x}"])
    else if via == "iscommitted" then
      match managerIsCommitted st.store (jStr j "id") (jStr j "hash") with
      | .ok b => (st, [s!"{hdr} ok committed={b}"])
      | .err e => (st, [s!"{hdr} err:mgr:is-committed:{e}"])
      | .panic x => (st, [s!"{hdr} panic:{x}"])
    else if via == "new" then
      -- Manager.NewDocument for the key `key` (DID id string = `b58`, the harness's own base58 thumbprint), then Commit(created)
      let k := jStr j "key"
      let c := cfgFor (some k) (jStr j "b58")
      let d := newDocument c k
      let rels := s!"{d.auth.length},{d.assertion.length},{d.keyAgr.length},{d.capInv.length},{d.capDel.length}"
      let shape := s!"{d.id}|{String.intercalate "," (d.vms.map (·.id))}|{rels}|ctrl={d.controllers.length}|svc={d.services.length}|sub={didSubKIDName c d.idID k}"
      (st, [showT (managerCommit c st.store hasF (jBool j "svcOk") .created d.id (some d) d) ++ " new=" ++ shape])
    else
      let c := cfgFor none ""
      let t : ChangeType := if via == "created" then .created else if via == "deactivated" then .deactivated
        else if via == "updated" then .updated else .other
      match t, nextO with
      | .deactivated, none => (st, [s!"{hdr} err:mgr:bad-op"])
      | .deactivated, some d =>
        match managerCommit c st.store hasF (jBool j "svcOk") .deactivated (jStr j "id") none d with
        | .ok (.update p) => ownAdd st c p (showT (.ok (.update p)))
        | r => (st, [showT r])
      | t, n => (st, [showT (managerCommit c st.store hasF (jBool j "svcOk") t (jStr j "id") n { id := "", idID := "" })])
  | "reprocess" =>
    -- REPROCESS of application/did+json: the listed transactions go through `callback` again, in order
    let idx := jNats j "is"
    let todo := idx.filterMap (fun i => st.seen.find? (fun e => e.1 == i))
    let r := todo.foldl (fun (acc : Store × Bool) e =>
      let (_, tx, pd, embDid) := e
      match callback (cfgFor tx.embedded embDid) acc.1 tx pd with
      | .ok s' =>
        let dup := match pd with
          | some d => contains (acc.1.get d.id).events (eventOf tx d)
          | none => false
        (s', acc.2 || !dup)
      | _ => acc) (st.store, false)
    let st' := { st with store := r.1 }
    let o := if r.2 then observe st' else st.lastObs
    let shown := if o == st.lastObs then "=" else o
    ({ st' with lastObs := o }, [s!"reprocess {jInt j "h"} [{if r.2 then "db-changed" else "db-same"}] {shown}"])
  | "verify" =>
    -- the DAG's signature verifier alone, at the store state of this moment (delayed-VDR schedule)
    let (tx, _) := parseTx (jObj j "tx")
    let cls := match verifySig st.store tx with
      | .ok () => "admit" | .err e => "err:" ++ e | .panic x => "panic:" ++ x
    (st, [s!"verify {jInt j "h"}.{jNat j "i"} {cls}"])
  | o => (st, ["bad-op:" ++ o])

end Nuts.Drv.C09

def main : IO Unit := do
  Nuts.Drv.loop (← IO.getStdin) (← IO.getStdout) Nuts.Drv.C09.step ({} : Nuts.Drv.C09.St)
