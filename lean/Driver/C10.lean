import Driver.Util
import NutsModel.C10.DidStore
import NutsModel.Facts.C10
open Lean Nuts.Drv Nuts.C10 Nuts

namespace Nuts.Drv.C10

def short (h : String) : String := (h.take 10).toString

def hexVal (s : String) : Nat :=
  s.foldl (fun acc c =>
    let d := if '0' ≤ c ∧ c ≤ '9' then c.toNat - '0'.toNat
             else if 'a' ≤ c ∧ c ≤ 'f' then c.toNat - 'a'.toNat + 10 else 0
    acc * 16 + d) 0

def hexDigit (n : Nat) : Char := if n < 10 then Char.ofNat (n + '0'.toNat) else Char.ofNat (n - 10 + 'a'.toNat)

/-- first 10 hex digits of the 64-digit rendering -/
def shortRef (r : Nat) : String :=
  let top := r / 16 ^ 54
  String.ofList ((List.range 10).map fun i => hexDigit ((top / 16 ^ (9 - i)) % 16))

def fieldOfName (n : String) : Option Field := Field.all.find? (fun f => f.name == n)

def parseDoc (j : Json) : Doc :=
  let fj := jObj j "f"
  { id := jStr j "id"
    f := fun x => (jArr fj x.name).map (fun e => { id := jStr e "id", body := jStr e "body" }) }

def parseEvent (j : Json) : Event :=
  { clock := jNat j "clock", sigTime := jNat j "time", ref := hexVal (jStr j "ref"), prevs := (jStrs j "prevs").map hexVal,
    payloadHash := "H:" ++ (parseDoc (jObj j "doc")).render, doc := parseDoc (jObj j "doc") }

/-- the model instantiated with what the source says today: map ranges visit in insertion order, and exactly
    the fields the source sorts are sorted -/
def cfg : Cfg := cfgOf (fun _ l => l) Nuts.Facts.C10.mergeSortedFields

structure St where
  last : String := "no-seq"

/-- FNV-1a 64 over the UTF-8 bytes (same function in the Go harness): short names for content hashes -/
def fnv64 (s : String) : UInt64 :=
  s.toUTF8.foldl (fun h b => (h ^^^ b.toUInt64) * 1099511628211) 14695981039346656037

def hex16 (n : UInt64) : String :=
  String.ofList ((List.range 16).map fun i => hexDigit ((n.toNat / 16 ^ (15 - i)) % 16))

def hashName (_known : List String) (h : String) : String :=
  "H" ++ hex16 (fnv64 ((h.drop 2).toString))   -- h = "H:" ++ render

def showResolve (known : List String) (r : Res (Doc × Meta)) : String :=
  match r with
  | .err e => "err:" ++ e
  | .panic s => "panic:" ++ s
  | .ok (d, m) =>
    let prev := match m.prevHash with | some h => hashName known h | none => "-"
    s!"ok doc={d.render} created={m.created} updated={m.updated} hash={hashName known m.hash} prev={prev} src=[{String.intercalate "," (m.sourceTx.map shortRef)}] deact={m.deactivated}"

def observe (s : Store) (evs : List Event) (times : List Nat) : String := Id.run do
  let known := evs.map (·.payloadHash)
  let dids := (evs.map (·.doc.id)).eraseDups.toArray.qsort (· < ·) |>.toList
  let mut p : Probes := {}
  p := p.lit s!"cc={s.conflictedCount} dc={s.documentCount}"
  for d in dids do
    p := p.lit ("DID " ++ d)
    p := p.probe "nil:" (showResolve known (resolve s d none))
    p := p.probe "ad:" (showResolve known (resolve s d (some { allowDeactivated := true })))
    for t in times do
      p := p.probe s!"t{t}:" (showResolve known (resolve s d (some { time := some t })))
      p := p.probe s!"ta{t}:" (showResolve known (resolve s d (some { time := some t, allowDeactivated := true })))
    let mut i := 0
    for e in evs do
      p := p.probe s!"s{i}:" (showResolve known (resolve s d (some { sourceTx := some e.ref, allowDeactivated := true })))
      p := p.probe s!"h{i}:" (showResolve known (resolve s d (some { hash := some e.payloadHash, allowDeactivated := true })))
      i := i + 1
    p := p.lit s!"conflicted={(s.get d).conflicted}"
  return p.render

def step (st : St) (j : Json) : St × List String :=
  match jStr j "op" with
  | "seq" =>
    let evs := ((jArr j "events").map parseEvent).toArray
    let arrival := jNats j "arrival"
    let times := jNats j "times"
    let seq := arrival.filterMap (fun i => evs[i]?)
    match addAll cfg {} seq with
    | .ok s => let o := observe s evs.toList times; ({ last := o }, [o])
    | .err e => ({ last := "err:" ++ e }, ["err:" ++ e])
    | .panic e => ({ last := "panic:" ++ e }, ["panic:" ++ e])
  | "again" => (st, [st.last])   -- restart: durable state is the whole model state
  | o => (st, ["bad-op:" ++ o])

end Nuts.Drv.C10

def main : IO Unit := do
  Nuts.Drv.loop (← IO.getStdin) (← IO.getStdout) Nuts.Drv.C10.step ({} : Nuts.Drv.C10.St)
