import Driver.Util
import NutsModel.C10.DidStore
import NutsModel.C10.Shelves
import NutsModel.C10.DocShelves
import NutsModel.C10.ReadPath
import NutsModel.C10.Cache
import NutsModel.Facts.C10
open Lean Nuts.Drv Nuts.C10 Nuts

namespace Nuts.Drv.C10

def short (h : String) : String := (h.take 10).toString

def hexVal (s : String) : Nat :=
  s.foldl (fun acc c =>
    let d := if '0' ≤ c ∧ c ≤ '9' then c.toNat - '0'.toNat
             else if 'a' ≤ c ∧ c ≤ 'f' then c.toNat - 'a'.toNat + 10 else 0
    acc * 16 + d) 0

def hexDigit (n : Nat) : Char := if n < 10 then Char.ofNat (n + '0'.toNat) else Char.ofNat (n - 10 + 'a'.toNat)

/-- first 10 hex digits of the 64-digit rendering -/
def shortRef (r : Nat) : String :=
  let top := r / 16 ^ 54
  String.ofList ((List.range 10).map fun i => hexDigit ((top / 16 ^ (9 - i)) % 16))

def fieldOfName (n : String) : Option Field := Field.all.find? (fun f => f.name == n)

def parseDoc (j : Json) : Doc :=
  let fj := jObj j "f"
  { id := jStr j "id"
    f := fun x => (jArr fj x.name).map (fun e => { id := jStr e "id", body := jStr e "body" }) }

def parseEvent (j : Json) : Event :=
  { clock := jNat j "clock", sigTime := jNat j "time", ref := hexVal (jStr j "ref"), prevs := (jStrs j "prevs").map hexVal,
    payloadHash := "H:" ++ (parseDoc (jObj j "doc")).render, doc := parseDoc (jObj j "doc") }

/-- the model instantiated with what the source says today: map ranges visit in insertion order, and exactly
    the fields the source sorts are sorted -/
def cfg : Cfg := cfgOf (fun _ l => l) Nuts.Facts.C10.mergeSortedFields

structure St where
  last : String := "no-seq"
  raw : String := "no-seq"
  rf : String := "no-seq"
  stale : String := "no-seq"

/-- FNV-1a 64 over the UTF-8 bytes (same function in the Go harness): short names for content hashes -/
def fnv64 (s : String) : UInt64 :=
  s.toUTF8.foldl (fun h b => (h ^^^ b.toUInt64) * 1099511628211) 14695981039346656037

def hex16 (n : UInt64) : String :=
  String.ofList ((List.range 16).map fun i => hexDigit ((n.toNat / 16 ^ (15 - i)) % 16))

def hashName (_known : List String) (h : String) : String :=
  "H" ++ hex16 (fnv64 ((h.drop 2).toString))   -- h = "H:" ++ render

def showDocMeta (known : List String) (d : Doc) (m : VMeta) : String :=
  let prev := match m.prevHash with | some h => hashName known h | none => "-"
  let upd := match m.updated with | some u => toString u | none => "-"
  s!"ok doc={d.render} created={m.created} updated={upd} hash={hashName known m.hash} prev={prev} src=[{String.intercalate "," (m.sourceTx.map shortRef)}] deact={m.deactivated}"

def showResolve (known : List String) (r : Res (Doc × Meta)) : String :=
  match r with
  | .err e => "err:" ++ e
  | .panic s => "panic:" ++ s
  | .ok (d, m) => showDocMeta known d m.asVDR

def showHistory (known : List String) (r : Res (List HistDoc)) : String :=
  match r with
  | .err e => "err:" ++ e
  | .panic s => "panic:" ++ s
  | .ok l => "ok [" ++ String.intercalate " " (l.map fun h => s!"{h.version}:{h.created}:{h.updated}:{hashName known h.raw}") ++ "]"

structure PSpec where
  h : Int
  s : Int
  t : Int
  ad : Bool

def parseProbe (j : Json) : PSpec := { h := jInt j "h", s := jInt j "s", t := jInt j "t", ad := jBool j "ad" }

/-- the Resolve metadata a probe stands for, for a DID whose own events (in set order) are `mine` -/
def probeMeta (mine : List Event) (p : PSpec) : ResolveMeta :=
  let pick (i : Int) : Option Event := if i ≥ 0 ∧ mine.length > 0 then mine[i.toNat % mine.length]? else none
  { allowDeactivated := p.ad
    hash := if p.h == -2 then some "H:?occurs-nowhere" else (pick p.h).map (·.payloadHash)
    sourceTx := if p.s == -2 then some 0 else (pick p.s).map (·.ref)
    time := if p.t ≥ 0 then some p.t.toNat else none }

/-- the whole model state the driver carries: the chain-level store and, per DID, the literal shelves -/
structure Both where
  s : Store := {}
  sh : List (String × Shelves) := []
  blob : Blob := {}
  stats : Stats := {}
  stale : List String := []   -- what Conflicted() / the counters say right after each rolled-back Add (code 3)

def hex2 (n : Nat) : String := String.ofList [hexDigit (n / 16 % 16), hexDigit (n % 16)]

def showBytes : Option (List Nat) → String
  | none => "-"
  | some l => String.join (l.map hex2)

def sortStrs (l : List String) : List String := (l.toArray.qsort (· < ·)).toList

/-- the literal shelves in the harness's canonical form (`vRawDump`) -/
def showRaw (b : Both) : String :=
  let latest := sortStrs (b.sh.filterMap fun (d, st) => st.latest.map fun n => s!"{d}>{d}{n}")
  let metas := sortStrs (b.sh.flatMap fun (d, st) => st.metas.map fun (n, p) => s!"{d}{n}:v{p.2.version}")
  let evrefs := sortStrs (b.sh.filterMap fun (d, st) =>
    if st.events.isEmpty then none
    else some (d ++ ":" ++ String.intercalate "/" (st.events.map fun x => match x.metaRef with | some n => s!"{d}{n}" | none => "")))
  let conf := sortStrs (b.sh.filterMap fun (d, st) => if st.conflicted then some (d ++ ":00") else none)
  let contentName (bytes : String) : String := "H" ++ hex16 (fnv64 bytes)
  let docName (h : String) : String := match alGet b.blob.docs h with | some bytes => contentName bytes | none => "?absent"
  let txs := sortStrs (b.blob.txRef.map fun (r, h) => shortRef r ++ ">" ++ docName h)
  let docs := sortStrs (b.blob.docs.map fun (h, bytes) => contentName bytes ++ (if h == "H:" ++ bytes then "" else "!key"))
  let j := String.intercalate ","
  s!"raw latest=[{j latest}] metas=[{j metas}] evrefs=[{j evrefs}] conf=[{j conf}] cc={showBytes b.stats.cc} dc={showBytes b.stats.dc} tx=[{j txs}] docs=[{j docs}]"

/-- a Resolve probe is answered by BOTH layers of the model (theorem `shelf_resolve_eq_resolve` says they agree);
    a disagreement is printed, so the correspondence also ties the shelf-level model to the implementation -/
def resolve2 (known : List String) (b : Both) (d : String) (rm : Option ResolveMeta) : String :=
  let a := showResolve known (resolve b.s d rm)
  let c := showResolve known (sResolve ((alGet b.sh d).getD {}) rm)
  if a == c then a else a ++ " SHELF-MODEL-ANSWERS:" ++ c

def observe (b : Both) (evs : List Event) (times : List Nat) (probes : List PSpec) (lite : Bool) : String := Id.run do
  let s := b.s
  let known := evs.map (·.payloadHash)
  let dids := (evs.map (·.doc.id)).eraseDups.toArray.qsort (· < ·) |>.toList
  let it := iterate s
  let act := findActive s
  let mut p : Probes := {}
  p := p.lit s!"cc={s.conflictedCount} dc={s.documentCount} nconf={s.cache.length} niter={it.length} nactive={act.length} iter=[{String.intercalate "," (it.map (·.1.id))}] unknown={showResolve known (resolve s "did:nuts:occursnowhere" (some { allowDeactivated := true }))}/{showHistory known (historySince (s.get "did:nuts:occursnowhere") 0)}"
  for d in dids do
    p := p.lit ("DID " ++ d)
    p := p.probe "nil:" (resolve2 known b d none)
    p := p.probe "ad:" (resolve2 known b d (some { allowDeactivated := true }))
    p := p.probe "nad:" (resolve2 known b d (some {}))
    let confS := match conflictedOf s d with | some (doc, m) => showDocMeta known doc m | none => "-"
    let iterS := match it.find? (fun q => q.1.id == d) with | some (doc, m) => showDocMeta known doc m | none => "-"
    let actS := match act.find? (fun q => q.id == d) with | some doc => doc.render | none => "-"
    if !lite then
      let mine := evs.filter (fun e => e.doc.id == d)
      let mut ti := 0
      for t in times do
        p := p.probe s!"t{ti}:" (resolve2 known b d (some { time := some t }))
        p := p.probe s!"ta{ti}:" (resolve2 known b d (some { time := some t, allowDeactivated := true }))
        ti := ti + 1
      let mut i := 0
      for e in evs do
        p := p.probe s!"s{i}:" (resolve2 known b d (some { sourceTx := some e.ref, allowDeactivated := true }))
        p := p.probe s!"h{i}:" (resolve2 known b d (some { hash := some e.payloadHash, allowDeactivated := true }))
        i := i + 1
      let mut k := 0
      for ps in probes do
        p := p.probe s!"p{k}:" (resolve2 known b d (some (probeMeta mine ps)))
        k := k + 1
      p := p.probe "conf:" confS
      p := p.probe "iter:" iterS
      p := p.probe "active:" actS
      for v in List.range (mine.length + 2) do
        p := p.probe s!"hist{v}:" (showHistory known (historySince (s.get d) v))
      let hn := match historySinceInt b.blob (s.get d) (-1 - ((mine.length % 3 : Nat) : Int)) with
        | .err e => "err:" ++ e | .panic e => "panic:" ++ e | .ok l => s!"ok {l.length}"
      p := p.probe "histneg:" hn
    else
      p := p.probe "conf:" confS
      p := p.probe "iter:" iterS
      p := p.probe "active:" actS
    p := p.lit s!"conflicted={(conflictedOf s d).isSome}"
  return p.render

/-- every read entry point with a failing k-th Get (`vReadFaults` in the harness) -/
def showRFault (b : Both) (evs : List Event) (times : List Nat) : String :=
  let s := b.s
  let dids := (evs.map (·.doc.id)).eraseDups.toArray.qsort (· < ·) |>.toList
  let D := dids.length
  let j := String.intercalate ","
  let cfgs := j ([1, 2, 3, 4].map fun k => faultClass (configureGets s) k)
  let its := j ([1, 2, 3, 2 * D, 2 * D + 1].map fun k => faultClass (iterateGets s) k)
  let head := s!"rfault cc1={faultClass 1 1} dc1={faultClass 1 1} cc2={faultClass 1 2} dc2={faultClass 1 2} cfg=[{cfgs}] iter=[{its}] find=[{j ([1, 2 * D, 2 * D + 1].map fun k => faultClass (iterateGets s) k)}]"
  let per := dids.map fun d =>
    let n := (evs.filter (fun e => e.doc.id == d)).length
    let sh := (alGet b.sh d).getD {}
    let mds : List (Option ResolveMeta) :=
      [none, some { allowDeactivated := true }] ++
      (match times with
       | [] => []
       | t0 :: _ => [some { time := some t0 }, some { time := some (times.getD (times.length / 2) 0), allowDeactivated := true }])
    let rs := mds.zipIdx.flatMap fun (rm, vi) =>
      [1, 2, 3, 4, 5, n + 2].map fun k =>
        let c := match sResolveF sh rm k with | .err "db" => "db" | _ => "same"
        s!"{vi}.{k}:{c}"
    let hs := [(0, 1), (0, 2), (0, n + 1), (0, n + 2), (n - 1, 1), (n - 1, 2), (n - 1, 3), (n, 1), (n, 2)].map fun (v, k) =>
      s!"{v}.{k}:{faultClass (historyGets (s.get d) v) k}"
    s!"DID {d} res=[{j rs}] hist=[{j hs}]"
  String.intercalate " | " (head :: per)

/-- 51 / 52: this Add overlaps the next arrival and is parked before its 1st / 2nd write transaction until the next
    Add has completed. The event list is read, changed and written inside ONE write transaction
    (fact_event_list_read_modify_write_in_one_transaction), and write transactions are serialised, so the outcome is that
    of the sequential order "next arrival first". -/
def applySwaps : List (Event × Nat) → List (Event × Nat)
  | [] => []
  | [x] => [x]
  | (e, c) :: (e2, c2) :: rest =>
    if c = 51 ∨ c = 52 then (e2, c2) :: (e, 0) :: applySwaps rest
    else (e, c) :: applySwaps ((e2, c2) :: rest)

/-- arrival sequence with the op's failure codes: an Add whose first or second write transaction fails (1, 2, 3)
    or one of whose shelf operations fails (100+k) leaves the modelled state unchanged (the txRef / document shelves are content addressed and only ever read
    for refs of listed events); 4 = restart (cache reload) before a plain Add -/
def runSeq (b : Both) : List (Event × Nat) → Res Both
  | [] => .ok b
  | (e, code) :: rest =>
    if code = 1 ∨ code = 2 ∨ code = 3 ∨ code > 100 then
      -- the first write transaction (writeDocument: shelf operations 1 and 2) commits on its own
      let mode := if code = 1 ∨ code = 101 ∨ code = 102 then 1 else 2
      -- code 3: the closure of the second write transaction ran to its end (the in-memory map was updated) and the
      -- transaction was rolled back (Cache.lean: addRolledBack); only the map is affected and the next committed Add
      -- or restart of this DID repairs it (stale_cache_entries_are_confined_and_repaired), so the state carried on
      -- is the one before — but the cache of the carried state must be the stale one for later Conflicted() calls
      let (s1, stale1) := if code = 3 then
          (match addRolledBack cfg b.s e with
           | .ok t =>
             let entry := match conflictedOf t e.doc.id with
               | some (doc, m) => "H" ++ hex16 (fnv64 doc.render) ++ "/" ++ String.intercalate "," (m.sourceTx.map shortRef)
               | none => "-"
             (t, b.stale ++ [s!"{e.doc.id}={entry} cc={b.s.conflictedCount}>{t.conflictedCount} dc={b.s.documentCount}>{t.documentCount}"])
           | .err x => (b.s, b.stale ++ ["err:" ++ x])
           | .panic x => (b.s, b.stale ++ ["panic:" ++ x]))
        else (b.s, b.stale)
      match dAddS cfg b.blob b.s b.stats e mode with
      | .ok (blob', _, _) => runSeq { b with blob := blob', s := s1, stale := stale1 } rest
      | .err x => .err x
      | .panic x => .panic x
    else
      let s0 := if code = 4 then reload b.s else b.s
      match dAddS cfg b.blob s0 b.stats e 0, sAdd cfg ((alGet b.sh e.doc.id).getD {}) e with
      | .ok (blob', s', stats'), .ok none => runSeq { b with s := s', blob := blob', stats := stats' } rest
      | .ok (blob', s', stats'), .ok (some st') => runSeq { b with s := s', sh := alPut b.sh e.doc.id st', blob := blob', stats := stats' } rest
      | .ok _, .err x => .err ("shelf-model:" ++ x)
      | .ok _, .panic x => .panic ("shelf-model:" ++ x)
      | .err x, _ => .err x
      | .panic x, _ => .panic x

def step (st : St) (j : Json) : St × List String :=
  match jStr j "op" with
  | "seq" =>
    let evs := ((jArr j "events").map parseEvent).toArray
    let arrival := jNats j "arrival"
    let fail := jNats j "fail"
    let times := jNats j "times"
    let probes := (jArr j "probes").map parseProbe
    let seq := (arrival.zipIdx).filterMap (fun (i, pos) => (evs[i]?).map (fun e => (e, fail.getD pos 0)))
    match runSeq {} (applySwaps seq) with
    | .ok b =>
      let o := observe b evs.toList times probes false
      -- restart: the durable state survives, the conflicted cache is rebuilt from the shelves
      ({ last := observe { b with s := reload b.s } evs.toList times probes true, raw := showRaw b, rf := showRFault b evs.toList times, stale := "stale " ++ String.intercalate " | " b.stale }, [o])
    | .err e => ({ last := "err:" ++ e, raw := "err:" ++ e, rf := "err:" ++ e, stale := "err:" ++ e }, ["err:" ++ e])
    | .panic e => ({ last := "panic:" ++ e, raw := "panic:" ++ e, rf := "panic:" ++ e, stale := "panic:" ++ e }, ["panic:" ++ e])
  | "again" => (st, [st.last])
  | "raw" => (st, [st.raw])
  | "rfault" => (st, [st.rf])
  | "stale" => (st, [st.stale])
  | o => (st, ["bad-op:" ++ o])

end Nuts.Drv.C10

def main : IO Unit := do
  Nuts.Drv.loop (← IO.getStdin) (← IO.getStdout) Nuts.Drv.C10.step ({} : Nuts.Drv.C10.St)
