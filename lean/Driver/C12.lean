import Driver.Util
import NutsModel.C12.PE
import NutsModel.C12.Ecma
import NutsModel.C12.Consumer
import NutsModel.C12.Formats
import NutsModel.C12.Registration
import NutsModel.C12.EnvelopeJSON
import NutsModel.Facts.C12
open Lean Nuts.Drv Nuts.C12 Nuts

namespace Nuts.Drv.C12

partial def toJ : Json → J
  | .null => .null
  | .bool b => .bool b
  | .num n => .num (toString n)
  | .str s => .str s
  | .arr a => .arr (a.toList.map toJ)
  | .obj kv => .obj (kv.toList.map (fun (k, v) => (k, toJ v)))

partial def ofJ : J → Json
  | .null => .null
  | .bool b => .bool b
  | .num s => match Json.parse s with | .ok j => j | .error _ => .str ("num:" ++ s)
  | .str s => .str s
  | .arr l => .arr (l.map ofJ).toArray
  | .obj kv => Json.mkObj (kv.map (fun (k, v) => (k, ofJ v)))

def renderJ (v : J) : String := (ofJ v).compress

/-- JSONPath subset parser: `$`, `.ident`, `["key"]`, `[n]`, trailing `[*]`; anything else is `none` -/
partial def parsePath (s : String) : Option Path :=
  let cs := s.toList
  match cs with
  | '$' :: rest => go rest []
  | _ => none
where
  isIdent (c : Char) : Bool := c.isAlphanum || c == '_' || c == '@'
  go : List Char → List Step → Option Path
    | [], acc => some { steps := acc.reverse }
    | '.' :: rest, acc =>
      let name := rest.takeWhile isIdent
      if name.isEmpty then none else go (rest.dropWhile isIdent) (.key (String.ofList name) :: acc)
    | '[' :: '*' :: ']' :: rest, acc => if rest.isEmpty then some { steps := acc.reverse, wild := true } else none
    | '[' :: '"' :: rest, acc =>
      let name := rest.takeWhile (· != '"')
      match rest.dropWhile (· != '"') with
      | '"' :: ']' :: rest' => go rest' (.key (String.ofList name) :: acc)
      | _ => none
    | '[' :: rest, acc =>
      let ds := rest.takeWhile Char.isDigit
      match rest.dropWhile Char.isDigit with
      | ']' :: rest' => if ds.isEmpty then none else go rest' (.idx (String.ofList ds).toNat! :: acc)
      | _ => none
    | _, _ => none

def optStr (j : Json) (k : String) : Option String := (j.getObjValAs? String k).toOption
def optNat (j : Json) (k : String) : Option Nat := (j.getObjValAs? Nat k).toOption

def parseFilter (j : Json) : Filter :=
  { type := jStr j "type", const := optStr j "const", pattern := optStr j "pattern",
    enum := if jHas j "enum" then some (jStrs j "enum") else none }

def parseField (j : Json) : Field :=
  { id := optStr j "id", optional := jBool j "optional", paths := (jStrs j "paths").map parsePath,
    filter := if jHas j "filter" then some (parseFilter (jObj j "filter")) else none }

def parseFormats (j : Json) : Option Formats :=
  match j with
  | .arr a => some (a.toList.filterMap fun e =>
      match e with
      | .arr #[.str k, .arr items] => some (k, items.toList.filterMap fun it =>
          match it with
          | .arr #[.str ek, .arr vals] => some (ek, vals.toList.filterMap (fun v => v.getStr?.toOption))
          | _ => none)
      | _ => none)
  | _ => none

def parseDesc (j : Json) : Desc :=
  { id := jStr j "id", name := jStr j "name", group := jStrs j "group", format := parseFormats (jObj j "format"),
    constraints := if jHas j "fields" then some ((jArr j "fields").map parseField) else none }

partial def parseSR (j : Json) : SR :=
  .mk (jStr j "name") (jStr j "rule") (optNat j "count") (optNat j "min") (optNat j "max") (jStr j "from") ((jArr j "nested").map parseSR)

def parsePD (j : Json) : PD :=
  { id := jStr j "id", format := parseFormats (jObj j "format"), descs := (jArr j "descs").map parseDesc, srs := (jArr j "srs").map parseSR }

def parseCred (j : Json) : Cred :=
  { name := jStr j "name", fmt := jStr j "fmt", key := jStr j "key", raw := jStr j "raw", tree := toJ (jObj j "tree"),
    proofTypes := jStrs j "proofTypes", nproof := jNat j "nproof", alg := jStr j "alg", sigEmpty := jBool j "sigEmpty",
    selEmpty := jBool j "selEmpty" }

structure St where
  pd : PD := {}
  creds : Array Cred := #[]
  re : List (String × String × ReRes) := []
  live : Bool := false

/-- the regexp2 contract as a table; a pair the harness did not supply is reported, never defaulted silently -/
def reTbl (tbl : List (String × String × ReRes)) : Regex := fun p s =>
  match tbl.find? (fun e => e.1 == p && e.2.1 == s) with
  | some e => e.2.2
  | none => .runErr

/-- patterns of the anchored-class subset are decided by the model's own ECMA-262 matcher (NutsModel/C12/Ecma.lean),
    all others by the supplied regexp2 table -/
def reOf (tbl : List (String × String × ReRes)) : Regex := ecmaFirst (reTbl tbl)

def parseRe (j : Json) : Option (String × String × ReRes) :=
  match j with
  | .arr #[.str p, .str s, .str k, .str v] =>
    let r : Option ReRes := match k with
      | "compileErr" => some .compileErr | "runErr" => some .runErr | "noMatch" => some .noMatch
      | "whole" => some (.whole v) | "cap" => some (.cap v) | "many" => some .many | _ => none
    r.map (fun x => (p, s, x))
  | _ => none

def cfg : Cfg := Nuts.Facts.C12.cfg

def showPath : Option Path → String
  | none => "<unparsable>"
  | some p => "$" ++ String.join (p.steps.map fun st => match st with | .key k => "." ++ k | .idx n => "[" ++ toString n ++ "]") ++ (if p.wild then "[*]" else "")

def showLevel (l : Level) : String := l.id ++ ":" ++ l.fmt ++ ":" ++ showPath l.path

def showMappings (ms : List Mapping) : String :=
  "[" ++ String.intercalate "," (ms.map fun m => String.intercalate ">" ((m.top :: m.nested).map showLevel)) ++ "]"

def showMatch (r : Res (List Mapping × List Cred)) : String :=
  match r with
  | .ok (ms, vcs) => "match ok vcs=[" ++ String.intercalate "," (vcs.map (·.name)) ++ "] map=" ++ showMappings ms
  | .err e => "match err:" ++ e
  | .panic s => "match panic:" ++ s

def walletOf (st : St) (j : Json) : List Cred := (j.getArr?.toOption.getD #[]).toList.filterMap (fun x => x.getNat?.toOption.bind (fun i => st.creds[i]?))

partial def parseLevels (j : Json) : List Level :=
  let l : Level := { id := jStr j "id", fmt := jStr j "fmt", path := parsePath (jStr j "path") }
  if jHas j "nested" then l :: parseLevels (jObj j "nested") else [l]

def parseMapping (j : Json) : Mapping :=
  match parseLevels j with
  | t :: rest => { top := t, nested := rest }
  | [] => { top := { id := "", fmt := "", path := none } }

def showBuild (r : Res (List Mapping × List Cred)) : String :=
  match r with
  | .ok (ms, vcs) => "build ok vcs=[" ++ String.intercalate "," (vcs.map (·.name)) ++ "] map=" ++ showMappings ms
  | .err e => "build err:" ++ e
  | .panic s => "build panic:" ++ s

/-- navigate `at` (object keys / array indexes) from a root -/
def navigate : List Json → J → Option J
  | [], v => some v
  | .str k :: rest, .obj kv => (objGet kv k).bind (navigate rest)
  | .num n :: rest, .arr l => (l[n.mantissa.toNat]?).bind (navigate rest)
  | _, _ => none

def parsePresCred (st : St) (j : Json) : Cred :=
  if jHas j "full" then parseCred (jObj j "full")
  else
    match st.creds.find? (fun c => c.name == jStr j "ref") with
    | some c => { c with raw := jStr j "raw" }
    | none => { name := "unknown-ref:" ++ jStr j "ref" }

/-- the go-did decoding contract as a table keyed by (rendered value, format) -/
def decoderOf (tbl : List (String × String × Decoded)) : Decoder := fun v f =>
  let k := renderJ v
  (tbl.find? (fun e => e.2.1 == f && e.1 == k)).map (·.2.2)

def buildDecodeTable (env : J) (maps : Array J) (entries : List Json) : List (String × String × Decoded) :=
  entries.filterMap fun e =>
    let root := jNat e "root"
    let rootV : Option J := if root == 0 then some env else maps[root]?
    match rootV.bind (navigate (jArr e "at")) with
    | none => none
    | some v =>
      let mi := jNat e "map"
      let asMap : Option J := if mi == 0 then none else maps[mi]?
      let d : Decoded :=
        if jStr e "kind" == "vc" then { cred := some { name := jStr e "cred", raw := jStr e "raw" }, asMap := asMap }
        else { cred := none, asMap := asMap }
      some (renderJ v, jStr e "fmt", d)

def showAssoc (l : List (String × String)) : String :=
  let sorted := (l.toArray.qsort (fun a b => a.1 < b.1)).toList
  "{" ++ String.intercalate "," (sorted.map fun (k, v) => k ++ "=" ++ v) ++ "}"

/-- the inputs of a `validate` op; `none` = the envelope does not parse -/
def parseVOp (st : St) (j : Json) : Option (Envelope × Decoder × List Mapping × Regex) :=
  -- array envelopes: the go-did verdict per presented entry (data); the model says whether the envelope parses
  let entries : List J := (jArr j "entries").map (fun e => if e.getStr?.toOption == some "vp" then J.str "vp" else J.null)
  let parsedEntries := parseArrayEnvelope (fun e => match e with | .str _ => some {} | _ => none) entries
  if jHas j "entries" && !parsedEntries.isOk then none else
  if jBool j "envErr" then none else
  let envJ := toJ (jObj j "env")
  let maps := ((jArr j "maps").map toJ).toArray
  let env : Envelope := { asInterface := envJ,
                          presentations := (jArr j "pres").map (fun p => (p.getArr?.toOption.getD #[]).toList.map (parsePresCred st)),
                          signerOK := (jArr j "signer").map (fun b => b.getBool?.toOption.getD false) }
  let decode := decoderOf (buildDecodeTable envJ maps (jArr j "decode"))
  let sub := (jArr j "sub").map parseMapping
  some (env, decode, sub, reOf (st.re ++ (jArr j "re").filterMap parseRe))

/-- a JSON object of objects of string arrays as a Go `map[string]map[string][]string` (`null` = nil map) -/
def parseFMap (j : Json) : Option FMap :=
  match toJ j with
  | .obj fs => some (fs.map fun (k, v) =>
      (k, match v with
          | .obj ps => ps.map (fun (p, vs) => (p, match vs with | .arr l => l.filterMap (fun x => match x with | .str s => some s | _ => none) | _ => []))
          | _ => []))
  | _ => none

def showFMap (m : FMap) : String :=
  showAssoc (m.map fun (k, ps) => (k, showAssoc (ps.map fun (p, vs) => (p, "[" ++ String.intercalate "," vs ++ "]"))))

def step (st : St) (j : Json) : St × List String :=
  match jStr j "op" with
  | "reject" => ({ st with live := false }, ["reject"])
  | "case" =>
    let pd := parsePD (jObj j "def")
    let st' : St := { pd := pd, creds := ((jArr j "creds").map parseCred).toArray, re := (jArr j "re").filterMap parseRe, live := true }
    (st', [s!"case req={credentialsRequired pd} wf={SR.wfL pd.srs}"])
  | "match" =>
    (st, [showMatch (pdMatch cfg (reOf st.re) st.pd (walletOf st (jObj j "wallet")))])
  | "build" =>
    (st, [showBuild (build cfg (reOf st.re) st.pd ((jArr j "wallets").map (walletOf st)))])
  | "validate" =>
    match parseVOp st j with
    | none => (st, ["validate envelope-err"])
    | some (env, decode, sub, re) =>
      let line := match validate cfg re decode st.pd env sub with
        | .ok m => "validate ok " ++ showAssoc (m.map fun (k, c) => (k, c.name))
        | .err e => "validate err:" ++ e
        | .panic s => "validate panic:" ++ s
      (st, [line])
  | "consumer" =>
    -- a scripted session of the REAL PEXConsumer (harness: auth/api/iam leg) on the inputs of a validate op:
    -- two required definitions (organization: the case's definition, user: the same definition under another id)
    match parseVOp st j with
    | none => (st, ["consumer envelope-err"])
    | some (env, decode0, sub, re) =>
      -- go-did contract: decoding a value of the envelope yields the credential the envelope's presentation holds
      -- (identified by Raw()); the view of that credential is the one supplied for the presentation
      let presCreds := env.presentations.flatten
      let decode : Decoder := fun v f => (decode0 v f).map fun d =>
        { d with cred := d.cred.map fun c => match presCreds.find? (fun x => x.raw == c.raw) with | some full => full | none => c }
      let idO := jStr j "defId"
      let pdO : PD := { st.pd with id := idO }
      let pdU : PD := { st.pd with id := idO ++ "-u" }
      let req : Required := [(.organization, pdO), (.user, pdU)]
      let ful (c : Consumer) (order : Required) (id : String) : Consumer × String :=
        match c.fulfill cfg re decode order { definitionId := id, descriptorMap := sub } env with
        | .ok c' => (c', "ok")
        | r => (c, r.cls)
      let showNext (c : Consumer) : String :=
        match c.next with | none => "none" | some (.organization, _) => "organization" | some (.user, _) => "user"
      let c0 := newPEXConsumer req
      let n0 := showNext c0
      let (c1, rOther) := ful c0 req (idO ++ "-other")
      let (c2, r1) := ful c1 req idO
      let n1 := showNext c2
      let (c3, rAgain) := ful c2 req.reverse idO
      let (c4, r2) := ful c3 req.reverse (idO ++ "-u")
      let n2 := showNext c4
      let cmR := c4.credentialMap cfg decode [] req
      let showVals (r : Res Values) : String := match r with
        | .ok vals => "ok " ++ showAssoc (vals.map fun (k, v) => (k, match v with | some x => renderJ x | none => "null"))
        | .err e => "err:" ++ e
        | .panic s => "panic:" ++ s
      let (cmS, v1, v2) := match cmR with
        | .ok cm =>
          (showAssoc (cm.map fun (e : String × Cred) => (e.1, e.2.raw)),
           showVals (resolveInputDescriptorValues cfg re cm [] [(.organization, pdO)]),
           showVals (resolveInputDescriptorValues cfg re cm [] req))
        | .err e => ("err:" ++ e, "-", "-")
        | .panic s => ("panic:" ++ s, "-", "-")
      (st, [s!"consumer next0={n0} other={rOther} f1={r1} next1={n1} again={rAgain} f2={r2} next2={n2} cm={cmS} v1={v1} v2={v2}"])
  | "registration" =>
    -- discovery validateRegistration (PE part) on the wallet of a match op; `cred.ID` = the credential view's top-level id
    let idOf : Cred → Option String := fun c =>
      match c.tree with
      | .obj fs => (match objGet fs "id" with | some (.str s) => some s | _ => none)
      | _ => none
    -- + the CLIENT side (discovery/client.go findCredentialsAndBuildPresentation) on the same wallet, and the round trip
    --   client -> server (validateRegistration on exactly the credentials the client presents)
    let w := walletOf st (jObj j "wallet")
    let (creg, rt) := match clientRegistrationCreds cfg (reOf st.re) st.pd w none with
      | .ok vcs => ("clientreg ok:" ++ String.intercalate "," (vcs.map (·.name)),
                    "roundtrip " ++ (validateRegistrationPE cfg (reOf st.re) idOf st.pd vcs).cls)
      | .err e => ("clientreg err:" ++ (if e == "nocred" then "nocred" else "other"), "roundtrip -")
      | .panic s => ("clientreg panic:" ++ s, "roundtrip -")
    (st, ["registration " ++ (validateRegistrationPE cfg (reOf st.re) idOf st.pd w).cls, creg, rt])
  | "activate" =>
    -- the DID loop of discovery/client.go activate on a sequence of per-DID outcomes
    let results : List RegResult := (jArr j "results").filterMap fun x =>
      match x.getStr?.toOption with
      | some "registered" => some .registered
      | some "nocred" => some .noCredentials
      | some "failed" => some .failed
      | _ => none
    (st, ["activate " ++ activateVerdict results])
  | "formats" =>
    -- presenter.buildSubmission's format negotiation: node defaults (data: the real oauth.DefaultOpenIDSupportedFormats())
    -- ∩ verifier metadata ∩ definition format, then ChooseVPFormat
    let defaults := match parseFMap (jObj j "defaults") with | some m => m | none => []
    let verifier := parseFMap (jObj j "verifier")
    let pdf := parseFMap (jObj j "pdFormat")
    let c1 := (openIDSupportedFormats (some defaults)).matchWith (openIDSupportedFormats verifier)
    let c2 := match pdf with | some pf => c1.matchWith (difClaimFormats (some pf)) | none => c1
    let chosen := presenterFormat Nuts.Facts.C12.vpFormatPreference defaults verifier pdf
    (st, [s!"formats chosen={chosen} step1={showFMap (match c1.map with | some m => m | none => [])} step2={showFMap (match c2.map with | some m => m | none => [])}"])
  | "envjson" =>
    -- Envelope.UnmarshalJSON / MarshalJSON / ParseEnvelope routing; the libraries' verdicts per byte string are data
    let vpOf (s : String) : VPVerdict := match s with | "jwt" => .jwt true | "jwt-unparsable" => .jwt false | "ld" => .ld | _ => .bad
    let single (x : Json) : SingleText := { vp := vpOf (jStr x "vp"), validJSON := jBool x "json" }
    let b := jObj j "envBytes"
    let entries : List ArrEntry := (jArr b "entries").map fun e =>
      { isString := jBool e "isString", asString := single (jObj e "asString"), asMarshalled := single (jObj e "asMarshalled") }
    let top : JTop := match jStr b "top" with | "invalid" => .invalid | "array" => .array entries | _ => .other
    let raw : EnvBytes := { first := (jStr b "first").toList.head?, top := top, vp := vpOf (jStr b "vp") }
    let outer : Outer := match jStr j "outer" with | "invalid" => .invalid | "str" => .str raw | _ => .other raw
    let line := match unmarshalEnvelope outer with
      | .err _ => "envjson err marshal=none again=none"
      | .panic _ => "envjson panic"
      | .ok (kept, sh) =>
        match marshalEnvelope Nuts.Facts.C12.envelopeAsIsFirstBytes kept with
        | .panic _ => s!"envjson ok {sh.show} marshal=panic again=none"
        | .err _ => s!"envjson ok {sh.show} marshal=err again=none"
        | .ok m =>
          let form := match m with | .asIs => "asis" | .quoted => "quoted"
          let again := match unmarshalEnvelope (reread kept m) with
            | .ok (_, sh2) => if sh2 == sh then "same" else "differs"
            | _ => "err"
          s!"envjson ok {sh.show} marshal={form} again={again}"
    (st, [line])
  | "vpformat" =>
    (st, ["vpformat " ++ chooseVPFormat Nuts.Facts.C12.vpFormatPreference (jStrs j "supported")])
  | "fields" =>
    let cm := (jArr j "credMap").filterMap fun e =>
      match e with
      | .arr #[.str id, .num n] => (st.creds[n.mantissa.toNat]?).map (fun c => (id, c))
      | _ => none
    let line := match resolveFields cfg (reOf st.re) st.pd [] cm with
      | .ok vals => "fields ok " ++ showAssoc (vals.map fun (k, v) => (k, match v with | some x => renderJ x | none => "null"))
      | .err _ => "fields err"
      | .panic s => "fields panic:" ++ s
    (st, [line])
  | "nildef" =>
    -- a definition unmarshalled without schema validation: null entries are nil pointers
    let d := jObj j "rawDef"
    let optList {α} (k : String) (f : Json → α) : List (Option α) := (jArr d k).map (fun x => if x.isNull then none else some (f x))
    let raw : RawPD := { id := jStr d "id", descs := optList "descs" parseDesc, srs := optList "srs" parseSR, nestedNull := jBool d "nestedNull" }
    let w := walletOf st (jObj j "wallet")
    let re := reOf st.re
    let cls {α} (r : Res α) : String := match r with | .ok _ => "ok" | .err e => "err:" ++ e | .panic s => "panic:" ++ s
    let req := match credentialsRequiredRaw cfg raw with | .ok b => toString b | .err e => "err:" ++ e | .panic s => "panic:" ++ s
    (st, [s!"nildef match={cls (pdMatchRaw cfg re raw w)} required={req} build={cls (buildRaw cfg re raw [w])} fields={cls (resolveFieldsRaw cfg re raw (w.map (fun c => ("d1", c))))}"])
  | o => (st, ["bad-op:" ++ o])

end Nuts.Drv.C12

def main : IO Unit := do
  Nuts.Drv.loop (← IO.getStdin) (← IO.getStdout) Nuts.Drv.C12.step ({} : Nuts.Drv.C12.St)
