import Driver.Util
import NutsModel.C12.PE
import NutsModel.Facts.C12
open Lean Nuts.Drv Nuts.C12 Nuts

namespace Nuts.Drv.C12

partial def toJ : Json → J
  | .null => .null
  | .bool b => .bool b
  | .num n => .num (toString n)
  | .str s => .str s
  | .arr a => .arr (a.toList.map toJ)
  | .obj kv => .obj (kv.toList.map (fun (k, v) => (k, toJ v)))

partial def ofJ : J → Json
  | .null => .null
  | .bool b => .bool b
  | .num s => match Json.parse s with | .ok j => j | .error _ => .str ("num:" ++ s)
  | .str s => .str s
  | .arr l => .arr (l.map ofJ).toArray
  | .obj kv => Json.mkObj (kv.map (fun (k, v) => (k, ofJ v)))

def renderJ (v : J) : String := (ofJ v).compress

/-- JSONPath subset parser: `$`, `.ident`, `["key"]`, `[n]`, trailing `[*]`; anything else is `none` -/
partial def parsePath (s : String) : Option Path :=
  let cs := s.toList
  match cs with
  | '$' :: rest => go rest []
  | _ => none
where
  isIdent (c : Char) : Bool := c.isAlphanum || c == '_' || c == '@'
  go : List Char → List Step → Option Path
    | [], acc => some { steps := acc.reverse }
    | '.' :: rest, acc =>
      let name := rest.takeWhile isIdent
      if name.isEmpty then none else go (rest.dropWhile isIdent) (.key (String.ofList name) :: acc)
    | '[' :: '*' :: ']' :: rest, acc => if rest.isEmpty then some { steps := acc.reverse, wild := true } else none
    | '[' :: '"' :: rest, acc =>
      let name := rest.takeWhile (· != '"')
      match rest.dropWhile (· != '"') with
      | '"' :: ']' :: rest' => go rest' (.key (String.ofList name) :: acc)
      | _ => none
    | '[' :: rest, acc =>
      let ds := rest.takeWhile Char.isDigit
      match rest.dropWhile Char.isDigit with
      | ']' :: rest' => if ds.isEmpty then none else go rest' (.idx (String.ofList ds).toNat! :: acc)
      | _ => none
    | _, _ => none

def optStr (j : Json) (k : String) : Option String := (j.getObjValAs? String k).toOption
def optNat (j : Json) (k : String) : Option Nat := (j.getObjValAs? Nat k).toOption

def parseFilter (j : Json) : Filter :=
  { type := jStr j "type", const := optStr j "const", pattern := optStr j "pattern",
    enum := if jHas j "enum" then some (jStrs j "enum") else none }

def parseField (j : Json) : Field :=
  { id := optStr j "id", optional := jBool j "optional", paths := (jStrs j "paths").map parsePath,
    filter := if jHas j "filter" then some (parseFilter (jObj j "filter")) else none }

def parseFormats (j : Json) : Option Formats :=
  match j with
  | .arr a => some (a.toList.filterMap fun e =>
      match e with
      | .arr #[.str k, .arr items] => some (k, items.toList.filterMap fun it =>
          match it with
          | .arr #[.str ek, .arr vals] => some (ek, vals.toList.filterMap (fun v => v.getStr?.toOption))
          | _ => none)
      | _ => none)
  | _ => none

def parseDesc (j : Json) : Desc :=
  { id := jStr j "id", name := jStr j "name", group := jStrs j "group", format := parseFormats (jObj j "format"),
    constraints := if jHas j "fields" then some ((jArr j "fields").map parseField) else none }

partial def parseSR (j : Json) : SR :=
  .mk (jStr j "name") (jStr j "rule") (optNat j "count") (optNat j "min") (optNat j "max") (jStr j "from") ((jArr j "nested").map parseSR)

def parsePD (j : Json) : PD :=
  { id := jStr j "id", format := parseFormats (jObj j "format"), descs := (jArr j "descs").map parseDesc, srs := (jArr j "srs").map parseSR }

def parseCred (j : Json) : Cred :=
  { name := jStr j "name", fmt := jStr j "fmt", key := jStr j "key", raw := jStr j "raw", tree := toJ (jObj j "tree"),
    proofTypes := jStrs j "proofTypes", nproof := jNat j "nproof", alg := jStr j "alg", sigEmpty := jBool j "sigEmpty",
    selEmpty := jBool j "selEmpty" }

structure St where
  pd : PD := {}
  creds : Array Cred := #[]
  re : List (String × String × ReRes) := []
  live : Bool := false

/-- the regexp2 contract as a table; a pair the harness did not supply is reported, never defaulted silently -/
def reOf (tbl : List (String × String × ReRes)) : Regex := fun p s =>
  match tbl.find? (fun e => e.1 == p && e.2.1 == s) with
  | some e => e.2.2
  | none => .runErr

def parseRe (j : Json) : Option (String × String × ReRes) :=
  match j with
  | .arr #[.str p, .str s, .str k, .str v] =>
    let r : Option ReRes := match k with
      | "compileErr" => some .compileErr | "runErr" => some .runErr | "noMatch" => some .noMatch
      | "whole" => some (.whole v) | "cap" => some (.cap v) | "many" => some .many | _ => none
    r.map (fun x => (p, s, x))
  | _ => none

def cfg : Cfg := Nuts.Facts.C12.cfg

def showMappings (ms : List Mapping) : String :=
  "[" ++ String.intercalate "," (ms.map fun m =>
    m.id ++ ":" ++ m.fmt ++ ":" ++ m.path ++ (match m.nested with | some (i, f, p) => ">" ++ i ++ ":" ++ f ++ ":" ++ p | none => "")) ++ "]"

def showMatch (r : Res (List Mapping × List Cred)) : String :=
  match r with
  | .ok (ms, vcs) => "match ok vcs=[" ++ String.intercalate "," (vcs.map (·.name)) ++ "] map=" ++ showMappings ms
  | .err e => "match err:" ++ e
  | .panic s => "match panic:" ++ s

def walletOf (st : St) (j : Json) (k : String) : List Cred := (jNats j k).filterMap (fun i => st.creds[i]?)

def step (st : St) (j : Json) : St × List String :=
  match jStr j "op" with
  | "reject" => ({ st with live := false }, ["reject"])
  | "case" =>
    let pd := parsePD (jObj j "def")
    let st' : St := { pd := pd, creds := ((jArr j "creds").map parseCred).toArray, re := (jArr j "re").filterMap parseRe, live := true }
    (st', [s!"case req={credentialsRequired pd}"])
  | "match" =>
    (st, [showMatch (pdMatch cfg (reOf st.re) st.pd (walletOf st j "wallet"))])
  | o => (st, ["bad-op:" ++ o])

end Nuts.Drv.C12

def main : IO Unit := do
  Nuts.Drv.loop (← IO.getStdin) (← IO.getStdout) Nuts.Drv.C12.step ({} : Nuts.Drv.C12.St)
