import Driver.Util
import NutsModel.C04.Token
import NutsModel.C04.Limiter
import NutsModel.C04.Uuid
import NutsModel.C04.Config
import NutsModel.C04.SshKey
import NutsModel.C04.Headers
import NutsModel.Facts.C04
open Lean Nuts.Drv Nuts.C04 Nuts

namespace Nuts.Drv.C04

def hexVal (c : Char) : Nat := unhex c

def unhexStr (s : String) : Str :=
  let rec go : List Char → Str
    | a :: b :: r => Char.ofNat (hexVal a * 16 + hexVal b) :: go r
    | _ => []
  go s.toList

def hexDigitL (n : Nat) : Char := if n < 10 then Char.ofNat (n + '0'.toNat) else Char.ofNat (n - 10 + 'a'.toNat)
def hexStr (s : Str) : String := String.ofList (s.flatMap fun c => [hexDigitL (c.toNat / 16), hexDigitL (c.toNat % 16)])

/-- bytes of a JSON string (the header is ASCII; other code points are UTF-8 encoded as Go does) -/
def bytesOf (s : String) : Str := s.toUTF8.toList.map (fun b => Char.ofNat b.toNat)

structure EngCfg where
  int : String
  pub : String
  auth : Bool
  rs : String
  aud : String
  lim : Bool := true     -- the internal rate limiter is installed (core.ServerConfig: strict mode / flag, did:nuts enabled)

structure St where
  regs : List (String × List Registered) := []
  engines : List (String × EngCfg) := []
  keys : List AuthKey := []
  aud : String := ""
  now : Int := 0
  buckets : List (String × Nat) := []    -- tokens left in each engine's (engine-wide) rate limiter bucket

def optInt (j : Json) (k : String) : Option Int := (j.getObjValAs? Int k).toOption
def optStr (j : Json) (k : String) : Option String := (j.getObjValAs? String k).toOption
def optBool (j : Json) (k : String) : Option Bool := (j.getObjValAs? Bool k).toOption

/-- the jti verdict: computed by the MODEL's `uuidParse` from the claim's bytes when the harness gives them (`jtis`, hex);
    the library's own verdict (`jti`) otherwise -/
def jtiVerdict (j : Json) : Option Bool :=
  match optStr j "jtis", optBool j "jti" with
  | some h, some _ => some (jtiOK Facts.C04.jtiFunction (unhexStr h))
  | _, v => v

/-- the harness's library verdict disagrees with the model's grammar on this jti -/
def jtiGrammarMismatch (j : Json) : Bool :=
  match optStr j "jtis", optBool j "jti" with
  | some h, some v => jtiOK Facts.C04.jtiFunction (unhexStr h) != v
  | _, _ => false

def parseClaims (j : Json) : Claims :=
  { jti := jtiVerdict j, iat := optInt j "iat", nbf := optInt j "nbf", exp := optInt j "exp",
    aud := match j.getObjVal? "aud" with
      | .ok (.arr a) => some (a.toList.filterMap (fun x => x.getStr?.toOption))
      | _ => none
    iss := optStr j "iss", sub := optStr j "sub" }

def parseAnalysis (j : Json) : Analysis :=
  { parses := jBool j "parses"
    sigs := (jArr j "sigs").map (fun s => { alg := jStr s "alg", hdrs := jStrs s "hdrs" })
    verifies := (jArr j "verifies").filterMap (fun x => x.getBool?.toOption)
    claims := parseClaims (jObj j "claims") }

def showResp (r : Response) : String :=
  let ran := match r.ran with | some i => toString i | none => "-"
  let user := match r.user with | some u => "user:" ++ u | none => "-"
  s!"{r.status} ran={ran} {user}"

/-- the model's answer to ONE request on an engine's listener -/
def bucketOf (st : St) (eng : String) : Nat :=
  match st.buckets.find? (·.1 == eng) with | some (_, b) => b | none => Facts.C04.limiterBurst

def setBucket (st : St) (eng : String) (b : Nat) : St :=
  { st with buckets := (eng, b) :: st.buckets.filter (fun x => x.1 != eng) }

def respOfL (st : St) (eng : String) (j : Json) : String × Nat :=
  let b := bucketOf st eng
  match st.engines.find? (·.1 == eng) with
  | none => ("bad-engine", b)
  | some (_, e) =>
    match configureBinds Facts.C04.internalBinds e.pub e.int with
    | none => ("bind-error", b)
    | some binds =>
      let addr := if jStr j "lis" == "pub" then e.pub else e.int
      let regs := match st.regs.find? (·.1 == e.rs) with | some (_, l) => l | none => []
      let regsHere := regs.filter (fun g => addrOf binds g.path = some addr)
      let authMap := match j.getObjVal? "authok" with
        | .ok (.obj kv) => kv.toList.map (fun (kv : String × Json) => (unhexStr kv.1, kv.2.getBool?.toOption.getD false))
        | _ => ([] : List (Str × Bool))
      let authOK := fun (a : Str) => match authMap.find? (·.1 = a) with | some (_, v) => v | none => false
      -- header-block ops carry the header lines as written; the model finds the Authorization value itself (Headers.lean) and
      -- looks the libraries' verdict on THAT value up (a value nobody analysed is not a token: nothing parses)
      let analysisOf := fun (v : Str) =>
        match (jArr j "cands").find? (fun c => unhexStr (jStr c "v") = v) with
        | some c => parseAnalysis (jObj c "tok")
        | none => ({ parses := false, sigs := [], verifies := [], claims := parseClaims Json.null } : Analysis)
      let tok := if jHas j "hb" then
          headerDecision Facts.C04.policy e.aud st.keys st.now ((jStrs j "hb").map unhexStr) analysisOf
        else tokenDecision Facts.C04.policy e.aud st.keys st.now (bytesOf (jStr j "hdr")) (parseAnalysis (jObj j "tok"))
      let out := if jHas j "hb" then
          serveConnH Facts.C04.policy e.aud st.keys st.now analysisOf authOK Facts.C04.authSelector Facts.C04.authPath e.auth
            { on := e.lim, tbl := Facts.C04.limiterTable } regsHere ((jStrs j "hb").map unhexStr) (jStr j "m") (unhexStr (jStr j "t")) b
        else serveConnL authOK Facts.C04.authSelector Facts.C04.authPath e.auth { on := e.lim, tbl := Facts.C04.limiterTable }
          regsHere tok (jStr j "m") (unhexStr (jStr j "t")) b
      (showResp out.1, out.2)

/-- the in-process limiter leg: the wiring decision, then the skipper + bucket on a sequence of (method, c.Path()) calls -/
def limLeg (j : Json) : String :=
  if !limiterEnabled Facts.C04.didnutsMethodName (jBool j "strict") (jBool j "flag") (jStrs j "dm") then "off"
  else
    let step := fun (acc : Nat × List String) (c : Json) =>
      if limiterSkips Facts.C04.limiterTable (jStr c "m") (unhexStr (jStr c "p")) then (acc.1, "ok" :: acc.2)
      else if (allow acc.1).1 then ((allow acc.1).2, "ok" :: acc.2) else ((allow acc.1).2, "429" :: acc.2)
    String.intercalate "," ((jArr j "calls").foldl step (Facts.C04.limiterBurst, [])).2.reverse

def step (st : St) (j : Json) : St × List String :=
  match jStr j "op" with
  | "cfg" =>
    let mkRegs := fun (l : List Json) => l.map (fun r =>
      let p := (jStr r "p").toList
      ({ path := p, route := { id := jNat r "id", method := jStr r "m", pat := patOf p } } : Registered))
    let regs := match j.getObjVal? "routesets" with
      | .ok (.obj kv) => kv.toList.map (fun (kv : String × Json) => (kv.1, mkRegs (match kv.2 with | .arr a => a.toList | _ => [])))
      | _ => ([] : List (String × List Registered))
    let engs := match j.getObjVal? "engines" with
      | .ok (.obj kv) => kv.toList.map (fun (kv : String × Json) => (kv.1, ({ int := jStr kv.2 "int", pub := jStr kv.2 "pub", auth := jBool kv.2 "auth", rs := jStr kv.2 "rs", aud := jStr kv.2 "aud", lim := (optBool kv.2 "lim").getD true } : EngCfg)))
      | _ => ([] : List (String × EngCfg))
    ({ regs := regs, engines := engs, keys := (jStrs j "keys").map (fun c => { comment := c }), aud := jStr j "aud", now := jInt j "now" }, ["cfg"])
  | "req" =>
    let (s, b) := respOfL st (jStr j "eng") j
    (setBucket st (jStr j "eng") b, [s])
  | "skipped" => (st, ["skipped"])
  | "lim" => (st, [limLeg j])
  | "overlap" =>
    -- two requests in flight at the same time on one engine (the first with a slow body): each is answered as if it were alone
    let (sa, b1) := respOfL st (jStr j "eng") (jObj j "ra")
    let st1 := setBucket st (jStr j "eng") b1
    let (sb, b2) := respOfL st1 (jStr j "eng") (jObj j "rb")
    (setBucket st1 (jStr j "eng") b2, ["A:" ++ sa ++ " | B:" ++ sb])
  | "tok" =>
    -- bearer-token decision differential (tokenV2 in-package harness). Long headers are summarised by the harness.
    let hdrS := jStr j "hdr"
    let nf := jNat j "nfields"
    let hdr : Str :=
      if hdrS != "" || nf == 0 then bytesOf hdrS
      else if nf == 2 then bytesOf (jStr j "scheme") ++ [' '] ++ List.replicate (jNat j "credlen") 'x'
      else (List.replicate nf ['f', ' ']).flatten
    let keys := (jStrs j "keys").map (fun c => ({ comment := c } : AuthKey))
    if jtiGrammarMismatch (jObj (jObj j "tok") "claims") then (st, ["uuid-grammar-mismatch"]) else
    match tokenDecision Facts.C04.policy (jStr j "aud") keys (jInt j "now") hdr (parseAnalysis (jObj j "tok")) with
    | .granted u => (st, ["granted user:" ++ u])
    | .denied => (st, ["denied"])
  | "cfgload" =>
    let leaf := fun (l : Json) =>
      ((jStr l "k").toList, match l.getObjVal? "s" with
        | .ok (.str v) => CfgVal.str v.toList
        | _ => CfgVal.list ((jStrs l "l").map (·.toList)))
    let pair := fun (p : Json) => match p with
      | .arr a => (((a[0]?.bind (·.getStr?.toOption)).getD "").toList, ((a[1]?.bind (·.getStr?.toOption)).getD "").toList)
      | _ => (([] : Str), ([] : Str))
    let flags := (jArr j "flags").map pair
    let defaults := (Facts.C04.httpFlags.filter (fun f => f.2.1 == "String")).map (fun f => (f.1.toList, f.2.2.toList))
    -- a flag nobody registered makes pflag.Parse fail
    if flags.any (fun f => !(Facts.C04.httpFlags.any (fun d => d.1.toList = f.1))) then (st, ["flag-error"]) else
    let src : Sources := { file := if jBool j "hasfile" then (jArr j "file").map leaf else [], env := (jArr j "env").map pair, flags := flags, defaults := defaults }
    match loadHttpConfig Facts.C04.core_defaultEnvPrefix.toList src with
    | .error _ => (st, ["inject-error"])
    | .ok c =>
      let keysOK := (jStrs j "okpaths").any (fun p => p.toList = c.keysPath)
      let conf := match configureOutcome Facts.C04.internalBinds c keysOK with | .error => "error" | _ => "ok"
      (st, [s!"type={hexStr c.authType} aud={hexStr c.audience} keys={hexStr c.keysPath} int={hexStr c.intAddr} pub={hexStr c.pubAddr} log={hexStr c.log} configure={conf}"])
  | "uuid" => (st, [toString (uuidParse (unhexStr (jStr j "s"))) ++ " " ++ toString (uuidValidate (unhexStr (jStr j "s")))])
  | "configure" =>
    -- keys file states: ok / empty parse fine (an empty file gives zero keys), missing / garbage make New(FromFile) fail
    let fileOK := jStr j "b" == "ok" || jStr j "b" == "empty"
    (st, [match configureAuth (jStr j "a") fileOK with | .error => "error" | _ => "ok"])
  | "akeys" =>
    let ls := (jArr j "lines").map (fun l =>
      let v := jObj l "v"
      let verdict : SshVerdict :=
        if jBool v "err" || v.isNull then .error
        else
          -- the key's kind (and the strength of an RSA modulus) is computed by the model from the bytes of the key blob, with the
          -- measure the regenerated facts name; ops without a blob (older corpus files) state the kind
          let kind := if jHas v "blob" then
              kindOfBlob Facts.C04.rsaMeasure ((unhexStr (jStr v "blob")).map (fun c => UInt8.ofNat c.toNat))
            else match jStr v "kind" with
            | "rsa" => KeyKind.rsa (jNat v "bits") | "ecdsa" => .ecdsa | "ed25519" => .ed25519 | _ => .other
          .key kind (jStr v "comment")
      (({ raw := unhexStr (jStr l "raw"), verdict := verdict } : KeyLine), unhexStr (jStr l "pre")))
    -- the harness states the pre-processed text it fed to the ssh parser: it must be the model's
    match ls.find? (fun (l, pre) => preprocess l.raw != pre) with
    | some (l, _) => (st, ["pre-mismatch:" ++ hexStr (preprocess l.raw)])
    | none =>
      match authorizedKeysOf Facts.C04.minimumRSAKeySize (ls.map (·.1)) with
      | none => (st, ["parse-error"])
      | some ks => (st, [String.intercalate "|" (ks.map (·.comment))])
  | "matchesPath" => (st, [toString (matchesPath (unhexStr (jStr j "a")) (unhexStr (jStr j "b")))])
  | "bindOf" => (st, [hexStr (getBindFromPath (unhexStr (jStr j "a")))])
  | o => (st, ["bad-op:" ++ o])

end Nuts.Drv.C04

def main : IO Unit := do
  Nuts.Drv.loop (← IO.getStdin) (← IO.getStdout) Nuts.Drv.C04.step ({} : Nuts.Drv.C04.St)
