import Driver.Util
import NutsModel.C18.Policy
import NutsModel.C18.Cache
import NutsModel.C18.RCache
import NutsModel.C18.LocalStore
import NutsModel.C18.DidKey
import NutsModel.C18.X509
import NutsModel.C18.DidJwk
import NutsModel.C18.Chain
open Lean Nuts.Drv Nuts.C18 Nuts

namespace Nuts.Drv.C18

def hexNib (c : Char) : Nat :=
  if '0' ≤ c ∧ c ≤ '9' then c.toNat - 48 else if 'a' ≤ c ∧ c ≤ 'f' then c.toNat - 87 else if 'A' ≤ c ∧ c ≤ 'F' then c.toNat - 55 else 0

def unhx (s : String) : Bytes :=
  let rec go : List Char → Bytes
    | a :: b :: rest => (hexNib a * 16 + hexNib b) :: go rest
    | _ => []
  go s.toList

def nib (n : Nat) : Char := if n < 10 then Char.ofNat (48 + n) else Char.ofNat (87 + n)
def hx (b : Bytes) : String := String.ofList (b.flatMap fun c => [nib (c / 16 % 16), nib (c % 16)])
def ascii (b : Bytes) : String := String.ofList (b.map Char.ofNat)
def bytesOf (s : String) : Bytes := s.toUTF8.toList.map (·.toNat)

def enc := Nuts.Facts.C18.encodeSet
def dec := Nuts.Facts.C18.decodeSet
def cts := Nuts.Facts.C18.contentTypes

def showURL (u : URL) : String :=
  s!"scheme={hx u.scheme} opaque={hx u.opaq} user={u.hasUser} host={hx u.host} path={hx u.path} raw={hx u.rawPath} fq={u.forceQuery} q={hx u.rawQuery} frag={hx u.fragment}"

def showReq (r : Req) : String := s!"{ascii r.scheme}|{hx r.host}|{hx r.path}|{r.user}|{hx r.query}"

def parseBodyJ (j : Json) (s : String) : Body :=
  if s.startsWith "raw:" then .raw (if jHas j "pid" then some (unhx (jStr j "pid")) else none) else
  if s.startsWith "doc:" then .doc (unhx (s.drop 4).toString) else
  if s == "badjson" then .badjson else if s == "big" then .big else .empty

def parseCUrl (j : Json) : CUrl :=
  { scheme := bytesOf (jStr j "scheme"), user := bytesOf (jStr j "user"), host := bytesOf (jStr j "host"),
    path := bytesOf (jStr j "path"), query := bytesOf (jStr j "query"), frag := bytesOf (jStr j "frag") }

def parseResp (j : Json) : Option Resp :=
  let st := jNat j "st"
  if st = 0 then none else
  some { status := st, mediaType := if jHas j "mt" then some (unhx (jStr j "mt")) else none,
         loc := unhx (jStr j "loc"), body := parseBodyJ j (jStr j "body") }

/-! ### deepening round: the stateful response cache (`hc` ops, one cache instance per op) -/

def posIn (all : List CEntry) (e : CEntry) : Nat :=
  ((all.filter (fun x => x.key = e.key)).takeWhile (fun x => x.id ≠ e.id)).length

def showCache (c : RCache) : String :=
  s!"{c.size}/{String.intercalate "." (c.list.map (fun e => s!"{e.id}@{(e.exp + 5000).fdiv 10000 * 10}"))}/{String.intercalate "." (c.all.map (fun e => s!"{e.id}:{posIn c.all e}"))}"


/-! ### deepening round 2: did:x509 (`x5p` parse, `x5v` policy, `x5f` thumbprints, `x5r` Resolve) -/

def xCertOf (j : Json) : XCert :=
  { otherNames := if jBool j "otherErr" then none else some ((jStrs j "other").map bytesOf),
    dns := (jStrs j "dns").map bytesOf, email := (jStrs j "email").map bytesOf, ips := (jStrs j "ip").map bytesOf,
    serial := bytesOf (jStr j "serial"), cn := bytesOf (jStr j "cn"), locality := (jStrs j "L").map bytesOf,
    country := (jStrs j "C").map bytesOf, province := (jStrs j "ST").map bytesOf, street := (jStrs j "STREET").map bytesOf,
    org := (jStrs j "O").map bytesOf, ou := (jStrs j "OU").map bytesOf }

def xHdr (j : Json) (k : String) : Option XTarget :=
  if jStr j (k ++ "k") == "str" then some (targetOf (bytesOf (jStr j k))) else none

def xCerts (j : Json) : Nat → XCert :=
  let cs := ((jArr j "certs").map xCertOf).toArray
  fun i => match cs[i]? with | some c => c | none => {}

def xChain (j : Json) : XChain :=
  match jStr j "chain" with
  | "nil" => .nilMeta
  | "missing" => .missing
  | "ids" => .chain (jNats j "ids")
  | e => .badPem e

/-- the validator table the driver runs with is the one REGENERATED from validation.go (empty when not understood) -/
def xTbl : List ((Bytes × Bytes) × XAttr) :=
  match tableOfFacts Nuts.Facts.C18.x509ValidatorRows with
  | some t => t
  | none => []

def showRes {α} (f : α → String) : Res α → String
  | .ok a => f a
  | .err e => "err:" ++ e
  | .panic p => "panic:" ++ p

def maxCacheUnits : Int :=
  match maxCacheMinutes Nuts.Facts.C18.maxCacheTimeExpr with
  | some m => (m : Int) * 1000
  | none => 0

def hcSteps : RCache → List Json → List String → List String
  | _, [], acc => acc.reverse
  | c, j :: js, acc =>
    let u := parseCUrl (jObj j "u")
    let key := cacheKey u
    let m := bytesOf (jStr j "m")
    match jStr j "k" with
    | "ins" =>
      let c' := c.insert key m u.query (jNat j "sz") (jInt j "exp")
      hcSteps c' js (s!"ins:ok {showCache c'}" :: acc)
    | "get" =>
      let (c', r) := c.get (jInt j "now") key m u.query
      let o := match r with | some e => s!"get:hit{e.id}" | none => "get:miss"
      hcSteps c' js (s!"{o} {showCache c'}" :: acc)
    | "lnk" =>
      let e : CEntry := { id := c.nextId, key := key, method := m, query := u.query, size := jNat j "sz", exp := jInt j "exp" }
      let c' := { c with nextId := c.nextId + 1, all := c.all ++ [e], size := c.size + (e.size : Int),
                         list := c.list.takeWhile (fun x => x.exp ≤ e.exp) ++ e :: c.list.dropWhile (fun x => x.exp ≤ e.exp) }
      hcSteps c' js (s!"lnk {showCache c'}" :: acc)
    | "pop" => let c' := c.pop; hcSteps c' js (s!"pop {showCache c'}" :: acc)
    | "rt" =>
      let a := jObj j "ans"
      let inner : Inner := if jBool a "fail" then .fail else .resp (jNat a "sz") (if jHas a "ca" then some (jInt a "ca") else none)
      match c.roundTrip (jInt j "now") maxCacheUnits key m u.query inner with
      | (c', .hit e) => hcSteps c' js (s!"rt:hit{e.id} {showCache c'}" :: acc)
      | (c', .net st) => hcSteps c' js (s!"rt:net:{st} {showCache c'}" :: acc)
      | (c', .netErr) => hcSteps c' js (s!"rt:err {showCache c'}" :: acc)
    | k => (("bad-step:" ++ k) :: acc).reverse

/-- a scripted member resolver's answer (deepening round 3, ops `chain` / `router`) -/
def rOutOf (idx : Nat) (o : String) : ROut :=
  if o == "ok" then .ok idx else if o == "nf" || o == "nfw" then .notFound
  else if o == "deactw" then .fail "deact" else if o == "deact" || o == "noctl" || o == "unsup" then .fail o else .fail "err"

def showROut : ROut → String
  | .ok i => s!"ok:{i}"
  | .notFound => "nf"
  | .fail e => "fail:" ++ e

/-- `deactivatedError.Is`: both sentinel errors of the type match `ErrDeactivated` -/
def isDeactClass : ROut → Bool
  | .fail e => e == "deact" || e == "noctl"
  | _ => false

def enum {α} (l : List α) : List (Nat × α) := (List.range l.length).zip l

structure St where
  methods : List Bytes := []
  strict : Bool := false

def step (st : St) (j : Json) : St × List String :=
  if jStr j "op" == "node" then
    ({ methods := (jStrs j "methods").map bytesOf, strict := jBool j "strict" }, ["node ok"]) else
  let d : DID := { method := unhx (jStr j "m"), id := unhx (jStr j "id") }
  let s := unhx (jStr j "s")
  let line : String :=
    match jStr j "op" with
    | "pd" => match parseDID s with
      | .ok d => s!"pd ok m={hx d.method} id={hx d.id}"
      | r => "pd " ++ r.cls
    | "d2u" => match didToURL dec d with
      | .ok u => "d2u ok " ++ showURL u
      | r => "d2u " ++ r.cls
    | "rt" => match didToURL dec d with
      | .ok u => match urlToDID enc u with
        | .ok b => if b.str = d.str then "rt same" else "rt diff:" ++ hx b.str
        | _ => "rt back-err"
      | r => "rt " ++ r.cls
    | "up" => match parseURL s with
      | .ok u => "up ok " ++ showURL u
      | .panic p => "up panic:" ++ p
      | .err _ => "up err"
    | "u2d" => match parseURL s with
      | .ok u => match urlToDID enc u with
        | .ok d => s!"u2d ok m={hx d.method} id={hx d.id}"
        | r => "u2d " ++ r.cls
      | .panic p => "u2d panic:" ++ p
      | .err _ => "u2d urlerr"
    | "enc" => "enc " ++ hx (percentEncode enc s)
    | "dec" => "dec " ++ hx (percentDecode dec s)
    | "ip" => s!"ip {isIP s}"
    | "wf" => s!"wf {wfDID enc d}"
    | "cache" =>
      let strict := jBool j "strict"
      let cacheable := jBool j "cacheable"
      let (cache0, inner0) := thirdPartyFetches strict cacheable [] ((jArr j "pre").map parseCUrl)
      match didWebURL dec d with
      | .ok u =>
        -- two resolutions; the servers answer with a document that claims the DID
        let r1 := cacheGet cacheable cache0 u
        let r2 := cacheGet cacheable r1.1 u
        let inner := inner0 ++ (match r1.2 with | some q => [q] | none => []) ++ (match r2.2 with | some q => [q] | none => [])
        s!"cache inner=[{String.intercalate "," (inner.map hx)}] out=ok:{hx d.str};ok:{hx d.str};"
      | r => s!"cache inner=[{String.intercalate "," (inner0.map hx)}] out=err:d2u:{(r.cls.drop 4).toString};err:d2u:{(r.cls.drop 4).toString};"
    | "res" =>
      let resps := ((jArr j "resps").map parseResp).toArray
      let srv : Nat → Req → Option Resp := fun hop _ => (resps[hop]?).join
      let (reqs, out) := resolveWeb dec cts factPolicy (jBool j "strict") d srv
      let o := match out with
        | .ok id => "ok:" ++ hx id
        | r => r.cls
      s!"res reqs=[{String.intercalate "," (reqs.map showReq)}] out={o}"
    | "resolve" =>
      let resps := ((jArr j "resps").map parseResp).toArray
      let srv : Nat → Req → Option Resp := fun hop _ => (resps[hop]?).join
      let hist := (jStrs j "hist").map (fun v => v != "deactivated" && v != "deactivated+")
      let orphanedLast := (jStrs j "hist").getLast? == some "orphaned"
      -- the node's table: the versions of this DID and of its case-variant siblings (`sib`); the lookup is `sqlLatest`
      let sibRows := (jArr j "sib").flatMap fun sj => rowsOf (unhx (jStr sj "did")) ((jStrs sj "hist").map (fun v => v != "deactivated" && v != "deactivated+"))
      let rows := sibRows ++ rowsOf d.str hist
      -- did:key: the refusal site is computed from the identifier (codec table regenerated from the switch of didkey.Resolve)
      let keyClass := (resolveKeyClass Nuts.Facts.C18.didKeyTable d.id (if jHas j "mc" then some (unhx (jStr j "mc")) else none)
                        { ecOK := jBool j "ecok", rsa := jStr j "rsa" }).str
      let node : Node := { didMethods := st.methods, localState := fun x => if jBool j "fault" then .dbError else sqlLocalState rows 0 x,
                           keyDecodes := fun x => if x.method = sKey then keyClass == "ok" else jBool j "keyok",
                           nutsState := fun _ => nutsStateOf' hist orphanedLast }
      let (reqs, out) := resolve dec cts factPolicy factLocalFirst st.strict node (jBool j "allow") d srv
      let o := match out with
        | .ok r => s!"ok:{hx r.docID}:{r.deactivated}"
        | .err e => if e.startsWith "d2u:" then "err:d2u" else if e == "invalid-key" && d.method == sKey then "err:invalid-key:" ++ keyClass else "err:" ++ e
        | .panic p => "panic:" ++ p
      s!"resolve reqs={reqs.length} out={o}"
    | "x5p" => "x5p " ++ showRes (fun (r : XRef) => s!"ok m={hx r.method} r={hx r.root} p=[{String.intercalate "," (r.policies.map fun p => hx p.name ++ ":" ++ hx p.value)}]") (parseX509Did d.id)
    | "x5v" => "x5v " ++ showRes (fun _ => "ok") (match parseX509Did d.id with
        | .ok r => validatePolicy xTbl (xCerts j 0) r.policies
        | .err e => .err ("parse:" ++ e)
        | .panic p => .panic p)
    | "x5f" => "x5f " ++ showRes (fun c => s!"ok:{c}") (findValidationCert (jNats j "ids") (xHdr j "x5t") (xHdr j "x5s"))
    | "x5r" => "x5r " ++ showRes (fun b => if b = d.str then "ok:same" else "ok:diff:" ++ hx b)
        (resolveX509 xTbl d.method d.id { chain := xChain j, x5t := xHdr j "x5t", x5tS256 := xHdr j "x5s", certs := xCerts j, crlOK := jBool j "crl", vmOK := true })
    | "jwk" =>
      -- did:jwk on the resolver itself: refusal order regenerated from the source, library verdicts on the decoded bytes as data
      let lj := jObj j "lib"
      let lib : JwkLib := { parseOK := jBool lj "parse", rawErr := jBool lj "rawerr", isPrivate := jBool lj "priv", pubRawErr := jBool lj "pubrawerr",
                            isEC := jBool lj "ec", onCurve := jBool lj "oncurve", vmErr := jBool lj "vmerr" }
      let decs := match b64Decode d.id with | .ok b => hx b | .err _ => "err" | .panic p => "panic:" ++ p
      s!"jwk {(resolveJwkClass (jwkOrderOf Nuts.Facts.C18.jwkRefusals) d.method d.id (fun _ => lib)).str} dec={decs}"
    | "rtime" =>
      -- resolution at a point in time on the SQL rows (absent resolve time = the far future bound of `Latest`)
      let dd : DID := { method := sWeb, id := d.id }
      let rows := (enum (jArr j "vers")).map fun (i, v) => ({ did := dd.str, version := i, updatedAt := jInt v "t", active := jBool v "a" } : DocRow)
      let tAt : Int := if jHas j "at" then jInt j "at" else 4000000000
      let upd := match sqlLatest rows dd.str tAt with | some r => r.updatedAt | none => 0
      match sqlResolveLocal rows tAt (jBool j "allow") dd with
      | .ok r => s!"rtime ok:{hx r.docID}:{upd}:{r.deactivated}"
      | .err e => "rtime err:" ++ e
      | .panic p => "rtime panic:" ++ p
    | "chain" =>
      let outs := (enum (jStrs j "outs")).map fun (i, o) => rOutOf i o
      let (o, n) := chainResolve outs
      s!"chain {showROut o} asked={n} isdeact={isDeactClass o}"
    | "router" =>
      let regs := (enum (jArr j "regs")).map fun (i, g) => (unhx (jStr g "m"), (i, rOutOf i (jStr g "out")))
      match routerLookup regs (unhx (jStr j "m")) with
      | none => "router unsupported"
      | some (i, o) => s!"router {if o == .notFound then (if (jStr ((jArr j "regs").toArray[i]!) "out") == "nfw" then "nf-wrapped" else "nf") else showROut o} asked=[{i}]"
    | "hc" => "hc " ++ String.intercalate ";" (hcSteps (RCache.new (jInt j "max")) (jArr j "steps") [])
    | o => "bad-op:" ++ o
  (st, [line])

end Nuts.Drv.C18

def main : IO Unit := do
  Nuts.Drv.loop (← IO.getStdin) (← IO.getStdout) Nuts.Drv.C18.step ({} : Nuts.Drv.C18.St)
