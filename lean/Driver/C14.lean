import Driver.Util
import NutsModel.C14.Notifier
import NutsModel.C14.Options
import NutsModel.C14.Api
import NutsModel.C14.Receivers
import NutsModel.Facts.C14
open Lean Nuts.Drv Nuts.C14 Nuts

namespace Nuts.Drv.C14

structure TxAttr where
  pal : Bool
  ptype : String
  pnum : Nat
  root : Bool

structure BehRow where
  s : Nat
  r : Nat
  o : Array Outcome
  rest : Outcome

structure DSt where
  subs : List (List Filter) := []
  txs : Array TxAttr := #[]
  cfg : Option Cfg := none
  σ : St := {}
  nsubs : Nat := 0

def parseOutcome : String → Outcome
  | "done" => .done | "doneFinishFail" => .doneFinishFail | "notDone" => .notDone | "fail" => .fail
  | "failCtx" => .failCtx | "fatal" => .fatal | "crash" => .crash | "notDoneFin" => .notDoneFin
  | "readFault" => .readFault | "notDoneWriteFail" => .notDoneWriteFail | "failWriteFail" => .failWriteFail | _ => .done

def showOutcome : Outcome → String
  | .done => "done" | .doneFinishFail => "doneFinishFail" | .notDone => "notDone" | .fail => "fail"
  | .failCtx => "failCtx" | .fatal => "fatal" | .crash => "crash" | .notDoneFin => "notDoneFin"
  | .readFault => "readFault" | .notDoneWriteFail => "notDoneWriteFail" | .failWriteFail => "failWriteFail"

def parseFilter (j : Json) : Filter :=
  { type := match jStr j "type" with | "tx" => some .tx | "payload" => some .payload | _ => none
    needPAL := jBool j "pal"
    ptype := if jStr j "ptype" == "" then none else some (jStr j "ptype") }

def showType : EvType → String | .tx => "tx" | .payload => "payload"
def showErr : JErr → String
  | .none => "none" | .incomplete => "incomplete" | .generic => "generic" | .ctx => "ctx" | .fatal => "fatal" | .storage => "storage"

def behOf (rows : List BehRow) (s r k : Nat) : Outcome :=
  match rows.find? (fun b => b.s == s && b.r == r) with
  | some b => match b.o[k]? with | some o => o | none => b.rest
  | none => .done

/-- the model instantiated with what the source says today (regenerated facts) -/
def mkCfg (d : DSt) (nsubs : Nat) (rows : List BehRow) : Cfg :=
  let txs := d.txs
  { nSubs := nsubs
    nRefs := txs.size
    sel := selOf (d.subs.take nsubs) (fun r => match txs[r]? with | some t => t.pal | none => false)
             (fun r => match txs[r]? with | some t => t.ptype | none => "")
    phash := fun r => match txs[r]? with | some t => t.pnum | none => 0
    root := fun r => match txs[r]? with | some t => t.root | none => false
    beh := behOf rows
    maxRetries := Nuts.Facts.C14.maxRetries
    failedThreshold := Nuts.Facts.C14.retriesFailedThreshold
    skipPresent := Nuts.Facts.C14.writePayloadReturnsEarlyWhenPresent
    notifyGuarded := Nuts.Facts.C14.writePayloadNotifyGuarded
    writeBackSkipsGone := Nuts.Facts.C14.writeBackSkipsGone
    storageFaultEndsLoop := Nuts.Facts.C14.storageFaultEndsLoop }

def showEntry : Entry → Option String
  | .call s r t ret o => some s!"{s}.{r}:{showType t}:{ret}:{showOutcome o}"
  | .fin _ _ => none

def observe (c : Cfg) (status : String) (old : St) (σ : St) : String := Id.run do
  let newN := σ.ledger.length - old.ledger.length
  let newE := (σ.ledger.take newN).reverse.filterMap showEntry
  let mut jobs : Array String := #[]
  let mut failed : Array String := #[]
  for s in List.range c.nSubs do
    for r in List.range c.nRefs do
      match σ.shelf s r with
      | some j => jobs := jobs.push s!"{s}.{r}:{showType j.type}:{j.retries}:{showErr j.err}"
      | none => pure ()
    for r in failedEvents c σ s do
      failed := failed.push s!"{s}.{r}"
  let tasks := (σ.running.map fun t => (t.sub, t.ref)).toArray.qsort (fun a b => a.1 < b.1 || (a.1 == b.1 && a.2 < b.2))
  let ts := tasks.toList.map fun p => s!"{p.1}.{p.2}"
  failed := failed.push s!"d={failed.size}"
  return s!"{status}|L:{String.intercalate "," newE}|S:{String.intercalate "," jobs.toList}|F:{String.intercalate "," failed.toList}|T:{String.intercalate "," ts}"

def showStatus : Status → String
  | .ok => "ok" | .present => "present" | .invalid => "invalid" | .errVerify => "err:verify"
  | .errPayloadHash => "err:payloadhash" | .errRoot => "err:root" | .errCommit => "err:commit"
  | .errNotFound => "err:notfound" | .skipped => "ok" | .errShelf => "err:shelf"

/-- did the op end with the node stopping inside a receiver? (newest new ledger entry is a `crash` call) -/
def stoppedIn (old σ : St) : Bool :=
  if σ.ledger.length > old.ledger.length then
    match σ.ledger.head? with
    | some (.call _ _ _ _ .crash) => true
    | _ => false
  else false

def ordersOf (j : Json) : List (List Nat) :=
  (jArr j "orders").map fun o => match o with
    | .arr a => a.toList.filterMap (fun x => x.getNat?.toOption)
    | _ => []

/-- run the AfterCommit notifications of one commit; the observed Range orders are given per event -/
def afterAll (c : Cfg) (σ : St) (orders : List (List Nat)) (nPending : Nat) : St := Id.run do
  let mut st := σ
  let mut os := orders
  for _ in List.range nPending do
    if st.pending.isEmpty then break
    match os with
    | o :: rest => st := afterCommit c st o; os := rest
    | [] => st := afterCommit c st []
  return st


/-! ### deepening round: construction side (NutsModel.C14.Options) -/

def parseOpt (j : Json) : Option Opt :=
  match jStr j "k" with
  | "delay" => some (.retryDelay (jInt j "v"))
  | "pers" => some (.persistency (jNat j "v"))
  | "filter" => some (.filter (parseFilter (jObj j "f")))
  | "ctx" => some (.context (jNat j "v"))
  | _ => none

def showSaveKind : SaveKind → String
  | .nonPersistent => "nonPersistent" | .differentDB => "differentDB" | .filtered => "filtered" | .proceed => "proceed"

def stepNew (j : Json) : String :=
  let d : Int := Nuts.Facts.C14.defaultRetryDelayNs
  let regs := (jArr j "regs").map fun r => (jStr r "name", (jArr r "opts").filterMap parseOpt)
  let (reg, status) := regs.foldl (fun (acc : List NCfg × List String) r =>
      let (reg', ok) := register d acc.1 r.1 r.2
      (reg', acc.2 ++ [if ok then "ok" else "dup"])) ([], [])
  let ev := jObj j "ev"
  let ty : EvType := if jStr ev "type" == "payload" then .payload else .tx
  let rows := reg.map fun n =>
    s!"{n.name}:{n.persistent}:{n.db.getD 0}:{n.retryDelay}:{n.filters.length}:{n.shelfName}:{n.counters}:{n.ctx}:{showSaveKind (saveKind n (jNat j "txdb") (jBool ev "pal") (jStr ev "ptype") ty)}"
  s!"new|{String.intercalate "," status}|{String.intercalate ";" rows}|listed=true"

def stepRetry (j : Json) : String :=
  match retryAttemptsM (Int.ofNat Nuts.Facts.C14.maxRetries) (jInt j "retries") with
  | some a => s!"retry|attempts={a}"
  | none => "retry|attempts=0"

def npOutcome : String → Outcome
  | "done" => .done | "notDone" => .notDone | "fatal" => .fatal | _ => .fail

def stepNP (j : Json) : String :=
  let behL := (jStrs j "beh").map npOutcome
  let rest := npOutcome (jStr j "rest")
  let beh : Nat → Outcome := fun k => match behL[k]? with | some o => o | none => rest
  let retries := jInt j "retries"
  -- the receiver of a non-persistent notifier sees the event as handed in: Retries never changes
  let calls :=
    if !jBool j "accept" then 0
    else match npNotifyNow (beh 0) with
      | .err =>
        -- notifier.retry on the machine value of Retries (a negative / overflowing value starts no loop)
        1 + (match retryAttemptsM (Int.ofNat Nuts.Facts.C14.maxRetries) retries with
             | some a => npLoop beh a.toNat 1
             | none => 0)
      | _ => 1
  let seen := if calls == 0 then "-" else s!"{retries}"
  s!"np|calls={calls}|seen={seen}|failed={npFailedEvents.length}:<nil>|run=<nil>:0|fin=<nil>"

/-! ### deepening round: the operator's view (NutsModel.C14.Api) -/

def parseErrLabel : String → JErr
  | "incomplete" => .incomplete | "generic" => .generic | "ctx" => .ctx | "fatal" => .fatal | "storage" => .storage | _ => .none

/-- a state that holds exactly the listed jobs (the harness read them from the shelves) -/
def stateOfJobs (jobs : List Json) : St :=
  jobs.foldl (fun σ j =>
    setJob σ (jNat j "s") (jNat j "r")
      (some { type := if jStr j "type" == "tx" then .tx else .payload, retries := jNat j "retries", err := parseErrLabel (jStr j "err") })) {}

def apiCfg (nSubs nRefs : Nat) : Cfg :=
  { nSubs := nSubs, nRefs := nRefs, sel := fun _ _ _ => true, phash := fun _ => 0, root := fun _ => false, beh := fun _ _ _ => .done,
    maxRetries := Nuts.Facts.C14.maxRetries, failedThreshold := Nuts.Facts.C14.retriesFailedThreshold,
    skipPresent := true, writeBackSkipsGone := true, storageFaultEndsLoop := false }

def showJobs (c : Cfg) (σ : St) : String := Id.run do
  let mut out : Array String := #[]
  for s in List.range c.nSubs do
    for r in List.range c.nRefs do
      match σ.shelf s r with
      | some j => out := out.push s!"{s}.{r}:{j.retries}:{showErr j.err}"
      | none => pure ()
  return String.intercalate "," out.toList

def stepClean (j : Json) : String :=
  let names := (jStrs j "names").toArray
  let nm : Nat → String := fun s => match names[s]? with | some n => n | none => ""
  let jobs := jArr j "jobs"
  let nRefs := jobs.foldl (fun m x => max m (jNat x "r" + 1)) 0
  let c := apiCfg names.size nRefs
  let texts := jObj j "errText"
  let prefix_ := jStr j "prefix"
  -- strings.HasPrefix(event.Error, errorPrefix) on the text the harness's receivers produce for each label
  let pre : JErr → Bool := fun e => prefix_.isPrefixOf (jStr texts (showErr e))
  let (σ', ok) := cleanup c nm (jStr j "target") pre (fun _ => false) none (jNats j "order") (stateOfJobs jobs)
  s!"clean|{ok}|{showJobs c σ'}"

def stepList (j : Json) : String :=
  let names := (jStrs j "names").toArray
  let nm : Nat → String := fun s => match names[s]? with | some n => n | none => ""
  let jobs := jArr j "jobs"
  let nRefs := jobs.foldl (fun m x => max m (jNat x "r" + 1)) 0
  let c := apiCfg names.size nRefs
  match listEvents c nm (stateOfJobs jobs) (fun _ => false) (jNats j "order") with
  | .ok l =>
    let rows := l.map fun p =>
      p.1 ++ "=[" ++ String.intercalate "," (p.2.map fun e => s!"{e.ref}:{showType e.type}:{e.retries}:{showErr e.err}") ++ "]"
    "list|" ++ String.intercalate ";" rows
  | .err e => "list|err:" ++ e
  | .panic p => "list|panic:" ++ p

/-! receivers (deepening round 2): an error travels as its Unwrap chain, outermost first; absent key = nil error -/
def parseLayer : String → Option Layer
  | "msg" => some .msg | "canceled" => some .canceled | "deadline" => some .deadline | "ctx" => some .ctxNotAllowed
  | "ld:remote" => some (.jsonld .loadingRemoteContextFailed) | "ld:doc" => some (.jsonld .loadingDocumentFailed)
  | "ld:other" => some (.jsonld .other) | "db" => some .db | "fatal" => some .fatal | _ => none

def showLayer : Layer → String
  | .msg => "msg" | .canceled => "canceled" | .deadline => "deadline" | .ctxNotAllowed => "ctx"
  | .jsonld .loadingRemoteContextFailed => "ld:remote" | .jsonld .loadingDocumentFailed => "ld:doc" | .jsonld .other => "ld:other"
  | .db => "db" | .fatal => "fatal"

def jErr (j : Json) (k : String) : Option Err :=
  if jHas j k then some ((jStrs j k).filterMap parseLayer) else none

def showRecv (r : RecvRes) : String :=
  let e := match r.err with | some e => String.intercalate ">" (e.map showLayer) | none => "-"
  s!"recv|done={r.done}|err={e}|class={showOutcome (classify r)}"

def stepRecv (j : Json) : String :=
  match jStr j "op" with
  | "rvcr" => showRecv (vcrHandle (jErr j "cb"))
  | "rvdr" => showRecv (vdrHandle (jErr j "cb"))
  | "rpriv" =>
    let sends := (jArr j "sends").map fun p => (jBool p "conn", jBool p "fail")
    showRecv (privateRetry (jErr j "perr") (jBool j "present") (jErr j "derr") (jBool j "palNil") sends)
  | "rnats" => showRecv (natsEmit (jErr j "a") (jErr j "m") (jErr j "p"))
  | o => "bad-op:" ++ o

def privateSub : Nat := 1

def step (d : DSt) (j : Json) : DSt × List String :=
  match jStr j "op" with
  | "config" =>
    let subs := (jArr j "subs").map fun s => (jArr s "filters").map parseFilter
    let txs := ((jArr j "txs").map fun t => ({ pal := jBool t "pal", ptype := jStr t "ptype", pnum := jNat t "pnum", root := jBool t "root" } : TxAttr)).toArray
    ({ d with subs := subs, txs := txs, cfg := none }, ["config"])
  | "reset" =>
    let rows := (jArr j "beh").map fun b =>
      ({ s := jNat b "s", r := jNat b "r", o := ((jStrs b "o").map parseOutcome).toArray, rest := parseOutcome (jStr b "rest") } : BehRow)
    let c := mkCfg d (jNat j "nsubs") rows
    let σ : St := {}
    ({ d with cfg := some c, σ := σ, nsubs := jNat j "nsubs" }, [observe c "reset" σ σ])
  | "timing" =>
    -- observed sleeps of one real retry loop started with k recorded failures (initialCount = k + 1; k = 0: Notify,
    -- k > 0: Run after a restart): each must be at least the model's back-off
    let dNs := jNat j "dNs"
    let gaps := jNats j "gapsNs"
    let bad := (List.range gaps.length).filter fun k =>
      match gaps[k]? with
      | some g => decide (g < backoff dNs Nuts.Facts.C14.retryMaxDelayNs (jNat j "k" + 1) k)
      | none => true
    (d, [if bad.isEmpty then s!"timing|n={gaps.length}" else s!"timing|sleep shorter than back-off at attempts {bad}"])
  | "o14new" => (d, [stepNew j])
  | "o14retry" => (d, [stepRetry j])
  | "o14np" => (d, [stepNP j])
  | "o14clean" => (d, [stepClean j])
  | "o14list" => (d, [stepList j])
  | "rvcr" => (d, [stepRecv j])
  | "rvdr" => (d, [stepRecv j])
  | "rpriv" => (d, [stepRecv j])
  | "rnats" => (d, [stepRecv j])
  | op =>
    match d.cfg with
    | none => (d, ["bad-op:no-config"])
    | some c =>
      let old := d.σ
      let fin (σ : St) (status : String) : DSt × List String :=
        let status := if stoppedIn old σ then "stop" else status
        ({ d with σ := σ }, [observe c status old σ])
      match op with
      | "add" =>
        let a : AddArgs := { ref := jNat j "ref", withPayload := jBool j "payload", reject := jBool j "reject",
                             mismatch := jBool j "mismatch", commitFail := jBool j "commitFail",
                             failShelf := if jHas j "failShelf" then some (jNat j "failShelf") else none }
        let (σ1, st) := addTx c old a
        if st != .ok then fin σ1 (showStatus st)
        else if jBool j "drop" then fin (crashSt σ1) "stop"
        else fin (afterAll c σ1 (ordersOf j) (if a.withPayload then 2 else 1)) "ok"
      | "wp" =>
        let ref := jNat j "ref"
        let (σ1, st) := writePayload c old ref (jBool j "commitFail")
        let shelfHit := jHas j "failShelf" && shelfFaultHits c (some (jNat j "failShelf")) ref .payload
        match st with
        | .ok =>
          -- a storage fault on one subscriber's shelf: saveEvent returns the error, the write transaction is rolled back
          if shelfHit then fin old "err:shelf"
          else if jBool j "drop" then fin (crashSt σ1) "stop"
          else
            let σ2 := afterAll c σ1 (ordersOf j) 1
            if stoppedIn old σ2 then fin σ2 "stop"
            else if c.nSubs > privateSub then
              fin (finishedExt σ2 privateSub ref (jBool j "fail")) (if jBool j "fail" then "ok+finerr" else "ok")
            else fin σ2 "ok"
        | .skipped =>
          if jBool j "drop" then fin (crashSt σ1) "stop"
          else
            -- guarded (the source today): nothing is pending; unguarded: the AfterCommit hook notifies again
            let σ2 := if c.notifyGuarded then σ1 else afterAll c σ1 (ordersOf j) 1
            if stoppedIn old σ2 then fin σ2 "stop"
            else if c.nSubs > privateSub then
              fin (finishedExt σ2 privateSub ref (jBool j "fail")) (if jBool j "fail" then "ok+finerr" else "ok")
            else fin σ2 "ok"
        | _ => fin σ1 (showStatus st)
      | "fin" =>
        let s := jNat j "s"
        let r := jNat j "ref"
        if s ≥ c.nSubs || r ≥ c.nRefs then fin old "invalid"
        else fin (finishedExt old s r (jBool j "fail")) (if jBool j "fail" then "finerr" else "ok")
      | "fire" =>
        let s := jNat j "s"
        let r := jNat j "ref"
        match old.running.find? (Task.isFor s r) with
        | none => fin old "notask"
        | some _ => fin (fire c old s r) "fired"
      | "crash" => fin (crashSt old) "crashed"
      | "restart" => fin (restart c old ((jNats j "order").filter (· < c.nSubs))) "ok"
      | "end" => fin old "end"
      | o => (d, ["bad-op:" ++ o])

end Nuts.Drv.C14

def main : IO Unit := do
  Nuts.Drv.loop (← IO.getStdin) (← IO.getStdout) Nuts.Drv.C14.step ({} : Nuts.Drv.C14.DSt)
