import Driver.Util
import NutsModel.C20.Strict
import NutsModel.C20.Outbound
import NutsModel.C20.Sources
import NutsModel.C20.Engines
import NutsModel.C20.FlagsSql
import NutsModel.C20.Dummy
import NutsModel.Facts.C20
open Lean Nuts.Drv Nuts.C18 Nuts.C20 Nuts

namespace Nuts.Drv.C20

def hexNib (c : Char) : Nat :=
  if '0' ≤ c ∧ c ≤ '9' then c.toNat - 48 else if 'a' ≤ c ∧ c ≤ 'f' then c.toNat - 87 else if 'A' ≤ c ∧ c ≤ 'F' then c.toNat - 55 else 0
def unhx (s : String) : Bytes :=
  let rec go : List Char → Bytes
    | a :: b :: rest => (hexNib a * 16 + hexNib b) :: go rest
    | _ => []
  go s.toList
def nib (n : Nat) : Char := if n < 10 then Char.ofNat (48 + n) else Char.ofNat (87 + n)
def hx (b : Bytes) : String := String.ofList (b.flatMap fun c => [nib (c / 16 % 16), nib (c % 16)])
def ascii (b : Bytes) : String := String.ofList (b.map Char.ofNat)
def bytesOf (s : String) : Bytes := s.toUTF8.toList.map (·.toNat)

def tlds := Nuts.Facts.C20.reservedTLDs
def l2s := Nuts.Facts.C20.reservedAddresses

def policy : Policy :=
  clientPolicy (Nuts.Facts.C20.clientCheckRedirects.all (· == "checkRedirect") &&
      Nuts.Facts.C20.checkRedirectConds.contains "StrictMode && req.URL.Scheme != \"https\"")
    (Nuts.Facts.C20.maxRedirectsConst.getD 10)

def configOf (j : Json) : Config :=
  let methods := jStrs j "methods"
  let crypto := jStr j "crypto"
  let cli := jStr j "cli"
  let flagName := ((cli.drop 2).toString.splitOn "=").head!
  { strict := jBool j "strict", url := bytesOf (jStr j "url"), tls := jBool j "tls",
    nuts := methods.contains "nuts", web := methods.contains "web",
    cryptoStorage := classifyStorage Nuts.Facts.C20.cryptoBackendNames (bytesOf crypto),
    sqlExplicit := jBool j "sql",
    dummy := jBool j "dummy" && hasValidator (bytesOf "dummy") [bytesOf (if jStr j "dummyname" == "" then "dummy" else jStr j "dummyname")], irmaPbdf := jStr j "irma" == "pbdf",
    movedKey := jStr j "legacy" != "", cliFlags := if cli == "" then [] else [bytesOf flagName] }

def iamAssigned : Bool := Nuts.Facts.C20.authStrictModeAssignments == ["config.Strictmode"]
def callTime : Bool := Nuts.Facts.C20.checkRedirectReadsGlobalAtCallTime

def iamSites : List String := ["ClientMetadata", "PresentationDefinition", "AuthorizationServerMetadata", "OpenIDConfiguration", "OpenIdCredentialIssuerMetadata",
  "RequestObjectByGet", "RequestObjectByPost", "PostError", "PostAuthorizationResponse", "AccessToken", "AccessTokenDPoP", "VerifiableCredentials"]
def iamEndpoints : List String := ["https://pub-verif.nl:1001/e", "http://pub-verif.nl:1003/e", "https://127.0.0.1:1001/e", "https://[::1]:1001/e", "https://localhost:1001/e",
  "https://node.local:1001/e", "https://a.test:1001/e", "https://10.0.0.12:1002/e", "https://example.com:1001/e"]

/-- from the regenerated inventory: does the OpenID4VP client's method validate its endpoint unconditionally, itself or
    through the inner method it delegates to? -/
def iamSiteChecked (site : String) : Bool :=
  let m := if site == "AccessTokenDPoP" then "AccessToken" else site
  let inv := Nuts.Facts.C20.iamMethodInventory
  inv.contains s!"vp.{m}:unconditional" ||
    inv.any fun e => (e.startsWith s!"vp.{m}:delegates:") &&
      inv.contains s!"http.{(e.drop (s!"vp.{m}:delegates:").length).toString}:unconditional"

def iamMatrix (cfg : Config) : String :=
  String.join (iamSites.map fun site =>
    site ++ ":" ++ String.join (iamEndpoints.map fun ep =>
      iamCall tlds l2s iamAssigned cfg (iamSiteChecked site) (site == "AccessTokenDPoP") (bytesOf ep) ++ "/") ++ ",")

def showOutcome (op : String) (matrix : Bool) (cfg : Config) : Outcome → String
  | .refuse e r => s!"{op} refuse:{e}:{r}"
  | .ok r =>
    let d := if r.dummyMeans then "registered" else "absent"
    let c := if r.unlistedRemoteContexts then "attempted" else "refused"
    let e := if earlyClientFollowsHttp callTime cfg then "followed" else "refused"
    let h := iamEndpoint tlds l2s iamAssigned cfg (bytesOf "http://c.verif.test:1003/meta")
    let i := iamEndpoint tlds l2s iamAssigned cfg (bytesOf "https://127.0.0.1:1001/meta")
    let vc := iamCall tlds l2s iamAssigned cfg (iamSiteChecked "VerifiableCredentials") false (bytesOf "http://c.verif.test:1003/credential")
    let mx := if matrix then " iammatrix=" ++ iamMatrix cfg else ""
    s!"{op} ok dummy={d} remotectx={c} clientstrict={r.clientStrict} earlyclient={e} iamhttp={h} iamip={i} iamsites=same iamvc={vc}{mx}"

/-! sources (deepening round): rules and orders from the regenerated facts -/
def rules : EnvRules :=
  { pre := Nuts.Facts.C20.envPrefix, envDelim := Nuts.Facts.C20.envDelimiter.headD 0, delim := Nuts.Facts.C20.keyDelimiter.headD 0,
    sep := Nuts.Facts.C20.listSeparator.headD 0, esc := Nuts.Facts.C20.listEscape.headD 0 }
def sourceOrder : List Source := sourceOrderOf Nuts.Facts.C20.loadSourceOrder

def envPairs (j : Json) : List (Bytes × Bytes) :=
  (jArr j "env").filterMap fun p =>
    match p.getArrVal? 0, p.getArrVal? 1 with
    | .ok a, .ok b =>
      match a.getStr?, b.getStr? with
      | .ok x, .ok y => some (bytesOf x, bytesOf y)
      | _, _ => none
    | _, _ => none

def stripQ (s : String) : String := ((s.drop 1).toString.dropEnd 1).toString

def srcOp (j : Json) : String :=
  let key := jStr j "key"
  let cli := jStr j "cli"
  let cliV : Option String := if cli == "" then none else
    match cli.splitOn "=" with
    | [_] => some "true"
    | _ :: v => some (String.intercalate "=" v)
    | [] => none
  let fileV : Option String := if jHas j "fileval" then some (jStr j "fileval") else none
  let mk : (fromFile : Bool) → String → Raw := fun fromFile v =>
    match key with
    | "strictmode" => .b (v == "true")
    | "url" => .s (bytesOf (if fromFile then stripQ v else v))
    | _ => .l (((if fromFile then stripQ v else v).splitOn ",").map fun x => bytesOf x.trimAscii.toString)
  let src : Sources := { file := fileV.map (mk true), env := envPairs j, cli := cliV.map (mk false) }
  let raw := resolveRaw rules sourceOrder (bytesOf key) src
  match key with
  | "strictmode" =>
    match (match raw with | none => Res.ok Nuts.Facts.C20.defaultStrictmode | some r => toBool r) with
    | .ok b =>
      let tail :=
        if jBool j "configure" then
          let cfg : Config := { strict := b, url := bytesOf "http://nuts.nl", tls := true, nuts := true, web := true, cryptoStorage := .explicit, sqlExplicit := true, dummy := false, irmaPbdf := true, movedKey := false }
          match start tlds l2s cfg with
          | .refuse e r => s!" start=refuse:{e}:{r}"
          | .ok _ => " start=ok"
        else ""
      s!"src strictmode={b}{tail}"
    | .err e => "src refuse:" ++ e
    | .panic p => "src panic:" ++ p
  | "url" =>
    match (match raw with | none => Res.ok [] | some r => toStr r) with
    | .ok v => "src url=" ++ hx v
    | .err e => "src refuse:" ++ e
    | .panic p => "src panic:" ++ p
  | _ =>
    match (match raw with | none => Res.err "no-source" | some r => toList r) with
    | .ok vs => "src didmethods=[" ++ String.intercalate "|" (vs.map hx) ++ "]"
    | .err e => "src refuse:" ++ e
    | .panic p => "src panic:" ++ p

def step (st : Unit) (j : Json) : Unit × List String :=
  let line : String :=
    match jStr j "op" with
    | "url" =>
      match parsePublicURL tlds l2s (unhx (jStr j "s")) (jBool j "strict") with
      | .ok h => "url ok host=" ++ hx h
      | .err e => "url refuse:" ++ e
      | .panic p => "url panic:" ++ p
    | "flag" =>
      let c : Config := { (default : Config) with cliFlags := [bytesOf (jStr j "flag")] }
      match load c with
      | some (_, r) => "flag refuse:" ++ r
      | none => "flag ok"
    | "load" =>
      match load (configOf j) with
      | some (e, r) => s!"load refuse:{e}:{r}"
      | none => "load ok"
    | "sys" =>
      if jHas j "tlsparts" then
        -- the three tls.* file options individually (paths of length 9 stand for "configured")
        let parts := jStr j "tlsparts"
        let f : TLSFiles := { certLen := if parts.contains 'c' then 9 else 0, keyLen := if parts.contains 'k' then 9 else 0,
                              trustLen := if parts.contains 't' then 9 else 0 }
        let cfg := { configOf j with tls := Nuts.Facts.C20.tlsEnabled f.certLen f.keyLen f.trustLen }
        showOutcome "sys" (jBool j "iammatrix") cfg (startFiles Nuts.Facts.C20.tlsEnabled tlds l2s cfg f)
      else if jHas j "sqlconn" then
        -- storage step on the connection STRING (adapter switch regenerated). `prior` (an earlier lenient run left
        -- <datadir>/sqlite.db behind) is deliberately NOT read: the data directory's content is no input of the decision
        let conn := bytesOf (jStr j "sqlconn")
        let dflt := Nuts.Facts.C20.sqliteDefaultPrefix ++ bytesOf "$DIR/sqlite.db?_pragma=foreign_keys(1)&journal_mode(WAL)"
        let cfg := { configOf j with sqlExplicit := conn.length ≠ 0 }
        showOutcome "sys" (jBool j "iammatrix") cfg (startConn Nuts.Facts.C20.sqlAdapters tlds l2s (configOf j) conn dflt)
      else showOutcome "sys" (jBool j "iammatrix") (configOf j) (start tlds l2s (configOf j))
    | "dummy" =>
      -- the dummy means as a state machine; guards read off the regenerated fact
      let g : DummyGuards :=
        { verify := Nuts.Facts.C20.strictCondsDummy.contains "VerifyVP: d.InStrictMode",
          status := Nuts.Facts.C20.strictCondsDummy.contains "SigningSessionStatus: d.InStrictMode",
          start := Nuts.Facts.C20.strictCondsDummy.contains "StartSigningSession: d.InStrictMode" }
      let acts : List DummyAct := (jStrs j "acts").map fun a =>
        if a == "start" then .start else if a == "verify" then .verify else .status ((a.drop 7).toString.toNat!)
      "dummy " ++ String.intercalate "," (dummyRun g { strict := jBool j "strict" } acts).2
    | "cflag" =>
      -- loadFromFlagSet / NewClientConfigForCommand over the CLI client's flag set plus a command's own flags
      -- (`names` = all flags in VisitAll order, `args` = the ones set on the command line); suffixes REGENERATED
      let setArgs : List (String × String) := (jStrs j "args").map fun a =>
        match a.splitOn "=" with
        | n :: v => (n, String.intercalate "=" v)
        | [] => (a, "")
      let flags : List Flag := (jStrs j "names").map fun n =>
        match setArgs.find? (fun p => p.1 == n) with
        | some p => { name := bytesOf n, changed := true, value := bytesOf p.2 }
        | none => { name := bytesOf n, changed := false, value := [] }
      let env : Option Bytes := if jHas j "envtoken" then some (bytesOf (jStr j "envtoken")) else none
      match loadFromFlagSet Nuts.Facts.C20.secretSuffixes flags with
      | some n => "cflag refuse:cli-secret:" ++ hx n
      | none =>
        match clientToken Nuts.Facts.C20.secretSuffixes flags env with
        | .ok t => "cflag ok token=" ++ hx t
        | .err e => "cflag error:" ++ e
        | .panic p => "cflag panic:" ++ p
    | "ctx" =>
      if contextPasses (jBool j "strict") ((jStrs j "allow").map bytesOf) (unhx (jStr j "s")) then "ctx passed" else "ctx refused"
    | "flags" =>
      let names := (jStrs j "args").map fun a => bytesOf (a.splitOn "=").head!
      let c : Config := { (default : Config) with cliFlags := names }
      match load c with
      | some (_, r) => "flags refuse:" ++ r
      | none => "flags ok"
    | "do" =>
      let locs := (jStrs j "locs").toArray
      let srv : Nat → Req → Option Resp := fun hop _ =>
        match locs[hop]? with
        | some l => some { status := 302, loc := bytesOf l }
        | none => some { status := 200 }
      match parseURL (bytesOf (jStr j "first")) with
      | .ok u =>
        let first : Req := { scheme := u.scheme, host := u.host, path := escapedPath u }
        let (reqs, out) := strictDo policy (jBool j "strict") srv first
        let o := match out with
          | .ok r => s!"ok:{r.status}"
          | .err "http:strict" => "refuse:first-not-https"
          | .err "http:redirect-refused" => "refuse:redirect-not-https"
          | .err "http:too-many-redirects" => "refuse:too-many-redirects"
          | .err e => "error:" ++ e
          | .panic p => "panic:" ++ p
        let rs := reqs.map fun r => s!"{ascii r.scheme}://{ascii r.host}"
        s!"do reqs=[{String.intercalate "," rs}] out={o}"
      | _ => "do bad-request"
    | "src" => srcOp j
    | "cap" =>
      -- byte-level Do: cap / reader limit / comparison are the REGENERATED definitions
      let locs := (jStrs j "locs").toArray
      let wire : Bytes := List.replicate (jNat j "body") 97
      let srv : Nat → Req → Option (Resp × Bytes) := fun hop _ =>
        match locs[hop]? with
        | some l => some ({ status := 302, loc := bytesOf l }, [])
        | none => some ({ status := 200 }, wire)
      match parseURL (bytesOf (jStr j "first")) with
      | .ok u =>
        let first : Req := { scheme := u.scheme, host := u.host, path := escapedPath u }
        let (reqs, out) := strictDoBytes policy (jBool j "strict") Nuts.Facts.C20.responseReadLimit Nuts.Facts.C20.responseTooLarge srv first
        let o := match out with
          | .ok (r, body) => s!"ok:{r.status} len={body.length} same={body == wire}"
          | .err "http:strict" => "refuse:first-not-https"
          | .err "http:redirect-refused" => "refuse:redirect-not-https"
          | .err "http:too-many-redirects" => "refuse:too-many-redirects"
          | .err "http:toolarge" => "refuse:too-large"
          | .err e => "error:" ++ e
          | .panic p => "panic:" ++ p
        s!"cap reqs={reqs.length} out={o}"
      | _ => "cap bad-request"
    | o => "bad-op:" ++ o
  (st, [line])

end Nuts.Drv.C20

def main : IO Unit := do
  Nuts.Drv.loop (← IO.getStdin) (← IO.getStdout) Nuts.Drv.C20.step ()
