import Driver.Util
import NutsModel.C19.Sites
import NutsModel.C19.Murmur
open Lean Nuts.Drv Nuts

namespace Nuts.Drv.C19
open Nuts.C19

partial def toJ : Json → J
  | .null => .null
  | .bool b => .bool b
  | .num n => .num (toString n)
  | .str s => .str s
  | .arr a => .arr (a.toList.map toJ)
  | .obj kvs => .obj (kvs.toList.map fun (k, v) => (k, toJ v))

/-- compact JSON rendering of the values used as service endpoints (strings, numbers, null, flat objects/arrays);
    object members in key order (Go's encoding/json sorts map keys) -/
partial def renderJ : J → String
  | .null => "null"
  | .bool b => toString b
  | .num l => l
  | .str s => (Json.str s).compress
  | .arr xs => "[" ++ String.intercalate "," (xs.map renderJ) ++ "]"
  | .obj kvs => "{" ++ String.intercalate "," (kvs.map fun (k, v) => (Json.str k).compress ++ ":" ++ renderJ v) ++ "}"

/-- site "HTU:v.(string)" is reported as the Go function it sits in: "HTU" -/
def siteFn (s : String) : String := ((s.splitOn ":").head?).getD s

def cls {α} (r : Res α) (okText : α → String) : String :=
  match r with
  | .ok a => "ok" ++ okText a
  | .err e => "err:" ++ e
  | .panic s => "panic:" ++ siteFn s

/-- long strings are shown as prefix + length (same rule in the Go harnesses: c19Show) -/
def showStr (s : String) : String :=
  if s.length ≤ 48 then s else (s.take 48).toString ++ "~" ++ toString s.length

def optClaim (j : Json) : Option J :=
  if jBool j "has" then some (toJ (jObj j "v")) else none

def urlParse (m : Json) : Dpop.UrlParse := fun raw =>
  match m.getObjVal? raw with
  | .ok (.str s) => some s
  | _ => none

def libErr (e : String) : String := if e == "jws" || e == "jwt" then "lib" else e

def stepDpop (j : Json) : String :=
  let c := Sites.dpopCfg
  let i := jObj j "in"
  let pin : Dpop.ParseIn :=
    { jwsOk := jBool i "jwsOk", nSigs := jNat i "nSigs", algSupported := jBool i "algSupported", typ := jStr i "typ",
      hasJwk := jBool i "hasJwk", jwkPrivate := jBool i "jwkPrivate", algFitsKey := jBool i "algFitsKey", jwtOk := jBool i "jwtOk", iatZero := jBool i "iatZero",
      htu := optClaim (jObj i "htu"), htm := optClaim (jObj i "htm"), jtiLen := jNat i "jtiLen" }
  let up := urlParse (jObj j "urls")
  match Dpop.parse c pin with
  | .err e => "parse=err:" ++ libErr e
  | .panic s => "parse=panic:" ++ siteFn s
  | .ok t =>
    let m := Dpop.matchDpop c up t (jBool j "tpEq") (jStr j "method") (jStr j "url")
    "parse=ok htu=" ++ cls (Dpop.htu c t) (fun s => ":" ++ showStr s) ++ " htm=" ++ cls (Dpop.htm c t) (fun s => ":" ++ showStr s)
      ++ " match=" ++ cls m (fun b => ":" ++ toString b)

def stepStrip (j : Json) : String :=
  "strip=" ++ cls (Dpop.strip Sites.dpopCfg (urlParse (jObj j "urls")) (jStr j "raw")) (fun s => ":" ++ showStr s)

/-! resolver -/

def ctxOf (j : Json) (k : String) : List J := (jArr j k).map toJ

def stepBaseUrl (j : Json) : String :=
  cls (Resolver.baseUrl Sites.resolverCfg (ctxOf j "ctx")) (fun o => match o with | none => ":nil" | some s => ":" ++ showStr s)

def relOf (j : Json) : Resolver.Rel :=
  { vmNil := jBool j "vmNil", id := jStr j "id", key := match jStr j "key" with | "ok" => .ok | "err" => .err | _ => .libPanic }

def stepKeyByID (j : Json) : String :=
  let dj := jObj j "doc"
  let doc : Option Resolver.KeyDoc :=
    if dj.isNull then none else
      let rels := (jArr dj "rels").map (fun l => match l with | .arr a => a.toList.map relOf | _ => [])
      some { context := ctxOf dj "ctx", rels := fun i => (rels[i]?).getD [] }
  cls (Resolver.resolveKeyByID Sites.resolverCfg (jStr j "keyID") (jBool j "didOk") doc (jNat j "rt")) (fun _ => "")

def docOf (dj : Json) : Option Resolver.KeyDoc :=
  if dj.isNull then none else
    let rels := (jArr dj "rels").map (fun l => match l with | .arr a => a.toList.map relOf | _ => [])
    some { context := ctxOf dj "ctx", rels := fun i => (rels[i]?).getD [] }

def stepKey (j : Json) : String :=
  cls (Resolver.resolveKey Sites.resolverCfg (docOf (jObj j "doc")) (jNat j "rt")) (fun _ => "")

def lookupStr (m : Json) (k : String) : Option String :=
  match m.getObjVal? k with | .ok (.str s) => some s | _ => none
def lookupBool (m : Json) (k : String) : Bool :=
  match m.getObjVal? k with | .ok (.bool b) => b | _ => false

def stepSvc (j : Json) : String :=
  let docs := jObj j "docs"
  let env : Resolver.Env :=
    { didOf := lookupStr (jObj j "didOf")
      resolve := fun d => match docs.getObjVal? d with
        | .ok (.arr a) => some (a.toList.map fun s =>
            { typ := jStr s "type", endpoint := toJ (jObj s "ep"), endpointStr := lookupStr s "epStr" })
        | .ok .null => some []
        | _ => none
      queryType := fun u => (lookupStr (jObj j "qt") u).getD ""
      uriOk := lookupBool (jObj j "uriOk")
      refOk := lookupBool (jObj j "refOk") }
  let r := Resolver.resolve env (jStr j "query") (jInt j "maxDepth")
  let e := match r.1 with
    | .err "GetDIDFromURL" => Res.err "GetDIDFromURL|ParseURI"
    | .err "ParseURI" => Res.err "GetDIDFromURL|ParseURI"
    | x => x
  cls e (fun s => ":" ++ s.typ ++ "|" ++ showStr (renderJ s.endpoint))

/-! bitstring -/

def hexNib (c : Char) : Nat :=
  if '0' ≤ c ∧ c ≤ '9' then c.toNat - '0'.toNat
  else if 'a' ≤ c ∧ c ≤ 'f' then c.toNat - 'a'.toNat + 10
  else if 'A' ≤ c ∧ c ≤ 'F' then c.toNat - 'A'.toNat + 10 else 0

def hexBytes (s : String) : List Nat :=
  let rec go : List Char → List Nat
    | a :: b :: rest => (hexNib a * 16 + hexNib b) :: go rest
    | _ => []
  go s.toList

def hexDigit (n : Nat) : Char := if n < 10 then Char.ofNat (n + '0'.toNat) else Char.ofNat (n - 10 + 'a'.toNat)
def bytesHex (bs : List Nat) : String := String.ofList (bs.flatMap fun b => [hexDigit (b / 16 % 16), hexDigit (b % 16)])

def stepBit (j : Json) : String :=
  let bs := hexBytes (jStr j "bs")
  let idx := (jStr j "idx").toInt?.getD 0
  let setS (v : Bool) := cls (Bitstring.setBit bs idx v) (fun l => ":" ++ bytesHex l)
  "bit=" ++ cls (Bitstring.bit bs idx) (fun b => ":" ++ toString b) ++ " settrue=" ++ setS true ++ " setfalse=" ++ setS false

/-! iblt -/
open Nuts.C19.Iblt in
def mix (x : BitVec 64) : BitVec 64 :=
  let x := x + 0x9e3779b97f4a7c15
  let x := (x ^^^ (x >>> 30)) * 0xbf58476d1ce4e5b9
  let x := (x ^^^ (x >>> 27)) * 0x94d049bb133111eb
  x ^^^ (x >>> 31)

def prngKey (seed i : Nat) : Iblt.Key :=
  let w (j : Nat) : Nat := (mix (BitVec.ofNat 64 (seed * 1000003 + i * 4 + j))).toNat
  BitVec.ofNat 256 (w 0 + w 1 * 2 ^ 64 + w 2 * 2 ^ 128 + w 3 * 2 ^ 192)

def keyOfHex (s : String) : Iblt.Key := BitVec.ofNat 256 (Iblt.leNat ((hexBytes s ++ List.replicate 32 0).take 32))

def H : Iblt.Hash := Murmur.hash

def resBind {α β} (r : Res α) (f : α → Res β) : Res β := Res.bind r f

/-- builds the table a description denotes (same steps as c19Table.build in the Go harness) -/
def buildTable (c : Iblt.Cfg) (d : Json) : Res (Array Iblt.Bucket) := Id.run do
  let n := jNat d "n"
  let mut bs : Res (Array Iblt.Bucket) := .ok (Array.replicate n Iblt.Bucket.zero)
  if n ≥ c.k then
    for rg in jArr d "ranges" do
      match rg with
      | .arr a =>
        let seed := (a[0]?.bind (·.getNat?.toOption)).getD 0
        let lo := (a[1]?.bind (·.getNat?.toOption)).getD 0
        let hi := (a[2]?.bind (·.getNat?.toOption)).getD 0
        for i in [lo:hi] do
          bs := resBind bs (fun b => Iblt.insert c H b (prngKey seed i))
      | _ => pure ()
    for k in jStrs d "keys" do
      bs := resBind bs (fun b => Iblt.insert c H b (keyOfHex k))
  for p in jArr d "patch" do
    match p with
    | .arr a =>
      let idx := (a[0]?.bind (·.getNat?.toOption)).getD 0
      let cnt := (a[1]?.bind (·.getInt?.toOption)).getD 0
      let hs := (a[2]?.bind (·.getStr?.toOption)).getD ""
      let ks := (a[3]?.bind (·.getStr?.toOption)).getD ""
      let hsN := hs.foldl (fun acc ch => acc * 16 + hexNib ch) 0
      bs := resBind bs (fun b => .ok (b.setIfInBounds idx ⟨BitVec.ofInt 32 cnt, BitVec.ofNat 64 hsN, keyOfHex ks⟩))
    | _ => pure ()
  return bs

def leBytes (n : Nat) (v : Nat) : List Nat := (List.range n).map fun i => v / 256 ^ i % 256

def marshal (bs : Array Iblt.Bucket) : List Nat :=
  bs.toList.flatMap fun b => leBytes 4 b.count.toNat ++ leBytes 8 b.hashSum.toNat ++ leBytes 32 b.keySum.toNat

def digest (keys : List Iblt.Key) : String :=
  let acc := keys.foldl (fun (acc : Nat) k => (acc * 1000003 + k.toNat % 2 ^ 64) % 2 ^ 64) 0
  let hex := String.ofList ((List.range 16).map fun i => hexDigit (acc / 16 ^ (15 - i) % 16))
  s!"{keys.length}:{hex}"

def errText (e : String) : String :=
  if e == "ErrDecodeLoop" then "decode loop detected"
  else if e == "ErrDecodeNotPossible" then "decode failed"
  else if e.startsWith "unmarshalling failed" then "unmarshalling failed"
  else e

/-- statistics only (not compared): the number of passes of the outer loop, also when Decode ends in an error -/
def countPasses (c : Iblt.Cfg) : Nat → Iblt.DState → Nat → Nat
  | 0, _, n => n
  | f + 1, s, n =>
    match Iblt.pass c H s.buckets.size 0 s false with
    | .ok (s', true) => countPasses c f s' (n + 1)
    | _ => n + 1

/-- decode outcome -/
def showDecode (r : Option (Res Iblt.DState)) : String :=
  match r with
  | none => "timeout"
  | some (.ok s) => s!"ok rem={digest s.remaining.reverse} mis={digest s.missing.reverse}"
  | some (.err e) => if e.startsWith "HANG" then "timeout" else "err:" ++ errText e
  | some (.panic p) => "panic:" ++ siteFn p

def resCls {α} (r : Res α) (okText : α → String) : String :=
  match r with
  | .ok a => "ok" ++ okText a
  | .err e => if e.startsWith "HANG" then "timeout" else "err:" ++ errText e
  | .panic s => "panic:" ++ siteFn s

def stepSet (j : Json) : List String :=
  let c := Sites.ibltCfg
  match buildTable c (jObj j "own"), buildTable c (jObj j "peer") with
  | .ok own, .ok peer =>
    let data := marshal peer ++ hexBytes (jStr (jObj j "peer") "extra")
    match Iblt.unmarshal data with
    | .err e => ["um=err:" ++ errText e]
    | .panic p => ["um=panic:" ++ siteFn p]
    | .ok pb =>
      let um := s!"um=ok:{pb.size}"
      let ownT : Iblt.Table := { hc := 0, hk := 1, k := c.k, buckets := own }
      match Iblt.subtract ownT { ownT with buckets := pb } with
      | .err e => [um ++ " sub=err:" ++ errText e]
      | .panic p => [um ++ " sub=panic:" ++ siteFn p]
      | .ok diff =>
        let d := showDecode (Iblt.decode c H diff.buckets)
        let passes := if d == "timeout" then 0 else countPasses c 100000 (Iblt.DState.init diff.buckets) 0
        [um ++ " sub=ok dec=" ++ d ++ s!" #passes={passes}"]
  | _, _ => ["build-failed"]

def stepInsert (j : Json) : String :=
  let c := Sites.ibltCfg
  let n := jNat j "n"
  let key := keyOfHex (jStr j "key")
  let zero := Array.replicate n Iblt.Bucket.zero
  let r := if jBool j "del" then Iblt.delete c H zero key else Iblt.insert c H zero key
  resCls r (fun bs =>
    let idx := (List.range bs.size).filter (fun i => match bs[i]? with | some b => !b.isEmpty | none => false)
    " idx=[" ++ String.intercalate "," (idx.map toString) ++ "]")

def stepRaw (j : Json) : List String :=
  let c := Sites.ibltCfg
  match Iblt.unmarshal (hexBytes (jStr j "data")) with
  | .err e => ["err:" ++ errText e]
  | .panic p => ["panic:" ++ siteFn p]
  | .ok bs =>
    let d := showDecode (Iblt.decode c H bs)
    if d == "timeout" then ["timeout"] else
    if d.startsWith "panic" then [d] else
    [s!"ok:{bs.size} dec={d} #passes={countPasses c 100000 (Iblt.DState.init bs) 0}"]

def stepMurmur (j : Json) : String :=
  let k := keyOfHex (jStr j "key")
  let hk := H.hashKey k
  let f := H.first hk
  let n1 := H.next f
  s!"hk={hk.toNat} first={f.toNat} n1={n1.toNat} n2={(H.next n1).toNat}"

def stepCallback (j : Json) : String :=
  let e : Callback.GoErr := match jStr j "err" with
    | "oauth2" => .oauth2 "invalid_request"
    | k => .raw k       -- a plain error, a wrapped OAuth2Error and a *OAuth2Error are all "not an oauth.OAuth2Error value"
  cls (Callback.withCallbackURI Sites.callbackCfg e) (fun r => match r with | .oauth2 _ => ":oauth2" | .raw _ => ":other")

/-! status list update, did:key -/

def optNat (j : Json) (k : String) : Option Nat :=
  match j.getObjVal? k with
  | .ok (.num n) => if n.exponent == 0 && n.mantissa ≥ 0 then some n.mantissa.toNat else none
  | .ok (.str s) => s.toNat?
  | _ => none

def stepSlcUpdate (j : Json) : String :=
  let d := jObj j "downloaded"
  let cred : Option StatusList.Cred :=
    if d.isNull then none else
      let subs : Option (List StatusList.Subject) := match d.getObjVal? "subjects" with
        | .ok (.arr a) => some (a.toList.map fun s => { id := jStr s "id", typ := jStr s "type", purpose := jStr s "purpose", encodedList := jStr s "list" })
        | _ => none
      let exp : Option Bool := match d.getObjVal? "expiration" with | .ok (.bool b) => some b | _ => none
      some { hasVCContext := jBool d "hasVCContext", hasSLContext := jBool d "hasSLContext", isVCType := jBool d "isVCType", isSLCType := jBool d "isSLCType",
             nTypes := jNat d "nTypes", idNil := jBool d "idNil", issuanceZero := jBool d "issuanceZero", jsonldWithoutProof := jBool d "jsonldWithoutProof",
             hasStatus := jBool d "hasStatus", subjects := subs, expiration := exp }
  let em := jObj j "expand"
  -- only the length of the expanded bitstring is observed
  let expand : String → Option (List Nat) := fun l => (optNat em l).map fun n => List.replicate n 0
  match StatusList.update Sites.statusListCfg (jStr j "url") cred expand true with
  | .ok r => s!"ok purpose={r.purpose} bytes={r.bits.length} expires={r.hasExpires}"
  | .err e => "err:" ++ e
  | .panic s => "panic:" ++ siteFn s

def stepDidKey (j : Json) : String :=
  let i : DidKey.In :=
    { method := jStr j "method", encodedKey := (jStr j "id").toList, b58Ok := jBool j "b58Ok", keyType := optNat j "keyType",
      keyLength := jNat j "keyLength", rsaSize := optNat j "rsaSize", vmOk := jBool j "vmOk" }
  cls (DidKey.resolve Sites.didKeyCfg i) (fun _ => "")

def hexOf (bs : List Nat) : String := bytesHex bs

/-- `urls`: hex(target URL) → what url.Parse / Hostname / net.ParseIP gave for it; a target that is not in the table is reported -/
def didwebTable (m : Json) : DidWeb.UrlParse := fun t =>
  match m.getObjVal? (hexOf t) with
  | .ok e => if jBool e "ok" then some { host := jNats e "host", path := jNats e "path", isIP := jBool e "ip" } else none
  | _ => none

def didwebMissing (c : DidWeb.Cfg) (j : Json) : Option String :=
  match DidWeb.didTarget c (jStr j "method") (jNats j "id") with
  | .ok t => if jHas (jObj j "urls") (hexOf (DidWeb.targetURL t)) then none else some ("no-url-data:" ++ hexOf (DidWeb.targetURL t))
  | _ => none

def stepDidwebPct (j : Json) : String :=
  match DidWeb.percentDecode Sites.didWebCfg (jNats j "s") with
  | .ok out => "ok " ++ hexOf out
  | .err e => "err:" ++ e
  | .panic s => "panic:" ++ siteFn s

def stepDidwebUnescape (j : Json) : String :=
  match DidWeb.pathUnescape (jNats j "s") with
  | some out => "ok " ++ hexOf out
  | none => "err"

def stepDidwebUrl (j : Json) : String :=
  let c := Sites.didWebCfg
  match didwebMissing c j with
  | some m => m
  | none =>
    match DidWeb.didToURL c (didwebTable (jObj j "urls")) (jStr j "method") (jNats j "id") with
    | .ok p => s!"ok host={hexOf p.host} path={hexOf p.path}"
    | .err e => "err:" ++ e
    | .panic s => "panic:" ++ siteFn s

def stepDidwebResolve (j : Json) : String :=
  let c := Sites.didWebCfg
  match didwebMissing c j with
  | some m => m
  | none =>
    let h := jObj j "http"
    let ct : Option String := match h.getObjVal? "ct" with | .ok (.str s) => some s | _ => none
    let http : DidWeb.Http :=
      { reqOk := jBool h "reqOk", doOk := jBool h "doOk", status := jInt h "status", ct := ct, readOk := jBool h "readOk",
        nullEntries := jBool h "nullEntries", unmarshal := if jStr h "unmarshal" == "ok" then .ok else if jStr h "unmarshal" == "panic" then .panic else .err,
        idEquals := jBool h "idEquals" }
    match DidWeb.resolve c (didwebTable (jObj j "urls")) (jStr j "method") (jNats j "id") http with
    | .ok p => "ok path=" ++ hexOf p
    | .err e => "err:" ++ e
    | .panic s => "panic:" ++ s

def stepHttpCache (j : Json) : String :=
  let c := Sites.httpCacheCfg
  let reqs := jArr j "reqs"
  let rec go (rs : List Json) (seq : Nat) (s : HttpCache.St) (acc : List String) : List String :=
    match rs with
    | [] => acc.reverse
    | r :: rest =>
      let url := jStr r "url"
      let exp : Int := if jBool r "expired" then (-3600000000 : Int) + seq else ((jNat r "age" * 1000000 + seq : Nat) : Int)
      let fresh : Option HttpCache.Entry := if jBool r "cacheable" then some ⟨seq, url, jNat r "size", exp⟩ else none
      match HttpCache.roundTrip c 0 url fresh s with
      | (.hang, _) => ("timeout" :: acc).reverse
      | (.done s', hit) =>
        let lst := String.intercalate "," (s'.list.map fun e => s!"{e.url}:{e.size}")
        go rest (seq + 1) s' (s!"{if hit then "hit" else "miss"} cur={s'.cur} list=[{lst}] idx={s'.index.length}" :: acc)
  let parts := go reqs 1 (HttpCache.St.empty (jInt j "max")) []
  if parts.contains "timeout" then "timeout" else String.intercalate " | " parts

def optStr (j : Json) (k : String) : Option String :=
  match j.getObjVal? k with
  | .ok (.str s) => some s
  | _ => none

def stepCred (j : Json) : String :=
  let c := Sites.credCfg
  let subjects : List (Option String) := (jArr j "subjects").map fun x => match x with | .str s => some s | _ => none
  let vp : Cred.VP :=
    { format := match jStr j "format" with | "jwt" => .jwt | "ldp" => .ldp | _ => .other
      kid := optStr j "kid", proofsOk := jBool j "proofsOk", nProofs := jNat j "nProofs", parsedDID := optStr j "parsedDID", subjects := subjects }
  let shw : Res String → String := fun r => match r with
    | .ok d => if d == "" then "ok()" else "ok(" ++ showStr d ++ ")"
    | .err e => "err:" ++ e
    | .panic s => "panic:" ++ siteFn s
  let pres := match Cred.presenterIsCredentialSubject c vp with
    | .ok none => "ok:nil"
    | .ok (some d) => if d == "" then "ok()" else "ok(" ++ showStr d ++ ")"
    | .err e => "err:" ++ e
    | .panic s => "panic:" ++ siteFn s
  s!"subj={shw (Cred.resolveSubjectDID c vp.subjects)} signer={shw (Cred.presentationSigner c vp)} presenter={pres}"

def credVP (j : Json) : Cred.VP :=
  { format := match jStr j "format" with | "jwt" => .jwt | "ldp" => .ldp | _ => .other
    kid := optStr j "kid", proofsOk := jBool j "proofsOk", nProofs := jNat j "nProofs", parsedDID := optStr j "parsedDID",
    subjects := (jArr j "subjects").map fun x => match x with | .str s => some s | _ => none }

/-- vcr/credential/util.go PresentationIssuanceDate / PresentationExpirationDate -/
def stepCredDates (j : Json) : String :=
  let vp := credVP j
  let d : CredMore.Dates :=
    { nbf := optStr j "nbf", iat := optStr j "iat", exp := optStr j "exp", created := optStr j "created"
      expires := if jBool j "expiresNil" then none else some (optStr j "expires") }
  let shw : Res (Option String) → String := fun r => match r with
    | .ok none => "nil" | .ok (some t) => t | .err e => "err:" ++ e | .panic s => "panic:" ++ siteFn s
  s!"iss={shw (CredMore.issuanceDate Sites.credCfg vp d)} exp={shw (CredMore.expirationDate Sites.credMoreCfg Sites.credCfg vp d)}"

/-- vcr/credential/util.go AutoCorrectSelfAttestedCredential -/
def stepCredAuto (j : Json) : String :=
  let i : CredMore.ACIn :=
    { nProof := jNat j "nProof", idNil := jBool j "idNil", issuerEmpty := jBool j "issuerEmpty", issuanceZero := jBool j "issuanceZero"
      subj := (jArr j "subj").map fun x => match x with | .bool b => some b | _ => none
      nCS := jNat j "nCS" }
  match CredMore.autoCorrect Sites.credMoreCfg i with
  | .ok o => s!"ok id={o.setId} issuer={o.setIssuer} date={o.setDate} subject={o.setSubjectId}"
  | .err e => "err:" ++ e
  | .panic s => "panic:" ++ siteFn s

/-- vcr/credential/util.go FilterOnDIDMethod -/
def stepCredFilter (j : Json) : String :=
  let creds : List CredMore.FCred := (jArr j "creds").map fun c =>
    { issuer := optStr c "issuer", subjOk := jBool c "subjOk"
      subjects := (jArr c "subjects").map fun b => { idEmpty := jBool b "idEmpty", method := optStr b "method" } }
  let kept := CredMore.filterOnDIDMethod Sites.credMoreCfg (jStrs j "methods") creds
  "kept=[" ++ String.intercalate "," (kept.map toString) ++ "]"

/-- jsonld Canonicalize / ReadBytes / AllFieldsDefined around json-gold -/
def stepJsonld (j : Json) : String :=
  let pr (k : String) : JsonLd.Proc := match jStr j k with | "ok" => .ok | "panic" => .panic | _ => .err
  let shw : Res Unit → String := fun r => match r with
    | .ok _ => "ok" | .err e => "err:" ++ e | .panic s => "panic:" ++ s
  let c := Sites.jsonldCfg
  s!"canon={shw (JsonLd.canonicalize c ⟨jBool j "jsonOk", pr "normalize"⟩)} read={shw (JsonLd.readBytes c ⟨jBool j "jsonOk", pr "expand"⟩)} fields={shw (JsonLd.allFieldsDefined c ⟨jBool j "docOk", pr "expandDoc"⟩)}"

def stepJwx (j : Json) : String :=
  let c := Sites.jwxCfg
  let i (verify : String) : Jwx.In :=
    { parseOk := jBool j "parseOk", nSigs := jNat j "nSigs", keyOk := jBool j "keyOk", algSupported := jBool j "algSupported",
      algFitsKey := jBool j "algFitsKey", verifyOk := jBool j verify }
  let shw : Res Unit → String := fun r => match r with
    | .ok _ => "ok" | .err e => "err:" ++ e | .panic s => "panic:" ++ siteFn s
  s!"kidalg={shw (Jwx.jwtKidAlg c (i "verifyJWT"))} jwt={shw (Jwx.parseJWT c (i "verifyJWT"))} jws={shw (Jwx.parseJWS c (i "verifyJWS"))}"

def libOf (s : String) : DidWeb.Lib := if s == "ok" then .ok else if s == "panic" then .panic else .err

def stepDidnutsCallback (j : Json) : String :=
  let i : Ambassador.In :=
    { payloadTypeOk := jBool j "ptOk", payloadHashSet := jBool j "hashSet", signingTimeSet := jBool j "timeSet",
      nullEntries := jBool j "nullEntries", unmarshal := libOf (jStr j "unmarshal"), validateOk := jBool j "validateOk",
      handled := match jStr j "handled" with | "db" => .dbErr | "other" => .otherErr | _ => .ok }
  let c := Sites.ambassadorCfg
  match Ambassador.handleNetworkEvent c i with
  | .panic s => "panic:" ++ s
  | .err e => "err:" ++ e
  | .ok ev =>
    let evs := match ev with | .done => "done" | .retry => "retry" | .fatal => "fatal"
    let cb := match Ambassador.callback c i with | .ok _ => "ok" | .err e => "err:" ++ e | .panic s => "panic:" ++ s
    s!"ev={evs} cb={cb}"

def step (st : Unit) (j : Json) : Unit × List String :=
  match jStr j "op" with
  | "dpop" => (st, [stepDpop j])
  | "dpop.strip" => (st, [stepStrip j])
  | "baseurl" => (st, [stepBaseUrl j])
  | "keybyid" => (st, [stepKeyByID j])
  | "key" => (st, [stepKey j])
  | "svc" => (st, [stepSvc j])
  | "bit" => (st, [stepBit j])
  | "iblt.set" => (st, stepSet j)
  | "iblt.insert" => (st, [stepInsert j])
  | "iblt.raw" => (st, stepRaw j)
  | "murmur" => (st, [stepMurmur j])
  | "callback" => (st, [stepCallback j])
  | "slc.update" => (st, [stepSlcUpdate j])
  | "didkey" => (st, [stepDidKey j])
  | "didnuts.callback" => (st, [stepDidnutsCallback j])
  | "httpcache.seq" => (st, [stepHttpCache j])
  | "cred.presenter" => (st, [stepCred j])
  | "jwx.parse" => (st, [stepJwx j])
  | "jsonld.guard" => (st, [stepJsonld j])
  | "cred.dates" => (st, [stepCredDates j])
  | "cred.autocorrect" => (st, [stepCredAuto j])
  | "cred.filter" => (st, [stepCredFilter j])
  | "didweb.pct" => (st, [stepDidwebPct j])
  | "didweb.unescape" => (st, [stepDidwebUnescape j])
  | "didweb.url" => (st, [stepDidwebUrl j])
  | "didweb.resolve" => (st, [stepDidwebResolve j])
  | o => (st, ["bad-op:" ++ o])

end Nuts.Drv.C19

def main : IO Unit := do
  Nuts.Drv.loop (← IO.getStdin) (← IO.getStdout) Nuts.Drv.C19.step ()
