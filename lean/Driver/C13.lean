import Driver.Util
import NutsModel.C13.Subject
import NutsModel.C13.RequestNow
import NutsModel.C13.ContextNow
import NutsModel.Facts.C13
open Lean Nuts.Drv Nuts.C13 Nuts

namespace Nuts.Drv.C13

/-- the model instantiated with what the source says today -/
def cfgOf (methods : List Method) : Cfg :=
  { methods := methods
    threshold := Nuts.Facts.C13.sweepThresholdSeconds
    notFoundIsUncommitted := Nuts.Facts.C13.nutsIsCommittedNotFoundIsUncommitted
    rollbackDeletesCreatedDID := Nuts.Facts.C13.rollbackDeletesCreatedDID
    sweepWholeTx := Nuts.Facts.C13.sweepLoadsWholeTransaction }

structure St where
  cfg : Cfg := cfgOf []
  w : World := {}
  didLbl : Array Nat := #[]
  vmLbl : Array Nat := #[]
  subjects : List String := []
  svcs : List String := []
  /-- `SqlManager.PreferredOrder` -/
  pref : List String := ["nuts", "web"]

def parseMethod (s : String) : Option Method :=
  match s with
  | "nuts" => some .nuts
  | "web" => some .web
  | _ => none

def label (a : Array Nat) (x : Nat) : Array Nat × Nat :=
  match a.findIdx? (· == x) with
  | some i => (a, i)
  | none => (a.push x, a.size)

def sortStr (l : List String) : List String := (l.toArray.qsort (· < ·)).toList
def sortNat (l : List Nat) : List Nat := (l.toArray.qsort (· < ·)).toList

def insertSet (l : List String) (s : String) : List String := if s == "" || l.contains s then l else l ++ [s]

def showContent (st : St) (c : Content) : St × String := Id.run do
  let mut st := st
  let mut ls : List Nat := []
  for k in c.vms do
    let (a, i) := label st.vmLbl k
    st := { st with vmLbl := a }
    ls := ls ++ [i]
  let vs := (sortNat ls).map (fun i => s!"k{i}")
  return (st, String.intercalate "," vs ++ ";" ++ String.intercalate "," (sortStr c.svcs))

def methodRank (r : DidRow) : Nat := r.method.idx

def observe (st : St) (result : String) : St × String := Id.run do
  let mut st := st
  let w := st.w
  let mut out := s!"{result} log={logCount w} keys={w.keys.length} list=ok"
  for s in sortStr st.subjects do
    out := out ++ s!" || {s}"
    -- `FindBySubject`, with the comparison its query text has today (theorem `lookup_is_exact`: = `listDIDs`)
    let rows := findBySubject Now.sameSubject w s
    if rows.isEmpty then
      out := out ++ " err:nosubject"
      continue
    -- `ListDIDs`: `sortDIDsByMethod(result, r.PreferredOrder)`
    let sorted := sortDIDsByMethod Now.absent st.pref (rows.map didIdOf)
    let rows := sorted.filterMap (fun d => rows.find? (fun r => didIdOf r == d))
    for r in rows do
      let vs := (r.vers.map (·.n)).reverse.map toString
      let mut top := "-"
      let mut status := "notfound"
      match r.vers with
      | [] => pure ()
      | v :: _ =>
        let (st', t) := showContent st v.c
        st := st'
        top := t
        status := if v.c.deactivated then "deact" else "ok"
      let mut pub := "-"
      if r.method == .nuts then
        match pubLatest w.pub r.id with
        | none => pub := "none"
        | some c =>
          let (st', t) := showContent st c
          st := st'
          pub := t
      let (a, i) := label st.didLbl r.id
      st := { st with didLbl := a }
      out := out ++ s!" [{r.method.name}:d{i} v={String.intercalate "," vs} top={top} res={status} pub={pub}]"
    out := out ++ " svc="
    let mut first := true
    for l in sortStr st.svcs do
      if !first then out := out ++ ";"
      first := false
      out := out ++ l ++ ":"
      -- `FindServices(subject, &type)`
      match findServices w s (some l) with
      | .ok found => out := out ++ String.intercalate "," (sortStr (found.map (fun p => s!"d{(label st.didLbl p.1).2}")))
      | .err e => out := out ++ "err:" ++ e
      | .panic e => out := out ++ "panic:" ++ e
    -- `FindServices(subject, nil)`: number of services found without a type
    match findServices w s none with
    | .ok found => out := out ++ s!" untyped={found.length}"
    | .err e => out := out ++ " untyped=err:" ++ e
    | .panic e => out := out ++ " untyped=panic:" ++ e
  return (st, out)

def parseOp (j : Json) : Option Op :=
  let s := jStr j "subj"
  match jStr j "kind" with
  | "create" => some (.create s)
  | "createleg" => some (.create s)   -- v1 naming: the events use an alias for the name Create picks (a renaming of subjects)
  | "addsvc" => some (.addSvc s (jStr j "a"))
  | "updsvc" => some (.updSvc s (jStr j "a") (jStr j "b"))
  | "delsvc" => some (.delSvc s (jStr j "a"))
  | "addkey" => some (.addKey s)
  | "deact" => some (.deactivate s)
  | _ => none

def parseOpt (s : String) : CreateOpt :=
  if s == "enc" then .encryptionKey
  else if s == "legacy" then .nutsLegacy
  else if s.startsWith "s:" then .subject (s.drop 2).toString
  else .unknown

/-- "" = the default of the harness (nuts, web); "-" = the empty list -/
def parsePref (s : String) : List String :=
  if s == "" then ["nuts", "web"] else if s == "-" then [] else s.splitOn ","

def parseFault (j : Json) : Fault :=
  match jStr j "fault" with
  | "sweepat" => .none   -- a sweep during the (young) in-flight operation: a no-op (`sweep_ignores_young_records`)
  | "fail" => .failNuts
  | "failctx" => .failNuts   -- the request context is cancelled as well: the clean-up does not look at it
  | "stop" => .stop (jNat j "k")
  | "logerr" => .logFail (jNat j "k")
  | "logstop" => .logStop (jNat j "k")
  | _ => .none

def step (st : St) (j : Json) : St × List String :=
  match jStr j "op" with
  | "cfg" =>
    let ms := (jStrs j "methods").filterMap parseMethod
    let st : St := { cfg := cfgOf ms, w := { now := 100000 }, pref := parsePref (jStr j "pref") }
    let (st, o) := observe st "cfg"
    (st, [o])
  | "sort" =>
    -- the pure helpers: `sortDIDsByMethod`, `sortDIDDocumentsByMethod` (document = ID + its position in the input)
    let pref := parsePref (jStr j "pref")
    let ds : List DidId := ((jStrs j "methods").zip (jStrs j "ids")).map (fun (m, i) => { method := m, str := i })
    let ids := (sortDIDsByMethod Now.absent pref ds).map (·.str)
    let docs := (sortDocsByMethod Now.absent pref ds.zipIdx).map (fun d => s!"{d.1.str}@{d.2}")
    (st, [s!"sorted log=0 keys=0 list=ok ids={String.intercalate "," ids} docs={String.intercalate "," docs}"])
  | "tick" =>
    let st := { st with w := tick (jNat j "d") st.w }
    let (st, o) := observe st "tick"
    (st, [o])
  | "skew" =>
    -- the pending versions of one method are `d` seconds older
    let m := parseMethod (jStr j "a")
    let d := jNat j "d"
    let st := { st with w := restamp (fun r v => if some r.method == m && v.pending.isSome then v.ts - d else v.ts) st.w }
    let (st, o) := observe st "skew"
    (st, [o])
  | "sweep" =>
    -- did:nuts DIDs for which the real IsCommitted said "no" (matters only where the contents are equal)
    let no := (jNats j "nutsno").filterMap (fun l => st.didLbl[l]?)
    let cfg := { st.cfg with rawSame := fun d _ => !no.contains d }
    let (w, r) := sweep cfg id st.w
    let (st, o) := observe { st with w := w } r
    (st, [o])
  | "do" =>
    let seen := (jStrs j "order").filterMap parseMethod
    -- Go visits every key of the map: the methods not reached before the loop ended come after the observed ones
    let order := seen ++ st.cfg.methods.filter (fun m => !seen.contains m)
    let reg (st : St) : St := { st with subjects := insertSet st.subjects (jStr j "subj") }
    if jStr j "kind" == "createopt" then
      -- `Create` with an option list; `u` stands for the fresh names (uuid / did:nuts DID) the call comes up with
      let u := jStr j "u"
      let (w, r) := createRequest Now.cls Now.createRefusesWeb st.cfg st.w ((jStrs j "opts").map parseOpt) u u
        st.cfg.methods order (parseFault j)
      let (st, o) := observe (reg { st with w := w }) r
      (st, [o])
    else if jStr j "kind" == "addkeyka" then
      -- `AddVerificationMethod` with a key-usage that includes key agreement
      let (w, r) := addKeyRequest Now.addKeyRefusesWeb st.cfg st.w (jStr j "subj") true order (parseFault j)
      let (st, o) := observe (reg { st with w := w }) r
      (st, [o])
    else if jStr j "fault" == "tx2err" || jStr j "fault" == "failtx2" then
      -- the clean-up transaction fails with a DB error (and, `failtx2`, the did:nuts Commit had failed before)
      match parseOp j with
      | none => (st, ["bad-op:kind"])
      | some op =>
        let (w, r) := stepOpCleanupFails st.cfg st.w op order (jStr j "fault" == "failtx2")
        let st := { st with w := w, subjects := insertSet st.subjects (jStr j "subj"),
                            svcs := insertSet (insertSet st.svcs (jStr j "a")) (jStr j "b") }
        let (st, o) := observe st r
        (st, [o])
    else
    match parseOp j with
    | none => (st, ["bad-op:kind"])
    | some op =>
      let seen := (jStrs j "order").filterMap parseMethod
      -- Go visits every key of the map: the methods not reached before the loop ended come after the observed ones
      let order := seen ++ st.cfg.methods.filter (fun m => !seen.contains m)
      -- `okctx`: the request context ends after `k` Commit calls (did:nuts has published); the model takes the context
      -- through the commit loop with did:web's Commit as the source has it (`Now.webFails`)
      let (w, r) := if jStr j "fault" == "okctx" then stepOpCtx Now.webFails (some (jNat j "k")) st.cfg st.w op order .none
                    else stepOp st.cfg st.w op order (parseFault j)
      let st := { st with w := w, subjects := insertSet st.subjects (jStr j "subj"),
                          svcs := insertSet (insertSet st.svcs (jStr j "a")) (jStr j "b") }
      let (st, o) := observe st r
      (st, [o])
  | o => (st, ["bad-op:" ++ o])

end Nuts.Drv.C13

def main : IO Unit := do
  Nuts.Drv.loop (← IO.getStdin) (← IO.getStdout) Nuts.Drv.C13.step ({} : Nuts.Drv.C13.St)
