/-
  C12 — verifier-side consumers of vcr/pe (auth/api/iam PEXConsumer, resolveInputDescriptorValues) and ChooseVPFormat.
  Property theorems over NutsModel/C12/Consumer.lean: invariants over ALL reachable consumer states (any history of
  `fulfill` calls, any map iteration order), refinement to the vcr/pe layer (`validate`, `resolve`, `resolveFields`) and
  end-to-end corollaries composed with `forged_mapping_rejected` / `field_values_faithful`.
-/
import NutsModel.C12.Consumer
import NutsModel.Facts.C12
import NutsProofs.Lemmas.C12
import NutsProofs.Lemmas.C12Sound
import NutsProofs.Props.C12

namespace Nuts.C12.Props
open Nuts Nuts.C12

/-! ### association-list helpers -/

private theorem find_filter_ne {ν} (m : List (String × ν)) (k k' : String) (h : k' ≠ k) :
    (m.filter (fun p => !(p.1 == k))).find? (fun p => p.1 == k') = m.find? (fun p => p.1 == k') := by
  induction m with
  | nil => rfl
  | cons a t ih =>
    by_cases ha : (a.1 == k) = true
    · have hne : (a.1 == k') = false := by
        have : a.1 = k := by simpa using ha
        rw [this]; exact beq_false_of_ne (fun e => h e.symm)
      rw [List.filter_cons_of_neg (by simp [ha]), List.find?_cons_of_neg (by simp [hne])]
      exact ih
    · rw [List.filter_cons_of_pos (by simp [ha])]
      by_cases hb : (a.1 == k') = true
      · simp only [List.find?_cons, hb]
      · have hb' : (a.1 == k') = false := by simpa using hb
        simp only [List.find?_cons, hb']
        exact ih

private theorem alGet_put_same {ν} (m : List (String × ν)) (k : String) (v : ν) : alGet (alPut m k v) k = some v := by
  simp [alGet, alPut]

private theorem alGet_put_other {ν} (m : List (String × ν)) (k k' : String) (v : ν) (h : k' ≠ k) :
    alGet (alPut m k v) k' = alGet m k' := by
  have hk : ¬ k = k' := fun e => h e.symm
  simp [alGet, alPut, List.find?, hk, find_filter_ne m k k' h]

/-! ### fulfill -/

theorem findRequired_spec {id : String} : ∀ {order : Required} {d : PD}, findRequired id order = some d →
    ∃ o, (o, d) ∈ order ∧ d.id = id
  | [], _, h => by cases h
  | (o, d0) :: rest, d, h => by
    unfold findRequired at h
    split at h
    · next hid =>
      injection h with h; subst h
      exact ⟨o, List.mem_cons_self, by simpa using hid⟩
    · obtain ⟨o', hm, hi⟩ := findRequired_spec h
      exact ⟨o', List.mem_cons_of_mem _ hm, hi⟩

theorem findRequired_none {id : String} : ∀ {order : Required}, (∀ x ∈ order, x.2.id ≠ id) → findRequired id order = none
  | [], _ => rfl
  | (o, d0) :: rest, h => by
    unfold findRequired
    have h0 : d0.id ≠ id := h (o, d0) List.mem_cons_self
    simp [h0]
    exact findRequired_none (fun x hx => h x (List.mem_cons_of_mem _ hx))

/-- REFINEMENT of `fulfill` to the vcr/pe layer: an accepted submission names a definition the consumer iterates over,
    was not fulfilled before, passed `Validate` for THAT definition and the given envelope, and the new state differs
    from the old one exactly by the two stores under the definition id. -/
theorem fulfill_ok_spec (cfg : Cfg) (re : Regex) (decode : Decoder) (order : Required) (c c' : Consumer)
    (sub : Submission) (env : Envelope) (h : c.fulfill cfg re decode order sub env = .ok c') :
    ∃ o d m, (o, d) ∈ order ∧ d.id = sub.definitionId ∧ c.isFulfilled sub.definitionId = false ∧
      validate cfg re decode d env sub.descriptorMap = .ok m ∧
      c' = { c with submissions := alPut c.submissions sub.definitionId sub,
                    envelopes := alPut c.envelopes sub.definitionId env } := by
  unfold Consumer.fulfill at h
  split at h
  · cases h
  · next d hd =>
    obtain ⟨o, hm, hid⟩ := findRequired_spec hd
    split at h
    · cases h
    · next hf =>
      split at h
      · cases h
      · cases h
      · next m hv =>
        injection h with h
        exact ⟨o, d, m, hm, hid, by simpa using hf, hv, h.symm⟩

/-- a submission for a definition that is not required is refused, whatever it contains -/
theorem fulfill_unrequired_refused (cfg : Cfg) (re : Regex) (decode : Decoder) (order : Required) (c : Consumer)
    (sub : Submission) (env : Envelope) (h : ∀ x ∈ order, x.2.id ≠ sub.definitionId) :
    c.fulfill cfg re decode order sub env = .err "not-required" := by
  unfold Consumer.fulfill
  rw [findRequired_none h]

/-- a definition is fulfilled AT MOST ONCE: after an accepted submission every further submission for the same
    definition id is refused (any content, any envelope, any iteration order) -/
theorem fulfill_at_most_once (cfg : Cfg) (re : Regex) (decode : Decoder) (order order' : Required) (c c' : Consumer)
    (sub sub' : Submission) (env env' : Envelope) (h : c.fulfill cfg re decode order sub env = .ok c')
    (hid : sub'.definitionId = sub.definitionId) :
    (c'.fulfill cfg re decode order' sub' env').isOk = false := by
  obtain ⟨_, _, _, _, _, _, _, hc'⟩ := fulfill_ok_spec cfg re decode order c c' sub env h
  have hful : c'.isFulfilled sub'.definitionId = true := by
    rw [hc', hid]; simp [Consumer.isFulfilled, alGet_put_same]
  unfold Consumer.fulfill
  split
  · rfl
  · simp [hful, Res.isOk]

/-- `fulfill` never panics (Validate does not) -/
theorem fulfill_total (re : Regex) (decode : Decoder) (order : Required) (c : Consumer) (sub : Submission) (env : Envelope)
    (site : String) : c.fulfill Facts.C12.cfg re decode order sub env ≠ .panic site := by
  unfold Consumer.fulfill
  split
  · intro h; cases h
  · split
    · intro h; cases h
    · split
      · intro h; cases h
      · next s hv => exact absurd hv (pe_total_validate re decode _ env sub.descriptorMap s)
      · intro h; cases h

/-! ### all reachable consumer states -/

/-- the states of a `PEXConsumer` created for `req`: any number of accepted `fulfill` calls, each with its own map
    iteration order over (a part of) the required definitions -/
inductive Reachable (cfg : Cfg) (re : Regex) (decode : Decoder) (req : Required) : Consumer → Prop where
  | init : Reachable cfg re decode req (newPEXConsumer req)
  | step {c c' : Consumer} {order : Required} {sub : Submission} {env : Envelope} :
      Reachable cfg re decode req c → (∀ x ∈ order, x ∈ req) →
      c.fulfill cfg re decode order sub env = .ok c' → Reachable cfg re decode req c'

/-- what holds of every stored submission -/
def Stored (cfg : Cfg) (re : Regex) (decode : Decoder) (req : Required) (c : Consumer) (id : String) (sub : Submission) : Prop :=
  sub.definitionId = id ∧ ∃ o d env m, (o, d) ∈ req ∧ d.id = id ∧ alGet c.envelopes id = some env ∧
    validate cfg re decode d env sub.descriptorMap = .ok m

/-- INVARIANT over all reachable states: the required definitions never change, and every stored submission is stored
    under its own definition id, together with the envelope it arrived in, and passed `Validate` for a REQUIRED
    definition with that id and that envelope. -/
theorem consumer_invariant (cfg : Cfg) (re : Regex) (decode : Decoder) (req : Required) (c : Consumer)
    (h : Reachable cfg re decode req c) :
    c.required = req ∧ ∀ id sub, alGet c.submissions id = some sub → Stored cfg re decode req c id sub := by
  induction h with
  | init => exact ⟨rfl, fun id sub h => by simp [newPEXConsumer, alGet] at h⟩
  | @step c c' order sub env _ hord hf ih =>
    obtain ⟨o, d, m, hm, hid, _, hv, hc'⟩ := fulfill_ok_spec cfg re decode order c c' sub env hf
    subst hc'
    refine ⟨ih.1, ?_⟩
    intro id s hs
    by_cases hk : id = sub.definitionId
    · subst hk
      simp only [alGet_put_same] at hs
      injection hs with hs; subst hs
      exact ⟨rfl, o, d, env, m, hord _ hm, hid, alGet_put_same _ _ _, hv⟩
    · simp only [alGet_put_other _ _ _ _ hk] at hs
      obtain ⟨h1, o', d', env', m', h2, h3, h4, h5⟩ := ih.2 id s hs
      exact ⟨h1, o', d', env', m', h2, h3, by simp only [alGet_put_other _ _ _ _ hk]; exact h4, h5⟩

/-- END-TO-END (session state → forged-mapping theorem): in every reachable consumer state, every entry of every
    stored descriptor map resolves — whole `path_nested` chain — inside the envelope stored with it to a credential
    whose `Raw()` equals that of the credential `Build`/`Match` select for that input descriptor on the envelope's OWN
    credentials, for a REQUIRED definition; no descriptor is mapped twice and none is missing. -/
theorem consumer_stored_mappings_not_forged (re : Regex) (decode : Decoder) (req : Required) (c : Consumer)
    (h : Reachable Facts.C12.cfg re decode req c) (id : String) (sub : Submission)
    (hs : alGet c.submissions id = some sub) :
    sub.definitionId = id ∧ ∃ o d env m, (o, d) ∈ req ∧ d.id = id ∧ alGet c.envelopes id = some env ∧
      validate Facts.C12.cfg re decode d env sub.descriptorMap = .ok m ∧
      ((∀ p ∈ env.presentations, ∀ cr ∈ p, cr.raw ≠ "") → env.presentations ≠ [] →
        ∃ ms vcs, build Facts.C12.cfg re d env.presentations = .ok (ms, vcs) ∧ expectedMap [] ms vcs = .ok m ∧
          (sub.descriptorMap.map (·.id)).Nodup ∧ sub.descriptorMap.length = m.length ∧
          (∀ mp ∈ sub.descriptorMap, ∃ cr e, resolveCredential decode mp env.asInterface = .ok cr ∧
              alGet m mp.id = some e ∧ e.raw = cr.raw) ∧
          (∀ e ∈ m, ∃ mp ∈ sub.descriptorMap, mp.id = e.1)) := by
  obtain ⟨h1, o, d, env, m, h2, h3, h4, h5⟩ := (consumer_invariant _ re decode req c h).2 id sub hs
  exact ⟨h1, o, d, env, m, h2, h3, h4, h5, fun hraw hne => forged_mapping_rejected re decode d env sub.descriptorMap m hraw hne h5⟩

/-! ### next -/

/-- `next` returns a required definition of that wallet owner that is not fulfilled yet -/
theorem next_some_spec (c : Consumer) (o : Owner) (d : PD) (h : c.next = some (o, d)) :
    lookupOwner o c.required = some d ∧ c.isFulfilled d.id = false := by
  unfold Consumer.next at h
  split at h
  · next d0 h0 =>
    split at h
    · next hf => injection h with h; injection h with ho hd; subst ho; subst hd; exact ⟨h0, by simpa using hf⟩
    · split at h
      · next u hu =>
        split at h
        · next hf => injection h with h; injection h with ho hd; subst ho; subst hd; exact ⟨hu, by simpa using hf⟩
        · cases h
      · cases h
  · split at h
    · next u hu =>
      split at h
      · next hf => injection h with h; injection h with ho hd; subst ho; subst hd; exact ⟨hu, by simpa using hf⟩
      · cases h
    · cases h

/-- `next` reports "nothing left" exactly when every required definition (of either wallet owner) is fulfilled -/
theorem next_none_iff_all_fulfilled (c : Consumer) :
    c.next = none ↔ ∀ o d, lookupOwner o c.required = some d → c.isFulfilled d.id = true := by
  constructor
  · intro h o d hod
    unfold Consumer.next at h
    cases horg : lookupOwner .organization c.required with
    | none =>
      cases husr : lookupOwner .user c.required with
      | none => cases o <;> simp_all
      | some u =>
        cases o
        · simp_all
        · cases hf : c.isFulfilled u.id <;> simp_all
    | some g =>
      cases hg : c.isFulfilled g.id with
      | false => simp [horg, hg] at h
      | true =>
        cases husr : lookupOwner .user c.required with
        | none => cases o <;> simp_all
        | some u =>
          cases o
          · simp_all
          · cases hf : c.isFulfilled u.id <;> simp_all
  · intro h
    unfold Consumer.next
    cases horg : lookupOwner .organization c.required with
    | none =>
      cases husr : lookupOwner .user c.required with
      | none => rfl
      | some u => simp [h .user u husr]
    | some g =>
      cases husr : lookupOwner .user c.required with
      | none => simp [h .organization g horg]
      | some u => simp [h .organization g horg, h .user u husr]

/-! ### credentialMap -/

theorem resolve_mem (cfg : Cfg) (decode : Decoder) (env : J) :
    ∀ (sub : List Mapping) (acc actual : List (String × Cred)), resolve cfg decode env acc sub = .ok actual →
      ∀ e ∈ actual, e ∈ acc ∨ ∃ mp ∈ sub, mp.id = e.1 ∧ resolveCredential decode mp env = .ok e.2
  | [], acc, actual, h => by
    unfold resolve at h; injection h with h; subst h
    exact fun e he => Or.inl he
  | m :: ms, acc, actual, h => by
    unfold resolve at h
    split at h
    · cases h
    · split at h
      · next cr hc =>
        intro e he
        rcases resolve_mem cfg decode env ms _ actual h e he with h1 | ⟨mp, hmp, h2, h3⟩
        · rcases mem_alPut h1 with h1 | h1
          · subst h1; exact Or.inr ⟨m, List.mem_cons_self, rfl, hc⟩
          · exact Or.inl h1
        · exact Or.inr ⟨mp, List.mem_cons_of_mem _ hmp, h2, h3⟩
      · cases h
      · cases h

theorem mem_mergeCreds : ∀ (curr acc : List (String × Cred)) (e : String × Cred), e ∈ mergeCreds acc curr → e ∈ acc ∨ e ∈ curr
  | [], acc, e, h => Or.inl (by simpa [mergeCreds] using h)
  | (k, v) :: rest, acc, e, h => by
    unfold mergeCreds at h
    rcases mem_mergeCreds rest _ e h with h1 | h1
    · rcases mem_alPut h1 with h2 | h2
      · subst h2; exact Or.inr List.mem_cons_self
      · exact Or.inl h2
    · exact Or.inr (List.mem_cons_of_mem _ h1)

theorem validate_ok_resolves (cfg : Cfg) (re : Regex) (decode : Decoder) (pd : PD) (env : Envelope) (sub : List Mapping)
    (m : List (String × Cred)) (h : validate cfg re decode pd env sub = .ok m) :
    ∃ actual, resolve cfg decode env.asInterface [] sub = .ok actual := by
  unfold validate at h
  split at h
  · cases h
  · cases h
  · next actual ha => exact ⟨actual, ha⟩

/-- where an entry of the credential map comes from: a mapping entry of a stored submission, resolved in the envelope
    stored with it -/
def FromStored (decode : Decoder) (c : Consumer) (e : String × Cred) : Prop :=
  ∃ id sub env, alGet c.submissions id = some sub ∧ alGet c.envelopes id = some env ∧
    ∃ mp ∈ sub.descriptorMap, mp.id = e.1 ∧ resolveCredential decode mp env.asInterface = .ok e.2

/-- `credentialMap` on a reachable state NEVER fails (the stored submissions re-resolve in their stored envelopes; a
    definition that is not fulfilled yet contributes nothing), for every iteration order, and every entry it returns is
    the credential a stored, validated mapping entry with that input-descriptor id resolves to in its own envelope. -/
theorem credential_map_of_reachable (cfg : Cfg) (re : Regex) (decode : Decoder) (req : Required) (c : Consumer)
    (h : Reachable cfg re decode req c) :
    ∀ (order : Required) (acc : List (String × Cred)), ∃ cm, c.credentialMap cfg decode acc order = .ok cm ∧
      ∀ e ∈ cm, e ∈ acc ∨ FromStored decode c e
  | [], acc => ⟨acc, rfl, fun e he => Or.inl he⟩
  | (o, d) :: rest, acc => by
    have inv := (consumer_invariant cfg re decode req c h).2
    unfold Consumer.credentialMap
    simp only
    cases hs : alGet c.submissions d.id with
    | none =>
      simp only [resolve]
      obtain ⟨cm, h1, h2⟩ := credential_map_of_reachable cfg re decode req c h rest (mergeCreds acc [])
      exact ⟨cm, h1, fun e he => by simpa [mergeCreds] using h2 e he⟩
    | some s =>
      obtain ⟨_, o', d', env, m, _, _, henv, hv⟩ := inv d.id s hs
      obtain ⟨actual, ha⟩ := validate_ok_resolves cfg re decode d' env s.descriptorMap m hv
      simp only [henv, ha]
      obtain ⟨cm, h1, h2⟩ := credential_map_of_reachable cfg re decode req c h rest (mergeCreds acc actual)
      refine ⟨cm, h1, fun e he => ?_⟩
      rcases h2 e he with h3 | h3
      · rcases mem_mergeCreds actual acc e h3 with h4 | h4
        · exact Or.inl h4
        · rcases resolve_mem cfg decode env.asInterface s.descriptorMap [] actual ha e h4 with h5 | ⟨mp, hmp, h6, h7⟩
          · cases h5
          · exact Or.inr ⟨d.id, s, env, hs, henv, mp, hmp, h6, h7⟩
      · exact Or.inr h3

/-- END-TO-END (what feeds the access token): every credential `credentialMap` hands to the token carries the `Raw()`
    of the credential that `Build`/`Match` select for that input descriptor of a REQUIRED definition on the stored
    envelope's own credentials. -/
theorem access_token_credentials_not_forged (re : Regex) (decode : Decoder) (req : Required) (c : Consumer)
    (h : Reachable Facts.C12.cfg re decode req c) (order : Required) (cm : List (String × Cred))
    (hcm : c.credentialMap Facts.C12.cfg decode [] order = .ok cm)
    (hraw : ∀ id env, alGet c.envelopes id = some env → (∀ p ∈ env.presentations, ∀ cr ∈ p, cr.raw ≠ "") ∧ env.presentations ≠ []) :
    ∀ e ∈ cm, ∃ o d env ms vcs m x, (o, d) ∈ req ∧ alGet c.envelopes d.id = some env ∧
      build Facts.C12.cfg re d env.presentations = .ok (ms, vcs) ∧ expectedMap [] ms vcs = .ok m ∧
      alGet m e.1 = some x ∧ x.raw = e.2.raw := by
  intro e he
  obtain ⟨cm', h1, h2⟩ := credential_map_of_reachable _ re decode req c h order []
  rw [hcm] at h1; injection h1 with h1; subst h1
  rcases h2 e he with h3 | ⟨id, sub, env, hs, henv, mp, hmp, hid, hres⟩
  · cases h3
  · obtain ⟨_, o, d, env', m, hreq, hdid, henv', _, hf⟩ := consumer_stored_mappings_not_forged re decode req c h id sub hs
    rw [henv] at henv'; injection henv' with henv'; subst henv'
    obtain ⟨hr, hn⟩ := hraw id env henv
    obtain ⟨ms, vcs, hb, hx, _, _, hall, _⟩ := hf hr hn
    obtain ⟨cr, x, hc, hget, hrawEq⟩ := hall mp hmp
    rw [hres] at hc; injection hc with hc; subst hc
    exact ⟨o, d, env, ms, vcs, m, x, hreq, by rw [hdid]; exact henv, hb, hx, by rw [← hid]; exact hget, hrawEq⟩

/-! ### resolveInputDescriptorValues -/

theorem mergeFields_spec : ∀ (curr acc r : Values), mergeFields acc curr = some r →
    (∀ e ∈ r, e ∈ acc ∨ e ∈ curr) ∧ (∀ e ∈ curr, alGet acc e.1 = none) ∧
    (∀ k, (alGet acc k).isSome = true → (alGet r k).isSome = true)
  | [], acc, r, h => by
    simp [mergeFields] at h; subst h
    refine ⟨fun e he => Or.inl he, ?_, fun k hk => hk⟩
    intro e he; cases he
  | (k, v) :: rest, acc, r, h => by
    unfold mergeFields at h
    split at h
    · cases h
    · next hk =>
      have hk' : alGet acc k = none := by cases hg : alGet acc k <;> simp_all
      obtain ⟨h1, h2, h3⟩ := mergeFields_spec rest _ r h
      refine ⟨fun e he => ?_, fun e he => ?_, fun k' hk'' => ?_⟩
      · rcases h1 e he with h4 | h4
        · rcases mem_alPut h4 with h5 | h5
          · subst h5; exact Or.inr List.mem_cons_self
          · exact Or.inl h5
        · exact Or.inr (List.mem_cons_of_mem _ h4)
      · cases he with
        | head => exact hk'
        | tail _ he' =>
          have := h2 e he'
          by_cases hek : e.1 = k
          · rw [hek, alGet_put_same] at this; cases this
          · rwa [alGet_put_other _ _ _ _ hek] at this
      · apply h3
        by_cases hek : k' = k
        · rw [hek, alGet_put_same]; rfl
        · rwa [alGet_put_other _ _ _ _ hek]

/-- every value `resolveInputDescriptorValues` returns comes from `ResolveConstraintsFields` of ONE of the definitions
    it iterates over (applied to the same credential map) — or was in the accumulator -/
theorem input_descriptor_values_source (cfg : Cfg) (re : Regex) (cm : List (String × Cred)) :
    ∀ (order : Required) (acc vals : Values), resolveInputDescriptorValues cfg re cm acc order = .ok vals →
      ∀ e ∈ vals, e ∈ acc ∨ ∃ od ∈ order, ∃ vs, resolveFields cfg re od.2 [] cm = .ok vs ∧ e ∈ vs
  | [], acc, vals, h => by
    unfold resolveInputDescriptorValues at h; injection h with h; subst h
    exact fun e he => Or.inl he
  | (o, d) :: rest, acc, vals, h => by
    unfold resolveInputDescriptorValues at h
    split at h
    · cases h
    · cases h
    · next curr hc =>
      split at h
      · cases h
      · next acc' hm =>
        intro e he
        rcases input_descriptor_values_source cfg re cm rest acc' vals h e he with h1 | ⟨od, hod, vs, h2, h3⟩
        · rcases (mergeFields_spec curr acc acc' hm).1 e h1 with h4 | h4
          · exact Or.inl h4
          · exact Or.inr ⟨(o, d), List.mem_cons_self, curr, hc, h4⟩
        · exact Or.inr ⟨od, List.mem_cons_of_mem _ hod, vs, h2, h3⟩

/-- END-TO-END (access-token claims): every claim value comes, through a named constraint field of an input descriptor
    of one of the definitions, from the credential mapped to that descriptor: the value at one of the field's paths, or
    the single capture group (`field_values_faithful` lifted through the merge over definitions). -/
theorem access_token_fields_faithful (re : Regex) (cm : List (String × Cred)) (order : Required) (vals : Values)
    (h : resolveInputDescriptorValues Facts.C12.cfg re cm [] order = .ok vals) :
    ∀ e ∈ vals, ∃ od ∈ order, FieldSource re od.2 cm e := by
  intro e he
  rcases input_descriptor_values_source _ re cm order [] vals h e he with h1 | ⟨od, hod, vs, h2, h3⟩
  · cases h1
  · exact ⟨od, hod, field_values_faithful re od.2 cm vs h2 e h3⟩

/-- a field id that two definitions both map is REFUSED (no silent overwrite of a claim), whatever the two values are -/
theorem duplicate_field_refused (cfg : Cfg) (re : Regex) (cm : List (String × Cred)) (o1 o2 : Owner) (d1 d2 : PD)
    (rest : Required) (v1 v2 : Values) (k : String) (x1 x2 : Option J)
    (h1 : resolveFields cfg re d1 [] cm = .ok v1) (h2 : resolveFields cfg re d2 [] cm = .ok v2)
    (hk1 : (k, x1) ∈ v1) (hk2 : (k, x2) ∈ v2) :
    resolveInputDescriptorValues cfg re cm [] ((o1, d1) :: (o2, d2) :: rest) = .err "duplicate-field" := by
  unfold resolveInputDescriptorValues
  simp only [h1]
  cases hm : mergeFields [] v1 with
  | none => rfl
  | some acc1 =>
    simp only
    unfold resolveInputDescriptorValues
    simp only [h2]
    cases hm2 : mergeFields acc1 v2 with
    | none => rfl
    | some acc2 =>
      exfalso
      have hnone := (mergeFields_spec v2 acc1 acc2 hm2).2.1 (k, x2) hk2
      -- k is bound in acc1: it came from v1
      have hsome : (alGet acc1 k).isSome = true := by
        clear hm2 hnone
        -- generalised: merging a list that contains key k binds k
        have gen : ∀ (curr acc r : Values), mergeFields acc curr = some r → (∃ x, (k, x) ∈ curr) → (alGet r k).isSome = true := by
          intro curr
          induction curr with
          | nil => intro acc r _ ⟨x, hx⟩; cases hx
          | cons a t ih =>
            intro acc r hmr ⟨x, hx⟩
            obtain ⟨ka, va⟩ := a
            unfold mergeFields at hmr
            split at hmr
            · cases hmr
            · cases hx with
              | head => exact (mergeFields_spec t _ r hmr).2.2 k (by rw [alGet_put_same]; rfl)
              | tail _ hx' => exact ih _ r hmr ⟨x, hx'⟩
        exact gen v1 [] acc1 hm ⟨x1, hk1⟩
      simp [hnone] at hsome

/-! ### ChooseVPFormat -/

/-- the preference list the model walks is the one written in format.go (regenerated) -/
theorem fact_vp_format_preference : Facts.C12.vpFormatPreference = vpFormatPreference := by decide

/-- `ChooseVPFormat` returns a presentation format the wallet can produce, or "" -/
theorem choose_vp_format_range (supported : List String) :
    chooseVPFormat Facts.C12.vpFormatPreference supported ∈ ["jwt_vp", "ldp_vp", ""] := by
  rw [fact_vp_format_preference]
  simp only [vpFormatPreference, chooseVPFormat]
  repeat' split
  all_goals simp

/-- … and a non-empty answer is backed by a key the verifier's metadata lists; "" only if none of the three is listed -/
theorem choose_vp_format_supported (supported : List String) :
    (chooseVPFormat Facts.C12.vpFormatPreference supported = "" ↔
      (supported.contains "jwt_vp" = false ∧ supported.contains "jwt_vp_json" = false ∧ supported.contains "ldp_vp" = false)) ∧
    (chooseVPFormat Facts.C12.vpFormatPreference supported = "ldp_vp" →
      supported.contains "ldp_vp" = true ∧ supported.contains "jwt_vp" = false ∧ supported.contains "jwt_vp_json" = false) := by
  rw [fact_vp_format_preference]
  simp only [vpFormatPreference, chooseVPFormat]
  cases h1 : supported.contains "jwt_vp" <;> cases h2 : supported.contains "jwt_vp_json" <;>
    cases h3 : supported.contains "ldp_vp" <;> simp

/-! ### the source of the modelled consumer functions, statement by statement (regenerated by extract/c12consumer.go with
    go/printer; prose string literals blanked).  The model in NutsModel/C12/Consumer.lean was written against exactly
    these statement lists: any edit of one of these functions flips the fact, the module fails, and the check reports
    (after searching for a concrete failing input with the consumer leg). -/

theorem fact_fulfill_source : Facts.C12.fulfillShape = ["definitionID := submission.DefinitionId", "var definition *PresentationDefinition", "for _, curr := range v.RequiredPresentationDefinitions { if curr.Id == definitionID { definition = &curr break } }", "if definition == nil { return fmt.Errorf(\"...\", definitionID) }", "if v.isFulfilled(definitionID) { return errors.New(\"...\") }", "_, err := submission.Validate(envelope, *definition)", "if err != nil { return fmt.Errorf(\"...\", definition.Id) }", "v.Submissions[definitionID] = submission", "v.SubmittedEnvelopes[definitionID] = envelope", "return nil"] := rfl

theorem fact_next_source : Facts.C12.nextShape = ["if def, required := v.RequiredPresentationDefinitions[pe.WalletOwnerOrganization]; required && !v.isFulfilled(def.Id) { org := pe.WalletOwnerOrganization return &org, &def }", "if def, required := v.RequiredPresentationDefinitions[pe.WalletOwnerUser]; required && !v.isFulfilled(def.Id) { user := pe.WalletOwnerUser return &user, &def }", "return nil, nil"] := rfl

theorem fact_is_fulfilled_source : Facts.C12.isFulfilledShape = ["_, fulfilled := v.Submissions[presentationDefinitionID]", "return fulfilled"] := rfl

theorem fact_credential_map_source : Facts.C12.credentialMapShape = ["credentialMap := make(map[string]vc.VerifiableCredential)", "for _, requiredDefinition := range v.RequiredPresentationDefinitions { submission := v.Submissions[requiredDefinition.Id] pexEnvelope := v.SubmittedEnvelopes[requiredDefinition.Id] currCredentialMap, err := submission.Resolve(pexEnvelope) if err != nil { return nil, err } for inputDescriptorID, cred := range currCredentialMap { credentialMap[inputDescriptorID] = cred } }", "return credentialMap, nil"] := rfl

theorem fact_new_pex_consumer_source : Facts.C12.newPEXConsumerShape = ["return &PEXConsumer{ RequiredPresentationDefinitions: requiredPresentationDefinitions, Submissions: map[string]pe.PresentationSubmission{}, SubmittedEnvelopes: map[string]pe.Envelope{}, }"] := rfl

theorem fact_resolve_input_descriptor_values_source : Facts.C12.resolveInputDescriptorValuesShape = ["fieldsMap := make(map[string]any)", "for _, definition := range presentationDefinitions { currFields, err := definition.ResolveConstraintsFields(credentialMap) if err != nil { return nil, oauth.OAuth2Error{ Code: oauth.ServerError, Description: \"...\", InternalError: err, } } for k, v := range currFields { if _, exists := fieldsMap[k]; exists { return nil, oauth.OAuth2Error{ Code: oauth.ServerError, Description: \"...\", } } fieldsMap[k] = v } }", "return fieldsMap, nil"] := rfl

theorem fact_vp_format_default : Facts.C12.vpFormatDefault = "" := by decide

/-! ### non-vacuity: a concrete session (the demo definition of Props/C12.lean) -/

def demoReq : Required := [(.organization, { demoPD with id := "pd-org" }), (.user, { demoPD with id := "pd-user" })]
def demoSubmission (id : String) : Submission := { definitionId := id, descriptorMap := demoSub }
def demoC1 : Consumer :=
  match (newPEXConsumer demoReq).fulfill Cfg.fixed reDemo demoDecode demoReq (demoSubmission "pd-org") demoEnv with
  | .ok c => c
  | _ => {}

example : ((newPEXConsumer demoReq).fulfill Cfg.fixed reDemo demoDecode demoReq (demoSubmission "pd-org") demoEnv).isOk = true := by decide
example : ((newPEXConsumer demoReq).fulfill Cfg.fixed reDemo demoDecode demoReq (demoSubmission "pd-x") demoEnv).cls = "err:not-required" := by decide
example : ((newPEXConsumer demoReq).fulfill Cfg.fixed reDemo demoDecode demoReq
    { definitionId := "pd-org", descriptorMap := demoSub ++ demoSub } demoEnv).cls = "err:validate" := by decide
example : (demoC1.fulfill Cfg.fixed reDemo demoDecode demoReq.reverse (demoSubmission "pd-org") demoEnv).cls = "err:already" := by decide
example : (newPEXConsumer demoReq).next.map (·.1) = some .organization := by decide
example : demoC1.next.map (·.1) = some .user := by decide
example : Reachable Cfg.fixed reDemo demoDecode demoReq demoC1 :=
  .step .init (fun _ h => h) (c := newPEXConsumer demoReq) (order := demoReq) (sub := demoSubmission "pd-org") (env := demoEnv) rfl
example : (match demoC1.credentialMap Cfg.fixed demoDecode [] demoReq with | .ok cm => cm.map (fun e => (e.1, e.2.name)) | _ => []) = [("d1", "c0")] := by decide
example : (resolveInputDescriptorValues Cfg.fixed reDemo [("d1", demoCred)] [] [demoReq.head!]).isOk = true := by decide
example : chooseVPFormat vpFormatPreference ["ldp_vp", "jwt_vp_json"] = "jwt_vp" := by decide
example : chooseVPFormat vpFormatPreference ["ldp_vc"] = "" := by decide

end Nuts.C12.Props
